"""Core of the correspondence harness: model driver, proof audit, verdicts, evidence.

Run with /venv/bin/python (the interpreter that has the repository's third-party deps).  The library
is imported from the *working tree* of /repo (env SPP_REPO overrides), never from an installed copy.
"""
import collections
import fcntl
import hashlib
import importlib
import json
import os
import random
import re
import subprocess
import sys
import time
import traceback
import warnings

VERIF = os.path.dirname(os.path.dirname(os.path.abspath(__file__)))
REPO = os.environ.get("SPP_REPO", "/repo")
LEAN_DIR = os.path.join(VERIF, "lean")
MODEL_BIN = os.path.join(LEAN_DIR, ".lake", "build", "bin", "sppmodel")
ALLOWED_AXIOMS = {"propext", "Classical.choice", "Quot.sound"}
FORBIDDEN = re.compile(r"\b(sorry|admit|native_decide|bv_decide|implemented_by)\b|^\s*axiom\s|\bunsafe\s|maxHeartbeats\s+0\b")

sys.set_int_max_str_digits(0)
import logging
logging.getLogger("space_packet_parser").setLevel(logging.CRITICAL)
logging.lastResort = None
if REPO not in sys.path:
    sys.path.insert(0, REPO)


class BrokenCheck(Exception):
    """The machinery itself failed (exit 2)."""


# --------------------------------------------------------------------------------------------------
# s-expressions (python side)
# --------------------------------------------------------------------------------------------------
def hx(b: bytes) -> str:
    return "x" + bytes(b).hex()


def unhx(s: str) -> bytes:
    assert s[0] == "x", s
    return bytes.fromhex(s[1:])


def sx(obj) -> str:
    """Render nested lists/tuples of atoms as an S-expression."""
    if isinstance(obj, (list, tuple)):
        return "(" + " ".join(sx(o) for o in obj) + ")"
    if isinstance(obj, (bytes, bytearray)):
        return hx(obj)
    if isinstance(obj, bool):
        return "true" if obj else "false"
    return str(obj)


def parse_sx(s: str):
    toks = s.replace("(", " ( ").replace(")", " ) ").split()
    stack = [[]]
    for t in toks:
        if t == "(":
            stack.append([])
        elif t == ")":
            top = stack.pop()
            stack[-1].append(top)
        else:
            stack[-1].append(t)
    assert len(stack) == 1, s
    return stack[0]


# --------------------------------------------------------------------------------------------------
# Lean side: build, audit, run
# --------------------------------------------------------------------------------------------------
def lake_build(log):
    """(Re)build model library, proofs and driver; serialised across concurrently started checks."""
    os.makedirs(os.path.join(LEAN_DIR, ".lake"), exist_ok=True)
    with open(os.path.join(LEAN_DIR, ".lake", "verif-build.lock"), "w") as lock:
        fcntl.flock(lock, fcntl.LOCK_EX)
        t0 = time.time()
        p = subprocess.run(["lake", "build"], cwd=LEAN_DIR, capture_output=True, text=True)
        log.append(f"lake build: rc={p.returncode} {time.time() - t0:.1f}s")
        return p.returncode == 0, (p.stdout + p.stderr)[-6000:]


AUDIT_TEMPLATE = """import Lean
import Spp
open Lean Elab Command
run_cmd do
  let env ← getEnv
  let ns := `Spp.{pid}
  let mut names : Array Name := #[]
  for (n, ci) in env.constants.map₁.toList do
    if ns.isPrefixOf n && !n.isInternalDetail then
      match ci with
      | .thmInfo _ => names := names.push n
      | _ => pure ()
  for n in names.qsort (fun a b => a.toString < b.toString) do
    let ax ← liftCoreM (collectAxioms n)
    logInfo m!"THEOREM {{n}} AXIOMS {{ax.toList}}"
"""


def audit_axioms(pid, log):
    """Return {theorem_name: [axioms]} for every theorem in namespace Spp.<pid>."""
    path = os.path.join(LEAN_DIR, ".lake", f"audit_{pid}.lean")
    with open(path, "w") as f:
        f.write(AUDIT_TEMPLATE.format(pid=pid))
    p = subprocess.run(["lake", "env", "lean", path], cwd=LEAN_DIR, capture_output=True, text=True)
    out = p.stdout + p.stderr
    res = {}
    for m in re.finditer(r"THEOREM (\S+) AXIOMS \[(.*?)\]", out, re.S):
        res[m.group(1)] = [a.strip() for a in m.group(2).replace("\n", " ").split(",") if a.strip()]
    log.append(f"audit {pid}: rc={p.returncode} theorems={len(res)}")
    if p.returncode != 0:
        return None, out[-4000:]
    return res, out[-2000:]


def strip_comments(src: str) -> str:
    # nested block comments /- ... -/ and line comments
    out, i, depth = [], 0, 0
    while i < len(src):
        if src.startswith("/-", i):
            depth += 1; i += 2; continue
        if depth and src.startswith("-/", i):
            depth -= 1; i += 2; continue
        if depth:
            if src[i] == "\n":
                out.append("\n")
            i += 1; continue
        if src.startswith("--", i):
            while i < len(src) and src[i] != "\n":
                i += 1
            continue
        out.append(src[i]); i += 1
    return "".join(out)


def grep_forbidden():
    hits = []
    for root, _dirs, files in os.walk(LEAN_DIR):
        if ".lake" in root:
            continue
        for fn in files:
            if fn.endswith(".lean"):
                p = os.path.join(root, fn)
                for k, line in enumerate(strip_comments(open(p).read()).split("\n"), 1):
                    if FORBIDDEN.search(line):
                        hits.append(f"{os.path.relpath(p, VERIF)}:{k}: {line.strip()[:120]}")
    return hits


def proof_side(pid, required, log, thorough=False):
    """Build + audit.  Returns dict(obligations, discharged, problems=[...], theorems={...})."""
    problems = []
    ok, out = lake_build(log)
    if not ok:
        problems.append({"kind": "build-failed", "detail": out[-3000:]})
    theorems = {}
    if ok:
        res, aout = audit_axioms(pid, log)
        if res is None:
            problems.append({"kind": "audit-failed", "detail": aout})
        else:
            theorems = res
    for name in required:
        full = f"Spp.{pid}.{name}"
        if ok and full not in theorems:
            problems.append({"kind": "missing-theorem", "theorem": full})
    discharged = 0
    for name, axs in theorems.items():
        bad = [a for a in axs if a not in ALLOWED_AXIOMS]
        if bad:
            problems.append({"kind": "foreign-axiom", "theorem": name, "axioms": bad})
        else:
            discharged += 1
    if ok and thorough:
        # independent re-check of the compiled module by Lean's stand-alone kernel checker
        t0 = time.time()
        mods = sorted("Spp.Props." + fn[:-5] for fn in os.listdir(os.path.join(LEAN_DIR, "Spp", "Props"))
                      if fn.startswith(pid) and fn.endswith(".lean"))
        p = subprocess.run(["lake", "env", "leanchecker"] + mods, cwd=LEAN_DIR, capture_output=True, text=True)
        log.append(f"leanchecker {' '.join(mods)}: rc={p.returncode} {time.time() - t0:.1f}s")
        if p.returncode != 0:
            problems.append({"kind": "leanchecker-failed", "detail": (p.stdout + p.stderr)[-2000:]})
    hits = grep_forbidden()
    for h in hits:
        problems.append({"kind": "forbidden-token", "where": h})
    obligations = max(len(theorems), len(required))
    return {"obligations": obligations, "discharged": discharged if not hits else 0,
            "problems": problems, "theorems": theorems, "built": ok}


def run_model(lines):
    if not os.path.exists(MODEL_BIN):
        raise BrokenCheck(f"model driver missing: {MODEL_BIN}")
    if not lines:
        return []
    for ln in lines:
        assert "\n" not in ln
    p = subprocess.run([MODEL_BIN], input=("\n".join(lines) + "\n").encode(), capture_output=True)
    if p.returncode != 0:
        raise BrokenCheck(f"model driver crashed rc={p.returncode}: {p.stderr[-500:]!r}")
    out = p.stdout.decode().split("\n")
    if out and out[-1] == "":
        out.pop()
    if len(out) != len(lines):
        raise BrokenCheck(f"model driver answered {len(out)} lines for {len(lines)} requests")
    return out


# --------------------------------------------------------------------------------------------------
# implementation side helpers
# --------------------------------------------------------------------------------------------------
def canon_exc(e: BaseException) -> str:
    """Map an exception to the small enum compared with the model.  Messages are never compared."""
    from space_packet_parser import exceptions as spx
    if isinstance(e, spx.UnrecognizedPacketTypeError):
        return "err unrecognized"
    if isinstance(e, spx.CalibrationError):
        return "err calibration"
    if isinstance(e, ValueError):
        return "err value"
    return "err other"


def call_impl(mod, line):
    try:
        with warnings.catch_warnings(record=True) as w:
            warnings.simplefilter("always")
            out = mod.impl(line)
        return out
    except RecursionError:
        return "err other"
    except Exception as e:  # noqa: BLE001 - every escaping exception is an observable
        return canon_exc(e) + " !" + type(e).__name__


def strip_detail(s: str) -> str:
    """Drop the ' !ExceptionType' diagnostic suffix that is kept only for humans."""
    return s.split(" !")[0]


# --------------------------------------------------------------------------------------------------
# known findings
# --------------------------------------------------------------------------------------------------
def load_known(pid):
    path = os.path.join(VERIF, "known_findings.json")
    if not os.path.exists(path):
        return []
    data = json.load(open(path))
    return [f for f in data.get("findings", []) if f.get("property") == pid and f.get("status") == "open"]


# --------------------------------------------------------------------------------------------------
# runner
# --------------------------------------------------------------------------------------------------
def _call_pred(pred, ln, mo, io):
    import inspect
    n = len(inspect.signature(pred).parameters)
    return pred(*(ln, mo, io)[:n])


def corpus_lines(pid):
    d = os.path.join(VERIF, "harness", "corpus", pid)
    lines = []
    if os.path.isdir(d):
        for fn in sorted(os.listdir(d)):
            for ln in open(os.path.join(d, fn)):
                ln = ln.rstrip("\n")
                if ln and not ln.startswith("#"):
                    lines.append(ln)
    return lines


def write_replay(pid, seed, k, payload):
    os.makedirs(os.path.join(VERIF, "replays"), exist_ok=True)
    rel = os.path.join("replays", f"{pid}-{seed}-{k}.json")
    payload = dict(payload)
    payload["property"] = pid
    payload["rerun"] = f"./check {pid} --replay {rel}"
    with open(os.path.join(VERIF, rel), "w") as f:
        json.dump(payload, f, indent=1, sort_keys=True)
    return rel


def _pool_worker(args):
    modname, lines = args
    mod = importlib.import_module(modname)
    return [call_impl(mod, ln) for ln in lines]


def impl_outputs(mod, lines, jobs):
    if jobs <= 1 or len(lines) < 2000 or not getattr(mod, "PARALLEL", True):
        return [call_impl(mod, ln) for ln in lines]
    import multiprocessing as mp
    # contiguous blocks: consecutive requests (histories over one cached library object) stay in one process
    n = len(lines)
    bounds = [n * k // jobs for k in range(jobs + 1)]
    chunks = [lines[bounds[k]:bounds[k + 1]] for k in range(jobs)]
    with mp.get_context("fork").Pool(jobs) as pool:
        res = pool.map(_pool_worker, [(mod.__name__, c) for c in chunks])
    return [o for r in res for o in r]


def run_property(pid, tier, seed, replay=None):
    t0 = time.time()
    log = []
    if replay is None:
        rdir = os.path.join(VERIF, "replays")
        if os.path.isdir(rdir):
            for fn in os.listdir(rdir):
                if fn.startswith(pid + "-"):
                    os.unlink(os.path.join(rdir, fn))
    mod = importlib.import_module(f"harness.props.{pid.lower()}")
    rng = random.Random(seed * 1000003 + int(hashlib.sha256(pid.encode()).hexdigest()[:8], 16))
    proof = proof_side(pid, getattr(mod, "REQUIRED_THEOREMS", []), log, thorough=(tier == "thorough"))
    proof_broken = bool(proof["problems"])
    eff_tier = "thorough" if proof_broken else tier  # broken obligation => search harder for a failing input

    # protocol self-test
    if proof["built"] or os.path.exists(MODEL_BIN):
        if run_model(["ping"]) != ["pong"]:
            raise BrokenCheck("protocol self-test failed")

    if replay is not None:
        rp = json.load(open(replay if os.path.isabs(replay) else os.path.join(VERIF, replay)))
        cases = [(ln, "replay") for ln in rp.get("lines", [rp.get("line")]) if ln]
        n_corpus = 0
    else:
        corp = [(ln, "corpus") for ln in corpus_lines(pid)]
        n_corpus = len(corp)
        cases = corp + list(mod.generate(rng, eff_tier))
    lines = [c[0] for c in cases]
    tags = [c[1] for c in cases]
    if replay is None and len(lines) - n_corpus < int(getattr(mod, "MIN_REQUESTS", 20)):
        # a generator that produces (almost) nothing would make the check pass vacuously
        raise BrokenCheck(f"the generator produced only {len(lines) - n_corpus} requests")

    model_out = run_model(lines)
    jobs = int(os.environ.get("VERIF_JOBS", "16"))
    impl_out = impl_outputs(mod, lines, jobs)

    known = load_known(pid)
    known_hit = collections.OrderedDict()
    violations = []
    unsupported = 0
    not_applicable = 0
    tagdist = collections.Counter()
    mtagdist = collections.Counter()
    distinct_nontrivial = set()
    trivial = set(getattr(mod, "TRIVIAL_TAGS", ()))
    samples = []
    for i, (ln, tag, mo, io) in enumerate(zip(lines, tags, model_out, impl_out)):
        tagdist[tag] += 1
        if mo == "unsupported":
            unsupported += 1
            continue
        if mo == "bad-op":
            raise BrokenCheck(f"model rejected request: {ln[:200]}")
        mtag = mo.split(" ")[0] + ("" if " " not in mo else "")
        mtagdist[mtag] += 1
        ios = strip_detail(io)
        nontrivial = tag not in trivial and not getattr(mod, "is_trivial", lambda *_: False)(ln, mo)
        if nontrivial:
            distinct_nontrivial.add(hashlib.blake2b(ln.encode(), digest_size=8).digest())
        if len(samples) < 6 and nontrivial and (i % max(1, len(lines) // 6) == 0 or len(lines) < 12):
            samples.append({"request": ln[:400], "model": mo[:300], "implementation": io[:300], "tag": tag})
        if ios == "n/a":
            # the implementation side has nothing to say about this request on this tree (e.g. a private helper the
            # request addresses no longer exists under that name): not compared
            not_applicable += 1
            continue
        agree = mod.responses_agree(mo, ios) if hasattr(mod, "responses_agree") else (ios == mo)
        verdict = None
        try:
            verdict = mod.oracle(ln, ios) if hasattr(mod, "oracle") else None
        except Exception as e:  # noqa: BLE001
            raise BrokenCheck(f"oracle crashed on {ln[:200]}: {e!r}")
        if agree and verdict is not False:
            continue
        # disagreement, or the independent oracle condemns the implementation
        kf = None
        explain = getattr(mod, "explain", None)
        if explain is not None and known:
            names = explain(ln, mo, ios)          # set of predicate names that together account for the whole disagreement
            byname = {f["predicate"]: f for f in known}
            if names and all(n in byname for n in names):
                for n in names:
                    known_hit.setdefault(byname[n]["id"], (byname[n], ln, mo, io))
                continue
        for f in known:
            pred = getattr(mod, "KNOWN_PREDICATES", {}).get(f["predicate"])
            if pred and _call_pred(pred, ln, mo, ios):
                kf = f
                break
        if kf is not None:
            known_hit.setdefault(kf["id"], (kf, ln, mo, io))
            continue
        in_domain = mod.in_domain(ln) if hasattr(mod, "in_domain") else True
        if verdict is False or (verdict is None and in_domain and getattr(mod, "MODEL_IS_SPEC", False)):
            kind = "failing-input"
        else:
            kind = "correspondence"
        violations.append({"kind": kind, "line": ln, "tag": tag, "model": mo, "implementation": io,
                           "oracle": verdict, "in_domain": in_domain})

    # shrink + report
    printed = []
    shr = getattr(mod, "shrink", None)
    fails = [v for v in violations if v["kind"] == "failing-input"]
    # a concrete failing input is the strongest report; correspondence-only reports are added only when none exists
    to_report = []
    seen_tags = set()
    for v in (fails if fails else violations):
        if v["tag"] in seen_tags and len(to_report) >= 1:
            continue
        seen_tags.add(v["tag"])
        to_report.append(v)
        if len(to_report) >= 3:
            break
    for v in to_report:
        line = v["line"]
        if shr is not None:
            budget = [250]

            def still(l2, _kind=v["kind"], budget=budget):
                budget[0] -= 1
                if budget[0] < 0 or len(l2) > 20000:
                    return False
                try:
                    mo2 = run_model([l2])[0]
                except BrokenCheck:
                    return False
                if mo2 in ("unsupported", "bad-op"):
                    return False
                io2 = strip_detail(call_impl(mod, l2))
                vd = mod.oracle(l2, io2) if hasattr(mod, "oracle") else None
                if _kind == "failing-input" and hasattr(mod, "oracle") and v["oracle"] is False:
                    return vd is False
                return not (mod.responses_agree(mo2, io2) if hasattr(mod, "responses_agree") else io2 == mo2)
            try:
                line = shr(line, still)
            except Exception:  # noqa: BLE001
                line = v["line"]
            if line != v["line"]:
                v = dict(v, shrunk_from=v["line"][:2000], line=line,
                         model=run_model([line])[0], implementation=call_impl(mod, line))
        k = len(printed)
        # a module whose requests share library objects (`history_key`) replays the earlier requests on the same object too
        hk = getattr(mod, "history_key", None)
        hist = [v["line"]]
        if hk is not None and v["line"] in lines and "shrunk_from" not in v:
            i_fail = lines.index(v["line"])
            key = hk(v["line"])
            hist = [l for l in lines[:i_fail] if hk(l) == key][-60:] + [v["line"]]
        if v["kind"] == "failing-input":
            rel = write_replay(pid, seed, k, dict(v, lines=hist,
                               what="the implementation breaks the property on this input"))
            printed.append(f"VIOLATION property={pid} replay={rel}")
        else:
            rel = write_replay(pid, seed, k, dict(v, lines=hist,
                               correspondence=f"correspondence:{pid}/{v['tag']}",
                               what="model and implementation disagree; the independent oracle does not condemn the "
                                    "implementation on this input, so the property is no longer shown to hold"))
            printed.append(f"VIOLATION property={pid} replay={rel} no-failing-input-found")

    if proof_broken and not any("no-failing-input-found" not in p for p in printed):
        rel = write_replay(pid, seed, len(printed) + 100,
                           {"kind": "proof-obligation", "problems": proof["problems"],
                            "what": "a proof obligation of this property no longer checks; the thorough-tier search "
                                    "found no failing input on the implementation",
                            "theorems": sorted(proof["theorems"])})
        printed.append(f"VIOLATION property={pid} replay={rel} no-failing-input-found")

    if lines and not_applicable > 0.5 * len(lines):
        raise BrokenCheck(f"{not_applicable}/{len(lines)} requests had nothing to be compared with")
    evaluated = len(lines) - unsupported - not_applicable
    if lines and unsupported > 0.05 * len(lines):
        raise BrokenCheck(f"{unsupported}/{len(lines)} cases unsupported by the model")

    for kf, ln, mo, io in known_hit.values():
        print(f"KNOWN-FINDING: property={pid} {kf['what']}")
    for p in printed:
        print(p)

    ev = {
        "property_id": pid, "tier": tier, "seed": seed, "level": "proof",
        "coverage": {
            "obligations": proof["obligations"], "discharged": proof["discharged"],
            "checker_cmd": "cd lean && lake build && lake env lean .lake/audit_%s.lean  (kernel check + #print-axioms "
                           "audit of every theorem in namespace Spp.%s)" % (pid, pid),
            "trusted_base": ["Lean 4.33.0 kernel", "axioms: propext, Classical.choice, Quot.sound (audited per theorem)",
                             "Spec layer definitions in lean/Spp/Spec", "correspondence harness (harness/*.py) and Lean "
                             "driver parser/printer (lean/Driver)"] + list(getattr(mod, "TRUSTED", [])),
            "theorems": {k: v for k, v in sorted(proof["theorems"].items())},
            "proof_problems": proof["problems"],
            "evaluations": evaluated, "distinct_nontrivial": len(distinct_nontrivial),
            "rule": getattr(mod, "RULE", ""), "samples": samples,
            "input_tags": dict(tagdist), "model_response_kinds": dict(mtagdist),
            "skipped_unsupported": unsupported, "skipped_not_applicable": not_applicable, "corpus_cases": n_corpus,
            "known_findings_reobserved": list(known_hit.keys()),
            "effective_tier": eff_tier,
        },
        "assumptions": list(getattr(mod, "ASSUMPTIONS", [])),
        "wall_s": round(time.time() - t0, 2),
        "violations": len(printed),
        "log": log,
    }
    extra = getattr(mod, "extra_evidence", None)
    if extra:
        import inspect
        if inspect.signature(extra).parameters:
            ev["coverage"].update(extra(lines=lines, model_out=model_out, impl_out=impl_out))
        else:
            ev["coverage"].update(extra())
    if replay is None:
        os.makedirs(os.path.join(VERIF, "evidence"), exist_ok=True)
        with open(os.path.join(VERIF, "evidence", f"{pid}.json"), "w") as f:
            json.dump(ev, f, indent=1, sort_keys=True)
    return 1 if printed else 0
