"""An XTCE document writer that is independent of the library: renders a definition (request syntax, as produced by
defgen) as XML text in a chosen lexical spelling (namespace convention, comments, whitespace)."""
import lxml.etree as ET

from harness.xbuild import uS, uV, optS, optI, uB

XTCE_NS = "https://www.omg.org/spec/XTCE/20180204"


class Spelling:
    def __init__(self, kind="prefix", prefix="xtce", comments=0.0, pretty=True, extra_ns=True, uri=None, mixed=False):
        self.kind, self.prefix, self.comments, self.pretty, self.extra_ns = kind, prefix, comments, pretty, extra_ns
        self.mixed = mixed
        self.uri = uri or XTCE_NS

    @property
    def ns_prefix_arg(self):
        """The xtce_ns_prefix argument a caller passes for this spelling."""
        return self.prefix if self.kind == "prefix" else None

    def nsmap(self):
        m = {}
        if self.kind == "prefix":
            m[self.prefix] = self.uri
        elif self.kind == "default":
            m[None] = self.uri
        if self.extra_ns:
            m["xsi"] = "http://www.w3.org/2001/XMLSchema-instance"
        if self.mixed and self.kind != "none":
            m["alt"] = self.uri        # the same namespace under a second prefix (see `document`)
        return m


class Writer:
    def __init__(self, rng, sp):
        self.rng, self.sp = rng, sp

    def E(self, tag, attrs=None, *kids, text=None, root=False):
        q = tag if self.sp.kind == "none" else ET.QName(self.sp.uri, tag)
        el = ET.Element(q, nsmap=self.sp.nsmap() if root else None)
        for k, v in (attrs or {}).items():
            if v is not None:
                el.set(k, v)
        if text is not None:
            el.text = text
        for k in kids:
            if k is None:
                continue
            if self.rng.random() < self.sp.comments:
                el.append(ET.Comment(self.rng.choice([" note ", "x", " <Comparison/> ", ""])))
            el.append(k)
        if kids and self.rng.random() < self.sp.comments:
            el.append(ET.Comment(" end "))
        return el

    # -- numbers ------------------------------------------------------------------------------
    @staticmethod
    def num(tok):
        v = uV(tok)
        return repr(v) if isinstance(v, float) else str(v)

    def b(self, tok, attr_default=None):
        # xs:boolean: the words in any letter case the library accepts, the digits, surrounding whitespace
        if tok == "1":
            return self.rng.choice(["true", "true", "true", "True", "TRUE", "1", " true ", "1 "])
        return self.rng.choice(["false", "false", "false", "False", "0", " false", "FALSE"])

    # -- criteria -----------------------------------------------------------------------------
    def comparison(self, t):
        a = {"parameterRef": uS(t[1]), "value": uS(t[3])}
        if uS(t[2]) != "==" or self.rng.random() < 0.5:
            a["comparisonOperator"] = uS(t[2])
        if t[4] != "1" or self.rng.random() < 0.5:
            a["useCalibratedValue"] = self.b(t[4])
        return self.E("Comparison", a)

    def pir(self, ref, cal):
        a = {"parameterRef": ref}
        if cal != "1" or self.rng.random() < 0.5:
            a["useCalibratedValue"] = self.b(cal)
        return self.E("ParameterInstanceRef", a)

    def condition(self, t):
        kids = [self.pir(uS(t[1]), t[5]), self.E("ComparisonOperator", text=uS(t[2]))]
        if t[3] != "-":
            kids.append(self.pir(uS(t[3]), t[6]))
        else:
            kids.append(self.E("Value", text=uS(t[4])))
        return self.E("Condition", None, *kids)

    def group(self, t):
        tag = "ANDedConditions" if t[0] == "and" else "ORedConditions"
        return self.E(tag, None, *([self.condition(c) for c in t[1]] + [self.group(g) for g in t[2]]))

    def criteria(self, crit):
        """A list of criteria as the single child of RestrictionCriteria / ContextMatch."""
        if len(crit) == 1 and crit[0][0] == "bexpr":
            e = crit[0][1]
            inner = self.condition(e) if e[0] == "cond" else self.group(e)
            return self.E("BooleanExpression", None, inner)
        if len(crit) == 1 and self.rng.random() < 0.7:
            return self.comparison(crit[0])
        return self.E("ComparisonList", None, *[self.comparison(c) for c in crit])

    def dl(self, t):
        inner = self.comparison(t[1][0]) if len(t[1]) == 1 and self.rng.random() < 0.7 else \
            self.E("ComparisonList", None, *[self.comparison(c) for c in t[1]])
        return self.E("DiscreteLookup", {"value": self.num(t[2])}, inner)

    # -- calibrators --------------------------------------------------------------------------
    def calibrator(self, t):
        if t[0] == "poly":
            return self.E("PolynomialCalibrator", None,
                          *[self.E("Term", {"coefficient": self.num(c), "exponent": e}) for c, e in t[1:]])
        a = {}
        if t[1] != "0" or self.rng.random() < 0.5:
            a["order"] = t[1]
        if t[2] != "0" or self.rng.random() < 0.5:
            a["extrapolate"] = self.b(t[2])
        return self.E("SplineCalibrator", a,
                      *[self.E("SplinePoint", {"raw": self.num(x), "calibrated": self.num(y)}) for x, y in t[3:]])

    def cals(self, t):
        out = []
        if t[0] != "-":
            out.append(self.E("DefaultCalibrator", None, self.calibrator(t[0])))
        if t[1]:
            out.append(self.E("ContextCalibratorList", None, *[
                self.E("ContextCalibrator", None, self.E("ContextMatch", None, self.criteria(c[1])),
                       self.E("Calibrator", None, self.calibrator(c[2]))) for c in t[1]]))
        return out

    # -- encodings ----------------------------------------------------------------------------
    def adj(self, t):
        if t == "-":
            return None
        a = {"slope": t[0], "intercept": t[1]}
        # both attributes default to 0 in XTCE: a zero may be left unwritten
        for k in ("slope", "intercept"):
            if a[k] == "0" and self.rng.random() < 0.5:
                del a[k]
        return self.E("LinearAdjustment", a)

    def encoding(self, t):
        k = t[0]
        if k in ("int", "float"):
            a = {"sizeInBits": t[1]}
            enc, bo = uS(t[2]), uS(t[3])
            if not (k == "int" and enc == "unsigned" and self.rng.random() < 0.5) and \
                    not (k == "float" and enc == "IEEE754" and self.rng.random() < 0.5):
                a["encoding"] = enc
            if bo != "mostSignificantByteFirst" or self.rng.random() < 0.5:
                a["byteOrder"] = bo
            return self.E("IntegerDataEncoding" if k == "int" else "FloatDataEncoding", a, *self.cals(t[4]))
        if k == "str":
            enc = uS(t[1])
            a = {"encoding": enc} if (enc != "UTF-8" or self.rng.random() < 0.5) else {}
            if len(t) > 9 and t[9] != "-" and enc in ("UTF-16", "UTF-32"):
                a["byteOrder"] = uS(t[9])
            extra = []
            if t[8] != "-":
                extra.append(self.E("LeadingSize", {"sizeInBitsOfSizeTag": t[8]}))
            if t[7] != "-":
                extra.append(self.E("TerminationChar", text=t[7][1:]))
            if t[2] != "-":
                size = self.E("SizeInBits", None, self.E("Fixed", None, self.E("FixedValue", text=t[2])), *extra)
            elif t[3] != "-":
                size = self.E("Variable", None, self.E("DynamicValue", None, self.pir(uS(t[3]), t[5]), self.adj(t[6])),
                              *extra)
            else:
                size = self.E("Variable", None, self.E("DiscreteLookupList", None, *[self.dl(d) for d in t[4]]), *extra)
            return self.E("StringDataEncoding", a, size)
        if t[1] != "-":
            inner = self.E("FixedValue", text=t[1])
        elif t[2] != "-":
            inner = self.E("DynamicValue", None, self.pir(uS(t[2]), t[3]), self.adj(t[5]))
        else:
            inner = self.E("DiscreteLookupList", None, *[self.dl(d) for d in t[4]])
        return self.E("BinaryDataEncoding", None, self.E("SizeInBits", None, inner))

    # -- types, parameters, containers -----------------------------------------------------------
    @staticmethod
    def enum_codec(enc):
        """The text of a string-encoded enumeration key: its bytes read in the codec the field is decoded with."""
        if enc[0] != "str":
            return "utf-8"
        name = uS(enc[1])
        codec = {"US-ASCII": "ascii", "ISO-8859-1": "latin-1", "Windows-1252": "cp1252"}.get(name, name.lower())
        if name in ("UTF-16", "UTF-32"):
            bo = uS(enc[9]) if len(enc) > 9 and enc[9] != "-" else "mostSignificantByteFirst"
            codec += "-le" if bo == "leastSignificantByteFirst" else "-be"
        return codec

    def ptype(self, t, unit=None):
        name, kind, enc = uS(t[1]), t[2], t[3]
        unit_el = self.E("UnitSet", None, self.E("Unit", text=unit)) if unit is not None else None
        if kind == "bool":
            return self.E("BooleanParameterType", {"name": name}, unit_el, self.encoding(enc))
        if kind != "plain":
            lst = self.E("EnumerationList", None, *[
                self.E("Enumeration", {"value": (uV(k).decode(self.enum_codec(enc)) if k[0] == "x" else self.num(k)),
                                       "label": uS(v)})
                for k, v in kind[1:]])
            return self.E("EnumeratedParameterType", {"name": name}, unit_el, self.encoding(enc), lst)
        tag = {"int": "IntegerParameterType", "float": "FloatParameterType", "str": "StringParameterType",
               "bin": "BinaryParameterType"}[enc[0]]
        return self.E(tag, {"name": name}, unit_el, self.encoding(enc))

    def container(self, t, extra_attrs=None, long_desc=None, drop_criteria=False):
        a = {"name": uS(t[1])}
        if t[2] == "1" or self.rng.random() < 0.4:
            a["abstract"] = self.b(t[2])
        a.update(extra_attrs or {})
        kids = []
        if long_desc is not None:
            kids.append(self.E("LongDescription", text=long_desc))
        if t[3] != "-":
            rc = None if (drop_criteria or not t[4]) else self.E("RestrictionCriteria", None, self.criteria(t[4]))
            kids.append(self.E("BaseContainer", {"containerRef": uS(t[3])}, rc))
        ents = []
        for e in t[6]:
            if e[0] == "p":
                ents.append(self.E("ParameterRefEntry", {"parameterRef": uS(e[1])}))
            else:
                ents.append(self.E("ContainerRefEntry", {"containerRef": uS(e[1])}))
        kids.append(self.E("EntryList", None, *ents))
        return self.E("SequenceContainer", a, *kids)


def collect(dsx):
    """(types by name, parameters by name -> type name, containers top-level) from a definition in request syntax."""
    types, params = {}, {}

    def walk(c):
        for e in c[6]:
            if e[0] == "p":
                params.setdefault(uS(e[1]), uS(e[2][1]))
                types.setdefault(uS(e[2][1]), e[2])
            else:
                walk(e)
    for c in dsx[2]:
        walk(c)
    return types, params


def document(rng, dsx, sp, date="2024-01-01T00:00:00", decorate=True, header=True, name="SPACE_SYSTEM"):
    """XML bytes for the definition `dsx` in spelling `sp`; `decorate` adds units / descriptions."""
    w = Writer(rng, sp)
    types, params = collect(dsx)
    t_els = [w.ptype(t, unit=(rng.choice(["s", "deg C", None, None]) if decorate else None)) for t in types.values()]
    p_els = []
    for pn, tn in params.items():
        a = {"name": pn, "parameterTypeRef": tn}
        ld = None
        if decorate:
            sd = rng.choice([None, None, "short", ""])
            if sd is not None:
                a["shortDescription"] = sd
            ld = rng.choice([None, None, "A longer description.",
                             "First line.\n        Second line, indented.\n    Third line.\n"])
        p_els.append(w.E("Parameter", a, w.E("LongDescription", text=ld) if ld is not None else None))
    c_els = []
    for c in dsx[2]:
        extra = {}
        ld = None
        if decorate:
            sd = rng.choice([None, None, "container", ""])
            if sd is not None:
                extra["shortDescription"] = sd
            ld = rng.choice([None, None, "Long text", "Long text\n    over two lines"])
        c_els.append(w.container(c, extra, ld))
    # the order of the SequenceContainer elements is free in XTCE: derived containers may come before their base,
    # a container before the containers it nests (the loader then parses those first, recursively)
    r = rng.random()
    if r < 0.25:
        c_els.reverse()
    elif r < 0.5:
        rng.shuffle(c_els)
    tm = w.E("TelemetryMetaData", None, w.E("ParameterTypeSet", None, *t_els), w.E("ParameterSet", None, *p_els),
             w.E("ContainerSet", None, *c_els))
    hattrs = {"date": date, "version": "1.0", "validationStatus": "Unknown"}
    if decorate and rng.random() < 0.3:
        # `version` and `validationStatus` are optional attributes of the Header
        for k in rng.sample(["version", "validationStatus"], rng.randrange(1, 3)):
            del hattrs[k]
    hdr = w.E("Header", hattrs) if header else None
    root = w.E("SpaceSystem", {"name": name} if name else None, hdr, tm, root=True)
    out = ET.tostring(root, pretty_print=sp.pretty, xml_declaration=True, encoding="utf-8")
    return out
