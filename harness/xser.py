"""Serialise the library's object graph (definitions, encodings, criteria, values) into the request syntax
of the Lean driver, and canonicalise parsed values / packets for comparison."""
import math
import warnings

from harness.core import hx, sx


def S(s: str) -> str:
    return "s" + s.encode("utf-8").hex()


def optS(s):
    return "-" if s is None else S(s)


def optI(i):
    return "-" if i is None else str(int(i))


def B(b) -> str:
    return "1" if b else "0"


def fnum(x: float) -> str:
    if math.isnan(x):
        return "fnan"
    if math.isinf(x):
        return "finf" if x > 0 else "f-inf"
    if x == 0 and math.copysign(1.0, x) < 0:
        return "f-0"
    n, d = x.as_integer_ratio()
    return f"f{n}/{d}"


def V(v) -> str:
    """A plain Python value (or a parameter's built-in value)."""
    if isinstance(v, bool):
        return f"i{int(v)}"
    if isinstance(v, int):
        return f"i{int(v)}"
    if isinstance(v, float):
        return fnum(float(v))
    if isinstance(v, str):
        return S(str(v))
    if isinstance(v, (bytes, bytearray)):
        return hx(bytes(v))
    raise TypeError(f"cannot serialise value {v!r} of type {type(v)}")


def optV(v):
    return "-" if v is None else V(v)


CLS = {"IntParameter": "IntP", "FloatParameter": "FloatP", "StrParameter": "StrP", "BinaryParameter": "BinP",
       "BoolParameter": "BoolP"}


def item(name, p) -> str:
    """`name|cls|val|raw` exactly as the driver prints it."""
    cls = CLS.get(type(p).__name__, "?" + type(p).__name__)
    return f"{S(name)}|{cls}|{V(p)}|{V(p.raw_value)}"


def items_sx(packet) -> list:
    out = []
    for k, p in packet.items():
        out.append([S(k), CLS[type(p).__name__], V(p), V(p.raw_value)])
    return out


def show_pkt(packet) -> str:
    its = [item(k, v) for k, v in packet.items()]
    return f"{packet.raw_data.pos} {hx(bytes(packet.raw_data))} {len(its)}" + ("" if not its else " " + " ".join(its))


# ---------------------------------------------------------------------------------------------------
def comparison(c):
    return ["cmp", S(c.referenced_parameter), S(c.operator), S(str(c.required_value)), B(c.use_calibrated_value)]


def condition(c):
    return ["cond", S(c.left_param), S(c.operator), optS(c.right_param),
            "-" if c.right_value is None else S(str(c.right_value)),
            B(c.left_use_calibrated_value), B(c.right_use_calibrated_value)]


def anded(a):
    return ["and", [condition(c) for c in a.conditions], [ored(o) for o in a.ors]]


def ored(o):
    return ["or", [condition(c) for c in o.conditions], [anded(a) for a in o.ands]]


def criterion(c):
    from space_packet_parser.xtce import comparisons as cmpm
    if isinstance(c, cmpm.Comparison):
        return comparison(c)
    if isinstance(c, cmpm.BooleanExpression):
        e = c.expression
        if isinstance(e, cmpm.Condition):
            return ["bexpr", condition(e)]
        if isinstance(e, cmpm.Anded):
            return ["bexpr", anded(e)]
        return ["bexpr", ored(e)]
    if isinstance(c, cmpm.Condition):
        return ["bexpr", condition(c)]
    raise TypeError(c)


def dl(d):
    return ["dl", [comparison(c) for c in d.match_criteria], V(d.lookup_value)]


def calibrator(c):
    from space_packet_parser.xtce import calibrators as cal
    if isinstance(c, cal.PolynomialCalibrator):
        return ["poly"] + [[V(t.coefficient), str(int(t.exponent))] for t in c.coefficients]
    if isinstance(c, cal.SplineCalibrator):
        return ["spline", str(int(c.order)), B(c.extrapolate)] + [[V(p.raw), V(p.calibrated)] for p in c.points]
    raise TypeError(c)


def cals(enc):
    d = "-" if not enc.default_calibrator else calibrator(enc.default_calibrator)
    ctx = []
    for cc in (enc.context_calibrators or []):
        ctx.append(["ctx", [criterion(m) for m in cc.match_criteria], calibrator(cc.calibrator)])
    return [d, ctx]


def adjuster(f):
    if f is None:
        return "-"
    cells = dict(zip(f.__code__.co_freevars, (c.cell_contents for c in f.__closure__)))
    return [str(int(cells["slope"])), str(int(cells["intercept"]))]


def encoding(e):
    from space_packet_parser.xtce import encodings as enc
    if isinstance(e, enc.IntegerDataEncoding):
        return ["int", str(int(e.size_in_bits)), S(e.encoding), S(e.byte_order), cals(e)]
    if isinstance(e, enc.FloatDataEncoding):
        return ["float", str(int(e.size_in_bits)), S(e.encoding), S(e.byte_order), cals(e)]
    if isinstance(e, enc.StringDataEncoding):
        lk = "-" if e.discrete_lookup_length is None else [dl(d) for d in e.discrete_lookup_length]
        term = "-" if e.termination_character is None else hx(e.termination_character)
        bo = getattr(e, "byte_order", None)
        if bo is None and e.encoding in ("UTF-16", "UTF-32"):
            bo = "unrecorded"        # the constructor drops a declared byte order for these (DESIGN.md §8-6)
        return ["str", S(e.encoding), optI(e.fixed_length), optS(e.dynamic_length_reference), lk,
                B(e.use_calibrated_value), adjuster(e.length_linear_adjuster), term, optI(e.leading_length_size),
                optS(bo)]
    if isinstance(e, enc.BinaryDataEncoding):
        lk = "-" if e.size_discrete_lookup_list is None else [dl(d) for d in e.size_discrete_lookup_list]
        return ["bin", optI(e.fixed_size_in_bits), optS(e.size_reference_parameter), B(e.use_calibrated_value), lk,
                adjuster(e.linear_adjuster)]
    raise TypeError(e)


def ptype(t):
    from space_packet_parser.xtce import parameter_types as pt
    if isinstance(t, pt.EnumeratedParameterType):
        kind = ["enum"] + [[V(k), S(v)] for k, v in t.enumeration.items()]
    elif isinstance(t, pt.BooleanParameterType):
        kind = "bool"
    else:
        kind = "plain"
    return ["pt", S(t.name), kind, encoding(t.encoding)]


def container(c):
    from space_packet_parser.xtce import containers as cont
    ents = []
    for e in c.entry_list:
        if isinstance(e, cont.SequenceContainer):
            ents.append(container(e))
        else:
            ents.append(["p", S(e.name), ptype(e.parameter_type)])
    return ["cont", S(c.name), B(c.abstract), optS(c.base_container_name),
            [criterion(r) for r in c.restriction_criteria], [S(n) for n in c.inheritors], ents]


def definition(d):
    return ["def", S(d.root_container_name), [container(c) for c in d.containers.values()]]


# ---------------------------------------------------------------------------------------------------
# the loaded object graph by name (mirrors Driver/OpsXml.lean showLDef)
def lptype(t):
    from space_packet_parser.xtce import parameter_types as pt
    en = []
    if isinstance(t, pt.EnumeratedParameterType):
        en = [[V(k), S(v)] for k, v in t.enumeration.items()]
    return ["lpt", S(type(t).__name__), S(t.name), optS(t.unit), encoding(t.encoding), en,
            optS(getattr(t, "epoch", None)), optS(getattr(t, "offset_from", None))]


def lparam(p):
    return ["lp", S(p.name), S(p.parameter_type.name), optS(p.short_description), optS(p.long_description)]


def lcontainer(c):
    from space_packet_parser.xtce import containers as cont
    ents = [["c", S(e.name)] if isinstance(e, cont.SequenceContainer) else ["p", S(e.name)] for e in c.entry_list]
    return ["lc", S(c.name), ents, optS(c.short_description), optS(c.long_description), optS(c.base_container_name),
            [criterion(r) for r in c.restriction_criteria], B(c.abstract), [S(n) for n in c.inheritors]]


def ldef(d):
    nsmap = [["-" if k is None else S(k), S(v)] for k, v in (d.ns or {}).items()]
    return ["ldef", S(d.root_container_name), optS(d.date), optS(d.space_system_name), optS(d.xtce_ns_prefix), nsmap,
            [lptype(t) for t in d.parameter_types.values()], [lparam(p) for p in d.parameters.values()],
            [lcontainer(c) for c in d.containers.values()]]
