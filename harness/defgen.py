"""Type-directed generator of XTCE definitions (in request syntax) plus an encoder that builds packets steering
into chosen containers.  Everything is drawn from the caller's PRNG."""
import struct
from fractions import Fraction

from harness.xser import S, B, V
from harness.core import sx

MSB, LSB = "mostSignificantByteFirst", "leastSignificantByteFirst"
NOCAL = ["-", []]


def fnum(fr):
    fr = Fraction(fr)
    return f"f{fr.numerator}/{fr.denominator}"


class PT:
    """A parameter type: its s-expression and how to produce field bits for it."""

    def __init__(self, name, sexpr, width, gen_bits, control=False, dyn=None):
        self.name, self.sexpr, self.width, self.gen_bits, self.control, self.dyn = name, sexpr, width, gen_bits, control, dyn


def rbits(rng, n):
    return "".join(rng.choice("01") for _ in range(n))


def t_uint(n, bo=MSB, enc="unsigned", cals=NOCAL, tname=None):
    def g(rng, ctrl_val=None):
        if ctrl_val is None:
            v = rng.choice([0, (1 << n) - 1, 1 << (n - 1)]) if (n and rng.random() < 0.25) else rng.getrandbits(n)
        else:
            v = ctrl_val % (1 << n)
        return f"{v:0{n}b}" if n else ""
    return PT(tname or f"U{n}{'L' if bo == LSB else ''}{'S' if enc != 'unsigned' else ''}",
              ["pt", S(tname or f"U{n}_T"), "plain", ["int", str(n), S(enc), S(bo), cals]], n, g, control=True)


def make_types(rng):
    """A pool of parameter types covering every kind; names are unique."""
    ts = {}

    def add(pt):
        ts[pt.name] = pt
        return pt
    for n in (1, 2, 3, 4, 7, 8, 11, 12, 14, 16, 24, 32):
        add(t_uint(n, tname=f"U{n}_T"))
    # wider than 32 bits (the 64-bit dataset dtypes; word boundaries of the bit reader)
    add(t_uint(33, tname="U33_T")); add(t_uint(40, tname="U40_T")); add(t_uint(64, tname="U64_T"))
    add(t_uint(64, enc="signed", tname="S64_T")); add(t_uint(48, enc="twosComplement", bo=LSB, tname="S48LE_T"))
    add(t_uint(72, tname="U72_T"))      # wider than any numpy integer
    add(t_uint(16, bo=LSB, tname="U16LE_T"))
    add(t_uint(8, enc="signed", tname="S8_T"))
    add(t_uint(12, enc="twosComplement", tname="S12_T"))
    add(t_uint(32, enc="signed", bo=LSB, tname="S32LE_T"))
    # other XTCE spellings of a signed integer: the library decodes every name but "unsigned" as two's complement
    add(t_uint(16, enc="onesComplement", tname="OC16_T"))
    add(t_uint(8, enc="signMagnitude", tname="SM8_T"))

    def fl(w, bo, name):
        def g(rng, ctrl_val=None):
            r = rng.random()
            if r < 0.25:
                # any bit pattern: subnormals, NaNs, the whole exponent range
                b = rng.getrandbits(w).to_bytes(w // 8, "big")
            elif r < 0.4:
                # format extremes: smallest subnormal, largest subnormal, smallest normal, largest finite, either sign
                mb = {16: 10, 32: 23, 64: 52}[w]
                v = rng.choice([1, (1 << mb) - 1, 1 << mb, ((1 << (w - 1 - mb)) - 1 << mb) - 1]) | (rng.getrandbits(1) << (w - 1))
                b = v.to_bytes(w // 8, "big" if bo == MSB else "little")
            else:
                x = rng.choice([0.0, 1.0, -2.5, 100.25, 1e-3, float("inf"), -0.0, 3.0e38 if w >= 32 else 6.0e4])
                fmt = {16: "e", 32: "f", 64: "d"}[w]
                b = struct.pack((">" if bo == MSB else "<") + fmt, x)
            return "".join(f"{c:08b}" for c in b)
        return PT(name, ["pt", S(name), "plain", ["float", str(w), S("IEEE754"), S(bo), NOCAL]], w, g)
    add(fl(32, MSB, "F32_T")); add(fl(64, MSB, "F64_T")); add(fl(16, LSB, "F16LE_T"))

    def mil(rng, ctrl_val=None):
        if rng.random() < 0.4:
            # extremes of the 24-bit mantissa and of the 8-bit exponent (-128 lies below the float32 range)
            m = rng.choice([0x000001, 0x400000, 0x7FFFFF, 0x800000, 0xFFFFFF, 0xBFFFFF, rng.getrandbits(24)])
            e = rng.choice([0x80, 0x81, 0x82, 0x7F, 0x00, 0xFF])
            return f"{m:024b}{e:08b}"
        return rbits(rng, 32)
    add(PT("MIL_T", ["pt", S("MIL_T"), "plain", ["float", "32", S("MILSTD_1750A"), S(MSB), NOCAL]], 32, mil))
    # enum over 3 bits with gaps
    keys = [0, 1, 2, 5]

    def en(rng, ctrl_val=None):
        v = rng.choice(keys) if rng.random() < 0.97 else rng.randrange(8)
        return f"{v:03b}"
    add(PT("ENUM_T", ["pt", S("ENUM_T"), ["enum"] + [[f"i{k}", S(f"STATE_{k}")] for k in keys],
                      ["int", "3", S("unsigned"), S(MSB), NOCAL]], 3, en))
    # an enumerated field the children of a container can be told apart on: by label (calibrated) or by number (raw)
    def sele(rng, ctrl_val=None):
        v = rng.getrandbits(3) if ctrl_val is None else ctrl_val % 8
        return f"{v:03b}"
    add(PT("SELE_T", ["pt", S("SELE_T"), ["enum"] + [[f"i{k}", S(f"S{k}")] for k in range(8)],
                      ["int", "3", S("unsigned"), S(MSB), NOCAL]], 3, sele, control=True))
    # an enumeration over 64 bits whose values lie beyond 2**53 (each is an exact integer, in a document too)
    big_keys = [2 ** 53 + 1, 2 ** 53 + 2, 2 ** 63, 2 ** 64 - 1, 7]

    def en64(rng, c=None):
        return f"{rng.choice(big_keys):064b}"
    add(PT("ENUM64_T", ["pt", S("ENUM64_T"), ["enum"] + [[f"i{k}", S(f"BIG_{i}")] for i, k in enumerate(big_keys)],
                        ["int", "64", S("unsigned"), S(MSB), NOCAL]], 64, en64))
    # several encoded values with one label (legal: "the label of a value" is a function, not an injection): the raw value
    # still tells them apart, packet after packet
    add(PT("ENUMDUP_T", ["pt", S("ENUMDUP_T"), ["enum", ["i0", S("IDLE")], ["i1", S("BUSY")], ["i2", S("BUSY")], ["i3", S("IDLE")]],
                         ["int", "2", S("unsigned"), S(MSB), NOCAL]], 2, lambda rng, c=None: rbits(rng, 2)))
    add(PT("BOOL_T", ["pt", S("BOOL_T"), "bool", ["int", "1", S("unsigned"), S(MSB), NOCAL]], 1,
           lambda rng, c=None: rng.choice("01")))
    # a boolean on a text encoding: true when the buffer is not empty
    add(PT("BOOLSTR_T", ["pt", S("BOOLSTR_T"), "bool", ["str", S("US-ASCII"), "16", "-", "-", "1", "-", "-", "-", "-"]], 16,
           lambda rng, c=None: "".join(f"{x:08b}" for x in rng.choice([b"AB", b"ON", b"  "]))))
    # calibrated ints (exact arithmetic): poly default; spline; context
    poly = ["poly", [fnum(Fraction(1, 2)), "0"], [fnum(Fraction(3, 2)), "1"]]
    add(PT("CALP_T", ["pt", S("CALP_T"), "plain", ["int", "8", S("unsigned"), S(MSB), [poly, []]]], 8,
           lambda rng, c=None: rbits(rng, 8)))
    # the same linear polynomial with its terms in the other order (a time type must not re-order them on a cycle)
    polyr = ["poly", [fnum(Fraction(3, 2)), "1"], [fnum(Fraction(1, 2)), "0"]]
    add(PT("CALPR_T", ["pt", S("CALPR_T"), "plain", ["int", "8", S("unsigned"), S(MSB), [polyr, []]]], 8,
           lambda rng, c=None: rbits(rng, 8)))
    def knotty(rng, c=None):
        # raw values on spline knots (incl. the last one) as often as between them
        return f"{rng.choice([0, 64, 128, 255]):08b}" if rng.random() < 0.5 else rbits(rng, 8)
    spl = ["spline", "1", "1", [fnum(0), fnum(0)], [fnum(64), fnum(16)], [fnum(128), fnum(-8)], [fnum(256), fnum(8)]]
    # coefficients with many significant digits (still dyadic: exact arithmetic, exact decimal text)
    polyl = ["poly", [fnum(Fraction(8741, 32)), "0"], [fnum(Fraction(2469135, 2)), "1"], [fnum(Fraction(1, 1024)), "2"]]
    add(PT("CALPL_T", ["pt", S("CALPL_T"), "plain", ["int", "8", S("unsigned"), S(MSB), [polyl, []]]], 8,
           lambda rng, cv=None: rbits(rng, 8)))
    add(PT("CALS_T", ["pt", S("CALS_T"), "plain", ["int", "8", S("unsigned"), S(MSB), [spl, []]]], 8, knotty))
    spl0 = ["spline", "0", "0", [fnum(0), fnum(-40)], [fnum(64), fnum(-10)], [fnum(128), fnum(25)], [fnum(255), fnum(85)]]
    add(PT("CALS0_T", ["pt", S("CALS0_T"), "plain", ["int", "8", S("unsigned"), S(MSB), [spl0, []]]], 8, knotty))
    # strings and binaries with fixed sizes
    def ascii_bits(rng, nbytes):
        return "".join(f"{rng.choice(b'ABCDEFGHXYZ019 '):08b}" for _ in range(nbytes))
    add(PT("STR4_T", ["pt", S("STR4_T"), "plain", ["str", S("US-ASCII"), "32", "-", "-", "1", "-", "-", "-", "-"]], 32,
           lambda rng, c=None: ascii_bits(rng, 4)))
    add(PT("STR12B_T", ["pt", S("STR12B_T"), "plain", ["str", S("ISO-8859-1"), "12", "-", "-", "1", "-", "-", "-", "-"]], 12,
           lambda rng, c=None: rbits(rng, 12)))

    def lead(rng, c=None):
        k = rng.randrange(0, 5)
        return f"{8 * k:08b}" + ascii_bits(rng, k) + rbits(rng, 8 * (4 - k))
    add(PT("STRLEAD_T", ["pt", S("STRLEAD_T"), "plain", ["str", S("UTF-8"), "40", "-", "-", "1", "-", "-", "8", "-"]], 40, lead))

    def term(rng, c=None):
        k = rng.randrange(0, 4)
        return ascii_bits(rng, k) + "00000000" + ascii_bits(rng, 3 - k)
    add(PT("STRTERM_T", ["pt", S("STRTERM_T"), "plain", ["str", S("UTF-8"), "32", "-", "-", "1", "-", "x00", "-", "-"]], 32, term))
    def utf16(rng, c=None, be=True):
        txt = rng.choice(["AB", "Hi", "é1", "日本"])
        b = txt.encode("utf-16-be" if be else "utf-16-le")
        return "".join(f"{x:08b}" for x in b)
    add(PT("STR16BE_T", ["pt", S("STR16BE_T"), "plain", ["str", S("UTF-16"), "32", "-", "-", "1", "-", "-", "-",
                                                          S("mostSignificantByteFirst")]], 32, utf16))
    add(PT("STR16LE_T", ["pt", S("STR16LE_T"), "plain", ["str", S("UTF-16LE"), "32", "-", "-", "1", "-", "-", "-", "-"]], 32,
           lambda rng, c=None: utf16(rng, c, be=False)))
    # string-encoded enumerations: the keys are the field's bytes in the codec the field is decoded with
    for tn, encname, bo, codec in [("ENUMS8_T", "UTF-8", "-", "utf-8"), ("ENUMS16BE_T", "UTF-16BE", "-", "utf-16-be"),
                                   ("ENUMS16M_T", "UTF-16", S(MSB), "utf-16-be"), ("ENUMS16L_T", "UTF-16", S(LSB), "utf-16-le"),
                                   ("ENUMS32L_T", "UTF-32LE", "-", "utf-32-le")]:
        w = 8 * len("ON".encode(codec))
        ks = [("ON", "on"), ("NO", "off"), ("??", "unknown")]

        def ens(rng, c=None, codec=codec, ks=ks):
            txt = rng.choice([k for k, _ in ks]) if rng.random() < 0.95 else "ZZ"
            return "".join(f"{x:08b}" for x in txt.encode(codec))
        add(PT(tn, ["pt", S(tn), ["enum"] + [["x" + k.encode(codec).hex(), S(lab)] for k, lab in ks],
                    ["str", S(encname), str(w), "-", "-", "1", "-", "-", "-", bo]], w, ens))
    add(PT("BIN24_T", ["pt", S("BIN24_T"), "plain", ["bin", "24", "-", "1", "-", "-"]], 24, lambda rng, c=None: rbits(rng, 24)))
    add(PT("BIN5_T", ["pt", S("BIN5_T"), "plain", ["bin", "5", "-", "1", "-", "-"]], 5, lambda rng, c=None: rbits(rng, 5)))
    # binary fields of more than one byte that are not a whole number of bytes
    add(PT("BIN12_T", ["pt", S("BIN12_T"), "plain", ["bin", "12", "-", "1", "-", "-"]], 12,
           lambda rng, c=None: "1" + rbits(rng, 10) + "1"))
    add(PT("BIN20_T", ["pt", S("BIN20_T"), "plain", ["bin", "20", "-", "1", "-", "-"]], 20,
           lambda rng, c=None: "1" + rbits(rng, 18) + "1"))
    # binary fields longer than four bytes (a dataset column must hold them whole)
    add(PT("BIN64_T", ["pt", S("BIN64_T"), "plain", ["bin", "64", "-", "1", "-", "-"]], 64,
           lambda rng, c=None: "".join(f"{rng.randrange(1, 256):08b}" for _ in range(8))))
    add(PT("BIN72_T", ["pt", S("BIN72_T"), "plain", ["bin", "72", "-", "1", "-", "-"]], 72,
           lambda rng, c=None: "".join(f"{rng.randrange(1, 256):08b}" for _ in range(9))))
    # a binary field of fixed size 0 (legal, degenerate): decodes to b"" and must survive a write / load cycle
    add(PT("BIN0_T", ["pt", S("BIN0_T"), "plain", ["bin", "0", "-", "1", "-", "-"]], 0, lambda rng, c=None: ""))
    return ts


HEADER = [("VERSION", 3), ("TYPE", 1), ("SEC_HDR_FLG", 1), ("PKT_APID", 11), ("SEQ_FLGS", 2), ("SRC_SEQ_CTR", 14), ("PKT_LEN", 16)]


class Cont:
    def __init__(self, name, abstract, base=None, criteria=None):
        self.name, self.abstract, self.base, self.criteria = name, abstract, base, criteria or []
        self.entries = []       # ("p", pname, PT) | ("c", Cont)
        self.children = []      # Cont
        self.selector = None    # (param name, width) children are distinguished on
        self.sel_value = None   # value of parent's selector that selects this container

    def sexpr(self):
        ents = []
        for e in self.entries:
            if e[0] == "p":
                ents.append(["p", S(e[1]), e[2].sexpr])
            else:
                ents.append(e[1].sexpr())
        return ["cont", S(self.name), B(self.abstract), "-" if self.base is None else S(self.base), self.criteria,
                [S(c.name) for c in self.children], ents]

    def flat(self):
        out = []
        for e in self.entries:
            if e[0] == "p":
                out.append((e[1], e[2]))
            else:
                out.extend(e[1].flat())
        return out


ODD_SUFFIXES = ["(1)", "(a)", "'", "-a", "+", "\u00e9", "*", "@x", "&", "#2", "()", "=", "%41", '"']


class Defn:
    def __init__(self, rng, apid_name="PKT_APID", max_depth=3, fanout=3, neg_lengths=False, adj_pool=None, rich=False,
                 odd_names=False, wide_ctx=False):
        self.odd_names = odd_names
        self.wide_ctx = wide_ctx
        self.rng = rng
        self.neg_lengths = neg_lengths
        self.adj_pool = adj_pool    # slope/intercept pairs for length adjustments (definitions that are not encoded)
        self.rich = rich            # criteria comparing two parameters with differing raw/calibrated selectors
        self.types = make_types(rng)
        if wide_ctx:
            # a calibrated 32-bit float: the calibrated values are exact doubles that no float32 holds (seed C18-k1:
            # the dataset column must not be narrowed to the width of the *encoding*)
            polyf = ["poly", [fnum(Fraction(8741, 32)), "0"], [fnum(Fraction(2469135, 2)), "1"]]
            self.types["CALF32_T"] = PT("CALF32_T", ["pt", S("CALF32_T"), "plain",
                                                     ["float", "32", S("IEEE754"), S(MSB), [polyf, []]]], 32,
                                        lambda rng, cv=None: "".join(f"{c:08b}" for c in struct.pack(
                                            ">f", rng.choice([0.0, 1.0, -2.5, 100.25, 0.5, 3.0, -7.75]))))
        self.count = 0
        self.all = []
        self.dyn = {}           # param name -> ("binlen", ref name)  for length-dependent fields
        root = Cont("CCSDSPacket", abstract=rng.random() < 0.85)
        for n, w in HEADER:
            nm = apid_name if n == "PKT_APID" else n
            root.entries.append(("p", nm, self.types[f"U{w}_T"]))
        self.apid_name = apid_name
        self.root = root
        self.all.append(root)
        self.shared_nested = None
        self._grow(root, 0, max_depth, fanout, selector=(apid_name, 11))

    def _pname(self, prefix="P"):
        self.count += 1
        if self.odd_names and self.rng.random() < 0.25:
            # XTCE's NameType excludes only `. / : [ ]` and blanks: every one of these is a legal name
            return f"{prefix}{self.count}" + self.rng.choice(ODD_SUFFIXES)
        return f"{prefix}{self.count}"

    def _body(self, c, nfields):
        rng = self.rng
        tnames = [k for k in self.types]
        for _ in range(nfields):
            r = rng.random()
            if r < 0.12:
                # nested container (sometimes a shared one)
                if self.shared_nested is not None and rng.random() < 0.4:
                    nc = self.shared_nested
                else:
                    nc = Cont(self._pname("NEST"), abstract=False)
                    self._body(nc, rng.randrange(1, 3))
                    self._align(nc)
                    self.all.append(nc)
                    if self.shared_nested is None:
                        self.shared_nested = nc
                if nc is not c and not any(e[0] == "c" and e[1] is nc for e in c.entries):
                    c.entries.append(("c", nc))
                    if nc is self.shared_nested and rng.random() < 0.35 and c.name.startswith("C"):
                        # a diamond: the shared block is also reached through a sibling wrapper (and sometimes listed twice),
                        # i.e. the same container is expanded more than once within one container
                        wrap = Cont(self._pname("NEST"), abstract=False)
                        wrap.entries.append(("c", nc))
                        self.all.append(wrap)
                        c.entries.append(("c", wrap))
                        if rng.random() < 0.3:
                            c.entries.append(("c", nc))
            elif r < 0.22:
                # length byte + dependent binary/string field
                ln = self._pname("LEN")
                c.entries.append(("p", ln, self.types["U4_T"]))
                fn = self._pname("DYN")
                kind = rng.choice(["bin", "str", "binraw", "strraw"])
                tn = f"{fn}_T"
                adj = ["8", "0"]
                if rng.random() < 0.12:
                    adj = ["0", rng.choice(["16", "8", "24"])]     # intercept only: a constant length whatever LEN says
                if self.neg_lengths and rng.random() < 0.5:
                    adj = rng.choice([["8", "-16"], ["-8", "16"], ["1", "-3"], ["8", "-8"]])
                if self.adj_pool and rng.random() < 0.7:
                    adj = list(rng.choice(self.adj_pool))
                sizes = None
                if rng.random() < 0.3:
                    # the length is looked up from criteria on the length field (entries of value 0 and of a length that is
                    # not a whole number of bytes included; a later entry overlaps an earlier one)
                    from harness.props import c06
                    sizes = {0: 0, 1: 8, 2: 16, 3: 12, 4: 32}
                    num = (lambda v: f"f{v}/1") if rng.random() < 0.7 else (lambda v: f"i{v}")
                    dls = [["dl", [c06.cmp_sx(ln, "==", str(k), True)], num(v)] for k, v in sizes.items()]
                    dls.append(["dl", [c06.cmp_sx(ln, ">=", "3", True), c06.cmp_sx(ln, "<=", "9", True)], num(40)])
                    if kind in ("str", "strraw"):
                        se = ["str", S("ISO-8859-1"), "-", "-", dls, "1", "-", "-", "-", "-"]
                    else:
                        se = ["bin", "-", "-", "1", dls, "-"]
                    adj = ["1", "0"]
                elif kind in ("str", "strraw"):
                    se = ["str", S("ISO-8859-1"), "-", S(ln), "-", B(kind == "str"), adj, "-", "-", "-"]
                else:
                    se = ["bin", "-", S(ln), B(kind == "bin"), "-", adj]
                pt = PT(tn, ["pt", S(tn), "plain", se], None, None, dyn=ln)
                pt.adj = (int(adj[0]), int(adj[1]))
                pt.sizes = sizes
                c.entries.append(("p", fn, pt))
            elif r < 0.3:
                # context-calibrated byte depending on an earlier control field
                sel = self._pname("MODE")
                c.entries.append(("p", sel, self.types["U2_T"]))
                fn = self._pname("CTX")
                from harness.props import c06
                ctx = [["ctx", [c06.cmp_sx(sel, "==", "1", True)], ["poly", [fnum(10), "0"], [fnum(2), "1"]]],
                       ["ctx", [c06.cmp_sx(sel, ">=", "1", True), c06.cmp_sx(fn, "<", "128", False)],
                        ["poly", [fnum(Fraction(1, 4)), "1"]]]]
                if rng.random() < 0.3:
                    # the context given as a boolean expression instead of a comparison
                    be = rng.choice([c06.cond_sx(sel, "==", None, "1", True, False),
                                     ["and", [c06.cond_sx(sel, ">=", None, "1", True, False),
                                              c06.cond_sx(sel, "<", None, "2", True, False)], []]])
                    ctx[0] = ["ctx", [["bexpr", be]], ctx[0][2]]
                default = "-" if rng.random() < 0.5 else ["poly", [fnum(-1), "0"], [fnum(1), "1"]]
                tn = f"{fn}_T"
                if self.wide_ctx and rng.random() < 0.3:
                    # a 64-bit field that only a context calibrates (to a constant): its column mixes floats with integers
                    # beyond 2^53
                    pt = PT(tn, ["pt", S(tn), "plain", ["int", "64", S("unsigned"), S(MSB),
                                                         ["-", [["ctx", [c06.cmp_sx(sel, "==", "1", True)], ["poly", [fnum(5), "0"]]]]]]],
                            64, lambda rng, cv=None: "0001" + rbits(rng, 59) + "1")
                    c.entries.append(("p", fn, pt))
                    continue
                pt = PT(tn, ["pt", S(tn), rng.choice(["plain", "plain", "bool"]),
                             ["int", "8", S("unsigned"), S(MSB), [default, ctx]]], 8,
                        # raw values recur across packets (under different contexts): results must not depend on history
                        lambda rng, cv=None: rng.choice(["00000000", "01000000", "11001000"]) if rng.random() < 0.6
                        else rbits(rng, 8))
                c.entries.append(("p", fn, pt))
            else:
                t = self.types[rng.choice(tnames)]
                c.entries.append(("p", self._pname(), t))

    def _align(self, c):
        """Pad the container's own entries to a whole number of bytes (so that steered packets can be clean)."""
        if self.rng.random() < 0.15:
            return
        w = 0
        for e in c.entries:
            if e[0] == "p" and e[2].width is not None:
                w += e[2].width
        k = -w % 8
        if k:
            tn = f"PAD{k}_T"
            if tn not in self.types:
                self.types[tn] = PT(tn, ["pt", S(tn), "plain", ["bin", str(k), "-", "1", "-", "-"]], k,
                                    lambda rng, c=None, k=k: rbits(rng, k))
            c.entries.append(("p", self._pname("PAD"), self.types[tn]))

    def _grow(self, c, depth, max_depth, fanout, selector):
        rng = self.rng
        if depth > 0 or rng.random() < 0.3:
            self._body(c, rng.randrange(0, 5))
        nchild = 0
        if depth < max_depth:
            nchild = rng.randrange(0, fanout + 1) if depth > 0 else rng.randrange(1, fanout + 2)
        if nchild == 0:
            self._align(c)
            return
        # the selector the children are distinguished on: the APID at the top, else a fresh small field of this container
        if depth > 0:
            sel = self._pname("SEL")
            self_enum = rng.random() < 0.25
            c.entries.append(("p", sel, self.types["SELE_T" if self_enum else "U3_T"]))
            selector = (sel, 3, self_enum)
        self._align(c)
        c.selector = selector
        from harness.props import c06
        vals = rng.sample(range(1, 1 << min(selector[1], 6)), nchild)
        for i in range(nchild):
            ch = Cont(self._pname("C"), abstract=rng.random() < 0.3, base=c.name)
            k = vals[i]
            style = rng.random()
            if len(selector) > 2 and selector[2]:
                # an enumerated selector: the label when the calibrated value is compared, the number when the raw one is
                uc = rng.random() < 0.5
                ch.criteria = [c06.cmp_sx(selector[0], "==", f"S{k}" if uc else str(k), uc)]
            elif style < 0.7:
                # the literal is text that *denotes* the number (leading zero, sign, blanks are all `int()`-readable), and
                # the operator comes in either spelling
                lit = rng.choice([str(k)] * 5 + [f"0{k}", f"+{k}", f" {k} ", f"00{k}"])
                ch.criteria = [c06.cmp_sx(selector[0], rng.choice(["==", "==", "eq"]), lit, rng.random() < 0.8)]
            elif style < 0.8:
                ch.criteria = [c06.cmp_sx(selector[0], rng.choice([">=", "geq", "&gt;="]), str(k), True),
                               c06.cmp_sx(selector[0], rng.choice(["<=", "leq", "&lt;="]), str(k), True)]
            elif style < 0.9:
                ch.criteria = [["bexpr", ["or", [c06.cond_sx(selector[0], rng.choice(["==", "eq"]), None,
                                                             rng.choice([str(k), str(k), f" {k}", f"{k} "]), True, False)],
                                          [["and", [c06.cond_sx(selector[0], rng.choice([">=", "geq"]), None, str(k), True, False),
                                                    c06.cond_sx(selector[0], rng.choice(["<", "lt"]), None, str(k + 1), True, False)], []]]]]]
            else:
                # deliberately overlapping with a sibling now and then
                ch.criteria = [c06.cmp_sx(selector[0], ">=", str(k), True)]
            if self.rich and not (len(selector) > 2 and selector[2]) and rng.random() < 0.35:
                # parameter-versus-parameter conditions with independent raw/calibrated selectors, nested both ways
                other = rng.choice(["VERSION", "TYPE", "SEQ_FLGS", "SRC_SEQ_CTR"])
                pp = lambda: c06.cond_sx(selector[0], rng.choice(["==", "!=", "<", ">="]), other, None,  # noqa: E731
                                         rng.random() < 0.5, rng.random() < 0.5)
                # (the literal of a Condition is character data: blanks around it belong to it)
                lit = c06.cond_sx(selector[0], "==", None, rng.choice([str(k), str(k), f" {k} ", f"{k}  "]),
                                  rng.random() < 0.5, False)
                ch.criteria = [rng.choice([
                    ["bexpr", pp()],
                    ["bexpr", ["and", [lit, pp()], [["or", [pp(), lit], []]]]],
                    ["bexpr", ["or", [pp()], [["and", [lit, pp()], [["or", [lit, pp()], []]]]]]],
                    # several nested groups of one kind side by side (CNF / DNF), groups made of sub-groups only
                    ["bexpr", ["and", [], [["or", [lit, pp()], []], ["or", [pp(), lit], []]]]],
                    ["bexpr", ["or", [], [["and", [lit, pp()], []], ["and", [pp()], []], ["and", [lit], []]]]],
                    ["bexpr", ["and", [lit], [["or", [], [["and", [lit, pp()], []], ["and", [pp(), lit], []]]]]]],
                    ["bexpr", ["or", [pp()], [["and", [], [["or", [lit], []], ["or", [pp(), pp()], []]]]]]],
                    # a literal that is the empty string (`<Value></Value>`)
                    ["bexpr", ["or", [lit], [["and", [c06.cond_sx(selector[0], "==", None, "", True, False)], []]]]],
                ])]
            ch.sel_value = k
            c.children.append(ch)
            self.all.append(ch)
            self._grow(ch, depth + 1, max_depth, fanout, selector)

    def sexpr(self):
        return ["def", S(self.root.name), [c.sexpr() for c in self.all]]

    # ---------------------------------------------------------------------------------------------
    def paths(self):
        """All root-to-node paths (lists of containers)."""
        out = []

        def walk(c, acc):
            acc = acc + [c]
            out.append(acc)
            for ch in c.children:
                walk(ch, acc)
        walk(self.root, [])
        return out

    def encode(self, path, mode="exact", seq=None):
        """Build a packet whose control fields steer along `path`.  mode: exact | short | long | deadend | random."""
        rng = self.rng
        ctrl = {}
        for parent, child in zip(path, path[1:]):
            ctrl[parent.selector[0]] = child.sel_value
        last = path[-1]
        if last.selector is not None and last.selector[0] not in ctrl:
            used = {ch.sel_value for ch in last.children}
            free = [v for v in range(0, 1 << min(last.selector[1], 6)) if v not in used]
            if mode == "deadend" or rng.random() < 0.7:
                ctrl[last.selector[0]] = 0 if 0 in free else (free[0] if free else 0)   # no child matches (mostly)
        if seq is not None:
            ctrl["SEQ_FLGS"], ctrl["SRC_SEQ_CTR"] = seq
        fields = []
        for c in path:
            fields.extend(c.flat())
        bits = ""
        values = {}
        for name, pt in fields:
            if pt.dyn is not None:
                L = values.get(pt.dyn, 0)
                nb = pt.adj[0] * L + pt.adj[1]
                if getattr(pt, "sizes", None) is not None:
                    nb = pt.sizes.get(L, 40 if 3 <= L <= 9 else 0)
                bits += rbits(rng, max(0, nb))
                continue
            cv = ctrl.get(name)
            if name.startswith("LEN") and cv is None:
                cv = rng.randrange(0, 5)
            b = pt.gen_bits(rng, cv) if pt.control else pt.gen_bits(rng)
            if pt.control and pt.width:
                values[name] = int(b, 2)
            bits += b
        if mode == "short":
            bits = bits[:max(56, len(bits) - rng.randrange(1, 24))]
        elif mode == "long":
            bits += rbits(rng, rng.randrange(1, 24))
        bits += "0" * (-len(bits) % 8)
        if len(bits) < 56:
            bits += "0" * (56 - len(bits))
        data = bytearray(int(bits, 2).to_bytes(len(bits) // 8, "big"))
        # the length field must describe the packet (framing), whatever the definition consumed
        ln = len(data) - 7
        data[4] = (ln >> 8) & 0xFF
        data[5] = ln & 0xFF
        return bytes(data)
