"""Running the definition-level packet generator and rendering its observable events."""
import io
import warnings

from harness.core import hx, unhx, parse_sx, sx, canon_exc
from harness import xser, xbuild

_cache = {}


def get_def(tok_sx):
    key = sx(tok_sx)
    if key not in _cache:
        if len(_cache) > 50:
            _cache.clear()
        _cache[key] = xbuild.definition(tok_sx)
    return _cache[key]


def classify_warning(w):
    m = str(w.message)
    if "without declaring the start" in m:
        return "W:nostart"
    if "are not in sequence" in m:
        return "W:seq"
    if "did not match the length of data available" in m:
        return "W:len"
    # a warning of the packet generator whose wording is not one of the three above (the wording is no property's
    # subject): it is counted, in its place, as a warning of unknown kind
    import os
    if issubclass(w.category, UserWarning) and os.path.basename(w.filename or "") == "definitions.py":
        return "W:?"
    return None      # other warnings (e.g. the 'nonsensical' comparison note) are not part of any property


def same_events(mo, io):
    """Model and implementation responses agree, `W:?` standing for a warning of any kind."""
    if mo == io:
        return True
    if "W:?" not in io:
        return False
    # `W:?` matches a warning the model expects at that place, or — a warning no property speaks of — nothing at all
    a, b = mo.split(" "), io.split(" ")
    i = 0
    for y in b:
        if y == "W:?":
            if i < len(a) and a[i].startswith("W:"):
                i += 1
            continue
        if i >= len(a) or a[i] != y:
            return False
        i += 1
    return i == len(a)


def opts_kw(o):
    pb, ho, cb, sh, yu = o
    return dict(parse_bad_pkts=pb == "1", ccsds_headers_only=ho == "1", combine_segmented_packets=cb == "1",
                secondary_header_bytes=int(sh), yield_unrecognized_packet_errors=yu == "1")


class GenRunner:
    """One real generator, advanced one `next()` at a time, recording events."""

    def __init__(self, defn, root, o, skip, data, cap=None, show_progress=False):
        self.defn, self.root = defn, root
        extra = {"show_progress": True} if show_progress else {}
        self.gen = defn.packet_generator(io.BytesIO(data), root_container_name=root, skip_header_bytes=skip, **opts_kw(o),
                                         **extra)
        self.events = []
        self.done = False
        self.cap = (len(data) // 7 + 3) if cap is None else cap

    def step(self):
        from space_packet_parser import packets
        from space_packet_parser.exceptions import UnrecognizedPacketTypeError
        if self.done:
            return
        with warnings.catch_warnings(record=True) as ws:
            warnings.simplefilter("always")
            try:
                item = next(self.gen)
                ev = None
            except StopIteration:
                self.done = True
                item = None
                ev = None
            except Exception as e:  # noqa: BLE001
                self.done = True
                item = None
                ev = "E:" + canon_exc(e).replace(" ", "-")
        for w in ws:
            c = classify_warning(w)
            if c:
                self.events.append(c)
        if ev:
            self.events.append(ev)
        elif item is not None:
            if isinstance(item, UnrecognizedPacketTypeError):
                self.events.append("U " + xser.show_pkt(item.partial_data))
                self.solo(item.partial_data, self.events[-1])
            elif isinstance(item, packets.CCSDSPacket):
                self.events.append("P " + xser.show_pkt(item))
                self.solo(item, self.events[-1])
            else:
                self.events.append("R " + hx(bytes(item)))
            if len([e for e in self.events if e[0] in "PUR"]) > self.cap:
                self.events.append("nonterm")
                self.done = True

    def solo(self, pkt, shown):
        """The property's own reference: parsing the yielded packet's raw data on its own (twice, from the very raw-data
        object the generator handed out) gives what the generator yielded."""
        from space_packet_parser import packets
        from space_packet_parser.exceptions import UnrecognizedPacketTypeError
        for _ in range(2):
            with warnings.catch_warnings():
                warnings.simplefilter("ignore")
                try:
                    again = self.defn.parse_ccsds_packet(packets.CCSDSPacket(raw_data=pkt.raw_data),
                                                         root_container_name=self.root)
                    s = "P " + xser.show_pkt(again)
                except UnrecognizedPacketTypeError as e:
                    s = "U " + xser.show_pkt(e.partial_data)
                except Exception as e:  # noqa: BLE001
                    s = "E:" + canon_exc(e).replace(" ", "-")
            if s != shown:
                self.events.append("solo-parse-differs")
                return

    def drain(self):
        while not self.done:
            self.step()


def gen_line(dsx, root, o, skip, chunks):
    return f"gen {dsx} {root} {sx(list(o))} {skip} {sx([hx(c) for c in chunks])}"


def run_gen(line):
    t = parse_sx(line)
    defn = get_def(t[1])
    root = None if t[2] == "-" else xbuild.uS(t[2])
    data = b"".join(unhx(c) for c in t[5])
    before = sx(xser.definition(defn))
    r = GenRunner(defn, root, t[3], int(t[4]), data)
    r.drain()
    if sx(xser.definition(defn)) != before:
        return "err definition-mutated"
    if len(data) <= 600:
        # a display option changes nothing that is yielded, warned about or raised (the display itself is discarded)
        import contextlib
        r2 = GenRunner(defn, root, t[3], int(t[4]), data, show_progress=True)
        with contextlib.redirect_stdout(io.StringIO()), contextlib.redirect_stderr(io.StringIO()):
            r2.drain()
        if r2.events != r.events:
            return "events" + "".join(" " + e for e in r.events) + " show_progress-changes-events"
    return "events" + "".join(" " + e for e in r.events)


def split_events(out):
    """Split an `events ...` response into a list of event token lists."""
    toks = out.split()
    assert toks[0] in ("events", "G"), out[:40]
    evs, cur = [], None
    for tk in toks[1:]:
        if tk in ("P", "U", "R") or tk.startswith("W:") or tk.startswith("E:") or tk == "nonterm":
            cur = [tk]
            evs.append(cur)
        else:
            cur.append(tk)
    return evs
