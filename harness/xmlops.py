"""Implementation side of the XML operations: load / write-load cycles on the real library."""
import io
import warnings

import lxml.etree as ET

from harness.core import sx, parse_sx
from harness import xser, xbuild, xmlutil
from harness.xbuild import uS

FIXED_DATE = "2024-01-01T00:00:00"


def load_text(xml, prefix, root):
    from space_packet_parser.xtce import definitions
    with warnings.catch_warnings():
        warnings.simplefilter("ignore")
        return definitions.XtcePacketDefinition.from_xtce(io.BytesIO(xml), xtce_ns_prefix=prefix, root_container_name=root)


def identity_ok(d):
    """Every name denotes one object, and every reference is to that same object (Python `is`)."""
    from space_packet_parser.xtce import containers as cont
    for c in d.containers.values():
        if d.containers.get(c.name) is not c:
            return False
        for e in c.entry_list:
            if isinstance(e, cont.SequenceContainer):
                if d.containers.get(e.name) is not e:
                    return False
            else:
                if d.parameters.get(e.name) is not e:
                    return False
                if d.parameter_types.get(e.parameter_type.name) is not e.parameter_type:
                    return False
    for p in d.parameters.values():
        if d.parameter_types.get(p.parameter_type.name) is not p.parameter_type:
            return False
    return True


def load_path(xml, prefix, root, path):
    """Load through a file at `path` (rewritten for every load): the package-level `load_xml` when the arguments are the
    defaults it uses, else `from_xtce` given the path."""
    import space_packet_parser
    from space_packet_parser.xtce import definitions
    with open(path, "wb") as fh:
        fh.write(xml)
    with warnings.catch_warnings():
        warnings.simplefilter("ignore")
        if prefix == "xtce" and root == "CCSDSPacket":
            return space_packet_parser.load_xml(path)
        return definitions.XtcePacketDefinition.from_xtce(path, xtce_ns_prefix=prefix, root_container_name=root)


def mix_prefixes(xml, nsmap, prefix):
    """When the namespace map binds a second prefix `alt` to the document's XTCE namespace, some kinds of element are
    spelled with it (chosen from the text, so the same request always gives the same text): one namespace, two prefixes in
    one document. lxml serialises with one prefix per namespace, hence the textual step."""
    main = nsmap.get(prefix)
    if "alt" not in nsmap or main is None or nsmap["alt"] != main:
        return xml
    import random, zlib
    rng = random.Random(zlib.crc32(xml))
    pre = (prefix + ":") if prefix else ""
    names = ["SequenceContainer", "Parameter", "IntegerParameterType", "Comparison", "EntryList", "ParameterRefEntry",
             "IntegerDataEncoding", "BaseContainer", "EnumeratedParameterType", "Term", "ContainerSet", "ParameterSet",
             "RestrictionCriteria", "Enumeration", "LongDescription"]
    for nm in rng.sample(names, rng.randrange(2, 7)):
        for a, b in ((f"<{pre}{nm} ", f"<alt:{nm} "), (f"<{pre}{nm}>", f"<alt:{nm}>"), (f"<{pre}{nm}/>", f"<alt:{nm}/>"),
                     (f"</{pre}{nm}>", f"</alt:{nm}>")):
            xml = xml.replace(a.encode(), b.encode())
    return xml


def impl_load(line, path=None):
    t = parse_sx(line)
    prefix = None if t[1] == "-" else uS(t[1])
    nsmap = xmlutil.parse_nsmap(t[2])
    root = uS(t[3])
    xml = mix_prefixes(xmlutil.to_text(t[4], nsmap), nsmap, prefix)
    try:
        d = load_text(xml, prefix, root) if path is None else load_path(xml, prefix, root, path)
    except RecursionError:
        return "err"
    except Exception:  # noqa: BLE001 - every exception is "rejected at load"
        return "err"
    if not identity_ok(d):
        return "err identity"
    return "ok " + sx(xser.ldef(d))


def write_bytes(d):
    with warnings.catch_warnings():
        warnings.simplefilter("ignore")
        return ET.tostring(d.to_xml_tree(), pretty_print=True, xml_declaration=True, encoding="utf-8")


def cycle(d, prefix, root, loaded=False):
    """write, load, write, load, write on the real library; mirrors Driver.cycle."""
    snap = sx(xser.ldef(d))
    try:
        g1 = write_bytes(d)
    except Exception:  # noqa: BLE001
        return "err write1"
    again = write_bytes(d)
    notes = ""
    if again != g1:
        notes += " nondeterministic-write"
    if sx(xser.ldef(d)) != snap:
        notes += " definition-altered-by-write"
    # the file-writing entry point produces the same document, for a path given as `str` or as `Path`
    import tempfile, pathlib, os
    with tempfile.TemporaryDirectory() as td:
        for arg in (os.path.join(td, "a.xml"), pathlib.Path(td) / "b.xml"):
            try:
                with warnings.catch_warnings():
                    warnings.simplefilter("ignore")
                    d.write_xml(arg)
                with open(arg, "rb") as fh:
                    # same document (canonical form: the file writer may differ in the trailing newline only)
                    if ET.tostring(ET.fromstring(fh.read()), method="c14n") != ET.tostring(ET.fromstring(g1), method="c14n"):
                        notes += " write_xml-differs"
            except Exception as e:  # noqa: BLE001
                notes += f" write_xml-failed:{type(arg).__name__}:{type(e).__name__}"
    # the same for an undated definition (its header date comes from the clock at write time, so only the object
    # is looked at, never the bytes)
    keep = d.date
    try:
        d.date = None
        snap0 = sx(xser.ldef(d))
        d.to_xml_tree()
        if sx(xser.ldef(d)) != snap0:
            notes += " definition-altered-by-write"
    except Exception:  # noqa: BLE001
        notes += " undated-write-failed"
    finally:
        d.date = keep
    t1, _ = xmlutil.text_to_sx(g1)
    t1 = xmlutil.sort_attrs(t1)
    try:
        d2 = load_text(g1, prefix, root)
    except Exception:  # noqa: BLE001
        return "err load1 " + sx(t1)
    try:
        g2 = write_bytes(d2)
    except Exception:  # noqa: BLE001
        return "err write2"
    try:
        d3 = load_text(g2, prefix, root)
    except Exception:  # noqa: BLE001
        return "err load2"
    try:
        g3 = write_bytes(d3)
    except Exception:  # noqa: BLE001
        return "err write3"
    if g2 != g3:
        notes += " bytes-differ-G2-G3"
    if loaded and g1 != g2:
        # `d` came from a document: G1 is that document after one cycle, and the next cycle must reproduce it
        notes += " bytes-differ-G1-G2"
    t2, _ = xmlutil.text_to_sx(g2)
    t3, _ = xmlutil.text_to_sx(g3)
    t2, t3 = xmlutil.sort_attrs(t2), xmlutil.sort_attrs(t3)
    # well-formedness and namespace of every element of G1
    uri = (d.ns or {}).get(d.xtce_ns_prefix) if d.ns else None
    for el in ET.fromstring(g1).iter():
        if isinstance(el.tag, str) and ET.QName(el).namespace != uri:
            notes += " element-outside-namespace"
            break
    return (f"ok G1 {sx(t1)} D2 {sx(xser.ldef(d2))} G2 {sx(t2)} D3 {sx(xser.ldef(d3))} G3 {sx(t3)}" + notes)


def impl_cyclexml(line):
    t = parse_sx(line)
    prefix = None if t[1] == "-" else uS(t[1])
    nsmap = xmlutil.parse_nsmap(t[2])
    root = uS(t[3])
    xml = xmlutil.to_text(t[4], nsmap)
    try:
        d = load_text(xml, prefix, root)
    except Exception:  # noqa: BLE001
        return "err load0"
    return "D1 " + sx(xser.ldef(d)) + " " + cycle(d, prefix, root, loaded=True)
