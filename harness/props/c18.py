"""C18 — the xarray dataset holds every parsed value, per APID, in order, without loss."""
import os
import tempfile
import warnings

from harness.core import hx, unhx, parse_sx, sx
from harness import xser, xbuild, defgen, genutil
from harness.xser import V

ID = "C18"
REQUIRED_THEOREMS = ["rows_per_apid", "create_rows", "alignRow_by_name", "alignRow_self", "rejects_mixed", "fits_unsigned", "fits_signed", "enum_is_str",
                     "rep_of_decode", "ieee_fits", "mil_fits"]
RULE = ("requests `dataset <definition> <raw 0|1> ((file1 chunks) (file2 chunks) ...)`: definitions with one fixed layout "
        "per APID covering every parameter type and encoding, interleaved multi-APID streams split over 1..3 files, value "
        "extremes of each encoding (all-zeros, all-ones, sign bit), raw and derived modes, plus streams whose packets of one "
        "APID differ in field set; every cell of the real xarray dataset (dtype and value) is compared with the parsed "
        "value; non-trivial = at least two rows; distinct = distinct request line")
ASSUMPTIONS = ["numpy.asarray / xarray.Dataset are outside the model: the model states which dtype is requested and that each "
               "cell must equal the parsed value; how numpy stores it is observed, not proved",
               "a None dtype (calibrated values) is taken to be inferred as float64"]
MODEL_IS_SPEC = True
PARALLEL = False


def is_trivial(line, mo):
    return not mo.startswith("dataset") or mo.count(" A ") < 1


def flat_def(rng):
    d = defgen.Defn(rng, apid_name=rng.choice(["PKT_APID", "APID"]), max_depth=1, fanout=3, wide_ctx=True)
    return d


def generate(rng, tier):
    ndefs = 72 if tier == "quick" else 6000
    # every kind of type is made to occur: definition i must use type WANT[i % len(WANT)] somewhere
    WANT = ["CALF32_T", "MIL_T", "F32_T", "F64_T", "F16LE_T", "S32LE_T", "S8_T", "S12_T", "ENUM_T", "BOOL_T", "U32_T", "OC16_T", "SM8_T",
            "U33_T", "U64_T", "S64_T", "S48LE_T", "U72_T", "BOOLSTR_T", "BIN64_T", "BIN72_T", "BIN12_T", "BIN20_T"]
    for i in range(ndefs):
        want = xser.S(WANT[i % len(WANT)])
        for _ in range(60):
            d = flat_def(rng)
            dsx = sx(d.sexpr())
            if want in dsx:
                break
        leaves = [p for p in d.paths() if len(p) == 2] or d.paths()
        for raw in ("0", "1"):
            for _ in range(2 if tier == "quick" else 4):
                nfiles = rng.randrange(1, 4)
                files = []
                for _ in range(nfiles):
                    pk = [d.encode(rng.choice(leaves), "exact") for _ in range(rng.randrange(1, 7))]
                    if rng.random() < 0.3:
                        # a file that ends in a cut-off packet: the remainder belongs to no row, and not to the next file
                        extra = d.encode(rng.choice(leaves), "exact")
                        pk.append(extra[:rng.randrange(1, len(extra))])
                    files.append([hx(b"".join(pk))])
                yield f"dataset {dsx} {raw} {sx(files)}", f"{'raw' if raw == '1' else 'derived'}-{nfiles}files"
    # packets of one APID with the same field *set* in another order (two sibling containers listing the same parameters
    # the other way round) are one field set: accepted, each value in the column of its parameter
    made = 0
    for _ in range(400):
        if made >= (6 if tier == "quick" else 150):
            break
        d = defgen.Defn(rng, max_depth=2, fanout=3)
        cand = [c for c in d.all if len(c.children) >= 2 and all(not ch.children for ch in c.children[:2]) and c is not d.root]
        if not cand:
            continue
        par = rng.choice(cand)
        a, b = par.children[0], par.children[1]
        plain = [e for e in a.entries if e[0] == "p" and e[2].dyn is None and not e[2].control and not e[1].startswith("LEN")]
        if len(plain) < 2 or len(plain) != len(a.entries) or len({e[1] for e in plain}) < 2:
            continue
        b.entries = list(reversed(a.entries))
        pa = [p for p in d.paths() if p[-1] is a][0]
        pb = [p for p in d.paths() if p[-1] is b][0]
        pk = [d.encode(rng.choice([pa, pb]), "exact") for _ in range(rng.randrange(3, 7))] + [d.encode(pb, "exact"), d.encode(pa, "exact")]
        made += 1
        yield f"dataset {sx(d.sexpr())} {rng.choice('01')} {sx([[hx(b''.join(pk))]])}", "same-set-other-order"
    # streams whose packets of one APID differ in field set must be rejected
    for _ in range(6 if tier == "quick" else 200):
        d = defgen.Defn(rng, max_depth=2, fanout=3)
        deep = [p for p in d.paths() if len(p) == 3]
        if not deep:
            continue
        p3 = rng.choice(deep)
        sib = [p for p in d.paths() if len(p) >= 2 and p[1] is p3[1] and p != p3]
        if not sib:
            continue
        pk = [d.encode(p3, "exact"), d.encode(rng.choice(sib), "exact")]
        yield f"dataset {sx(d.sexpr())} 0 {sx([[hx(b''.join(pk))]])}", "mixed-field-sets"


def canon_dtype(dt):
    if dt.kind == "S":
        return "bytes"
    if dt.kind == "U":
        return "str"
    return dt.name


def pyval(x):
    import numpy as np
    if isinstance(x, (bytes, np.bytes_)):
        return bytes(x)
    if isinstance(x, (str, np.str_)):
        return str(x)
    if isinstance(x, np.integer):
        return int(x)
    if isinstance(x, np.floating):
        return float(x)
    if isinstance(x, (int, float)):
        return x
    raise TypeError(type(x))


def infers_dtype(defn, name, raw):
    """No dtype is requested for this column (numpy infers one): a derived numeric column with calibrators. Decided from
    the definition's public attributes, not by asking the module's private helper."""
    from space_packet_parser.xtce import parameter_types, encodings
    pt = defn.parameters[name].parameter_type
    enc = pt.encoding
    if raw or isinstance(pt, parameter_types.EnumeratedParameterType):
        return False
    return isinstance(enc, encodings.NumericDataEncoding) and \
        (enc.context_calibrators is not None or enc.default_calibrator is not None)


def impl(line):
    from space_packet_parser import xarr
    t = parse_sx(line)
    defn = genutil.get_def(t[1])
    raw = t[2] == "1"
    with tempfile.TemporaryDirectory() as td:
        paths = []
        nf = len(t[3])
        for i, f in enumerate(t[3]):
            # names whose sorted order is not the order given (rows follow the order given)
            p = os.path.join(td, f"f{(nf - 1 - i) if nf > 1 else 0}_{'ba'[i % 2]}.bin")
            with open(p, "wb") as fh:
                fh.write(b"".join(unhx(c) for c in f))
            paths.append(p)
        # the documented argument forms: one path or several, `str` or `Path`; the definition as an object or as the
        # path of its XTCE document (only when the document reads back as the same definition — C09's subject)
        import pathlib, zlib
        h = zlib.crc32(line.encode())
        files_arg = paths if len(paths) > 1 or h % 2 else paths[0]
        if h % 3 == 0:
            files_arg = [pathlib.Path(p) for p in paths] if isinstance(files_arg, list) else pathlib.Path(files_arg)
        if h % 5 == 0 and isinstance(files_arg, list):
            # any iterable of paths is allowed, also a one-shot one
            files_arg = iter(files_arg) if h % 10 else (p for p in list(files_arg))
        def_arg = defn
        if h % 4 == 0:
            try:
                from space_packet_parser.xtce import definitions
                xp = os.path.join(td, "def.xml")
                with warnings.catch_warnings():
                    warnings.simplefilter("ignore")
                    defn.write_xml(pathlib.Path(xp))
                    back = definitions.XtcePacketDefinition.from_xtce(xp)
                if sx(xser.definition(back)) == sx(xser.definition(defn)):
                    def_arg = xp if h % 8 else pathlib.Path(xp)
            except Exception:  # noqa: BLE001
                def_arg = defn
        with warnings.catch_warnings():
            warnings.simplefilter("ignore")
            ds = xarr.create_dataset(files_arg, def_arg, use_raw_values=raw)
    out = "dataset"
    for apid, d in ds.items():
        out += f" A {apid} {d.sizes.get('packet', 0)}"
        for name in d.data_vars:
            arr = d[name].values
            if infers_dtype(defn, name, raw):
                # no dtype requested: numpy infers a numeric one; compare the cells numerically
                out += f" V {xser.S(name)} infer" + "".join(" " + V(float(pyval(x))) for x in arr)
            else:
                out += f" V {xser.S(name)} {canon_dtype(arr.dtype)}" + "".join(" " + V(pyval(x)) for x in arr)
    return out


def cells(out):
    """[(apid, name, dtype, [cell tokens])] from a `dataset ...` response."""
    toks = out.split()
    res, i, apid = [], 1, None
    while i < len(toks):
        if toks[i] == "A":
            apid = toks[i + 1]; i += 3
        elif toks[i] == "V":
            name, dt = toks[i + 1], toks[i + 2]; i += 3
            cs = []
            while i < len(toks) and toks[i] not in ("A", "V"):
                cs.append(toks[i]); i += 1
            res.append((apid, name, dt, cs))
        else:
            i += 1
    return res


# --- recorded findings (open): predicates over the request, the model's (lossless) answer and the observed one --------
def _diff_columns(mo, io):
    """dtypes of the columns in which the two answers differ (None if the answers are not comparable)."""
    if not mo.startswith("dataset") or not io.startswith("dataset"):
        return None
    a, b = cells(mo), cells(io)
    if [(x[0], x[1]) for x in a] != [(x[0], x[1]) for x in b]:
        return None
    return [(x[2], x[3], y[2], y[3]) for x, y in zip(a, b) if x != y]


def _stripped(c):
    while len(c) > 1 and c.endswith("00"):
        c = c[:-2]
    return c


def _rounded(a, b):
    """`b` is the double nearest to the exact number `a` (both `f<num>/<den>` tokens), and differs from it."""
    from fractions import Fraction
    import re
    ma, mb = re.fullmatch(r"f(-?\d+)/(\d+)", a), re.fullmatch(r"f(-?\d+)/(\d+)", b)
    if not ma or not mb:
        return False
    fa, fb = Fraction(int(ma.group(1)), int(ma.group(2))), Fraction(int(mb.group(1)), int(mb.group(2)))
    return fa != fb and fa.denominator == 1 and abs(fa) > 2 ** 53 and Fraction(float(fa)) == fb


def explain(line, mo, io):
    """Names of the recorded findings that together account for *every* difference between the lossless answer and the
    observed dataset; None when some difference is not covered (then it is a new violation)."""
    rawmode = " 1 ((" in line
    if rawmode and "(str " in line and io.startswith("err value") and mo.startswith("dataset"):
        return {"raw_string_as_str"}       # UnicodeDecodeError while converting raw bytes into a 'str' column
    if io.startswith("err other") and mo.startswith("dataset"):
        # an integer beyond the widest numpy integer in an (u)int64 column
        for _apid, _name, dt, cs in cells(mo):
            if dt in ("uint64", "int64") and any(c.startswith("i") and not (-2 ** 63 <= int(c[1:]) < 2 ** 64) for c in cs):
                return {"wide_int_overflow"}
        return None
    d = _diff_columns(mo, io)
    if not d:
        return None
    names = set()
    for mdt, mc, idt, ic in d:
        if mdt != idt or len(mc) != len(ic):
            return None
        for a, b in zip(mc, ic):
            if a == b:
                continue
            if mdt in ("bytes", "str") and _stripped(a) == b:
                names.add("nul_stripping")
            elif mdt == "infer" and _rounded(a, b):
                names.add("mixed_column_rounding")
            elif mdt in ("str", "bytes") and a in ("i0", "i1") and b in ("s" + "True".encode().hex(), "s" + "False".encode().hex(),
                                                                             "x" + b"True".hex(), "x" + b"False".hex()):
                names.add("bool_on_text_encoding")
            elif rawmode and mdt == "str" and a.startswith("x") and b.startswith("s") and \
                    (a[1:] == b[1:] or _stripped(a)[1:] == b[1:]):
                names.add("raw_string_as_str")
                if a[1:] != b[1:]:
                    names.add("nul_stripping")
            else:
                return None
    return names or None


KNOWN_PREDICATES = {}


def in_domain(line):
    return True
