"""C14 — bit consumption is accounted for; over-reads are never delivered as clean data."""
from harness.core import hx, unhx, parse_sx, sx
from harness import xser, xbuild, defgen, genutil

ID = "C14"
REQUIRED_THEOREMS = ["cursor_sum", "monotone", "monotone_path", "negative_length_fails", "binary_past_end_fails",
                     "clean_iff", "mismatch_flagged", "overread_flagged", "exception_not_delivered"]
RULE = ("requests `gen <definition> - <opts> 0 (<packet>)` and `rbytes/rint` with negative widths; definitions with fixed "
        "and length-dependent layouts (linear adjustments incl. negative slope/intercept) x packets shorter than / equal "
        "to / longer than what the definition consumes x both settings of parse_bad_pkts; non-trivial = the packet is "
        "parsed to the end of a container path (delivered, flagged or failed); distinct = distinct request line")
ASSUMPTIONS = ["warnings are classified by a fixed substring of their message"]
MODEL_IS_SPEC = False

responses_agree = genutil.same_events


def is_trivial(line, mo):
    return mo in ("events", "err value") and not line.startswith("r")


def generate(rng, tier):
    ndefs = 80 if tier == "quick" else 2500
    for i in range(ndefs):
        d = defgen.Defn(rng, max_depth=rng.choice([1, 2, 3]), fanout=3, neg_lengths=True)
        dsx = sx(d.sexpr())
        paths = d.paths()
        if len(paths) > 25:
            paths = rng.sample(paths, 25)
        for path in paths:
            for mode in ("exact", "short", "long"):
                pkt = d.encode(path, mode)
                o = (rng.choice("01"), "0", "0", "0", rng.choice("01"))
                yield genutil.gen_line(dsx, "-", o, 0, [pkt]), f"{mode}"
            # several packets of the same structure (same APID) in one stream: each is flagged / withheld on its own
            pk = [d.encode(path, rng.choice(["exact", "short", "long", "long"])) for _ in range(rng.randrange(2, 6))]
            yield genutil.gen_line(dsx, "-", (rng.choice("01"), "0", "0", "0", "0"), 0, [b"".join(pk)]), "multi"
    # the two read primitives reject negative widths (the cursor can never be rewound)
    for _ in range(60):
        buf = rng.randbytes(rng.randrange(0, 6))
        p = rng.randrange(0, 8 * len(buf) + 9)
        n = -rng.randrange(1, 40)
        yield f"{rng.choice(['rint', 'rbytes'])} {hx(buf)} {p} {n}", "negative-read"
    # bytes reads that would end beyond the buffer are refused, aligned or not
    for _ in range(120):
        buf = rng.randbytes(rng.randrange(0, 6))
        p = rng.choice([0, 8, 16, 24]) if rng.random() < 0.5 else rng.randrange(0, 8 * len(buf) + 9)
        n = max(0, 8 * len(buf) - p) + (8 * rng.randrange(1, 4) if rng.random() < 0.6 else rng.randrange(1, 30))
        yield f"rbytes {hx(buf)} {p} {n}", "bytes-past-end"


def impl(line):
    if line.startswith("r"):
        from harness.props import c03
        return c03.impl(line)
    return genutil.run_gen(line)


def widths(defsx):
    """name -> function(items) -> width in bits, for every parameter of the definition."""
    out = {}
    seen = {}

    def ent(e, owner=None):
        if e[0] == "p":
            name = xbuild.uS(e[1]); enc = e[2][3]
            if enc[0] in ("int", "float"):
                out[name] = lambda its, n=int(enc[1]): n
            else:
                fixed, ref, uc, adj = (enc[2], enc[3], enc[5], enc[6]) if enc[0] == "str" else (enc[1], enc[2], enc[3], enc[5])
                if fixed != "-" and int(fixed) != 0:
                    out[name] = lambda its, n=int(fixed): n
                elif ref != "-":
                    def f(its, ref=xbuild.uS(ref), uc=uc, adj=adj):
                        cls, val, raw = its[ref]
                        v = xbuild.uV(val if uc == "1" else raw)
                        return v if adj == "-" else int(adj[0]) * v + int(adj[1])
                    out[name] = f
                else:
                    out[name] = None
        else:
            seen.setdefault(xbuild.uS(e[1]), set()).add(owner)
            for x in e[6]:
                ent(x, xbuild.uS(e[1]))
    for c in defsx[2]:
        for e in c[6]:
            ent(e, xbuild.uS(c[1]))
    # a parameter reachable through two different parents (a shared nested container) may be decoded twice in one
    # packet; the dictionary then shows it once and the width sum is not recoverable from the items
    out["__shared__"] = any(len(v) > 1 for v in seen.values())
    return out


def oracle(line, out):
    """Direct check: a packet is delivered without the warning exactly when the widths of its decoded fields sum to
    its length; a negative computed width is never delivered at all."""
    if line.startswith("r"):
        op, d, p, n = line.split()
        if int(n) < 0 or (op == "rbytes" and int(p) + int(n) > 4 * (len(d) - 1)):
            return out == "err value"
        return None
    t = parse_sx(line)
    if not out.startswith("events"):
        return None
    w = widths(t[1])
    if w.get("__shared__"):
        return None
    if "W:?" in out:
        return None          # a warning whose wording is not recognised (the model comparison decides)
    evs = genutil.split_events(out)
    prev_warn = False
    for ev in evs:
        if ev[0] == "W:len":
            prev_warn = True
            continue
        if ev[0] == "P":
            pos, raw, n = int(ev[1]), unhx(ev[2]), int(ev[3])
            its = {}
            total = 0
            for tok in ev[4:4 + n]:
                name, cls, val, rawv = tok.split("|")
                its[xbuild.uS(name)] = (cls, val, rawv)
                f = w.get(xbuild.uS(name))
                if f is None:
                    return None
                wd = f(its)
                if wd != int(wd) or wd < 0:
                    return False            # a negative / fractional width was delivered
                total += int(wd)
            # with bad packets excluded a warning belongs to a withheld packet, never to the packet that follows it
            clean = (not prev_warn) or t[3][0] == "0"
            if clean != (total == 8 * len(raw)):
                return False
            if pos != total:
                return False                # cursor is not the sum of the decoded widths
        prev_warn = False
    return True


def in_domain(line):
    return True
