"""C20 — parsed values are drop-in built-ins with a raw value and survive copying."""
import copy
import math
import operator
import pickle

from harness.core import hx, unhx, parse_sx, sx
from harness import xser, xbuild
from harness.xser import S, V

ID = "C20"
REQUIRED_THEOREMS = ["raw_default", "raw_kept", "raw_falsy_examples", "value_copy", "packet_copy", "copy_idempotent"]
RULE = ("requests `mkparam <cls> <value> <raw|->`, `copyparam ... <how>`, `copypkt <items> <data> <pos> <how>` with how in "
        "{copy, deepcopy, pickle0..pickle5; for packets also their own .copy() method}, and `like <cls> <value> <raw|->` (a fixed table of ~60 operations — ==, !=, <, "
        "hash, bool, str/format, arithmetic, container membership, isinstance — applied to the parameter object and to the "
        "plain built-in); values of all five classes incl. 0, negative, huge, NaN, infinities, empty and non-ASCII strings "
        "and byte strings, falsy raw values; non-trivial = every request; distinct = distinct request line")
ASSUMPTIONS = ["`like` is decided on the real classes only: in a value model a parameter *is* its value, so the model answers "
               "`same` by construction", "copyreg's reconstruction protocol (cls.__new__ then __dict__ update) is as modelled"]
MODEL_IS_SPEC = True
HOWS = ["copy", "deepcopy"] + [f"pickle{i}" for i in range(6)]

VALUES = {
    "IntP": [0, 1, -1, 255, -2 ** 63, 2 ** 70 + 3],
    "BoolP": [0, 1],
    "FloatP": [0.0, -0.0, 1.5, -2.25, 1e300, 5e-324, float("inf"), float("-inf"), float("nan")],
    "StrP": ["", "a", "ON", "héllo", "日本語", "x\x00y"],
    "BinP": [b"", b"\x00", b"ab\x00", b"\xff\xfe"],
}
RAWS = [None, 0, 1, -5, 0.0, 2.5, b"", b"\x01\x02", "", "raw"]


def is_trivial(line, mo):
    return False


def generate(rng, tier):
    for cls, vals in VALUES.items():
        for v in vals:
            for r in RAWS:
                rt = "-" if r is None else V(r)
                yield f"mkparam {cls} {V(v)} {rt}", "construct"
                yield f"like {cls} {V(v)} {rt}", "like-builtin"
                for how in (HOWS if tier == "thorough" else rng.sample(HOWS, 3)):
                    yield f"copyparam {cls} {V(v)} {rt} {how}", "copy-value"
    n = 300 if tier == "quick" else 60000
    for _ in range(n):
        items = []
        for k in range(rng.randrange(0, 9)):
            cls = rng.choice(list(VALUES))
            v = rng.choice(VALUES[cls]); r = rng.choice(RAWS)
            items.append([S(f"P{k}"), cls, V(v), V(v if r is None else r)])
        data = rng.randbytes(rng.randrange(0, 12))
        pos = rng.randrange(0, 8 * len(data) + 5)
        # `method` = the packet's own `copy()` (it is a dict): also a copy of the whole packet
        yield f"copypkt {sx(items)} {hx(data)} {pos} {rng.choice(HOWS + ['method'])}", "copy-packet"


def do_copy(obj, how):
    if how == "method":
        return obj.copy()
    if how == "copy":
        return copy.copy(obj)
    if how == "deepcopy":
        return copy.deepcopy(obj)
    return pickle.loads(pickle.dumps(obj, protocol=int(how[-1])))


def show_param(p):
    return f"ok {xser.CLS[type(p).__name__]} {V(p)} {V(p.raw_value)}"


def same(a, b):
    if isinstance(a, float) and isinstance(b, float) and math.isnan(a) and math.isnan(b):
        return True
    return isinstance(a, type(b)) and a == b      # an operation may hand back the (equal) subclass instance itself


def like_table(p, v):
    """Apply the operation table to the parameter object and to the plain value; return the first differing op."""
    others = [0, 1, -1, 2.5, "a", b"a", None] + ([] if v != v else [v])    # NaN: identity shortcuts would differ
    ops = []

    def t(name, f):
        ops.append((name, f))
    for o in others:
        for nm, fn in (("eq", operator.eq), ("ne", operator.ne), ("lt", operator.lt), ("le", operator.le),
                       ("gt", operator.gt), ("ge", operator.ge), ("add", operator.add), ("radd", lambda a, b: b + a),
                       ("mul", operator.mul), ("mod", operator.mod), ("contains", lambda a, b: b in [a])):
            t(f"{nm}:{o!r}", lambda x, fn=fn, o=o: fn(x, o))
    if v == v:
        t("hash", hash)            # hash(nan) is identity based since 3.10: two plain NaNs differ too
    t("bool", bool); t("format", lambda x: format(x, "")); t("fstring", lambda x: f"{x!s:>6}")
    for spec in (">5", "<3", "^7", "05", "d", "x", "b", ".2f", "e", "%", "s", ",", "+"):
        t(f"format:{spec}", lambda x, spec=spec: format(x, spec))
        t(f"strformat:{spec}", lambda x, spec=spec: ("{:" + spec + "}").format(x))
    t("percent-d", lambda x: "%d" % x); t("percent-s", lambda x: "%s" % x); t("percent-5.1f", lambda x: "%5.1f" % x)
    t("str", str)
    t("eq-self", lambda x: x == x); t("ne-self", lambda x: x != x); t("in-own-list", lambda x: [x].count(x))
    t("dictkey", lambda x: {x: 1}.get(v if v == v else x, "miss"))
    t("sorted", lambda x: sorted([x, v])[0] == sorted([v, v])[0] if v == v else True)
    t("neg", lambda x: -x); t("abs", abs); t("int", int); t("float", float); t("len", len)
    t("upper", lambda x: x.upper()); t("index0", lambda x: x[0:1]); t("round", round)
    for name, f in ops:
        try:
            a = ("ok", f(p))
        except Exception as e:  # noqa: BLE001
            a = ("exc", type(e).__name__)
        try:
            b = ("ok", f(v))
        except Exception as e:  # noqa: BLE001
            b = ("exc", type(e).__name__)
        if a[0] != b[0] or (a[0] == "exc" and a[1] != b[1]) or (a[0] == "ok" and not same(a[1], b[1])):
            return name
    return None


BUILTIN = {"IntP": int, "BoolP": int, "FloatP": float, "StrP": str, "BinP": bytes}


def impl(line):
    from space_packet_parser import common
    t = parse_sx(line)
    if t[0] in ("mkparam", "copyparam", "like"):
        C = {"IntP": common.IntParameter, "FloatP": common.FloatParameter, "StrP": common.StrParameter,
             "BinP": common.BinaryParameter, "BoolP": common.BoolParameter}[t[1]]
        v = xbuild.uV(t[2]); r = xbuild.optV(t[3])
        p = C(v) if r is None else C(v, r)
        if not isinstance(p, BUILTIN[t[1]]):
            return "err not-a-builtin-instance"
        if t[0] == "mkparam":
            return show_param(p)
        if t[0] == "copyparam":
            q = do_copy(p, t[4])
            if type(q) is not type(p):
                return "err class-changed"
            return show_param(q)
        plain = bool(v) if t[1] == "BoolP" else v
        d = like_table(p, plain)
        return "same" if d is None else f"differ:{d}"
    if t[0] == "copypkt":
        pkt = xbuild.packet(t[1], data=unhx(t[2]), pos=int(t[3]))
        _ = pkt.raw_data.apid if len(pkt.raw_data) >= 2 else None      # populate a cached property as real use does
        q = do_copy(pkt, t[4])
        if type(q) is not type(pkt) or type(q.raw_data) is not type(pkt.raw_data) or q is pkt:
            return "err class-changed"
        if list(q.items()) != list(pkt.items()) and not any(isinstance(x, float) and x != x for x in pkt.values()):
            return "err items-differ"
        shown = "ok " + xser.show_pkt(q)
        if t[4] != "copy" and t[4] != "method":
            # a deep copy / an unpickled packet is a packet of its own: moving its cursor leaves the original where it was
            before = pkt.raw_data.pos
            q.raw_data.pos = before + 8
            if pkt.raw_data.pos != before:
                return "err copy-shares-cursor"
        return shown
    raise ValueError(line)


def in_domain(line):
    return True
