"""C07 — string and binary fields, including computed lengths."""
import warnings
from fractions import Fraction

from harness.core import hx, unhx, parse_sx, sx
from harness import xser, xbuild
from harness.xser import S, B, V
from harness.props import c06

ID = "C07"
REQUIRED_THEOREMS = ["binary_value", "string_raw_buffer", "text_whole", "text_terminated", "text_leading", "size_fixed",
                     "size_reference_binary", "size_lookup_binary", "size_lookup_string", "cursor_binary", "cursor_string"]
RULE = ("requests `enc (str|bin ...) <packet> <pos> <items>`; all ten character encodings; buffer lengths 0..80 bits incl. "
        "non-multiples of 8 at offsets 0..7; three delimiters (whole buffer / termination bytes / leading size tag) x three "
        "length specifications (fixed / discrete lookup / parameter reference raw-or-calibrated with linear adjustment); "
        "referenced values 0,1,7,8,9,16,255, calibrated float references, lookup tables with 0-valued and overlapping "
        "entries; non-trivial = a value is produced; distinct = distinct request line")
ASSUMPTIONS = ["CPython's codecs are as modelled in lean/Spp/Model/Text.lean (validated on every run, plus a separate "
               "decoder stream of adversarial byte strings)", "UTF-16/UTF-32 without BE/LE suffix decode in the declared byteOrder (after fix in /repo)"]
MODEL_IS_SPEC = True
ENCODINGS = ['US-ASCII', 'ISO-8859-1', 'Windows-1252', 'UTF-8', 'UTF-16', 'UTF-16LE', 'UTF-16BE', 'UTF-32', 'UTF-32LE',
             'UTF-32BE']
PYCODEC = {'US-ASCII': 'ascii', 'ISO-8859-1': 'latin-1', 'Windows-1252': 'cp1252', 'UTF-8': 'utf-8', 'UTF-16': 'utf-16',
           'UTF-16LE': 'utf-16-le', 'UTF-16BE': 'utf-16-be', 'UTF-32': 'utf-32', 'UTF-32LE': 'utf-32-le',
           'UTF-32BE': 'utf-32-be'}


def is_trivial(line, mo):
    return not mo.startswith("ok")


def items_pool(rng):
    return [c06.P("LEN", "IntP", rng.choice([0, 1, 7, 8, 9, 16, 24, 255])),
            c06.P("CAL", "FloatP", rng.choice([8.0, 16.0, 16.5, 24.0, 0.0]), rng.choice([1, 2, 3, 16])),
            c06.P("M", "IntP", rng.choice([0, 1, 2]))]


def len_spec(rng):
    """(fixed, ref, usecal, lookup, adj) in the shared shape."""
    k = rng.choice(["fixed", "fixed", "ref", "ref", "lookup"])
    if k == "fixed":
        return str(rng.choice(list(range(0, 41)) + [48, 64, 72, 80])), "-", "1", "-", "-"
    if k == "ref":
        adj = rng.choice(["-", "-", ["8", "0"], ["1", "8"], ["1", "-8"], ["-1", "16"], ["2", "1"]])
        return "-", S(rng.choice(["LEN", "CAL", "MISSING"] if rng.random() < 0.1 else ["LEN", "CAL"])), \
            B(rng.random() < 0.6), "-", adj
    dls = [["dl", [c06.cmp_sx("M", rng.choice(["==", "!=", "<", ">="]), rng.choice(["0", "1", "2"]), True)
                   for _ in range(rng.randrange(1, 3))], V(rng.choice([0.0, 8.0, 16.0, 24.0, 8, 12.0]))]
           for _ in range(rng.randrange(0, 4))]
    return "-", "-", "1", dls, "-"


def sample_text(rng, enc):
    s = rng.choice(["A", "AB", "Hi!", "x\x00y", "é", "€", "日本", "𝄞", ""])
    try:
        b = s.encode(PYCODEC[enc])
    except UnicodeEncodeError:
        b = "AB".encode(PYCODEC[enc])
    return b


def generate(rng, tier):
    n = 2000 if tier == "quick" else 150000
    for _ in range(n):
        items = items_pool(rng)
        fixed, ref, uc, lk, adj = len_spec(rng)
        pos = rng.randrange(0, 12)
        data = rng.randbytes(rng.randrange(0, 14))
        e = ["bin", fixed, ref, uc, lk, adj]
        yield f"enc {sx(e)} {hx(data)} {pos} {sx(items)}", "binary-" + ("fixed" if fixed != "-" else "ref" if ref != "-" else "lookup")
    for _ in range(n):
        items = items_pool(rng)
        enc = rng.choice(ENCODINGS)
        fixed, ref, uc, lk, adj = len_spec(rng)
        if fixed == "0":
            fixed = "8"
        delim = rng.choice(["whole", "term", "leading"])
        term, lead = "-", "-"
        bo_name = rng.choice(["mostSignificantByteFirst", "leastSignificantByteFirst"])
        codec = PYCODEC[enc]
        if enc in ("UTF-16", "UTF-32"):
            codec += "-le" if bo_name == "leastSignificantByteFirst" else "-be"
        body = sample_text(rng, enc) if enc not in ("UTF-16", "UTF-32") else rng.choice(["A", "Hi", "é"]).encode(codec)
        if delim == "term":
            tch = "\x00".encode(codec)
            if rng.random() < 0.3:
                tch = "X".encode(codec)
            if enc.startswith(("UTF-16", "UTF-32")) and rng.random() < 0.5:
                # text in which the terminator's bytes also occur straddling two characters (not a character there)
                tch = "X".encode(codec)
                body = ("\u5841\u4100" if codec.endswith("le") else "\u4100\u5841").encode(codec)
                if rng.random() < 0.4:
                    body = "A".encode(codec) + body
            if enc == "UTF-8" and rng.random() < 0.4:
                # a terminator that is ONE character of two or three code units, after text of any byte length
                tch = rng.choice(["\u00a7", "\u20ac"]).encode("utf-8")
                body = rng.choice(["a", "abc", "ab\u00e9", "abcd\u00e9x", ""]).encode("utf-8")
            term = hx(tch)
            payload = body + (tch if rng.random() < 0.85 else b"") + rng.randbytes(rng.randrange(0, 3))
        elif delim == "leading":
            L = rng.choice([8, 8, 16, 4, 12])
            lead = str(L)
            strlen = 8 * len(body) if rng.random() < 0.85 else rng.randrange(0, 40)
            if strlen >= 1 << L:
                strlen = 8
            bits = f"{strlen:0{L}b}" + "".join(f"{b:08b}" for b in body)
            bits += "0" * (-len(bits) % 8)
            payload = int(bits, 2).to_bytes(len(bits) // 8, "big") if bits else b""
        else:
            payload = body if rng.random() < 0.8 else rng.randbytes(rng.randrange(0, 6))
        pos = rng.randrange(0, 10)
        # place payload at bit offset pos
        pbits = "".join(f"{b:08b}" for b in payload)
        allbits = "".join(rng.choice("01") for _ in range(pos)) + pbits + "".join(rng.choice("01") for _ in range(rng.randrange(0, 20)))
        allbits += "0" * (-len(allbits) % 8)
        data = int(allbits, 2).to_bytes(len(allbits) // 8, "big") if allbits else b""
        want = len(pbits) if rng.random() < 0.85 else max(1, len(pbits) - rng.randrange(0, 9))
        if rng.random() < 0.8:
            # steer the computed length to the payload length (mostly-valid inputs)
            if fixed != "-":
                fixed = str(want) if want else "8"
            elif ref != "-":
                sl, ic = (1, 0) if adj == "-" else (int(adj[0]), int(adj[1]))
                if (want - ic) % sl == 0:
                    x = (want - ic) // sl
                    name = xbuild.uS(ref)
                    for it in items:
                        if xbuild.uS(it[0]) == name:
                            if it[1] == "IntP":
                                it[2] = it[3] = f"i{x}"
                            elif uc == "1":
                                it[2] = f"f{x}/1"
                            else:
                                it[3] = f"i{x}"
            elif lk != "-":
                for d in lk:
                    d[2] = rng.choice([f"f{want}/1", f"i{want}"])
        bo = S(bo_name) if enc in ("UTF-16", "UTF-32") else "-"
        e = ["str", S(enc), fixed, ref, lk, uc, adj, term, lead, bo]
        yield f"enc {sx(e)} {hx(data)} {pos} {sx(items)}", f"string-{delim}"
    # decoder stream: adversarial byte strings through the whole-buffer path (validates the codec model)
    m = 2400 if tier == "quick" else 200000
    for _ in range(m):
        enc = rng.choice(ENCODINGS)
        k = rng.randrange(0, 9)
        b = bytearray(rng.randbytes(k))
        for i in range(len(b)):
            r = rng.random()
            if r < 0.3:
                b[i] = rng.choice([0x00, 0x41, 0x7F, 0x80, 0x81, 0x8D, 0x9D, 0xC0, 0xC2, 0xE0, 0xED, 0xF0, 0xF4, 0xF5, 0xFE, 0xFF,
                                   0xD8, 0xDC, 0xDF, 0xA0, 0xBF, 0x10, 0x11])
        b = bytes(b)
        if len(b) == 0:
            continue
        bo = S("leastSignificantByteFirst") if enc in ("UTF-16", "UTF-32") else "-"
        e = ["str", S(enc), str(8 * len(b)), "-", "-", "1", "-", "-", "-", bo]
        yield f"enc {sx(e)} {hx(b)} 0 ()", "codec"


def impl(line):
    t = parse_sx(line)
    with warnings.catch_warnings():
        warnings.simplefilter("ignore")
        e = xbuild.encoding(t[1])
        before = sx(xser.encoding(e))
        pkt = xbuild.packet(t[4], data=unhx(t[2]), pos=int(t[3]))
        try:
            p = e.parse_value(pkt)
        finally:
            altered = sx(xser.encoding(e)) != before
        out = f"ok {xser.CLS[type(p).__name__]} {V(p)} {V(p.raw_value)} {pkt.raw_data.pos}"
        # decoding is a function of the bits and the values decoded so far: the encoding object is left as it was, and
        # the same packet decodes to the same field a second time
        pkt2 = xbuild.packet(t[4], data=unhx(t[2]), pos=int(t[3]))
        p2 = e.parse_value(pkt2)
        out2 = f"ok {xser.CLS[type(p2).__name__]} {V(p2)} {V(p2.raw_value)} {pkt2.raw_data.pos}"
    if altered or sx(xser.encoding(e)) != before:
        return out + " encoding-altered-by-decoding"
    if out2 != out:
        return out + " second-decode-differs"
    return out


# --- independent reference ------------------------------------------------------------------------------
class Out(Exception):
    pass


def _num(tok):
    v = xbuild.uV(tok)
    if isinstance(v, (int, float)) and v == v and abs(v) != float("inf"):
        return Fraction(v)
    raise Out


def ref_size(e, items, is_str):
    fixed, ref, uc, lk, adj = (e[2], e[3], e[5], e[4], e[6]) if is_str else (e[1], e[2], e[3], e[4], e[5])
    its = {xbuild.uS(i[0]): (i[1], i[2], i[3]) for i in items}
    if fixed != "-" and (int(fixed) != 0 or not is_str):
        x = Fraction(int(fixed))
    elif (not is_str and ref != "-") or (is_str and lk == "-" and ref != "-") or (is_str and lk != "-" and not lk and ref != "-"):
        name = xbuild.uS(ref)
        if name not in its:
            raise Out
        cls, val, raw = its[name]
        x = _num(val if uc == "1" else raw)
    elif lk != "-" and (lk or not is_str):
        x = None
        try:
            for d in lk:
                if all([c06._o_cmp(cm, its, None) for cm in d[1]]):
                    x = _num(d[2])         # the first entry whose criteria all hold, whatever its value (0 too)
                    break
        except c06.Undefined:
            raise Out
        if x is None:
            return "err value"
    else:
        raise Out
    use_adj = adj != "-" and (not is_str or (ref != "-" and fixed == "-" or True))
    if adj != "-" and (not is_str or (fixed == "-" or int(fixed) == 0) and (lk == "-" or not lk)):
        x = int(adj[0]) * x + int(adj[1])
        if x.denominator != 1:
            return "err value"
    if x.denominator != 1:
        return "err value"             # a length is a whole number of bits (a negative fraction is not an empty field)
    return int(x)


def oracle(line, out):
    t = parse_sx(line)
    e, data, pos, items = t[1], unhx(t[2]), int(t[3]), t[4]
    is_str = e[0] == "str"
    try:
        n = ref_size(e, items, is_str)
    except Out:
        return None
    if n == "err value":
        return out == "err value"
    bits = "".join(f"{b:08b}" for b in data)
    if n < 0 or pos + n > len(bits):
        return None           # over-reads / negative lengths: C14
    field = bits[pos:pos + n]
    if not is_str:
        v = int(field or "0", 2).to_bytes((n + 7) // 8, "big")
        return out == f"ok BinP {hx(v)} {hx(v)} {pos + n}"
    padded = field + "0" * (-n % 8)
    buf = int(padded or "0", 2).to_bytes(len(padded) // 8, "big")
    enc = PYCODEC[xbuild.uS(e[1])]
    if xbuild.uS(e[1]) in ("UTF-16", "UTF-32") and len(e) > 9 and e[9] != "-":
        enc += "-le" if xbuild.uS(e[9]) == "leastSignificantByteFirst" else "-be"
    term, lead = e[7], e[8]
    try:
        if lead != "-" and int(lead) != 0:
            L = int(lead)
            if L > len(padded):
                return None
            strlen = int(padded[:L], 2)
            if strlen % 8:
                return out == "err value"
            if L + strlen > len(padded):
                return out == "err value"
            sb = padded[L:L + strlen]
            text = int(sb or "0", 2).to_bytes(strlen // 8, "big").decode(enc)
        elif term != "-":
            tb = unhx(term)
            # the first termination *character*: it starts on a code-unit boundary of the encoding
            w = 2 if xbuild.uS(e[1]).startswith("UTF-16") else 4 if xbuild.uS(e[1]).startswith("UTF-32") else 1
            i = buf.find(tb)
            while i > 0 and i % w:
                i = buf.find(tb, i + 1)
            if i < 0:
                return out == "err value"
            text = buf[:i].decode(enc)
        else:
            text = buf.decode(enc)
    except UnicodeDecodeError:
        return out == "err value"
    return out == f"ok StrP {V(text)} {hx(buf)} {pos + n}"


def in_domain(line):
    return oracle(line, "") is not None
