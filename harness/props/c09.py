"""C09 — writing a definition to XTCE XML and loading it back preserves its meaning."""
import io
import random
import warnings

from harness.core import hx, unhx, parse_sx, sx
from harness import xser, xbuild, defgen, xmlgen, xmlutil, xmlops
from harness.xser import S, optS
from harness.xbuild import uS

ID = "C09"
REQUIRED_THEOREMS = ["comparison_roundtrip", "condition_roundtrip", "linear_adjustment_roundtrip", "mapM_roundtrip",
                     "term_roundtrip", "polynomial_roundtrip", "mapM_all", "splinepoint_roundtrip", "spline_roundtrip",
                     "discrete_lookup_roundtrip", "contextmatch_roundtrip", "context_calibrator_roundtrip",
                     "default_calibrator_roundtrip", "context_list_roundtrip", "int_encoding_roundtrip",
                     "float_encoding_roundtrip", "binary_encoding_roundtrip", "anded_roundtrip", "ored_roundtrip",
                     "boolexpr_roundtrip", "group_children", "string_encoding_roundtrip", "data_encoding_roundtrip",
                     "plain_type_roundtrip", "enum_type_roundtrip", "ptype_roundtrip", "parameter_roundtrip",
                     "restriction_roundtrip", "container_roundtrip_known", "container_set_fold", "popFold_exact",
                     "populate_erased", "type_set_fold", "param_set_fold", "definition_roundtrip", "exDef_wf", "intRoundTrip",
                     "definition_roundtrip_main", "time_type_roundtrip", "mkStrEnc_ok", "readStrByteOrder_written",
                     "loadStrTail_written", "spec_fixed", "spec_dyn", "spec_lookup", "enum_entry_key", "enum_fold",
                     "time_type_roundtrip_num", "time_type_roundtrip_nonnum", "exStrEnum_wf", "exFltEnum_wf", "exBinTime_wf",
                     "inRegime_sound", "inRegime_roundtrip", "enumKey_in_regime"]
RULE = ("requests `cyclexml <prefix> <nsmap> <root> <tree>` (definitions loaded from independently written XML, with units, "
        "descriptions incl. empty ones, time types, every optional attribute at non-default values) and `cycleobj <ldef>` "
        "(definitions assembled from objects): write, load, write, load, write on both sides; the by-name serialisation of "
        "the loaded definitions (which includes slopes and intercepts of length adjustments) is the structural comparison; "
        "packets reaching every container are decoded with the original and the re-loaded definition; non-trivial = the "
        "definition has at least 3 containers; distinct = distinct request line")
ASSUMPTIONS = ["str(float) / float(str) of CPython round-trip (hypothesis of the calibrator round-trip theorems)",
               "lxml serialisation/parsing is trusted"]
MODEL_IS_SPEC = True
PARALLEL = True


def is_trivial(line, mo):
    return mo.startswith("err") or mo.startswith("unsupported")


def time_decorate(rng, xml, ns=None, pretty=False):
    """Turn some uncalibrated integer types of a generated document into time types (XML level).
    `ns` is the namespace URI of the document's elements ('' = no namespace)."""
    import lxml.etree as ET
    root = ET.fromstring(xml)
    ns = xmlgen.XTCE_NS if ns is None else ns
    q = (lambda t: f"{{{ns}}}{t}") if ns else (lambda t: t)
    # time types on string / binary encodings (no scale or offset)
    for tg, et in (("StringParameterType", "StringDataEncoding"), ("BinaryParameterType", "BinaryDataEncoding")):
        for el in list(root.iter(q(tg))):
            enc = el.find(q(et))
            if enc is None or rng.random() > 0.15:
                continue
            new = ET.Element(q(rng.choice(["AbsoluteTimeParameterType", "RelativeTimeParameterType"])))
            new.set("name", el.get("name"))
            e = ET.SubElement(new, q("Encoding"))
            if rng.random() < 0.5:
                e.set("units", "s")
            e.append(enc)
            el.getparent().replace(el, new)
    for el in list(root.iter(q("IntegerParameterType"))):
        enc = el.find(q("IntegerDataEncoding"))
        if enc is None or rng.random() > (0.25 if len(enc) == 0 else 0.5):
            continue
        own_cal = len(enc) > 0      # the data encoding carries calibrators of its own (any polynomial, a spline, contexts)
        tag = rng.choice(["AbsoluteTimeParameterType", "RelativeTimeParameterType"])
        new = ET.Element(q(tag)); new.set("name", el.get("name"))
        e = ET.SubElement(new, q("Encoding"))
        if rng.random() < 0.7:
            e.set("units", rng.choice(["seconds", "ms"]))
        if rng.random() < (0.2 if own_cal else 0.6):
            e.set("scale", rng.choice(["0.5", "2.0", "0.125", "0", "0.0", "1", "1.0", "-4.0"]))
        if rng.random() < (0.2 if own_cal else 0.6):
            e.set("offset", rng.choice(["0.25", "100.0", "-8.0", "0", "0.0", "1"]))
        e.append(enc)
        if rng.random() < 0.5:
            rt = ET.SubElement(new, q("ReferenceTime"))
            if rng.random() < 0.5:
                ET.SubElement(rt, q("OffsetFrom")).set("parameterRef", "SRC_SEQ_CTR")
            if rng.random() < 0.7:
                ET.SubElement(rt, q("Epoch")).text = rng.choice(["TAI", "2000-01-01T12:00:00"])
        el.getparent().replace(el, new)
    return ET.tostring(root, xml_declaration=True, encoding="utf-8", pretty_print=pretty)


# slopes and intercepts of length adjustments: the defaults of either side (0, 1, 8) and arbitrary values
ADJ_POOL = [("8", "0"), ("1", "0"), ("1", "-3"), ("1", "-8"), ("8", "-16"), ("-8", "16"), ("2", "5"), ("0", "24"), ("0", "0"),
            ("8", "-328")]
URIS = [xmlgen.XTCE_NS, xmlgen.XTCE_NS, "http://www.omg.org/space/xtce", "urn:example:xtce-like"]


def gen_docs(rng, tier):
    ndefs = 60 if tier == "quick" else 1500
    for _ in range(ndefs):
        d = defgen.Defn(rng, apid_name=rng.choice(["PKT_APID", "APID"]), max_depth=rng.choice([1, 2, 3]), fanout=3,
                        adj_pool=ADJ_POOL, rich=True)
        yield d


def generate(rng, tier):
    import lxml.etree as ET
    for d in gen_docs(rng, tier):
        dsx = d.sexpr()
        # (a) loaded from XML written by the independent writer
        uri = rng.choice(URIS)
        sp = xmlgen.Spelling("prefix", "xtce", uri=uri)
        xml = time_decorate(rng, xmlgen.document(rng, dsx, sp, decorate=True), uri)
        root = ET.fromstring(xml)
        if rng.random() < 0.4:
            rcs = root.findall(f".//{{{uri}}}RestrictionCriteria")
            if rcs:
                rc = rng.choice(rcs); rc.getparent().remove(rc)
        t = xmlutil.tree_sx(root)
        yield (f"cyclexml {S('xtce')} {sx(xmlutil.nsmap_sx(dict(root.nsmap)))} {S('CCSDSPacket')} {sx(t)}"), "from-xml"
        # (b) assembled from objects
        try:
            with warnings.catch_warnings():
                warnings.simplefilter("ignore")
                obj = xbuild.definition(dsx)
                obj.date = xmlops.FIXED_DATE
                obj.space_system_name = rng.choice([None, "SYS", "A--B", "x -- y-"])
                u = rng.choice(URIS)
                obj.ns, obj.xtce_schema_uri = {"xtce": u}, u
            yield f"cycleobj {sx(xser.ldef(obj))}", "from-objects"
        except Exception:  # noqa: BLE001
            continue
    # degenerate but representable: a definition whose only container has no entries (no parameters, no types)
    with warnings.catch_warnings():
        warnings.simplefilter("ignore")
        obj = xbuild.definition(["def", S("CCSDSPacket"), [["cont", S("CCSDSPacket"), "0", "-", [], [], []]]])
        obj.date = xmlops.FIXED_DATE
        obj.ns, obj.xtce_schema_uri = {"xtce": URIS[0]}, URIS[0]
    yield f"cycleobj {sx(xser.ldef(obj))}", "from-objects-empty"


def decode_same(d1, d2, n=6):
    """Decode random packets with both definitions; True when every result is identical."""
    from space_packet_parser import packets
    rng = random.Random(12345)
    for _ in range(n):
        data = bytes([rng.randrange(256) for _ in range(40)])
        outs = []
        for d in (d1, d2):
            try:
                with warnings.catch_warnings():
                    warnings.simplefilter("ignore")
                    p = d.parse_ccsds_packet(packets.CCSDSPacket(raw_data=data))
                outs.append("ok " + xser.show_pkt(p))
            except Exception as e:  # noqa: BLE001
                outs.append("exc " + type(e).__name__)
        if outs[0] != outs[1]:
            return False
    return True


def impl(line):
    t = parse_sx(line)
    if t[0] == "cyclexml":
        return xmlops.impl_cyclexml(line)
    with warnings.catch_warnings():
        warnings.simplefilter("ignore")
        d = xbuild.ldef(t[1])
    return xmlops.cycle(d, d.xtce_ns_prefix, d.root_container_name)


def stages(out):
    """{'D1':..., 'G1':..., 'D2':..., ...} from a cycle response."""
    res = {}
    toks = out.split(" ")
    key = None
    for tk in toks:
        if tk in ("D1", "G1", "D2", "G2", "D3", "G3"):
            key = tk; res[key] = ""
        elif key and tk.startswith("("):
            res[key] = tk if not res[key] else res[key] + " " + tk
        elif key:
            res[key] += " " + tk
    return res


def norm_num(s):
    """Integers and integral floats denote the same number in a calibrator: `i1` ~ `f1/1`."""
    import re
    return re.sub(r"(?<=[( ])i(-?[0-9]+)(?=[) ])", r"f\1/1", s)


def oracle(line, out):
    """Independent structural comparison: the re-loaded definition equals the original one (by-name serialisation incl.
    length adjustments), and re-loading once more changes nothing."""
    if "err" in out.split(" ")[:3] or out.startswith("unsupported"):
        # the library could not write or re-load a definition it was able to represent
        return False if out.startswith("err write") or " err write" in out or "err load1" in out or "err load2" in out else None
    st = stages(out)
    t = parse_sx(line)
    d_orig = st.get("D1") if t[0] == "cyclexml" else sx(t[1])
    if not d_orig or "D2" not in st:
        return None
    a, b = parse_sx(d_orig)[0], parse_sx(st["D2"])[0]
    if t[0] == "cycleobj":
        # the original object graph lists only what the caller put in; compare the three tables and the root
        pass
    def table(lst, key_idx, norm=False):
        return {x[key_idx]: (norm_num(sx(x)) if norm else sx(x)) for x in lst}
    # the tables are compared by name (their order is an artefact of traversal); order *within* a container is compared
    if table(a[6], 2, True) != table(b[6], 2, True) or table(a[7], 1) != table(b[7], 1) or \
            table(a[8], 1) != table(b[8], 1) or a[1] != b[1]:
        return False
    if st.get("D3") and sx(parse_sx(st["D3"])[0][6:]) != sx(b[6:]):
        return False
    return True


def in_domain(line):
    return True


def regime_coverage(lines, impl_out, run_model):
    """How much of what this run exercised lies inside the theorem: the definitions *as the library holds them* (D1 = what
    it loaded from the generated document or was given as objects, D2 = what it loaded back from its own output) are put
    to the model's membership test `C09.inRegime` (proved sound: `inRegime_sound`, `inRegime_roundtrip`)."""
    import collections
    reqs, which = [], []
    for ln, io in zip(lines, impl_out):
        st = stages(io)
        t = parse_sx(ln)
        d1 = st.get("D1") if t[0] == "cyclexml" else sx(t[1])
        for name, dd in (("start", d1), ("reloaded", st.get("D2"))):
            if dd:
                reqs.append("regime " + sx(parse_sx(dd)[0]))
                which.append(name)
    out = run_model(reqs) if reqs else []
    res = {"start": collections.Counter(), "reloaded": collections.Counter()}
    for w, o in zip(which, out):
        res[w][o] += 1
    return {"regime_membership": {
        "test": "C09.inRegime on the library's own definitions (sound by C09.inRegime_sound; 'out <part>' names the first "
                "failing conjunct and is diagnostic only)",
        "definitions_at_start": dict(res["start"]), "definitions_after_one_cycle": dict(res["reloaded"])}}


def extra_evidence(lines=None, model_out=None, impl_out=None):
    from harness import core
    return regime_coverage(lines, impl_out, core.run_model)
