"""C01 — end-to-end decoding conforms to the XTCE document for every stream."""
import io
import warnings

import lxml.etree as ET

from harness.core import hx, unhx, parse_sx, sx
from harness import xser, xbuild, defgen, genutil, pktutil as pu

from harness.props import c09

ID = "C01"
REQUIRED_THEOREMS = ["end_to_end", "per_packet", "field_seam", "undefined_packets"]
RULE = ("requests `genxml <xml> <definition> - <opts> <skip> <kind> <r> (<chunks>)`: random XTCE documents over the whole "
        "supported subset (every parameter type, encoding, calibrator, criteria form, inheritance, nesting, dynamic lengths) "
        "written as XML text and loaded with the real loader, the loaded object graph serialised for the model; streams of "
        "2..8 packets built by the encoder (steered into every container, plus dead ends and wrong lengths), delivered as "
        "bytes / file / socket in random fragmentations with prefix bytes; non-trivial = at least one parsed packet is "
        "yielded; distinct = distinct request line")
ASSUMPTIONS = ["the XML is produced by the library's own writer from generated objects, or by the harness's independent "
               "writer with the container elements in any order, and then loaded; lexical variation of documents is C16's subject", "floats cross the protocol as exact fractions"]
MODEL_IS_SPEC = True
_cache = {}

responses_agree = genutil.same_events


def is_trivial(line, mo):
    return " P " not in mo


def make_doc(rng):
    """(xml bytes, serialised loaded definition) or None when the generated objects cannot be written/loaded."""
    from space_packet_parser.xtce import definitions
    d = defgen.Defn(rng, apid_name=rng.choice(["PKT_APID", "PKT_APID", "APID"]), max_depth=rng.choice([1, 2, 3, 4]),
                    fanout=rng.choice([2, 3]))
    obj = xbuild.definition(d.sexpr())
    with warnings.catch_warnings():
        warnings.simplefilter("ignore")
        obj.date = "2024-01-01T00:00:00"
        xml = ET.tostring(obj.to_xml_tree(), pretty_print=True, xml_declaration=True, encoding="utf-8")
        if rng.random() < 0.5:
            # the same definition written by the harness's own writer, with the SequenceContainer elements in any order
            # (derived before base, nesting before nested)
            from harness import xmlgen
            xml = xmlgen.document(rng, d.sexpr(), xmlgen.Spelling("prefix", "xtce"), decorate=False)
        loaded = definitions.XtcePacketDefinition.from_xtce(io.BytesIO(xml))
    # the reference definition is the generator's own (objects built from its syntax), NOT what the library's loader
    # made of the document: a loader that misreads the document then disagrees with the model instead of feeding it
    ref, got = sx(xser.definition(obj)), sx(xser.definition(loaded))

    def canon(text):
        t = parse_sx(c09.norm_num(text))[0]
        # the container table's order, and the order within an inheritor list (a set, C17), are artefacts of document order
        return sx([t[0], t[1], sorted(([c[:5] + [sorted(c[5])] + c[6:] for c in t[2]]), key=lambda c: c[1])])
    return d, xml, (got if canon(ref) == canon(got) else ref)


def generate(rng, tier):
    ndefs = 70 if tier == "quick" else 2000
    made = 0
    attempts = 0
    while made < ndefs and attempts < ndefs * 3:
        attempts += 1
        try:
            d, xml, dsx = make_doc(rng)
        except Exception:  # noqa: BLE001  - documents the writer/loader cannot round-trip are C09's subject
            continue
        made += 1
        paths = d.paths()
        for _ in range(8 if tier == "quick" else 12):
            skip = rng.choice([0, 0, 0, 2, 5])
            pk = []
            for _ in range(rng.randrange(2, 9)):
                mode = rng.choice(["exact"] * 8 + ["deadend", "short", "long"])
                pk.append(rng.randbytes(skip) + d.encode(rng.choice(paths), mode))
            data = b"".join(pk)
            kind = rng.choice(["bytes", "file", "socket"])
            if kind == "bytes":
                r, chunks = -1, [data]
            else:
                style = rng.choice(["one", 7, 13, 4096, "rand"])
                if style == "one":
                    r, chunks = -1, [data]
                elif isinstance(style, int):
                    r, chunks = style, pu.cut(rng, data, style)
                else:
                    r, chunks = 0, pu.cut(rng, data, "rand")
            o = (rng.choice("01"), "0", "0", "0", rng.choice("01"))
            yield (f"genxml {hx(xml)} {dsx} - {sx(list(o))} {skip} {kind} {r} {sx([hx(c) for c in chunks])}"), f"stream-{kind}"


def impl(line):
    from space_packet_parser.xtce import definitions
    t = parse_sx(line)
    xml = unhx(t[1])
    key = t[1]
    if key not in _cache:
        if len(_cache) > 20:
            _cache.clear()
        with warnings.catch_warnings():
            warnings.simplefilter("ignore")
            if len(key) % 2:
                _cache[key] = definitions.XtcePacketDefinition.from_xtce(io.BytesIO(xml))
            else:
                # the package-level entry point, given a file name
                import space_packet_parser, tempfile, os
                with tempfile.TemporaryDirectory() as td:
                    fn = os.path.join(td, "doc.xml")
                    with open(fn, "wb") as fh:
                        fh.write(xml)
                    _cache[key] = space_packet_parser.load_xml(fn if len(key) % 4 else __import__("pathlib").Path(fn))
    defn = _cache[key]
    if sx(xser.definition(defn)) != sx(t[2]):
        return "err serialisation-mismatch"
    o, skip, kind, r = t[4], int(t[5]), t[6], int(t[7])
    chunks = [unhx(c) for c in t[8]]
    src, kw = pu.make_source(kind, r, chunks)
    run = genutil.GenRunner.__new__(genutil.GenRunner)
    run.gen = defn.packet_generator(src, skip_header_bytes=skip, **genutil.opts_kw(o), **kw)
    run.events, run.done, run.cap = [], False, sum(map(len, chunks)) // 7 + 3
    run.defn, run.root = defn, None
    try:
        run.drain()
    finally:
        if kind == "socket":
            src.close()
    return "events" + "".join(" " + e for e in run.events)


def in_domain(line):
    return True
