"""C06 — match criteria evaluate to the mathematical truth of their comparisons."""
import itertools
import operator
import warnings

from harness.core import hx, unhx, parse_sx, sx
from harness import xser, xbuild
from harness.xser import S, B, V

ID = "C06"
REQUIRED_THEOREMS = ["operator_table", "int_relations", "int_float_relations", "float_relations", "comparison_truth",
                     "comparison_current", "condition_truth", "anded_sem", "ored_sem", "list_is_conjunction",
                     "lookup_first_match", "lookup_entry"]
RULE = ("requests `crit <criterion> <items> <current>`, `critlist`, `lookup`, `const ops`; exhaustive boolean-expression "
        "shapes up to 3 levels / 4 leaves over a pool of conditions x value assignments drawn from {0,1,-1,2,0.0,-0.0,0.5,"
        "1.0,2^53+1,False,True,'','a',b''}; all 16 operator spellings; both value selectors; random deeper trees (depth<=6); "
        "non-trivial = the criterion evaluates to a truth value; distinct = distinct request line")
ASSUMPTIONS = ["Python's comparison operators on int/float/str/bytes are as modelled (exact int/float comparison, "
               "lexicographic text/bytes, NaN unordered)"]
MODEL_IS_SPEC = False
OPS = ["==", "eq", "!=", "neq", "&lt;", "lt", "<", "&gt;", "gt", ">", "&lt;=", "leq", "<=", "&gt;=", "geq", ">="]
CANON = {"==": "==", "eq": "==", "!=": "!=", "neq": "!=", "&lt;": "<", "lt": "<", "<": "<", "&gt;": ">", "gt": ">",
         ">": ">", "&lt;=": "<=", "leq": "<=", "<=": "<=", "&gt;=": ">=", "geq": ">=", ">=": ">="}
PYOP = {"==": operator.eq, "!=": operator.ne, "<": operator.lt, ">": operator.gt, "<=": operator.le, ">=": operator.ge}


def is_trivial(line, mo):
    return not mo.startswith("ok")


# item = [name, cls, val, raw]
def P(name, cls, val, raw=None):
    return [S(name), cls, V(val), V(val if raw is None else raw)]


VALUE_POOL = [
    ("IntP", 0, None), ("IntP", 1, None), ("IntP", -1, None), ("IntP", 2, None), ("IntP", 2 ** 53 + 1, None),
    ("FloatP", 0.0, None), ("FloatP", -0.0, None), ("FloatP", 0.5, None), ("FloatP", 1.0, None), ("FloatP", 3.5, 3),
    ("FloatP", 0.0, 7), ("FloatP", 2.0, 0), ("BoolP", 0, 0), ("BoolP", 1, 5), ("StrP", "", b""), ("StrP", "a", b"a"),
    ("FloatP", 2.5000000000000004, None), ("FloatP", 3.4999999999999996, None),      # one ulp off a literal
    ("StrP", "ON", 1), ("BinP", b"", None), ("BinP", b"\x00", None), ("IntP", 3, None), ("FloatP", 3.5, None),
]
LITS = ["0", "1", "-1", "2", "3", "0.5", "1.0", "3.0", "3.5", "a", "", "ON", "1e3", "abc", " 1 ", "+2", "0.0", "-0.0",
        "9007199254740993", "2.5"]


def rand_items(rng, names=("A", "B", "C", "D")):
    return [P(n, *[x for x in rng.choice(VALUE_POOL)]) for n in names]


def cmp_sx(ref, op, lit, usecal):
    return ["cmp", S(ref), S(op), S(lit), B(usecal)]


def cond_sx(left, op, rparam, rvalue, lcal, rcal):
    return ["cond", S(left), S(op), "-" if rparam is None else S(rparam), "-" if rvalue is None else S(rvalue),
            B(lcal), B(rcal)]


def rand_cond(rng, names=("A", "B", "C", "D")):
    if rng.random() < 0.5:
        return cond_sx(rng.choice(names), rng.choice(OPS), rng.choice(names), None, rng.random() < 0.6, rng.random() < 0.6)
    return cond_sx(rng.choice(names), rng.choice(OPS), None, rng.choice(LITS), rng.random() < 0.6, False)


def shapes(depth, leaves_left, kind):
    """All and/or tree shapes (as nested tuples of leaf counts) up to a depth and leaf budget."""
    out = []
    for nconds in range(0, leaves_left + 1):
        rest = leaves_left - nconds
        if depth == 0 or rest == 0:
            if nconds > 0 or depth == 0:
                out.append((kind, nconds, ()))
            continue
        other = "or" if kind == "and" else "and"
        # zero, one or two nested groups
        out.append((kind, nconds, ()))
        for sub in shapes(depth - 1, rest, other):
            out.append((kind, nconds, (sub,)))
            used = count_leaves(sub)
            for sub2 in shapes(depth - 1, rest - used, other):
                if count_leaves(sub2) > 0:
                    out.append((kind, nconds, (sub, sub2)))
    # dedupe
    return list(dict.fromkeys(out))


def count_leaves(sh):
    return sh[1] + sum(count_leaves(s) for s in sh[2])


def fill(rng, sh, pool):
    kind, n, subs = sh
    return [kind, [rng.choice(pool) for _ in range(n)], [fill(rng, s, pool) for s in subs]]


def rand_tree(rng, depth, kind, pool):
    n = rng.randrange(0, 3)
    subs = [] if depth == 0 else [rand_tree(rng, depth - 1, "or" if kind == "and" else "and", pool)
                                  for _ in range(rng.randrange(0, 3))]
    return [kind, [rng.choice(pool) for _ in range(n)], subs]


def generate(rng, tier):
    yield "const ops", "const"
    # --- comparisons: every operator spelling x value x literal x selector
    for cls, val, raw in VALUE_POOL:
        for op in OPS:
            lits = LITS if tier == "thorough" else rng.sample(LITS, 5)
            for lit in lits:
                for usecal in (True, False):
                    it = [P("Z", cls, val, raw)]
                    yield f"crit {sx(cmp_sx('Z', op, lit, usecal))} {sx(it)} -", "comparison"
    # current-value comparisons (context calibrators referring to their own raw value)
    for cur in (0, 1, -1, 3, 0.0, 0.5, 3.5):
        for op in OPS:
            for lit in rng.sample(LITS, 4):
                yield f"crit {sx(cmp_sx('SELF', op, lit, rng.random() < 0.5))} () {V(cur)}", "comparison-current"
    yield f"crit {sx(cmp_sx('MISSING', '==', '1', True))} () -", "comparison-missing"
    # --- conditions: two operands / operand + literal, mixed int/float
    nums = [v for v in VALUE_POOL if v[0] in ("IntP", "FloatP", "BoolP")]
    for a in nums:
        for b in nums:
            for op in (OPS if tier == "thorough" else rng.sample(OPS, 4)):
                it = [P("L", *a), P("R", *b)]
                lc, rc = rng.random() < 0.5, rng.random() < 0.5
                yield f"crit (bexpr {sx(cond_sx('L', op, 'R', None, lc, rc))}) {sx(it)} -", "condition-2"
    for a in VALUE_POOL:
        for op in rng.sample(OPS, 4):
            for lit in rng.sample(LITS, 4):
                yield (f"crit (bexpr {sx(cond_sx('L', op, None, lit, rng.random() < 0.5, False))}) "
                       f"{sx([P('L', *a)])} -"), "condition-lit"
    # floats one ulp away from the literal: equality is exact
    for val, lit in ((2.5000000000000004, "2.5"), (3.4999999999999996, "3.5")):
        for op in ("==", "!=", "eq", "neq", "<", ">", "<=", ">="):
            yield f"crit {sx(cmp_sx('Z', op, lit, True))} {sx([P('Z', 'FloatP', val)])} -", "comparison-ulp"
    # integers beyond 2**53 against literals one apart: exact integer comparison, in both criteria forms and selectors
    for big in (2 ** 53 + 1, 2 ** 63 - 1, 2 ** 64 - 1, -(2 ** 63), 2 ** 71 + 3):
        for op in ("==", "!=", "<", ">", "<=", ">="):
            for lit in (str(big), str(big - 1), str(big + 1)):
                uc = rng.random() < 0.5
                yield (f"crit (bexpr {sx(cond_sx('L', op, None, lit, uc, False))}) "
                       f"{sx([P('L', 'IntP', big)])} -"), "condition-lit-bigint"
                yield f"crit {sx(cmp_sx('Z', op, lit, uc))} {sx([P('Z', 'IntP', big)])} -", "comparison-bigint"
            it = [P("L", "IntP", big), P("R", "IntP", big + rng.choice([-1, 0, 1]))]
            yield f"crit (bexpr {sx(cond_sx('L', op, 'R', None, True, True))}) {sx(it)} -", "condition-2-bigint"
    for a in rng.sample(VALUE_POOL, 6):
        for b in rng.sample(VALUE_POOL, 6):
            it = [P("L", *a), P("R", *b)]
            yield f"crit (bexpr {sx(cond_sx('L', rng.choice(OPS), 'R', None, True, True))}) {sx(it)} -", "condition-mixed"
    # --- boolean expressions: exhaustive shapes x assignments
    names = ("A", "B", "C", "D")
    shape_list = shapes(2, 4, "and") + shapes(2, 4, "or")
    nassign = 3 if tier == "quick" else 24
    for sh in shape_list:
        for _ in range(nassign):
            its = [P(n, *rng.choice(nums)) for n in names]
            pool = [rand_cond(rng) for _ in range(5)]
            tree = fill(rng, sh, pool)
            yield f"crit (bexpr {sx(tree)}) {sx(its)} -", "boolexpr-exhaustive"
    # all truth assignments of 4 boolean leaves for each shape with exactly the leaves A==1, B==1, C==1, D==1
    leafpool = [cond_sx(n, "==", None, "1", True, False) for n in names]
    for sh in shape_list:
        k = count_leaves(sh)
        if k == 0 or k > 4:
            continue
        for bits in itertools.product([0, 1], repeat=4):
            its = [P(n, "IntP", b) for n, b in zip(names, bits)]
            it = iter(leafpool)

            def fill2(s):
                return [s[0], [next(it) for _ in range(s[1])], [fill2(x) for x in s[2]]]
            yield f"crit (bexpr {sx(fill2(sh))}) {sx(its)} -", "boolexpr-truthtable"
    nrand = 1000 if tier == "quick" else 120000
    for _ in range(nrand):
        its = [P(n, *rng.choice(nums if rng.random() < 0.8 else VALUE_POOL)) for n in names]
        pool = [rand_cond(rng) for _ in range(6)]
        tree = rand_tree(rng, rng.randrange(1, 6), rng.choice(["and", "or"]), pool)
        yield f"crit (bexpr {sx(tree)}) {sx(its)} -", "boolexpr-random"
    # --- comparison lists (conjunction) and discrete lookups (first match)
    for _ in range(150 if tier == "quick" else 40000):
        its = rand_items(rng)
        cl = [cmp_sx(rng.choice(names), rng.choice(OPS), rng.choice(LITS[:9]), rng.random() < 0.7)
              for _ in range(rng.randrange(0, 4))]
        yield f"critlist {sx(cl)} {sx(its)} -", "comparison-list"
        dls = [["dl", [cmp_sx(rng.choice(names), rng.choice(OPS), rng.choice(LITS[:9]), rng.random() < 0.7)
                       for _ in range(rng.randrange(1, 3))], V(rng.choice([0.0, 8.0, 16.0, 24, 0]))]
               for _ in range(rng.randrange(0, 4))]
        yield f"lookup {sx(dls)} {sx(its)}", "lookup"


# ---------------------------------------------------------------------------------------------------
def impl(line):
    t = parse_sx(line)
    with warnings.catch_warnings():
        warnings.simplefilter("ignore")
        if t[0] == "const":
            from space_packet_parser.xtce import comparisons as cm
            # the operator table itself, where the class has it under this name and in this form (spelling -> dunder
            # name); every spelling is exercised through evaluation below in any case
            tbl = getattr(cm.MatchCriteria, "_valid_operators", None)
            if not isinstance(tbl, dict) or not all(isinstance(v, str) for v in tbl.values()):
                return "n/a"
            return "ok " + " ".join(f"{S(k)}:{v}" for k, v in tbl.items())
        if t[0] == "crit":
            c = xbuild.criterion(t[1])
            pkt = xbuild.packet(t[2])
            cur = xbuild.optV(t[3])
            r = c.evaluate(pkt, cur)
            return f"ok {_b(r)}"
        if t[0] == "critlist":
            cs = [xbuild.criterion(c) for c in t[1]]
            pkt = xbuild.packet(t[2])
            cur = xbuild.optV(t[3])
            r = all(c.evaluate(pkt, cur) for c in cs)
            return f"ok {_b(r)}"
        if t[0] == "lookup":
            dls = [xbuild.dl(d) for d in t[1]]
            pkt = xbuild.packet(t[2])
            for d in dls:
                r = d.evaluate(pkt)
                if r is not None:
                    return f"ok {V(r)}"
            return "err value"
    raise ValueError(line)


def _b(r):
    if r is True:
        return "true"
    if r is False:
        return "false"
    return f"notbool:{r!r}"


# --- independent oracle ------------------------------------------------------------------------------
class Undefined(Exception):
    pass


def _plain(tok_cls, val, raw, usecal):
    v = xbuild.uV(val) if usecal else xbuild.uV(raw)
    kind = {"IntP": int, "BoolP": int, "FloatP": float, "StrP": str, "BinP": bytes}[tok_cls] if usecal else type(v)
    return v, kind


def _coerce(kind, lit):
    if kind is int:
        try:
            return int(lit)
        except ValueError:
            raise Undefined
    if kind is float:
        try:
            return float(lit)
        except ValueError:
            raise Undefined
    if kind is str:
        return lit
    raise Undefined


def _rel(op, a, b):
    try:
        return bool(PYOP[CANON[op]](a, b))
    except TypeError:
        raise Undefined


def _o_cmp(t, items, cur):
    ref, op, lit, usecal = xbuild.uS(t[1]), xbuild.uS(t[2]), xbuild.uS(t[3]), t[4] == "1"
    if ref in items:
        v, kind = _plain(*items[ref], usecal)
    elif cur is not None:
        v, kind = cur, type(cur)
    else:
        raise Undefined
    return _rel(op, v, _coerce(kind, lit))


def _o_cond(t, items):
    left, op = xbuild.uS(t[1]), xbuild.uS(t[2])
    if left not in items:
        raise Undefined
    lv, lk = _plain(*items[left], t[5] == "1")
    if t[3] != "-":
        rp = xbuild.uS(t[3])
        if rp not in items:
            raise Undefined
        rv, _ = _plain(*items[rp], t[6] == "1")
    elif t[4] != "-":
        rv = _coerce(lk, xbuild.uS(t[4]))
    else:
        raise Undefined
    return _rel(op, lv, rv)


def _o_expr(t, items):
    """Plain truth-functional semantics; every leaf must be defined (no short-circuit masking)."""
    if t[0] == "cond":
        return _o_cond(t, items)
    leaves = [_o_cond(c, items) for c in t[1]]
    subs = [_o_expr(s, items) for s in t[2]]
    return all(leaves + subs) if t[0] == "and" else any(leaves + subs)


def _o_crit(t, items, cur):
    if t[0] == "cmp":
        return _o_cmp(t, items, cur)
    return _o_expr(t[1], items)


def oracle(line, out):
    t = parse_sx(line)
    if t[0] == "const":
        return None
    items = {xbuild.uS(i[0]): (i[1], i[2], i[3]) for i in t[2]}
    try:
        if t[0] == "crit":
            cur = xbuild.optV(t[3])
            want = _o_crit(t[1], items, cur)
            return out == f"ok {_b(want)}"
        if t[0] == "critlist":
            cur = xbuild.optV(t[3])
            want = all([_o_crit(c, items, cur) for c in t[1]])
            return out == f"ok {_b(want)}"
        if t[0] == "lookup":
            for d in t[1]:
                if all([_o_cmp(c, items, None) for c in d[1]]):
                    return out == f"ok {d[2]}"
            return out == "err value"
    except Undefined:
        return None       # outside the property's domain (unresolvable / incomparable operands)
    return None


def in_domain(line):
    return oracle(line, "") is not None


def shrink(line, still):
    t = parse_sx(line)
    if t[0] != "crit" or t[1][0] != "bexpr" or t[1][1][0] == "cond":
        return line

    def variants(e):
        kind, conds, subs = e
        for i in range(len(conds)):
            yield [kind, conds[:i] + conds[i + 1:], subs]
        for i in range(len(subs)):
            yield [kind, conds, subs[:i] + subs[i + 1:]]
            for v in variants(subs[i]):
                yield [kind, conds, subs[:i] + [v] + subs[i + 1:]]
    cur = t[1][1]
    changed = True
    while changed:
        changed = False
        for v in variants(cur):
            l2 = f"crit (bexpr {sx(v)}) {sx(t[2])} {t[3]}"
            if still(l2):
                cur = v; changed = True
                break
    return f"crit (bexpr {sx(cur)}) {sx(t[2])} {t[3]}"
