"""C15 — serialisation is deterministic and stable under repeated write/load cycles."""
from harness.props import c09
from harness.core import parse_sx, sx

ID = "C15"
REQUIRED_THEOREMS = ["write_is_function", "comparison_in_namespace", "condition_in_namespace", "anded_in_namespace",
                     "ored_in_namespace", "criterion_in_namespace", "parameter_in_namespace", "calibrator_in_namespace",
                     "context_calibrator_in_namespace", "encoding_in_namespace", "ptype_in_namespace",
                     "container_in_namespace", "document_in_namespace", "fixpoint", "every_further_cycle", "every_further_cycle_main"]
RULE = ("the same requests as C09 (`cyclexml`, `cycleobj`); the implementation side additionally writes every definition "
        "twice with a fixed header date and compares bytes, compares the bytes of G2 and G3 (and of G1 and G2 when the definition was loaded from a document: G1 is then the document after one cycle), checks that every element of G1 "
        "lies in the definition's XTCE namespace and that writing did not alter the definition (structural snapshot); "
        "non-trivial = the definition has at least 3 containers; distinct = distinct request line")
ASSUMPTIONS = ["datetime.now() is never modelled: definitions carry a fixed header date", "lxml serialisation is trusted"]
MODEL_IS_SPEC = True
PARALLEL = True
is_trivial = c09.is_trivial
generate = c09.generate
impl = c09.impl


def oracle(line, out):
    if not out.startswith("ok") and not out.startswith("D1"):
        return None
    for note in ("nondeterministic-write", "bytes-differ-G2-G3", "bytes-differ-G1-G2", "element-outside-namespace", "definition-altered-by-write",
                 "write_xml-differs", "write_xml-failed", "undated-write-failed"):
        if note in out:
            return False
    st = c09.stages(out)
    if "G2" in st and "G3" in st and st["G2"].strip() != st["G3"].strip():
        return False
    # a definition loaded from a document: G1 is the document after one write/load cycle, G2 the next cycle's
    if line.startswith("cyclexml") and "G1" in st and "G2" in st and st["G1"].strip() != st["G2"].strip():
        return False
    return True


def in_domain(line):
    return True


def extra_evidence(lines=None, model_out=None, impl_out=None):
    """`fixpoint` / `every_further_cycle` speak about definitions in `C09.DefWF`: report how many of the definitions the
    library held in this run the proved-sound membership test accepts."""
    from harness import core
    return c09.regime_coverage(lines, impl_out, core.run_model)
