"""C05 — container inheritance selects the unique matching structure, in order."""
import warnings

from harness.core import hx, unhx, parse_sx, sx
from harness import xser, xbuild, defgen

ID = "C05"
REQUIRED_THEOREMS = ["entries_in_order", "nested_in_place", "valid_inheritors_filter", "descend_sound",
                     "decodes_deterministic", "descend_complete", "parent_then_child", "views", "items_set_new",
                     "decodes_fuel"]
RULE = ("requests `parse <definition> - <packet>`; random container trees (depth<=4, fan-out<=4, abstract flags, shared "
        "nested containers, restriction criteria as ==, range pairs, boolean expressions, deliberately overlapping >=) and "
        "packets built by an encoder that steers into every node of the tree, every dead end (selector matching no child) "
        "and overlaps (ambiguity); the APID parameter is renamed in a third of the documents; non-trivial = the packet "
        "descends at least one level or is reported unrecognized; distinct = distinct request line")
ASSUMPTIONS = ["dict insertion order of CCSDSPacket is as modelled (re-assignment keeps position)"]
MODEL_IS_SPEC = True
_cache = {}


def is_trivial(line, mo):
    return mo.startswith("err")


def gen_defs(rng, n, **kw):
    for i in range(n):
        apid = rng.choice(["PKT_APID", "PKT_APID", "APID", "HDR_APPLICATION_ID"])
        yield defgen.Defn(rng, apid_name=apid, max_depth=rng.choice([1, 2, 3, 4]), fanout=rng.choice([2, 3, 4]), **kw)


def generate(rng, tier):
    ndefs = 80 if tier == "quick" else 2500
    for d in gen_defs(rng, ndefs):
        dsx = sx(d.sexpr())
        paths = d.paths()
        if len(paths) > 40:
            paths = rng.sample(paths, 40)
        for path in paths:
            for mode in ("exact", "deadend"):
                pkt = d.encode(path, mode)
                yield f"parse {dsx} - {hx(pkt)}", f"path-depth{len(path) - 1}-{mode}"
        for _ in range(6):
            pkt = d.encode([d.root], "random")
            b = bytearray(pkt + rng.randbytes(rng.randrange(0, 30)))
            for i in range(len(b)):
                if rng.random() < 0.5:
                    b[i] = rng.randrange(256)
            yield f"parse {dsx} - {hx(bytes(b))}", "random-packet"


def get_def(tok_sx):
    key = sx(tok_sx)
    if key not in _cache:
        if len(_cache) > 50:
            _cache.clear()
        _cache[key] = xbuild.definition(tok_sx)
    return _cache[key]


def run_parse(defn, data, root=None):
    from space_packet_parser import packets
    from space_packet_parser.exceptions import UnrecognizedPacketTypeError
    pkt = packets.CCSDSPacket(raw_data=data)
    try:
        with warnings.catch_warnings():
            warnings.simplefilter("ignore")
            out = defn.parse_ccsds_packet(pkt, root_container_name=root)
    except UnrecognizedPacketTypeError as e:
        part = e.partial_data
        return "unrec " + xser.show_pkt(part)
    assert out is pkt
    items = list(pkt.items())
    if pkt.header != dict(items[:7]) or pkt.user_data != dict(items[7:]) or \
            list(pkt.header) + list(pkt.user_data) != [k for k, _ in items]:
        return "err views"
    return "ok " + xser.show_pkt(pkt)


def impl(line):
    from space_packet_parser import packets
    t = parse_sx(line)
    defn = get_def(t[1])
    root = None if t[2] == "-" else xbuild.uS(t[2])
    first = run_parse(defn, unhx(t[3]), root)
    # decoding starts at the root container's first bit every time: the same raw-data object (as handed out by the
    # framer) decoded again — e.g. after a first attempt with another root — gives the same answer
    raw = packets.RawPacketData(unhx(t[3]))
    for _ in range(2):
        again = run_parse(defn, raw, root)
        if again != first and not first.startswith("exc"):
            return "err second-decode-differs"
    return first


def in_domain(line):
    return True
