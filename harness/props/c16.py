"""C16 — loading is independent of lexical spelling and of earlier loads."""
import copy
import re

import lxml.etree as ET

from harness.core import hx, unhx, parse_sx, sx
from harness import xser, xbuild, defgen, xmlgen, xmlutil, xmlops
from harness.xser import S, optS
from harness.xbuild import uS

from harness.props import c09

ID = "C16"
REQUIRED_THEOREMS = ["elems_strip", "findAll_strip", "findFirst_strip", "matches_setNs", "findAll_spelling",
                     "history_independent", "after_any_sequence", "stripRendering", "load_ignores_comments",
                     "findAll_inNs", "findDescendant_inNs", "nsRendering", "load_ignores_namespace_convention"]
RULE = ("requests `loadseq <root> ((prefix nsmap tree) ...)`: the loads are performed one after the other in one process "
        "(half of the sequences through the file-name entry points, all documents of a sequence at one path); "
        "each document is rendered by an independent writer in the spellings {prefix xtce, prefix of another name, default "
        "namespace, no namespace (with and without an unrelated xsi declaration)} x comments in every list-like element x "
        "pretty-printing whitespace or none, and is loaded after 0..5 prior loads drawn from other renderings and malformed "
        "inputs; the oracle demands that all renderings of one document load to the same definition; non-trivial = at "
        "least two loads in the sequence; distinct = distinct request line")
ASSUMPTIONS = ["the caller passes the xtce_ns_prefix that matches the document's convention (None for default / no "
               "namespace)", "lxml's parser, nsmap and ElementPath are trusted; comments/whitespace reach the model as the "
               "nodes lxml reports"]
MODEL_IS_SPEC = True
PARALLEL = True


def is_trivial(line, mo):
    return mo.count("|") < 1


# "a prefix of any name": ordinary ones, single letters, and names that are (leading substrings of) XTCE element names
PREFIX_POOL = ["x", "ns0", "XTCE", "D", "U", "L", "R", "S", "P", "C", "E", "B", "T", "F", "I", "A", "V", "d", "u",
               "Unit", "Base", "Default", "Sequence", "Parameter", "Comparison", "Entry", "Header", "SpaceSystem",
               "Context", "Calibrator", "x-t.c_e", "_x", "Size", "Fixed", "Term", "Spline", "Enumeration", "Long"]


NSPELL = 7


def spellings(rng):
    return [xmlgen.Spelling("prefix", "xtce"), xmlgen.Spelling("prefix", rng.choice(PREFIX_POOL)),
            xmlgen.Spelling("default"), xmlgen.Spelling("none", extra_ns=False), xmlgen.Spelling("none", extra_ns=True),
            # one namespace under two prefixes inside one document: the namespace map of the request binds `alt` to the
            # same namespace, and the implementation side spells some kinds of element with it (`xmlops.mix_prefixes`)
            xmlgen.Spelling("prefix", "xtce", mixed=True), xmlgen.Spelling("default", mixed=True)]


def load_item(xml, sp):
    t, ns = xmlutil.text_to_sx(xml)
    return [optS(sp.ns_prefix_arg), xmlutil.nsmap_sx(ns), t]


def malformed(rng, xml, sp):
    """A broken variant of a document (fails at load)."""
    root = ET.fromstring(xml)
    kind = rng.choice(["wrong-prefix", "no-sets", "dup-param"])
    if kind == "wrong-prefix":
        t, ns = xmlutil.text_to_sx(xml)
        return [S("nosuchprefix"), xmlutil.nsmap_sx(ns), t]
    if kind == "no-sets":
        for el in list(root):
            if isinstance(el.tag, str) and ET.QName(el).localname == "TelemetryMetaData":
                root.remove(el)
    else:
        for el in root.iter():
            if isinstance(el.tag, str) and ET.QName(el).localname == "ParameterSet" and len(el):
                el.append(copy.deepcopy(el[0]))
                break
    t = xmlutil.tree_sx(root)
    return [optS(sp.ns_prefix_arg), xmlutil.nsmap_sx(dict(root.nsmap)), t]


def generate(rng, tier):
    ndefs = 28 if tier == "quick" else 250
    docs = []
    for _ in range(ndefs):
        d = defgen.Defn(rng, max_depth=rng.choice([1, 2, 3]), fanout=3, adj_pool=c09.ADJ_POOL, rich=True, odd_names=True)
        docs.append(d.sexpr())
    for dsx in docs:
        import random
        seed = rng.getrandbits(32)
        sps = spellings(rng)
        # the same abstract document in every spelling (same PRNG state for the optional-attribute choices)
        rend = []
        for sp in sps:
            for comments, pretty in ((0.0, True), (0.35, True), (0.35, False)):
                sp2 = xmlgen.Spelling(sp.kind, sp.prefix, comments=0.0, pretty=pretty, extra_ns=sp.extra_ns, mixed=sp.mixed)
                xml = xmlgen.document(random.Random(seed), dsx, sp2)
                # some integer types become time types (units / scale / offset / reference time), the same ones in
                # every rendering
                xml = c09.time_decorate(random.Random(seed + 2), xml, "" if sp2.kind == "none" else sp2.uri, pretty)
                if comments:
                    xml = add_comments(random.Random(seed + 1), xml, comments, pretty)
                rend.append((xml, sp2))
        # 1. all renderings in one sequence (spelling independence + each after the others)
        yield f"loadseq {S('CCSDSPacket')} {sx([load_item(x, sp) for x, sp in rend])}", "all-spellings"
        # 2. a rendering after prior loads of other documents / malformed inputs
        for _ in range(3 if tier == "quick" else 6):
            prior = []
            for _ in range(rng.randrange(0, 6)):
                odsx = rng.choice(docs)
                osp = rng.choice(spellings(rng))
                oxml = xmlgen.document(rng, odsx, osp)
                prior.append(malformed(rng, oxml, osp) if rng.random() < 0.4 else load_item(oxml, osp))
            x, sp = rng.choice(rend)
            yield f"loadseq {S('CCSDSPacket')} {sx(prior + [load_item(x, sp)])}", f"after-{len(prior)}-prior"


def add_comments(rng, xml, p, pretty):
    """Insert comments between the children of every element that has element children (incl. all list-like ones)."""
    root = ET.fromstring(xml)
    for el in list(root.iter()):
        if not isinstance(el.tag, str):
            continue
        kids = [k for k in el if isinstance(k.tag, str)]
        if not kids:
            continue
        for k in kids:
            if rng.random() < p:
                k.addprevious(ET.Comment(rng.choice([" c ", "", " <SplinePoint raw='1' calibrated='2'/> "])))
        if rng.random() < p:
            el.append(ET.Comment(" tail "))
    return ET.tostring(root, pretty_print=pretty, xml_declaration=True, encoding="utf-8")


def impl(line):
    t = parse_sx(line)
    root = uS(t[1])
    outs = []
    # half of the sequences go through the file-name entry points (`load_xml(path)` / `from_xtce(path)`), every document
    # of the sequence written to the SAME path before it is loaded: an earlier load must not influence a later one
    import zlib, tempfile, os
    with tempfile.TemporaryDirectory() as td:
        path = os.path.join(td, "definition.xml") if zlib.crc32(line.encode()) % 2 == 0 else None
        for pfx, nsmap, tree in t[2]:
            sub = f"load {pfx} {sx(nsmap)} {t[1]} {sx(tree)}"
            outs.append(xmlops.impl_load(sub, path=path))
    return "seq " + " | ".join(outs)


def strip_ns_fields(r):
    """An `ok (ldef ...)` response without the recorded prefix / nsmap fields."""
    if not r.startswith("ok "):
        return r
    ld = parse_sx(r[3:])[0]
    ld[4] = "-"; ld[5] = []
    return sx(ld)


def oracle(line, out):
    t = parse_sx(line)
    if not out.startswith("seq "):
        return None
    rs = out[4:].split(" | ")
    tags = line  # the all-spellings request renders ONE document: every result must be the same definition
    if len(rs) == len(t[2]) and len(t[2]) == 3 * NSPELL:
        canon = {strip_ns_fields(r) for r in rs}
        if len(canon) != 1 or not rs[0].startswith("ok "):
            return False
        return True
    return None


def in_domain(line):
    return True
