"""C11 — packets are parsed independently; generators and definitions do not interfere."""
import io

from harness.core import hx, unhx, parse_sx, sx
from harness import xser, xbuild, defgen, genutil

ID = "C11"
REQUIRED_THEOREMS = ["genStep_solo", "pointwise", "concat", "error_in_place", "generator_is_loop_over_frames",
                     "nextOn_get", "interleave"]
RULE = ("requests `gen ...` over streams mixing recognisable / unrecognisable / wrong-length packets of several APIDs x all "
        "8 combinations of (skip bad packets, report unrecognized, headers only), and `gensched ...`: 2..4 real generators "
        "created from one definition object (each with the default root container or its own `root_container_name=` override) and advanced in a PRNG-chosen interleaving, each compared with the model's solo "
        "output, with a structural snapshot of the definition compared before and after; non-trivial = the stream has at "
        "least two packets; distinct = distinct request line")
ASSUMPTIONS = ["object identity / aliasing between generators is exercised on the real objects only (a value model cannot "
               "express it); the theorem `interleave` covers the schedule-independence of the model"]
MODEL_IS_SPEC = True

responses_agree = genutil.same_events


def is_trivial(line, mo):
    return mo.count(" P ") + mo.count(" U ") + mo.count(" R ") < 2


def stream(rng, d, n):
    paths = d.paths()
    pk = []
    for _ in range(n):
        path = rng.choice(paths)
        mode = rng.choice(["exact", "exact", "deadend", "short", "long"])
        pk.append(d.encode(path, mode))
    return pk


def generate(rng, tier):
    ndefs = 60 if tier == "quick" else 2000
    for _ in range(ndefs):
        d = defgen.Defn(rng, apid_name=rng.choice(["PKT_APID", "APID"]), max_depth=rng.choice([1, 2, 3]), fanout=3)
        dsx = sx(d.sexpr())
        for pb in "01":
            for ho in "01":
                for yu in "01":
                    pk = stream(rng, d, rng.randrange(2, 9))
                    yield genutil.gen_line(dsx, "-", (pb, ho, "0", "0", yu), 0, [b"".join(pk)]), f"opts-{pb}{ho}{yu}"
        # stream composition
        a, b = stream(rng, d, 3), stream(rng, d, 3)
        for part in (a, b, a + b):
            yield genutil.gen_line(dsx, "-", ("1", "0", "0", "0", "1"), 0, [b"".join(part)]), "concat"
        # several generators over one definition, interleaved
        for _ in range(3):
            k = rng.randrange(2, 5)
            srcs = [b"".join(stream(rng, d, rng.randrange(1, 6))) for _ in range(k)]
            sched = [rng.randrange(k) for _ in range(rng.randrange(3, 25))]
            o = (rng.choice("01"), "0", rng.choice("01"), "0", rng.choice("01"))
            # each generator may name its own root container (the `root_container_name=` option); the others use the
            # definition's default
            names = [c.name for c in d.all]
            roots = [xser.S(rng.choice(names)) if rng.random() < 0.4 else "-" for _ in range(k)]
            yield (f"gensched {dsx} {sx(roots)} {sx(list(o))} 0 {sx([[hx(s)] for s in srcs])} "
                   f"{sx([str(i) for i in sched])}"), "interleave"
    # a packet whose decoding raises (C14 allows that) between two good ones
    for kind in RAISE_KINDS:
        yield f"genraise {kind}", "raise-in-the-middle"
    # generators of one definition over *segmented* streams of the same APIDs, with reassembly on: per-generator state
    from harness.props import c12
    hdsx = sx(c12.header_only_def())
    for _ in range(12 if tier == "quick" else 1500):
        k = rng.randrange(2, 4)
        srcs = [b"".join(c12.build_history(rng, [(rng.choice([100, 200]), rng.choice("FCLLU"), "seq")
                                                  for _ in range(rng.randrange(1, 7))])) for _ in range(k)]
        sched = [rng.randrange(k) for _ in range(rng.randrange(3, 25))]
        yield (f"gensched {hdsx} - {sx(['1', '0', '1', '0', '0'])} 0 {sx([[hx(b)] for b in srcs])} "
               f"{sx([str(i) for i in sched])}"), "interleave-segmented"


RAISE_XTCE = """<?xml version='1.0' encoding='UTF-8'?>
<xtce:SpaceSystem xmlns:xtce="http://www.omg.org/spec/XTCE/20180204" name="T"><xtce:TelemetryMetaData>
<xtce:ParameterTypeSet>%s<TYPE/></xtce:ParameterTypeSet>
<xtce:ParameterSet>%s<xtce:Parameter name="BODY" parameterTypeRef="BODY_T"/></xtce:ParameterSet>
<xtce:ContainerSet><xtce:SequenceContainer name="CCSDSPacket"><xtce:EntryList>%s
<xtce:ParameterRefEntry parameterRef="BODY"/></xtce:EntryList></xtce:SequenceContainer></xtce:ContainerSet>
</xtce:TelemetryMetaData></xtce:SpaceSystem>"""
RAISE_KINDS = {
    # kind: (type of BODY, data of the good packets, data of the middle packet)
    "short-float": ('<xtce:FloatParameterType name="BODY_T"><xtce:FloatDataEncoding sizeInBits="32"/></xtce:FloatParameterType>',
                    b"\x3f\x80\x00\x00", b"\x3f\x80"),
    "unlisted-enum": ('<xtce:EnumeratedParameterType name="BODY_T"><xtce:IntegerDataEncoding sizeInBits="8" encoding="unsigned"/>'
                      '<xtce:EnumerationList><xtce:Enumeration value="1" label="ON"/></xtce:EnumerationList>'
                      '</xtce:EnumeratedParameterType>', b"\x01", b"\x07"),
    "undecodable-text": ('<xtce:StringParameterType name="BODY_T"><xtce:StringDataEncoding encoding="UTF-8"><xtce:SizeInBits>'
                         '<xtce:Fixed><xtce:FixedValue>16</xtce:FixedValue></xtce:Fixed></xtce:SizeInBits></xtce:StringDataEncoding>'
                         '</xtce:StringParameterType>', b"AB", b"\xff\xfe"),
}


def raise_doc(kind):
    from harness.props import c19
    hdr = c19.HEADER[:7]
    ts = "".join(f'<xtce:IntegerParameterType name="{n}_T"><xtce:IntegerDataEncoding sizeInBits="{w}" encoding="unsigned"/>'
                 f'</xtce:IntegerParameterType>' for n, w in hdr)
    ps = "".join(f'<xtce:Parameter name="{n}" parameterTypeRef="{n}_T"/>' for n, _ in hdr)
    es = "".join(f'<xtce:ParameterRefEntry parameterRef="{n}"/>' for n, _ in hdr)
    return (RAISE_XTCE % (ts, ps, es)).replace("<TYPE/>", RAISE_KINDS[kind][0])


def impl_genraise(kind):
    import warnings
    from space_packet_parser import packets
    from space_packet_parser.xtce import definitions
    _, good, bad = RAISE_KINDS[kind]
    defn = definitions.XtcePacketDefinition.from_xtce(io.BytesIO(raise_doc(kind).encode()))
    stream = b"".join(bytes(packets.create_ccsds_packet(data=d, apid=5, sequence_count=i)) for i, d in enumerate([good, bad, good]))
    seen = []
    with warnings.catch_warnings():
        warnings.simplefilter("ignore")
        try:
            for p in defn.packet_generator(io.BytesIO(stream)):
                seen.append(p.raw_data.sequence_count)
        except Exception as e:  # noqa: BLE001
            return f"generator-ended-after {len(seen)} !{type(e).__name__}"
    return "later-packets-delivered" if 0 in seen and 2 in seen else f"packets-lost {seen}"


def _gen_ended(line, mo, io_):
    return line.startswith("genraise") and mo == "later-packets-delivered" and io_.startswith("generator-ended-after 1")


KNOWN_PREDICATES = {"generator_ended_by_decoding_error": _gen_ended}


def impl(line):
    if line.startswith("genraise"):
        return impl_genraise(line.split()[1])
    t = parse_sx(line)
    if t[0] == "gen":
        return genutil.run_gen(line)
    defn = genutil.get_def(t[1])
    roots = [None if r == "-" else xbuild.uS(r) for r in (t[2] if isinstance(t[2], list) else [t[2]] * len(t[5]))]
    before = sx(xser.definition(defn))
    runners = [genutil.GenRunner(defn, root, t[3], int(t[4]), b"".join(unhx(c) for c in src))
               for src, root in zip(t[5], roots)]
    for i in t[6]:
        runners[int(i)].step()
    for r in runners:
        r.drain()
    if sx(xser.definition(defn)) != before:
        return "err definition-mutated"
    return "sched " + " | ".join("G" + "".join(" " + e for e in r.events) for r in runners)


def in_domain(line):
    return True
