"""C04 — integer and float fields at every size, offset and byte order."""
import math
import warnings
from fractions import Fraction

from harness.core import hx, unhx, parse_sx, sx
from harness import xser, xbuild

ID = "C04"
REQUIRED_THEOREMS = ["int_unsigned_msb", "int_signed_msb", "twos_is_signed_value", "int_lsb", "float_ieee_msb",
                     "float_ieee_lsb", "float_mil_msb", "cursor", "class_uncalibrated"]
RULE = ("requests `enc (int|float <size> <encoding> <byteOrder> (- ())) <packet> <pos> ()`; integers: widths 1..72, 127, "
        "128 x {unsigned, signed, twosComplement} x both byte orders x offsets 0..7 x patterns {zeros, ones, sign bit "
        "only, alternating, random}; floats: every binary16 exponent field, stratified binary32/64 (zeros, subnormal "
        "extremes, normal extremes, infinities, quiet/signalling NaNs), exhaustive 2^16 binary16 in thorough, "
        "MIL-1750A boundary mantissas/exponents, both accepted alias spellings (`IEEE-754`, `MIL-1750A`); non-trivial = in-domain read (field inside the packet); distinct = "
        "distinct request line")
ASSUMPTIONS = ["struct.unpack of a binary16/32/64 pattern yields the IEEE value of the pattern (CPython; validated on every "
               "pattern class, all 2^16 binary16 patterns in the thorough tier); every NaN is one token"]
MODEL_IS_SPEC = False
MSB, LSB = "mostSignificantByteFirst", "leastSignificantByteFirst"


def is_trivial(line, mo):
    return not mo.startswith("ok")


def enc_line(kind, size, encoding, bo, data, pos):
    e = [kind, str(size), xser.S(encoding), xser.S(bo), ["-", []]]
    return f"enc {sx(e)} {hx(data)} {pos} ()"


def place(rng, pattern_bits, n, off):
    """A packet holding the n-bit pattern at bit offset `off`, surrounded by random bits."""
    total = off + n + rng.randrange(0, 12)
    nbytes = (total + 7) // 8
    bits = [rng.randrange(2) for _ in range(nbytes * 8)]
    for i in range(n):
        bits[off + i] = (pattern_bits >> (n - 1 - i)) & 1
    v = int("".join(map(str, bits)) or "0", 2)
    return v.to_bytes(nbytes, "big")


def generate(rng, tier):
    widths = list(range(1, 73)) + [127, 128]
    if tier == "quick":
        widths = sorted(set(list(range(1, 18)) + [23, 24, 25, 31, 32, 33, 40, 47, 48, 56, 63, 64, 65, 72, 127, 128]))
    for n in widths:
        pats = [0, (1 << n) - 1, 1 << (n - 1), int(("10" * n)[:n], 2), rng.getrandbits(n), rng.getrandbits(n)]
        for encoding in ("unsigned", "signed", "twosComplement"):
            for bo in (MSB, LSB):
                offs = range(8) if tier == "thorough" else rng.sample(range(8), 3)
                for off in offs:
                    for pat in (pats if tier == "thorough" else rng.sample(pats, 3)):
                        data = place(rng, pat, n, off)
                        yield enc_line("int", n, encoding, bo, data, off), f"int-{'lsb' if bo == LSB else 'msb'}"
    # still uncalibrated: context calibrators none of which applies to this packet, and no default calibrator — the value
    # is the integer itself (an `int`, also beyond 2**53)
    from harness.props import c06
    from harness.xser import fnum
    for n in (8, 16, 33, 56, 64):
        for encoding in ("unsigned", "twosComplement"):
            for pat in (0, (1 << n) - 1, (1 << n) - 3, rng.getrandbits(n)):
                off = rng.randrange(8)
                ctxs = [["ctx", [c06.cmp_sx("M", "==", "5", True)], ["poly", [fnum(Fraction(1, 2)), "1"]]],
                        ["ctx", [c06.cmp_sx("M", ">", "7", False)], ["poly", [fnum(Fraction(3)), "0"]]]]
                e = ["int", str(n), xser.S(encoding), xser.S(MSB), ["-", ctxs]]
                items = [c06.P("M", "IntP", rng.choice([0, 1, 4, 6, 7]))]
                yield f"enc {sx(e)} {hx(place(rng, pat, n, off))} {off} {sx(items)}", "int-contexts-none-applies"
    # over-reads and odd sizes (mirror territory, feeds C14)
    for n in (0, 8, 12, 16):
        for encoding in ("unsigned", "signed"):
            for dl in (0, 1, 2):
                yield enc_line("int", n, encoding, MSB, rng.randbytes(dl), rng.choice([0, 3, 8])), "int-edge"
    # IEEE floats
    def fl(w, pat, enc="IEEE754", tag="ieee"):
        for bo in (MSB, LSB):
            for off in (rng.sample(range(8), 2) if tier == "quick" else range(8)):
                b = pat.to_bytes(w // 8, "big")
                if bo == LSB:
                    b = b[::-1]
                data = place(rng, int.from_bytes(b, "big"), w, off)
                yield enc_line("float", w, enc, bo, data, off), tag
    specs = {16: (5, 10), 32: (8, 23), 64: (11, 52)}
    for w, (eb, mb) in specs.items():
        pats = set()
        exps = range(1 << eb) if eb <= 5 else sorted(set([0, 1, 2, (1 << eb) - 2, (1 << eb) - 1, (1 << (eb - 1)) - 1,
                                                          1 << (eb - 1)] + [rng.randrange(1 << eb) for _ in range(12)]))
        for e in exps:
            for f in (0, 1, (1 << mb) - 1, 1 << (mb - 1), rng.getrandbits(mb)):
                for s in (0, 1):
                    pats.add((s << (eb + mb)) | (e << mb) | f)
        for pat in sorted(pats):
            if tier == "quick" and rng.random() < 0.5 and w != 16:
                continue
            yield from fl(w, pat, rng.choice(["IEEE754", "IEEE754_1985", "IEEE-754"]), f"ieee{w}")
    if tier == "thorough":
        for pat in range(1 << 16):
            b = pat.to_bytes(2, "big")
            yield enc_line("float", 16, "IEEE754", MSB, b, 0), "ieee16-exhaustive"
    # MIL-STD-1750A
    mants = [0, 1, 0x7FFFFF, 0x800000, 0xFFFFFF, 0x400000, 0xC00000] + [rng.getrandbits(24) for _ in range(6)]
    expos = [0, 1, 0x7F, 0x80, 0xFF, 23, 24] + [rng.getrandbits(8) for _ in range(4)]
    for m in mants:
        for e in expos:
            yield from fl(32, (m << 8) | e, rng.choice(["MILSTD_1750A", "MILSTD_1750A", "MIL-1750A"]), "mil1750a")


def impl(line):
    t = parse_sx(line)
    e = xbuild.encoding(t[1])
    pkt = xbuild.packet(t[4], data=unhx(t[2]), pos=int(t[3]))
    with warnings.catch_warnings():
        warnings.simplefilter("ignore")
        p = e.parse_value(pkt)
    return f"ok {xser.CLS[type(p).__name__]} {xser.V(p)} {xser.V(p.raw_value)} {pkt.raw_data.pos}"


def _field(t):
    data = unhx(t[2]); pos = int(t[3]); n = int(t[1][1])
    bits = "".join(f"{b:08b}" for b in data)
    return data, pos, n, bits


def in_domain(line):
    t = parse_sx(line)
    data, pos, n, bits = _field(t)
    return n >= 1 and pos + n <= len(bits)


def ieee_ref(w, pat):
    eb, mb = {16: (5, 10), 32: (8, 23), 64: (11, 52)}[w]
    s = pat >> (eb + mb); e = (pat >> mb) & ((1 << eb) - 1); f = pat & ((1 << mb) - 1)
    bias = (1 << (eb - 1)) - 1
    if e == (1 << eb) - 1:
        return "fnan" if f else ("f-inf" if s else "finf")
    if e == 0:
        if f == 0:
            return "f-0" if s else "f0/1"
        q = Fraction(f) * Fraction(2) ** (1 - bias - mb)
    else:
        q = Fraction((1 << mb) + f) * Fraction(2) ** (e - bias - mb)
    q = -q if s else q
    return f"f{q.numerator}/{q.denominator}"


def oracle(line, out):
    """Independent reference: Python string/int arithmetic on the bit string; no struct, no library code."""
    t = parse_sx(line)
    if not in_domain(line):
        return None
    data, pos, n, bits = _field(t)
    kind = t[1][0]; encoding = xbuild.uS(t[1][2]); bo = xbuild.uS(t[1][3])
    fieldbits = bits[pos:pos + n]
    v = int(fieldbits, 2)
    if kind == "int":
        if bo == LSB:
            if n % 8:
                return None      # the property speaks of byte order for whole-byte widths only
            v = int.from_bytes(v.to_bytes(n // 8, "big"), "little")
        if encoding != "unsigned" and v >= 1 << (n - 1):
            v -= 1 << n
        return out == f"ok IntP i{v} i{v} {pos + n}"
    b = v.to_bytes(n // 8, "big")
    pat = int.from_bytes(b, "little" if bo == LSB else "big")
    if encoding in ("MILSTD_1750A", "MIL-1750A"):      # the constructor accepts the alias spelling (with a warning)
        e = pat & 0xFF; m = pat >> 8
        e = e - 256 if e >= 128 else e
        m = m - (1 << 24) if m >= 1 << 23 else m
        q = Fraction(m) * Fraction(2) ** (e - 23)
        tok = f"f{q.numerator}/{q.denominator}"
    else:
        tok = ieee_ref(n, pat)
    return out == f"ok FloatP {tok} {tok} {pos + n}"
