"""C08 — calibration, enumeration and boolean derivation; raw value kept."""
import warnings
from fractions import Fraction

from harness.core import hx, unhx, parse_sx, sx
from harness import xser, xbuild
from harness.xser import S, B, V
from harness.props import c06

ID = "C08"
REQUIRED_THEOREMS = ["first_context", "no_context", "precedence", "calibrated_is_float", "polynomial", "spline_interior",
                     "spline_knot", "spline_last_point", "spline_out_of_range", "spline_extrapolate", "enumerated",
                     "boolean", "constructor_sorts", "constructor_keeps_sorted", "spline_nan", "calInputFor_ok"]
RULE = ("requests `cal <calibrator> <x>` and `ptype <type> <packet> <pos> <items>`; splines of 2..6 strictly increasing "
        "dyadic knots queried at every knot, both end points, midpoints and outside points, both orders, both extrapolate "
        "flags; polynomials of degree <= 3 with small dyadic coefficients incl. negative exponents on powers of two; 0..3 "
        "context calibrators with overlapping criteria + optional default; enumerations with gaps; booleans over int / "
        "float / string / binary encodings; all inputs chosen in the exact-arithmetic regime (re-checked with Fractions); "
        "non-trivial = a value or a calibration error results; distinct = distinct request line")
ASSUMPTIONS = ["calibrator arithmetic is compared only where every intermediate result is exactly representable in "
               "binary64 (the generator guarantees it and the oracle re-checks it); rounding behaviour is outside the claim"]
MODEL_IS_SPEC = False
MSB = "mostSignificantByteFirst"


def is_trivial(line, mo):
    return mo.startswith("err other") or mo.startswith("err value") and " enum" not in line


def exact(fr: Fraction) -> bool:
    try:
        return Fraction(float(fr)) == fr
    except OverflowError:
        return False


def dy(rng, lo=-64, hi=64, q=4):
    return Fraction(rng.randrange(lo * q, hi * q + 1), q)


def spline_sx(rng, npts=None):
    n = npts or rng.randrange(2, 7)
    x = dy(rng, -8, 8)
    xs = [x]
    for _ in range(n - 1):
        x = x + Fraction(2) ** rng.randrange(-2, 4)
        xs.append(x)
    ys = [dy(rng) for _ in xs]
    pts = list(zip(xs, ys))
    if rng.random() < 0.3:
        rng.shuffle(pts)             # the constructor sorts
    return xs, ys, pts


def fnum(fr):
    return f"f{fr.numerator}/{fr.denominator}"


def int_enc(size, encoding="unsigned", bo=MSB, default="-", ctx=()):
    return ["int", str(size), S(encoding), S(bo), [default, list(ctx)]]


def generate(rng, tier):
    nspl = 150 if tier == "quick" else 30000
    for _ in range(nspl):
        xs, ys, pts = spline_sx(rng)
        for order in (0, 1):
            for extr in (False, True):
                c = ["spline", str(order), B(extr)] + [[fnum(a), fnum(b)] for a, b in pts]
                qs = set(xs)
                qs |= {(a + b) / 2 for a, b in zip(xs, xs[1:])}
                qs |= {xs[0] - Fraction(1, 2), xs[0] - 3, xs[-1] + Fraction(1, 4), xs[-1] + 5}
                for q in sorted(qs):
                    tok = fnum(q) if (q.denominator != 1 or rng.random() < 0.5) else f"i{q.numerator}"
                    tag = "spline-knot" if q in xs else ("spline-outside" if q < xs[0] or q > xs[-1] else "spline-mid")
                    yield f"cal {sx(c)} {tok}", tag
    # a NaN raw value (a float field may hold one) lies in no spline's range: a calibration error, whatever `extrapolate`
    for _ in range(6 if tier == "quick" else 200):
        xs, ys, pts = spline_sx(rng)
        c = ["spline", str(rng.randrange(2)), B(rng.random() < 0.5)] + [[fnum(a), fnum(b)] for a, b in pts]
        yield f"cal {sx(c)} {V(float('nan'))}", "spline-nan"
        # … and decoded from the bits of a float field that carries the spline
        enc = ["float", "32", S("IEEE754"), S(MSB), [c, []]]
        yield f"ptype {sx(['pt', S('T'), 'plain', enc])} {hx(bytes([0x7F, 0xC0, 0, 0]))} 0 ()", "spline-nan"
    for _ in range(5):
        c = ["spline", "0", "0", [fnum(Fraction(1)), fnum(Fraction(2))]]
        yield f"cal {sx(c)} i1", "spline-single-point"
    npoly = 400 if tier == "quick" else 12000
    for _ in range(npoly):
        terms = []
        for _ in range(rng.randrange(0, 5)):
            co = dy(rng, -8, 8)
            ctok = fnum(co) if rng.random() < 0.8 or co.denominator != 1 else f"i{co.numerator}"
            terms.append([ctok, str(rng.randrange(0, 4))])
        x = rng.choice([0, 1, -1, 2, -3, 7, 10, Fraction(1, 2), Fraction(-5, 4), 255])
        if rng.random() < 0.2:
            terms.append([fnum(dy(rng, -4, 4)), str(rng.choice([-1, -2]))])
            x = rng.choice([1, 2, 4, -2, Fraction(1, 2), 0])
        xt = f"i{x}" if isinstance(x, int) else fnum(x)
        yield f"cal {sx(['poly'] + terms)} {xt}", "poly"
    # --- parameter types: context precedence, enumerations, booleans
    nt = 500 if tier == "quick" else 12000
    for _ in range(nt):
        size = rng.choice([3, 8, 12, 16])
        data = rng.randbytes(4); pos = rng.randrange(0, 9)
        items = [c06.P("M", "IntP", rng.choice([0, 1, 2])), c06.P("N", "FloatP", rng.choice([0.0, 0.5, 2.0]), rng.choice([0, 3]))]
        ctx = []
        for _ in range(rng.randrange(0, 4)):
            crit = [c06.cmp_sx(rng.choice(["M", "N", "SELF"]), rng.choice(["==", "!=", "<", ">=", "lt", "geq"]),
                               rng.choice(["0", "1", "2", "3", "100"]), rng.random() < 0.7)
                    for _ in range(rng.randrange(1, 3))]
            cal = ["poly", [fnum(dy(rng, -4, 4)), "0"], [fnum(Fraction(rng.randrange(-3, 4))), "1"]]
            ctx.append(["ctx", crit, cal])
        default = "-" if rng.random() < 0.5 else ["poly", [fnum(dy(rng, -4, 4)), "0"], [fnum(Fraction(1, 2)), "1"]]
        enc = int_enc(size, rng.choice(["unsigned", "signed"]), MSB, default, ctx)
        kind = rng.choice(["plain", "plain", "bool", "enum"])
        if kind == "enum":
            keys = rng.sample(range(-4, 2 ** min(size, 4)), 5)
            kind = ["enum"] + [[f"i{k}", S(f"L{k}")] for k in keys]
            data = bytes([rng.choice([0, 1, 2, 3, 0x10, 0x20, 0xFF]) for _ in range(4)])
        pt = ["pt", S("T"), kind, enc]
        yield f"ptype {sx(pt)} {hx(data)} {pos} {sx(items)}", f"ptype-{kind if isinstance(kind, str) else 'enum'}"
        if ctx and rng.random() < 0.4:
            # the same type object decodes the same raw value again under other contexts (and once more under the
            # first): the result is a function of the packet, not of what was decoded before
            for m in rng.sample([0, 1, 2], 3) + [None]:
                it2 = [items[0] if m is None else c06.P("M", "IntP", m), items[1]]
                yield f"ptype {sx(pt)} {hx(data)} {pos} {sx(it2)}", "ptype-history"
    # calibration results that are exactly zero (still a calibrated float, not "no calibration")
    for _ in range(30 if tier == "quick" else 1500):
        r = rng.choice([0, 5, 64, 200])
        k = rng.choice([Fraction(1), Fraction(1, 2), Fraction(2), Fraction(-1)])
        zero_poly = ["poly", [fnum(-k * r), "0"], [fnum(k), "1"]]
        zero_spline = ["spline", rng.choice(["0", "1"]), "0", [fnum(Fraction(r)), fnum(Fraction(0))],
                       [fnum(Fraction(r + 16)), fnum(Fraction(8))]]
        cal = rng.choice([zero_poly, zero_spline])
        if rng.random() < 0.5:
            enc = int_enc(8, "unsigned", MSB, cal, [])
        else:
            enc = int_enc(8, "unsigned", MSB, "-", [["ctx", [c06.cmp_sx("M", "==", "1", True)], cal]])
        items = [c06.P("M", "IntP", 1)]
        yield f"ptype {sx(['pt', S('T'), rng.choice(['plain', 'bool']), enc])} {hx(bytes([r, 1, 2, 3]))} 0 {sx(items)}", \
            "ptype-zero-result"
    # booleans over float / string / binary encodings; enum over float and string encodings
    for _ in range(40 if tier == "quick" else 3000):
        data = rng.choice([b"\x00" * 4, rng.randbytes(4), b"\x00\x00\x00\x01", b"\x80\x00\x00\x00", b"AB\x00\x00"])
        enc = rng.choice([
            ["float", "32", S("IEEE754"), S(MSB), ["-", []]],
            ["str", S("UTF-8"), "16", "-", "-", "1", "-", "-", "-", "-"],
            ["bin", "16", "-", "1", "-", "-"],
            ["bin", "0", "-", "1", "-", "-"],
        ])
        yield f"ptype {sx(['pt', S('T'), 'bool', enc])} {hx(data)} 0 ()", "ptype-bool-other"
    for _ in range(20 if tier == "quick" else 1000):
        data = rng.choice([b"AB", b"ON", b"\x3c\x00", b"\x40\x00", b"\x00\x00"])
        if rng.random() < 0.5:
            enc = ["str", S("UTF-8"), "16", "-", "-", "1", "-", "-", "-", "-"]
            kind = ["enum", [hx(b"AB"), S("ab")], [hx(b"ON"), S("on")]]
        else:
            enc = ["float", "16", S("IEEE754"), S(MSB), ["-", []]]
            kind = ["enum", ["f1/1", S("one")], ["i2", S("two")], ["f0/1", S("zero")]]
        yield f"ptype {sx(['pt', S('T'), kind, enc])} {hx(data)} 0 ()", "ptype-enum-other"
    # one enumerated type whose label is shared by several encoded values, asked for a run of values: each answer carries
    # the raw value of *its own* bits (the type object is the same one throughout — see `cached`)
    for _ in range(6 if tier == "quick" else 400):
        labs = [rng.choice(["IDLE", "BUSY"]) for _ in range(4)]
        if len(set(labs)) == 1:
            labs[0] = "OTHER"
        pt = ["pt", S("T"), ["enum"] + [[f"i{k}", S(labs[k])] for k in range(4)], int_enc(2)]
        for _ in range(10):
            yield f"ptype {sx(pt)} {hx(bytes([rng.randrange(256)]))} {rng.randrange(0, 7)} ()", "ptype-enum-shared-label"


_objs = {}


def history_key(line):
    """Requests with the same calibrator / parameter-type syntax are answered by one library object (see `cached`)."""
    t = parse_sx(line)
    return (t[0], sx(t[1])) if len(t) > 1 else (t[0],)


def cached(kind, tok, build):
    """One library object per distinct request syntax, reused across requests: a result must not depend on what the
    same calibrator / parameter type was asked before (no hidden state)."""
    key = (kind, sx(tok))
    if key not in _objs:
        if len(_objs) > 400:
            _objs.clear()
        _objs[key] = build(tok)
    return _objs[key]


def impl(line):
    t = parse_sx(line)
    with warnings.catch_warnings():
        warnings.simplefilter("ignore")
        if t[0] == "cal":
            c = cached("cal", t[1], xbuild.calibrator)
            r = c.calibrate(xbuild.uV(t[2]))
            return f"ok {V(float(r))}"
        if t[0] == "ptype":
            pt = cached("ptype", t[1], xbuild.ptype)
            pkt = xbuild.packet(t[4], data=unhx(t[2]), pos=int(t[3]))
            p = pt.parse_value(pkt)
            return f"ok {xser.CLS[type(p).__name__]} {V(p)} {V(p.raw_value)} {pkt.raw_data.pos}"
    raise ValueError(line)


# --- independent oracle (Fractions) -------------------------------------------------------------------
def F(tok):
    if tok[0] == "i":
        return Fraction(int(tok[1:]))
    n, d = tok[1:].split("/")
    return Fraction(int(n), int(d))


class Inexact(Exception):
    pass


def ck(fr):
    if not exact(fr):
        raise Inexact
    return fr


def ref_cal(c, x):
    """Reference semantics of a calibrator on an exact rational; returns Fraction | 'calibration' | None."""
    if c[0] == "poly":
        tot = Fraction(0)
        for co, e in c[1:]:
            e = int(e)
            if e < 0 and x == 0:
                return None
            tot = ck(tot + ck(F(co) * ck(x ** e)))
        return tot
    order, extr = int(c[1]), c[2] == "1"
    pts = sorted(((F(a), F(b)) for a, b in c[3:]), key=lambda p: p[0])
    xs = [p[0] for p in pts]; ys = [p[1] for p in pts]
    if len(set(xs)) != len(xs) or len(xs) < 2:
        return None                      # the property speaks of strictly increasing raw coordinates (>= 2 points)

    def lin(i):
        return ck(ck(ck(ys[i + 1] - ys[i]) / ck(xs[i + 1] - xs[i])) * ck(x - xs[i])) + ys[i]
    if xs[0] <= x <= xs[-1]:
        if x == xs[-1]:
            return ys[-1]
        i = max(k for k in range(len(xs)) if xs[k] <= x)
        return ys[i] if order == 0 else ck(lin(i))
    if not extr:
        return "calibration"
    if x > xs[-1]:
        return ys[-1] if order == 0 else ck(lin(len(xs) - 2))
    return ys[0] if order == 0 else ck(lin(0))


def oracle(line, out):
    t = parse_sx(line)
    try:
        if t[0] == "cal":
            if t[2] == "fnan":
                # NaN is inside no closed range of points: a spline fails with a calibration error
                return (out == "err calibration") if t[1][0] == "spline" else None
            r = ref_cal(t[1], F(t[2]))
            if r is None:
                return None
            if r == "calibration":
                return out == "err calibration"
            return out == f"ok f{r.numerator}/{r.denominator}"
        if t[0] == "ptype":
            return oracle_ptype(t, out)
    except Inexact:
        return None
    return None


def oracle_ptype(t, out):
    pt, data, pos, items = t[1], unhx(t[2]), int(t[3]), t[4]
    enc = pt[3]
    if enc[0] != "int":
        return None
    size = int(enc[1]); signed = xbuild.uS(enc[2]) != "unsigned"
    bits = "".join(f"{b:08b}" for b in data)
    if pos + size > len(bits):
        return None
    raw = int(bits[pos:pos + size], 2)
    if signed and raw >= 1 << (size - 1):
        raw -= 1 << size
    its = {xbuild.uS(i[0]): (i[1], i[2], i[3]) for i in items}
    default, ctxs = enc[4]
    chosen = None
    try:
        for c in ctxs:
            if all([c06._o_cmp(cm, its, raw) for cm in c[1]]):
                chosen = c[2]
                break
    except c06.Undefined:
        return None
    if chosen is None and default != "-":
        chosen = default
    kind = pt[2]
    if chosen is not None:
        r = ref_cal(chosen, Fraction(raw))
        if r is None or r == "calibration":
            return None
        val = f"f{r.numerator}/{r.denominator}"; cls = "FloatP"
    else:
        val = f"i{raw}"; cls = "IntP"
    if kind == "plain":
        return out == f"ok {cls} {val} i{raw} {pos + size}"
    if kind == "bool":
        return out == f"ok BoolP i{1 if raw != 0 else 0} i{raw} {pos + size}"
    table = {int(k[1:]): v for k, v in kind[1:]}
    if raw in table:
        return out == f"ok StrP {table[raw]} i{raw} {pos + size}"
    return out == "err value"


def in_domain(line):
    return oracle(line, "") is not None
