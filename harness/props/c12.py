"""C12 — segmented packets are reassembled per APID exactly once and only when complete."""
import itertools

from harness.core import hx, unhx, parse_sx, sx
from harness import xser, xbuild, defgen, genutil
from harness.xser import S

ID = "C12"
REQUIRED_THEOREMS = ["per_apid", "segStep_same", "segStep_other", "combined_bytes", "unsegmented_alone", "emitted_iff",
                     "consecutive_spec", "step_count", "at_most_once", "drop_warnings", "open_group_closes", "complete_group", "complete_group_interleaved", "gap_group_dropped", "first_supersedes", "orphan_dropped",
                     "unsegmented_step"]
RULE = ("requests `gen <definition> - (1 0 1 <k> 0) 0 (<stream>)` with segment combining on; histories over {FIRST, "
        "CONTINUATION, LAST, UNSEGMENTED} x 2 APIDs x {in-sequence, gap, wrap-around}: exhaustive up to length 3 (quick, "
        "sampled at 3) / 4 (thorough, sampled), random up to length 40; secondary-header lengths k in {0,1,4}; non-trivial "
        "= at least one segmented packet in the history; distinct = distinct request line")
ASSUMPTIONS = ["the history reaches the generator as a packet file; framing is covered by C02/C10"]
MODEL_IS_SPEC = False
FLAGS = {"C": 0, "F": 1, "L": 2, "U": 3}

responses_agree = genutil.same_events


def is_trivial(line, mo):
    return "W:" not in mo and mo.count(" P ") <= 0


def header_only_def():
    """A concrete root container holding just the seven header fields (the rest of each packet is unparsed)."""
    ents = []
    for n, w in defgen.HEADER:
        ents.append(["p", S(n), ["pt", S(f"U{w}_T"), "plain", ["int", str(w), S("unsigned"), S(defgen.MSB), ["-", []]]]])
    return ["def", S("CCSDSPacket"), [["cont", S("CCSDSPacket"), "0", "-", [], [], ents]]]


def mk(rng, apid, flag, count, dlen=None):
    dlen = dlen or rng.choice([1, 2, 3, 5, 8])
    # groups are per APID: the other bits of the identification field (version, type, secondary-header flag) vary from
    # packet to packet and play no part
    v, ty, sh = (rng.randrange(8), rng.randrange(2), rng.randrange(2)) if rng.random() < 0.3 else (0, 0, 1)
    bits = f"{v:03b}{ty:01b}{sh:01b}{apid:011b}{FLAGS[flag]:02b}{count % 16384:014b}{dlen - 1:016b}"
    return int(bits, 2).to_bytes(6, "big") + rng.randbytes(dlen)


def build_history(rng, spec):
    """spec: list of (apid, flag, rel) with rel in {'seq','gap','wrap'}: the count relative to the previous packet of the APID."""
    last = {}
    pk = []
    for apid, flag, rel in spec:
        prev = last.get(apid)
        if prev is None:
            c = rng.choice([0, 5, 16383, 16382]) if rel != "wrap" else 16383
        elif rel == "seq":
            c = (prev + 1) % 16384
        elif rel == "gap":
            c = (prev + rng.choice([0, 2, 3, 16383])) % 16384
        else:   # wrap: force the previous-to-this step across 16383 -> 0 by re-basing
            c = (prev + 1) % 16384
        last[apid] = c
        pk.append(mk(rng, apid, flag, c))
    return pk


def generate(rng, tier):
    dsx = sx(header_only_def())
    opts = [a + f + r for a in "ab" for f in "FCLU" for r in ("s", "g")]   # 16 options per position
    apid = {"a": 100, "b": 200}
    rel = {"s": "seq", "g": "gap"}
    maxlen = 3 if tier == "quick" else 4
    for n in range(1, maxlen + 1):
        combos = list(itertools.product(opts, repeat=n))
        limit = 2500 if tier == "quick" else 150000
        if len(combos) > limit:
            combos = rng.sample(combos, limit)
        for combo in combos:
            spec = [(apid[c[0]], c[1], rel[c[2]]) for c in combo]
            pk = build_history(rng, spec)
            k = rng.choice([0, 0, 1, 4])
            yield genutil.gen_line(dsx, "-", ("1", "0", "1", str(k), "0"), 0, [b"".join(pk)]), f"exhaustive-len{n}"
    # wrap-around groups and long random histories
    for _ in range(150 if tier == "quick" else 20000):
        n = rng.randrange(3, 41)
        spec = []
        for _ in range(n):
            spec.append((rng.choice([100, 200, 300]), rng.choice("FCCLLU"), "seq" if rng.random() < 0.85 else "gap"))
        pk = build_history(rng, spec)
        k = rng.choice([0, 1, 4])
        yield genutil.gen_line(dsx, "-", ("1", "0", "1", str(k), "0"), 0, [b"".join(pk)]), "random-long"
    for start in (16381, 16382, 16383):
        pk = [mk(rng, 100, "F", start), mk(rng, 100, "C", start + 1), mk(rng, 100, "L", start + 2)]
        yield genutil.gen_line(dsx, "-", ("1", "0", "1", "0", "0"), 0, [b"".join(pk)]), "wrap-around"
    # several live generators of one definition over segmented streams of the same APIDs, advanced alternately:
    # each must reassemble its own stream only
    for _ in range(40 if tier == "quick" else 4000):
        k = rng.randrange(2, 4)
        srcs = []
        for _ in range(k):
            spec = [(rng.choice([100, 200]), rng.choice("FCLLU"), "seq" if rng.random() < 0.9 else "gap")
                    for _ in range(rng.randrange(1, 7))]
            srcs.append(b"".join(build_history(rng, spec)))
        sched = [rng.randrange(k) for _ in range(rng.randrange(3, 25))]
        sh = rng.choice(["0", "0", "1"])
        yield (f"gensched {dsx} - {sx(['1', '0', '1', sh, '0'])} 0 {sx([[hx(b)] for b in srcs])} "
               f"{sx([str(i) for i in sched])}"), "interleaved-generators"
    # a later generator is created (and started) while an earlier one has a group open
    for _ in range(10 if tier == "quick" else 500):
        a = b"".join(build_history(rng, [(100, "F", "seq"), (100, "C", "seq"), (100, "L", "seq")]))
        b = b"".join(build_history(rng, [(100, rng.choice("LCU"), "seq"), (100, "F", "seq"), (100, "L", "seq")]))
        sched = [0, 1, 0, 1, 0, 1, 1, 0][:rng.randrange(2, 9)]
        yield (f"gensched {dsx} - {sx(['1', '0', '1', '0', '0'])} 0 {sx([[hx(a)], [hx(b)]])} "
               f"{sx([str(i) for i in sched])}"), "interleaved-generators"
    # many APIDs with a group open at the same time (each APID on its own, however many there are)
    for _ in range(2 if tier == "quick" else 40):
        apids = rng.sample(range(1, 2047), 40)
        spec = [(a, "F", "seq") for a in apids] + [(a, "C", "seq") for a in apids[::3]] + [(a, "L", "seq") for a in apids]
        pk = build_history(rng, spec)
        yield genutil.gen_line(dsx, "-", ("1", "0", "1", "0", "0"), 0, [b"".join(pk)]), "many-open-groups"
    # combining off: every packet alone
    for _ in range(20):
        spec = [(rng.choice([100, 200]), rng.choice("FCLU"), "seq") for _ in range(rng.randrange(1, 6))]
        pk = build_history(rng, spec)
        yield genutil.gen_line(dsx, "-", ("1", "0", "0", "0", "0"), 0, [b"".join(pk)]), "combine-off"


def impl(line):
    if line.startswith("gensched"):
        from harness.props import c11
        return c11.impl(line)
    return genutil.run_gen(line)


def oracle(line, out):
    """15-line reference automaton over the raw history (for `gensched`: over each generator's own history)."""
    t = parse_sx(line)
    if t[0] == "gensched":
        if not out.startswith("sched "):
            return False if out.startswith("err") else None
        parts = out[len("sched "):].split(" | ")
        if len(parts) != len(t[5]):
            return None
        res = [oracle_one(t[3], b"".join(unhx(c) for c in src), part.strip()) for src, part in zip(t[5], parts)]
        return False if False in res else (None if None in res else True)
    return oracle_one(t[3], b"".join(unhx(c) for c in t[5]), out)


def oracle_one(opts, data, out):
    if "W:?" in out:
        return None          # a warning whose wording is not recognised: its kind is not known here (the model comparison decides)
    pb, ho, cb, sh, yu = opts
    k = int(sh)
    pk, i = [], 0
    while i + 6 <= len(data):
        n = 7 + int.from_bytes(data[i + 4:i + 6], "big")
        pk.append(data[i:i + n]); i += n
    if i != len(data):
        return None
    expect = []          # list of ("W:..",) | ("P", rawbytes)
    groups = {}
    for p in pk:
        apid = ((p[0] & 7) << 8) | p[1]
        flag = p[2] >> 6
        cnt = ((p[2] & 0x3F) << 8) | p[3]
        if cb != "1" or flag == 3:
            expect.append(("P", p))
        elif flag == 1:
            groups[apid] = [(cnt, p)]
        elif not groups.get(apid):
            expect.append(("W:nostart",))
        elif flag == 0:
            groups[apid].append((cnt, p))
        else:
            g = groups.pop(apid) + [(cnt, p)]
            if all((g[j + 1][0] - g[j][0]) % 16384 == 1 for j in range(len(g) - 1)):
                expect.append(("P", g[0][1] + b"".join(q[6 + k:] for _, q in g[1:])))
            else:
                expect.append(("W:seq",))
    got = []
    for ev in genutil.split_events(out):
        if ev[0] == "P":
            got.append(("P", unhx(ev[2])))
        elif ev[0] == "W:len":
            continue          # length accounting is C14's business
        else:
            got.append((ev[0],))
    return got == expect


def in_domain(line):
    return True
