"""C02 — stream framing exact, independent of source kind and chunking."""
from harness.core import hx, unhx, parse_sx
from harness import pktutil as pu

ID = "C02"
REQUIRED_THEOREMS = ["framing_exact", "framing_exact_from_state", "chunking_independent", "source_independent",
                     "split_unique"]
TRIVIAL_TAGS = {"const"}
RULE = ("requests `frame <skip> <trim> <kind> <r> (<chunks>)` over well-formed packet streams built by an independent "
        "encoder: data fields 1..65536 (biased to 1,2,6,7,max), prefix 0..9, kinds bytes/file/socket/pipe (a buffered file object that cannot seek), read sizes "
        "1,2,5,6,7,13,4096,default, scripted short reads and fragmentations (every cut inside a header, on packet "
        "boundaries, 1 byte at a time), trim branch exercised by substituting the 20_000_000 literal of the real "
        "code object; non-trivial = at least one packet in the stream; distinct = distinct request line")
ASSUMPTIONS = ["file/socket sources are modelled as the sequence of their read()/recv() results; blocking and timeouts "
               "of real sockets are not modelled", "the trim constant is substituted in the real function's code object"]
MODEL_IS_SPEC = False
PARALLEL = True


def is_trivial(line, mo):
    return mo == "pkts" or line.startswith("const")


def stream(rng, npk, skip, big=False):
    pk = []
    for _ in range(npk):
        dl = None
        if big and rng.random() < 0.3:
            dl = rng.choice([65535, 65536, 4096])
        pk.append(rng.randbytes(skip) + pu.mk_packet(rng, dl))
    return b"".join(pk)


def generate(rng, tier):
    yield "const hdrlen", "const"
    yield "const trim", "const"
    n = 120 if tier == "quick" else 1500
    kinds = ["bytes", "file", "socket", "pipe"]
    for i in range(n):
        skip = rng.choice([0, 0, 0, 1, 2, 4, 9])
        npk = rng.choice([0, 1, 1, 2, 3, 5, 8])
        data = stream(rng, npk, skip, big=(i % 10 == 0))
        trim = rng.choice([pu.REAL_TRIM, pu.REAL_TRIM, 0, 1, 7, 40, 100])
        for kind in kinds:
            if kind == "bytes":
                yield pu.frame_line(skip, trim, kind, -1, [data] if data else []), "bytes"
                continue
            for style in rng.sample(["one", 1, 2, 5, 6, 7, 13, 4096, "rand", "rand"], 3 if tier == "quick" else 6):
                if style == "one":
                    r, chunks = -1, ([data] if data else [])
                elif isinstance(style, int):
                    if len(data) // style > 400:
                        continue    # the list-based model is quadratic in the number of chunks
                    r, chunks = style, pu.cut(rng, data, style)
                else:
                    r, chunks = 0, pu.cut(rng, data, "rand")
                yield pu.frame_line(skip, trim, kind, r, chunks), f"{kind}-{'trim' if trim != pu.REAL_TRIM else 'notrim'}"
    # degenerate but valid headers in mid-stream (all zero: looks like fill; all ones; idle APID)
    for h in (dict(ver=0, typ=0, shf=0, apid=0, sf=0, sc=0), dict(ver=7, typ=1, shf=1, apid=2047, sf=3, sc=16383),
              dict(ver=0, typ=0, shf=0, apid=2047, sf=3, sc=0)):
        for dl in (1, 2):
            pk = [pu.mk_packet(rng, 3), pu.mk_packet(rng, dl, **h), pu.mk_packet(rng, 5), pu.mk_packet(rng, dl, **h)]
            rng.shuffle(pk)
            data = b"".join(pk)
            for kind in kinds:
                chunks = [data] if kind == "bytes" else pu.cut(rng, data, rng.choice([1, 5, "rand"]))
                yield pu.frame_line(0, pu.REAL_TRIM, kind, -1 if kind == "bytes" else 0, chunks), "special-header"
    # every single cut position of a short two-packet stream, for both streaming kinds
    for skip in (0, 3):
        data = stream(rng, 2, skip)
        if len(data) > 80:
            data = rng.randbytes(skip) + pu.mk_packet(rng, 2) + rng.randbytes(skip) + pu.mk_packet(rng, 7)
        for c in range(1, len(data)):
            for kind in ("file", "socket", "pipe"):
                yield pu.frame_line(skip, rng.choice([pu.REAL_TRIM, 5]), kind, 0, [data[:c], data[c:]]), "cut-sweep"
    yield from gen_gzip(rng, tier)
    if tier == "thorough":
        # one genuine stream beyond the real 20 MB trim threshold, maximum-size packets
        pk = [pu.mk_packet(rng, 65536) for _ in range(330)]
        data = b"".join(pk)
        yield pu.frame_line(0, pu.REAL_TRIM, "file", 1 << 20, pu.cut(rng, data, 1 << 20)), "real-trim-21MB"


def gen_gzip(rng, tier):
    """Compressed packet files opened with `gzip.open` (a binary file object like any other)."""
    made = 0
    for _ in range(30):
        if made >= (3 if tier == "quick" else 12):
            break
        data = pu.gz_stream(rng)
        if data is None:
            continue
        made += 1
        yield pu.frame_line(0, pu.REAL_TRIM, "gzip", -1, [data]), "gzip-file"
        yield pu.frame_line(0, pu.REAL_TRIM, "gzip", 64, [data]), "gzip-file"


def impl(line):
    if line.startswith("const"):
        from space_packet_parser import packets
        # live constants, where the module still has them in this place and form (otherwise: nothing to compare)
        if line == "const hdrlen":
            h = getattr(packets.RawPacketData, "HEADER_LENGTH_BYTES", None)
            return "n/a" if not isinstance(h, int) else f"ok {h}"
        c = [k for k in packets.ccsds_generator.__code__.co_consts if type(k) is int and k > 1_000_000]
        return f"ok {c[0]}" if len(c) == 1 else "n/a"
    return pu.run_frame(line)


def in_domain(line):
    return True


def oracle(line, out):
    if line.startswith("const"):
        return None
    skip, trim, kind, r, chunks = pu.parse_frame_line(line)
    data = b"".join(chunks)
    pkts, rest = pu.ref_split(data, skip)
    if rest:
        return None   # not a well-formed stream: C10's business
    return out == "pkts" + "".join(" " + hx(p) for p in pkts)


def shrink(line, still):
    skip, trim, kind, r, chunks = pu.parse_frame_line(line)
    changed = True
    while changed:
        changed = False
        cands = []
        for i in range(len(chunks)):
            cands.append(chunks[:i] + chunks[i + 1:])
            if i + 1 < len(chunks):
                cands.append(chunks[:i] + [chunks[i] + chunks[i + 1]] + chunks[i + 2:])
        for c2 in cands:
            l2 = pu.frame_line(skip, trim, kind, 0 if kind != "bytes" else -1, c2)
            if still(l2):
                chunks = c2; r = 0 if kind != "bytes" else -1; changed = True
                break
    return pu.frame_line(skip, trim, kind, r, chunks)


def extra_evidence():
    from space_packet_parser import packets
    return {"trim_threshold_lowered_in_code_object": pu.REAL_TRIM in packets.ccsds_generator.__code__.co_consts}
