"""C10 — framing terminates on every finite source and yields only complete packets."""
from harness.core import hx, unhx
from harness import pktutil as pu

ID = "C10"
REQUIRED_THEOREMS = ["terminates_bound", "complete_consecutive_short", "empty_input", "no_internal_error"]
TRIVIAL_TAGS = set()
RULE = ("requests `frame ...` over (a) every valid short stream cut at every byte offset x 4 source kinds (bytes, file, socket, a file object that cannot seek) x read sizes, "
        "(b) empty input, (c) arbitrary random byte strings, (d) peer-closed sockets; the harness pulls at most |S|/7+3 "
        "items and treats more as non-termination; non-trivial = non-empty input; distinct = distinct request line")
ASSUMPTIONS = ["a finite source is the finite list of its read()/recv() results followed by b'' forever"]
MODEL_IS_SPEC = False


def is_trivial(line, mo):
    return line.endswith("()")


def generate(rng, tier):
    from harness.props import c02
    yield from c02.gen_gzip(rng, tier)
    nstreams = 10 if tier == "quick" else 300
    for kind in ("bytes", "file", "socket"):
        for skip in (0, 2):
            yield pu.frame_line(skip, pu.REAL_TRIM, kind, -1, []), "empty"
    for s in range(nstreams):
        skip = rng.choice([0, 0, 1, 5])
        npk = rng.choice([1, 2, 3])
        data = b"".join(rng.randbytes(skip) + pu.mk_packet(rng, rng.choice([1, 2, 6, 7, 9, 20])) for _ in range(npk))
        for c in range(0, len(data) + 1):
            part = data[:c]
            trim = rng.choice([pu.REAL_TRIM, pu.REAL_TRIM, 3])
            yield pu.frame_line(skip, trim, "bytes", -1, [part] if part else []), "trunc-bytes"
            for kind in ("file", "socket", "pipe"):
                style = rng.choice(["one", 1, 2, 5, 6, 7, 13, "rand"])
                if style == "one":
                    r, chunks = -1, ([part] if part else [])
                elif isinstance(style, int):
                    r, chunks = style, pu.cut(rng, part, style)
                else:
                    r, chunks = 0, pu.cut(rng, part, "rand")
                yield pu.frame_line(skip, trim, kind, r, chunks), f"trunc-{kind}"
    # length fields around byte boundaries of the 16-bit length word, cut near the packet ends
    for dl in (255, 256, 257, 511, 512, 513, 1024, 32768, 65536):
        data = pu.mk_packet(rng, dl) + pu.mk_packet(rng, 3)
        for c in sorted(set([len(data), len(data) - 1, len(data) - 10, dl + 7, dl + 6, dl + 8, dl, 7, 6])):
            part = data[:c]
            for kind in ("bytes", "file", "socket"):
                chunks = [part] if kind == "bytes" else pu.cut(rng, part, rng.choice(["one", 4096, "rand"]))
                yield pu.frame_line(0, pu.REAL_TRIM, kind, -1 if len(chunks) <= 1 else 0, chunks), "length-boundary"
    # degenerate but valid headers: all-zero (looks like zero fill), all-ones fields, idle APID; followed by more packets
    special = [dict(ver=0, typ=0, shf=0, apid=0, sf=0, sc=0), dict(ver=7, typ=1, shf=1, apid=2047, sf=3, sc=16383),
               dict(ver=0, typ=0, shf=0, apid=2047, sf=3, sc=0), dict(ver=0, typ=0, shf=0, apid=0, sf=3, sc=0)]
    for h in special:
        for dl in (1, 2, 256):
            for pos in (0, 1, 2):
                pk = [pu.mk_packet(rng, rng.choice([1, 3, 8])) for _ in range(2)]
                pk.insert(pos, pu.mk_packet(rng, dl, **h))
                data = b"".join(pk)
                for kind in ("bytes", "file", "socket"):
                    chunks = [data] if kind == "bytes" else pu.cut(rng, data, rng.choice(["one", 3, "rand"]))
                    yield pu.frame_line(0, pu.REAL_TRIM, kind, -1 if len(chunks) <= 1 else 0, chunks), "special-header"
    nrand = 600 if tier == "quick" else 100000
    for _ in range(nrand):
        ln = rng.choice([1, 5, 6, 7, 8, 13, 14, 40, 300])
        # bias the length field small so that random bytes contain "packets"
        b = bytearray(rng.randbytes(ln))
        for i in range(4, ln, rng.choice([7, 8, 9, 11])):
            b[i] = 0
            if i + 1 < ln:
                b[i + 1] = rng.randrange(0, 6)
        data = bytes(b)
        kind = rng.choice(["bytes", "file", "socket", "pipe"])
        skip = rng.choice([0, 0, 1, 3])
        chunks = [data] if kind == "bytes" else pu.cut(rng, data, rng.choice(["one", 1, 3, "rand"]))
        r = -1 if kind == "bytes" or len(chunks) <= 1 else 0
        yield pu.frame_line(skip, rng.choice([pu.REAL_TRIM, 0, 9]), kind, r, chunks), f"random-{kind}"


def impl(line):
    return pu.run_frame(line)


def oracle(line, out):
    """Direct check of the four clauses on the yielded list."""
    skip, trim, kind, r, chunks = pu.parse_frame_line(line)
    data = b"".join(chunks)
    if not out.startswith("pkts"):
        return False            # non-termination or an escaping internal error
    items = [unhx(t) for t in out.split()[1:]]
    i = 0
    for it in items:
        if len(it) < 7 or len(it) != 7 + int.from_bytes(it[4:6], "big"):
            return False        # incomplete item
        if data[i + skip:i + skip + len(it)] != it:
            return False        # not a consecutive slice
        i += skip + len(it)
    rest = data[i:]
    if len(rest) >= skip + 6:
        need = skip + 7 + int.from_bytes(rest[skip + 4:skip + 6], "big")
        if len(rest) >= need:
            return False        # a complete packet was left unconsumed
    return True


def in_domain(line):
    return True


def extra_evidence():
    from space_packet_parser import packets
    return {"trim_threshold_lowered_in_code_object": pu.REAL_TRIM in packets.ccsds_generator.__code__.co_consts}
