"""C17 — a loaded definition is a consistent object graph; broken documents fail at load."""
import copy
import io

import lxml.etree as ET

from harness.core import hx, unhx, parse_sx, sx
from harness import xser, xbuild, defgen, xmlgen, xmlutil, xmlops
from harness.xser import S
from harness.xbuild import uS

from harness.props import c09

ID = "C17"
REQUIRED_THEOREMS = ["loaded_consistent", "updateCaches_covers", "caches_consistent", "loadContainer_empty",
                     "loadContainerSet_parts", "types_unique", "params_unique", "containers_unique", "duplicate_type_rejected",
                     "duplicate_parameter_rejected", "unknown_type_ref_rejected", "parameter_type_resolves",
                     "popFold_spec", "inheritors_exact", "basedOn_nodup",
                     "dangling_type_ref_is_load_failure", "dangling_base_is_load_failure",
                     "dangling_parameter_entry_is_load_failure", "unparsable_container_rejected_doc",
                     "container_set_failure_is_load_failure", "duplicate_parameter_names_rejected",
                     "duplicate_type_names_rejected", "duplicate_names_are_load_failures"]
RULE = ("requests `load <prefix> <nsmap> <root> <tree>`: generated documents in the supported subset and all single-point "
        "corruptions of them (an EntryList / parameterTypeRef / BaseContainer / ContainerRefEntry reference renamed to an "
        "undefined name, a type / parameter / container duplicated with or without a change, a definition deleted, a base "
        "or nesting cycle introduced); the loaded graph is serialised by name and object identity is checked with `is`; "
        "non-trivial = a document with at least 3 containers or a corruption; distinct = distinct request line")
ASSUMPTIONS = ["object identity ('the same object') is checked on the real object graph only; the model works by name",
               "lxml parsing/serialisation is trusted"]
MODEL_IS_SPEC = False
PARALLEL = True
NS = xmlgen.XTCE_NS


def is_trivial(line, mo):
    return False


def q(tag):
    return f"{{{NS}}}{tag}"


def corruptions(rng, root):
    """Yield (kind, corrupted copy of the lxml tree)."""
    def fresh():
        return copy.deepcopy(root)

    def sets(r):
        tm = r.find(q("TelemetryMetaData"))
        return tm.find(q("ParameterTypeSet")), tm.find(q("ParameterSet")), tm.find(q("ContainerSet"))
    ts, ps, cs = sets(root)
    nt, np_, nc = len(ts), len(ps), len(cs)
    # references renamed
    for kind, xpath, attr in (("entry-ref", f".//{q('ParameterRefEntry')}", "parameterRef"),
                              ("type-ref", f".//{q('Parameter')}", "parameterTypeRef"),
                              ("base-ref", f".//{q('BaseContainer')}", "containerRef"),
                              ("nest-ref", f".//{q('ContainerRefEntry')}", "containerRef")):
        r = fresh()
        els = r.findall(xpath)
        if els:
            rng.choice(els).set(attr, "NO_SUCH_NAME")
            yield "dangling-" + kind, r
    # duplicates
    for kind, idx in (("type", 0), ("param", 1), ("cont", 2)):
        for changed in (False, True):
            r = fresh()
            s = sets(r)[idx]
            if len(s) == 0:
                continue
            el = rng.choice(list(s))
            dup = copy.deepcopy(el)
            if changed:
                if kind == "cont":
                    el2 = dup.find(q("EntryList"))
                    if len(el2):
                        el2.remove(el2[-1])
                    else:
                        was = (dup.get("abstract") or "false").strip().lower() in ("true", "1")      # xs:boolean
                        dup.set("abstract", "false" if was else "true")
                elif kind == "param":
                    dup.set("shortDescription", "changed")
                else:
                    dup.set("unused", "x")
            s.append(dup)
            yield f"duplicate-{kind}-{'changed' if changed else 'identical'}", r
    # one type name declared twice, the second time as another kind of type (a duplicate all the same)
    r = fresh()
    ts_ = sets(r)[0]
    ints = [e for e in ts_ if ET.QName(e).localname == "IntegerParameterType"]
    if ints:
        el = rng.choice(ints)
        dup = copy.deepcopy(el)
        dup.tag = q("BooleanParameterType") if rng.random() < 0.5 else q("FloatParameterType")
        if rng.random() < 0.5:
            ts_.insert(0, dup)
        else:
            ts_.append(dup)
        yield "duplicate-type-other-kind", r
    # deletions
    for kind, idx in (("type", 0), ("param", 1), ("cont", 2)):
        r = fresh()
        s = sets(r)[idx]
        if len(s):
            s.remove(rng.choice(list(s)))
            yield f"deleted-{kind}", r
    # the same corruptions aimed at a parameter no entry list refers to (the checks are on the document, not on what
    # the containers happen to use)
    for kind in ("dup-identical", "dup-changed", "dangling-type", "type-deleted"):
        r = fresh()
        t_, p_, _ = sets(r)
        un = [e for e in p_ if e.get("name", "").startswith("UNUSED")]
        if not un:
            break
        el = un[0]
        if kind.startswith("dup"):
            dup = copy.deepcopy(el)
            if kind == "dup-changed":
                dup.set("parameterTypeRef", t_[0].get("name"))
            p_.append(dup)
        elif kind == "dangling-type":
            el.set("parameterTypeRef", "NO_SUCH_TYPE")
        else:
            for te in list(t_):
                if te.get("name") == el.get("parameterTypeRef"):
                    t_.remove(te)
        yield "unused-param-" + kind, r
    # cycles
    r = fresh()
    conts = list(sets(r)[2])
    based = [c for c in conts if c.find(q("BaseContainer")) is not None]
    if based:
        c = rng.choice(based)
        base_name = c.find(q("BaseContainer")).get("containerRef")
        for b in conts:
            if b.get("name") == base_name and b.find(q("BaseContainer")) is None:
                bc = ET.Element(q("BaseContainer")); bc.set("containerRef", c.get("name"))
                b.insert(0, bc)
                yield "base-cycle", r
                break
    r = fresh()
    conts = list(sets(r)[2])
    if conts:
        c = rng.choice(conts)
        e = ET.SubElement(c.find(q("EntryList")), q("ContainerRefEntry")); e.set("containerRef", c.get("name"))
        yield "nest-self-cycle", r


def line_of(root_el, prefix="xtce"):
    t = xmlutil.tree_sx(root_el)
    return f"load {S(prefix)} {sx(xmlutil.nsmap_sx(dict(root_el.nsmap)))} {S('CCSDSPacket')} {sx(t)}"


def generate(rng, tier):
    ndefs = 60 if tier == "quick" else 1500
    for _ in range(ndefs):
        d = defgen.Defn(rng, max_depth=rng.choice([1, 2, 3]), fanout=3, adj_pool=c09.ADJ_POOL, rich=True, odd_names=True)
        sp = xmlgen.Spelling("prefix", "xtce", comments=0.0)
        xml = xmlgen.document(rng, d.sexpr(), sp)
        root = ET.fromstring(xml)
        # base containers without restriction criteria are legal XTCE: drop the criteria of one child now and then
        if rng.random() < 0.5:
            rcs = root.findall(f".//{q('RestrictionCriteria')}")
            if rcs:
                rc = rng.choice(rcs)
                rc.getparent().remove(rc)
        if rng.random() < 0.6:
            # a declared parameter (with its own type) that no container uses: legal, and subject to the same checks
            tm = root.find(q("TelemetryMetaData"))
            ts_, ps_ = tm.find(q("ParameterTypeSet")), tm.find(q("ParameterSet"))
            if len(ts_):
                ut = copy.deepcopy(ts_[0]); ut.set("name", "UNUSED_T"); ts_.append(ut)
                up = ET.SubElement(ps_, q("Parameter")); up.set("name", "UNUSED_P"); up.set("parameterTypeRef", "UNUSED_T")
        yield line_of(root), "valid"
        for kind, r in corruptions(rng, root):
            yield line_of(r), kind


def impl(line):
    return xmlops.impl_load(line)


def _names(t, setname):
    """children (sx) of TelemetryMetaData/<setname>."""
    for k in t[5]:
        if k[0] == "e" and uS(k[2]) == "TelemetryMetaData":
            for s in k[5]:
                if s[0] == "e" and uS(s[2]) == setname:
                    return [c for c in s[5] if c[0] == "e"]
    return []


def _attr(e, k):
    for a, v in e[3]:
        if uS(a) == k:
            return uS(v)
    return None


def _find(e, tag):
    return [c for c in e[5] if c[0] == "e" and uS(c[2]) == tag]


def oracle(line, out):
    """Independent reading of the document: what must be rejected, and what a successful load must satisfy."""
    t = parse_sx(line)
    tree = t[4]
    types = [_attr(e, "name") for e in _names(tree, "ParameterTypeSet")]
    params = _names(tree, "ParameterSet")
    conts = _names(tree, "ContainerSet")
    pnames = [_attr(e, "name") for e in params]
    cnames = [_attr(e, "name") for e in conts]
    must_reject = False
    if len(set(types)) != len(types) or len(set(pnames)) != len(pnames):
        must_reject = True
    if any(_attr(p, "parameterTypeRef") not in types for p in params):
        must_reject = True
    base, nest = {}, {}
    for c in conts:
        n = _attr(c, "name")
        for b in _find(c, "BaseContainer"):
            base.setdefault(n, set()).add(_attr(b, "containerRef"))
            if _attr(b, "containerRef") not in cnames:
                must_reject = True
        for el in _find(c, "EntryList"):
            for e in el[5]:
                if e[0] != "e":
                    continue
                if uS(e[2]) == "ParameterRefEntry" and _attr(e, "parameterRef") not in pnames:
                    must_reject = True
                if uS(e[2]) == "ContainerRefEntry":
                    nest.setdefault(n, set()).add(_attr(e, "containerRef"))
                    if _attr(e, "containerRef") not in cnames:
                        must_reject = True
    # cycles through base / nesting links
    graph = {n: set(base.get(n, ())) | set(nest.get(n, ())) for n in cnames}

    def cyclic(n, seen):
        if n in seen:
            return True
        return any(cyclic(m, seen | {n}) for m in graph.get(n, ()) if m in graph)
    if any(cyclic(n, frozenset()) for n in cnames):
        must_reject = True
    dup_conts = len(set(cnames)) != len(cnames)
    # *conflicting* duplicates: two SequenceContainer elements of one name that differ in what they contain (abstract flag,
    # base container, entry list, restriction criteria) — differences in anything else are left to the model
    def signature(c):
        def xsb(v):
            return v.strip().lower() in ("true", "1")

        def elems_only(e):
            return [uS(e[2]), sorted((uS(a), xsb(uS(v)) if uS(a) == "useCalibratedValue" else uS(v)) for a, v in e[3]),
                    uS(e[4]) if e[4] != "-" else None, [elems_only(k) for k in e[5] if k[0] == "e"]]
        ab = xsb(_attr(c, "abstract") or "false")
        bases = [(_attr(b, "containerRef"), [elems_only(r) for r in _find(b, "RestrictionCriteria")]) for b in _find(c, "BaseContainer")]
        ents = [[(uS(e[2]), _attr(e, "parameterRef") or _attr(e, "containerRef")) for e in el[5] if e[0] == "e"]
                for el in _find(c, "EntryList")]
        return repr((ab, bases, ents))
    sigs = {}
    for c in conts:
        sigs.setdefault(_attr(c, "name"), set()).add(signature(c))
    if any(len(v) > 1 for v in sigs.values()):
        must_reject = True
    if must_reject:
        return out == "err"
    if dup_conts and not out.startswith("ok "):
        return None           # whether duplicates conflict is decided by the model; a load that succeeds must still be consistent
    if out == "err identity":
        return False
    if not out.startswith("ok "):
        return None
    ld = parse_sx(out[3:])[0]
    lts, lps, lcs = ld[6], ld[7], ld[8]
    tn = [uS(x[2]) for x in lts]; pn = [uS(x[1]) for x in lps]; cn = [uS(x[1]) for x in lcs]
    if len(set(tn)) != len(tn) or len(set(pn)) != len(pn) or len(set(cn)) != len(cn):
        return False
    by = {uS(c[1]): c for c in lcs}
    for c in lcs:
        for e in c[2]:
            if (e[0] == "p" and uS(e[1]) not in pn) or (e[0] == "c" and uS(e[1]) not in cn):
                return False
        want = [uS(o[1]) for o in lcs if o[5] != "-" and uS(o[5]) == uS(c[1])]
        got = [uS(x) for x in c[8]]
        if sorted(got) != sorted(want) or len(set(got)) != len(got):
            return False
    for p in lps:
        if uS(p[2]) not in tn:
            return False
    return True


def in_domain(line):
    return True
