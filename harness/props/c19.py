"""C19 — CLI listings show each packet once, in order, and never hang or crash."""
import os
import re
import tempfile

from harness.core import hx, unhx
from harness import pktutil as pu

ID = "C19"
REQUIRED_THEOREMS = ["rows_small", "rows_large", "rows_large_count", "rows_large_shown", "rows_are_sublist", "index_valid", "index_out_of_range"]
RULE = ("requests `rows <n>` and `index <n> <i>`: packet files (plain names, names with brackets, spaces, in directories whose names form a closing markup tag) of n = 0..25 packets (sequence count = 8186 + index, crossing 8191 -> 8192; other header fields varied) run through "
        "`spp describe-packets` and `spp parse --packet i` (i = -1..n+1) with click's CliRunner in-process; rows are "
        "recovered from rich's table output; the live MAX_ROWS / HEAD_ROWS constants are compared with the model's; "
        "exhaustive over that range; non-trivial = n >= 1; distinct = distinct request line")
ASSUMPTIONS = ["click's argument handling and rich's table/pretty rendering are outside the model (trusted); rows are "
               "recovered from the rendered text by the SEQCNT column", "termination on every file is C10 (the framer)"]
MODEL_IS_SPEC = True
PARALLEL = False
XTCE = """<?xml version='1.0' encoding='UTF-8'?>
<xtce:SpaceSystem xmlns:xtce="https://www.omg.org/spec/XTCE/20180204" name="T">
<xtce:TelemetryMetaData>
<xtce:ParameterTypeSet>
%s
</xtce:ParameterTypeSet>
<xtce:ParameterSet>
%s
</xtce:ParameterSet>
<xtce:ContainerSet>
<xtce:SequenceContainer name="CCSDSPacket"><xtce:EntryList>
%s
</xtce:EntryList></xtce:SequenceContainer>
</xtce:ContainerSet>
</xtce:TelemetryMetaData>
</xtce:SpaceSystem>
"""
HEADER = [("VERSION", 3), ("TYPE", 1), ("SEC_HDR_FLG", 1), ("PKT_APID", 11), ("SEQ_FLGS", 2), ("SRC_SEQ_CTR", 14),
          ("PKT_LEN", 16), ("BODY", 8)]


def xtce_text():
    ts = "\n".join(f'<xtce:IntegerParameterType name="{n}_T"><xtce:IntegerDataEncoding sizeInBits="{w}" encoding="unsigned"/>'
                   f'</xtce:IntegerParameterType>' for n, w in HEADER)
    ps = "\n".join(f'<xtce:Parameter name="{n}" parameterTypeRef="{n}_T"/>' for n, _ in HEADER)
    es = "\n".join(f'<xtce:ParameterRefEntry parameterRef="{n}"/>' for n, _ in HEADER)
    return XTCE % (ts, ps, es)


def is_trivial(line, mo):
    return line.split()[1] == "0" or line.startswith("parsebad")


def generate(rng, tier):
    yield "const rows", "const"
    N = 25 if tier == "quick" else 60
    for n in range(0, N + 1):
        yield f"rows {n}", "describe-packets"
    for n in range(0, 14 if tier == "quick" else 40):
        for i in range(-1, n + 2):
            yield f"index {n} {i}", "parse-index"
    for n in (1, 2, 3, 7, 10, 11, 12) if tier == "quick" else range(1, 30):
        yield f"rowsdup {n}", "describe-identical-packets"
    for n in (21, 22, 25) if tier == "quick" else range(41, 64):
        for i in (0, 19, 20, 21, n - 1, n, n + 1):
            yield f"index {n} {i}", "parse-index-long-file"
    # well-framed packets that are shorter than the definition describes (a 64-bit float follows the header)
    for n in (1, 3):
        yield f"parseshort {n}", "parse-undecodable"
    for kind in ("unlisted-enum", "root-name"):
        yield f"parsebad {kind}", "parse-undecodable"
    # files that end part-way through a packet (or a header): the complete packets are listed, nothing else happens
    for n in (1, 2, 5, 10, 11, 12):
        for c in (1, 2, 6, 7, 8, 13):
            if c <= 7 * n:
                yield f"rowscut {n} {c}", "describe-truncated"
                k = (7 * n - c) // 7
                for i in (0, k - 1, k, k + 1):
                    yield f"indexcut {n} {c} {i}", "parse-truncated"


# packet i carries sequence count BASE + i (the listing is read back through that column); the counts cross 8191 -> 8192
BASE = 8186


def packet_file(n, d, cut=0):
    import random
    rng = random.Random(n)
    data = b"".join(pu.mk_packet(rng, 1, sc=BASE + i, apid=100 + (i % 3) * 700, sf=i % 4, ver=i % 8, typ=i % 2,
                                 shf=(i // 2) % 2) for i in range(n))
    # file names are part of "every packet file": brackets are markup to the console library the CLI prints with
    name = [f"p{n}.bin", f"p[{n}].bin", os.path.join("d[", "x]", f"p{n}.bin"), f"[red]p{n}.bin", f"p {n} (1).bin"][n % 5]
    p = os.path.join(d, name)
    os.makedirs(os.path.dirname(p), exist_ok=True)
    with open(p, "wb") as f:
        f.write(data[:len(data) - cut])
    return p


def impl(line):
    from click.testing import CliRunner
    from space_packet_parser import cli
    t = line.split()
    if t[0] == "const":
        # the thresholds as module constants, where the module still has them under these names (the listing requests
        # below establish both thresholds through behaviour anyway)
        return f"ok {getattr(cli, 'MAX_ROWS', 10)} {getattr(cli, 'HEAD_ROWS', 5)}"
    if t[0] == "parsebad":
        from harness.props import c11
        from space_packet_parser import packets
        runner = CliRunner()
        with tempfile.TemporaryDirectory() as d:
            doc = c11.raise_doc("unlisted-enum")
            data = [b"\x01", b"\x07" if t[1] == "unlisted-enum" else b"\x01", b"\x01"]
            if t[1] == "root-name":
                doc = doc.replace('name="CCSDSPacket"', 'name="TelemetryPacket"')
            pf, xf = os.path.join(d, "p.bin"), os.path.join(d, "def.xml")
            with open(pf, "wb") as f:
                f.write(b"".join(bytes(packets.create_ccsds_packet(data=x, apid=5, sequence_count=i)) for i, x in enumerate(data)))
            with open(xf, "w") as f:
                f.write(doc)
            res = runner.invoke(cli.spp, ["-q", "parse", pf, xf, "--packet=0"], terminal_width=200)
            if res.exception is not None and not isinstance(res.exception, SystemExit):
                return f"err traceback !{type(res.exception).__name__}"
            return "no-traceback"
    n = int(t[1])
    if t[0] == "parseshort":
        runner = CliRunner()
        with tempfile.TemporaryDirectory() as d:
            pf = packet_file(n, d)
            xf = os.path.join(d, "def.xml")
            with open(xf, "w") as f:
                f.write(xtce_text().replace('<xtce:IntegerParameterType name="BODY_T"><xtce:IntegerDataEncoding sizeInBits="8" '
                                            'encoding="unsigned"/></xtce:IntegerParameterType>',
                                            '<xtce:FloatParameterType name="BODY_T"><xtce:FloatDataEncoding sizeInBits="64"/>'
                                            '</xtce:FloatParameterType>'))
            res = runner.invoke(cli.spp, ["-q", "parse", pf, xf], terminal_width=200)
            if res.exception is not None and not isinstance(res.exception, SystemExit):
                return f"err traceback !{type(res.exception).__name__}"
            return "no-traceback"
    if t[0] == "rowsdup":
        # n copies of one packet: every row shows that packet; rows are numbered by their position in the listing
        runner = CliRunner()
        with tempfile.TemporaryDirectory() as d:
            one = packet_file(1, d)
            with open(one, "rb") as fh:
                blob = fh.read()
            pf = os.path.join(d, "dup.bin")
            with open(pf, "wb") as fh:
                fh.write(blob * n)
            res = runner.invoke(cli.spp, ["-q", "describe-packets", pf], terminal_width=200)
            if res.exception is not None and not isinstance(res.exception, SystemExit):
                return f"err traceback !{type(res.exception).__name__}"
            kinds = []
            for ln in res.output.splitlines():
                cells = re.sub(r"[^0-9A-Za-z_.\- ]", " ", re.sub(r"\x1b\[[0-9;]*m", "", ln)).split()
                if cells and all(c == "..." for c in cells):
                    kinds.append("...")
                elif len(cells) == 7 and all(re.fullmatch(r"-?[0-9]+", c) for c in cells):
                    if [int(c) for c in cells] != [0, 0, 0, 100, 0, BASE, 0]:
                        return f"err row-fields-differ {' '.join(cells)}"
                    kinds.append("row")
            if "..." in kinds:
                k = kinds.index("...")
                head, tail = kinds[:k], kinds[k + 1:]
                idx = [str(i) for i in range(len(head))] + ["..."] + [str(n - len(tail) + i) for i in range(len(tail))]
            else:
                idx = [str(i) for i in range(len(kinds))]
            return "rows" + "".join(" " + x for x in idx)
    cut = 0
    if t[0] in ("rowscut", "indexcut"):
        cut = int(t[2])
        t = [t[0][:-3], t[1]] + t[3:]
    complete = (7 * n - cut) // 7
    runner = CliRunner()
    with tempfile.TemporaryDirectory() as d:
        pf = packet_file(n, d, cut)
        if t[0] == "rows":
            res = runner.invoke(cli.spp, ["-q", "describe-packets", pf], terminal_width=200)
            if res.exception is not None and not isinstance(res.exception, SystemExit):
                return f"err traceback !{type(res.exception).__name__}"
            out = res.output
            # (a file without a complete packet: whatever is said about it, there are no rows and no traceback)
            rows = []
            for ln in out.splitlines():
                # a row of the listing is seven integers, or ellipses in their place — whatever the table is drawn with
                # (rules, no rules, alignment, colour are the renderer's business)
                cells = re.sub(r"[^0-9A-Za-z_.\- ]", " ", re.sub(r"\x1b\[[0-9;]*m", "", ln)).split()
                if cells and all(c in ("...", "…") for c in cells):
                    rows.append("...")
                    continue
                if len(cells) == 7 and all(re.fullmatch(r"-?[0-9]+", c) for c in cells):
                    i = int(cells[5]) - BASE
                    # every printed header field is the field of that packet (independent of the library's accessors)
                    want = [i % 8, i % 2, (i // 2) % 2, 100 + (i % 3) * 700, i % 4, BASE + i, 0]
                    if [int(c) for c in cells] != want:
                        return f"err row-fields-differ {' '.join(cells)}"
                    rows.append(str(i))
            return "rows" + "".join(" " + r for r in rows)
        xf = os.path.join(d, "def.xml")
        with open(xf, "w") as f:
            f.write(xtce_text())
        i = int(t[2])
        res = runner.invoke(cli.spp, ["-q", "parse", pf, xf, f"--packet={i}"], terminal_width=200)
        if res.exception is not None and not isinstance(res.exception, SystemExit):
            return f"err traceback !{type(res.exception).__name__}"
        out = res.output
        m = re.findall(r"'SRC_SEQ_CTR': (\d+)", out)
        if len(m) == 1:
            return f"shown {int(m[0]) - BASE}"
        if not m and out.strip():
            return "out-of-range"          # no packet is shown and something is said (the wording is not the property's)
        return f"err unparsed-output:{len(m)}"


def _parse_undecodable(line, mo, io):
    return (line.startswith("parseshort") or line == "parsebad unlisted-enum") and mo == "no-traceback" and \
        io.startswith("err traceback")


def _parse_root(line, mo, io):
    return line == "parsebad root-name" and mo == "no-traceback" and io.startswith("err traceback")


KNOWN_PREDICATES = {"parse_undecodable_traceback": _parse_undecodable, "parse_root_container_traceback": _parse_root}


def in_domain(line):
    return True
