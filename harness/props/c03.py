"""C03 — bit-cursor reads (RawPacketData.read_as_int / read_as_bytes / _extract_bits)."""
from harness.core import hx, unhx, parse_sx, sx

ID = "C03"
REQUIRED_THEOREMS = ["read_as_int", "read_as_bytes", "field_arith", "buffer_unchanged_int",
                     "buffer_unchanged_bytes", "read_as_bytes_guard", "read_as_int_negative"]
TRIVIAL_TAGS = {"empty-buffer"}
RULE = ("requests `rint|rbytes|xbits <buffer> <cursor> <width>`; systematic: random buffers of 0..9 bytes x every "
        "(p, n) with p+n <= 8|B|+16, special widths {0,1,7,8,9,63,64,65,255,256,1000} at every p mod 8, random "
        "buffers up to 64 KiB, buffers of 65543..131072 bytes read in their last bytes and across byte 65542; non-trivial = non-empty buffer and width > 0; distinct = distinct request line")
ASSUMPTIONS = ["CPython int/bytes/slicing semantics are as modelled (validated differentially on every run)"]
MODEL_IS_SPEC = False


def is_trivial(line, mo):
    if line.startswith("rseq"):
        return False
    t = line.split()
    return t[1] == "x" or t[3] == "0"


def generate(rng, tier):
    nbuf = 40 if tier == "quick" else 1000
    for _ in range(nbuf):
        ln = rng.randrange(0, 10)
        buf = bytes(rng.choice([0, 0xFF, rng.randrange(256)]) if rng.random() < 0.3 else rng.randrange(256)
                    for _ in range(ln))
        tot = 8 * ln + 16
        for p in range(0, tot + 1):
            for n in range(0, tot - p + 1):
                if tier == "quick" and ln > 4 and rng.random() < 0.7:
                    continue
                op = rng.choice(["rint", "rbytes", "xbits"]) if ln > 2 else None
                for o in ([op] if op else ["rint", "rbytes", "xbits"]):
                    yield f"{o} {hx(buf)} {p} {n}", ("empty-buffer" if ln == 0 else
                                                     "in" if p + n <= 8 * ln else "overread")
    widths = [0, 1, 7, 8, 9, 63, 64, 65, 255, 256, 1000]
    for w in widths:
        for off in range(8):
            for base in (0, 8, 64):
                ln = (base + off + w + 7) // 8 + rng.randrange(0, 3)
                buf = rng.randbytes(ln)
                for o in ("rint", "rbytes"):
                    yield f"{o} {hx(buf)} {base + off} {w}", "width-sweep"
    nbig = 6 if tier == "quick" else 160
    for _ in range(nbig):
        ln = rng.choice([100, 1000, 4096, 65535, 65536])
        buf = rng.randbytes(ln)
        for _ in range(20):
            p = rng.randrange(0, 8 * ln)
            n = rng.randrange(0, 8 * ln - p + 1) if rng.random() < 0.5 else rng.randrange(0, min(80, 8 * ln - p + 1))
            op = rng.choice(['rint', 'rbytes'])
            if op == 'rint':
                n = min(n, 4096)
            elif rng.random() < 0.5:
                p -= p % 8; n -= n % 8      # aligned slice path, any size
            else:
                n = min(n, 16384)
            yield f"{op} {hx(buf)} {p} {n}", "big"
    # buffers longer than any single CCSDS packet (what segment combining builds, or a caller constructs directly):
    # reads in the last bytes, and across the 65542-byte mark (6 + 65536, the longest length a header can describe)
    for _ in range(3 if tier == "quick" else 40):
        ln = rng.choice([65543, 65550, 66000, 80006, 131072])
        buf = rng.randbytes(ln)
        for _ in range(8):
            n = rng.choice([1, 7, 8, 16, 32, 64, 13, 24])
            where = rng.choice(["end", "mark", "past", "past"])
            if where == "end":
                p = 8 * ln - n - rng.choice([0, 0, 1, 8, 9])
            elif where == "mark":
                p = 8 * 65542 - rng.randrange(0, n + 1)
            else:
                p = rng.randrange(8 * 65542, max(8 * 65542, 8 * ln - n) + 1)
            op = rng.choice(['rint', 'rbytes', 'rbytes'])
            if op == 'rbytes' and rng.random() < 0.5:
                p -= p % 8; n = max(8, n - n % 8)
            p = max(0, min(p, 8 * ln - n))
            yield f"{op} {hx(buf)} {p} {n}", "huge"
    yield from gen_sequences(rng, tier)


def gen_sequences(rng, tier):
    """Histories of reads on ONE buffer object: each read's result depends on the cursor and the bytes only, never on
    what was read before (no state besides `pos`)."""
    for _ in range(150 if tier == "quick" else 20000):
        ln = rng.randrange(1, 24)
        buf = rng.randbytes(ln)
        p = rng.choice([0, 0, 0, rng.randrange(0, 8 * ln)])
        ops = []
        for _ in range(rng.randrange(2, 9)):
            k = rng.choice("ib")
            n = rng.choice([0, 1, 3, 5, 7, 8, 8, 16, 16, 24, 32, rng.randrange(0, 40)])
            ops.append([k, str(n)])
        yield f"rseq {hx(buf)} {p} {sx(ops)}", "read-history"
    # the cursor is the caller's to move, backwards too: reads far apart in a longer buffer with jumps between them
    for _ in range(60 if tier == "quick" else 6000):
        ln = rng.randrange(24, 90)
        buf = rng.randbytes(ln)
        ops = []
        for _ in range(rng.randrange(3, 9)):
            if rng.random() < 0.5:
                ops.append(["p", str(rng.randrange(0, 8 * ln - 40))])
            n = rng.choice([1, 3, 8, 12, 16, 24, 32, 33])
            ops.append([rng.choice("ib"), str(n)])
        yield f"rseq {hx(buf)} {rng.randrange(0, 8 * ln - 400 if ln > 60 else 8)} {sx(ops)}", "read-history-jumps"
    # very wide reads (tens of thousands of bits) at unaligned cursors: the bytes read are the bits addressed
    for _ in range(4 if tier == "quick" else 60):
        ln = rng.choice([2600, 4096, 9000])
        buf = rng.randbytes(ln)
        p = rng.randrange(1, 64)
        n = rng.choice([14300, 16001, 20000, 8 * ln - p - rng.randrange(0, 9)])
        n = min(n, 8 * ln - p)
        yield f"rbytes {hx(buf)} {p} {n}", "very-wide"
        yield f"rint {hx(buf)} {p - p % 8} {n - n % 8}", "very-wide"


def same(r, buf):
    return "same" if bytes(r) == buf and len(r) == len(buf) else "changed"


def impl_seq(line):
    from space_packet_parser import packets
    t = parse_sx(line)
    buf = unhx(t[1])
    r = packets.RawPacketData(buf)
    r.pos = int(t[2])
    out = "seq"
    for k, n in t[3]:
        try:
            if k == "p":
                r.pos = int(n)
            elif k == "i":
                out += f" {r.read_as_int(int(n))}"
            else:
                out += f" {hx(bytes(r.read_as_bytes(int(n))))}"
        except ValueError:
            return out + " err"
    return out + f" end {r.pos} {same(r, buf)}"


def oracle_seq(line, out):
    t = parse_sx(line)
    buf = unhx(t[1]); p = int(t[2])
    bits = "".join(f"{b:08b}" for b in buf)
    want = "seq"
    for k, n in t[3]:
        n = int(n)
        if k == "p":
            p = n
            continue
        if p + n > len(bits):
            return None if k == "i" else (out == want + " err")    # only bytes reads are guarded; int over-reads are C14's
        v = int(bits[p:p + n] or "0", 2)
        want += f" {v}" if k == "i" else f" {hx(v.to_bytes((n + 7) // 8, 'big'))}"
        p += n
    return out == want + f" end {p} same"


def impl(line):
    from space_packet_parser import packets
    if line.startswith("rseq"):
        return impl_seq(line)
    op, d, p, n = line.split()
    buf = unhx(d); p = int(p); n = int(n)
    if op == "xbits":
        # the shift / mask helper itself, where the module has it under this name
        f = getattr(packets, "_extract_bits", None)
        return "n/a" if f is None else f"ok {f(buf, p, n)}"
    r = packets.RawPacketData(buf)
    r.pos = p
    import sys
    if n > 4000:
        # the library call runs under the interpreter's default limit on int -> str conversion (which the harness lifts
        # for its own printing): a read must not depend on rendering the number it extracts
        sys.set_int_max_str_digits(4300)
    try:
        v = r.read_as_int(n) if op == "rint" else r.read_as_bytes(n)
    finally:
        sys.set_int_max_str_digits(0)
    if op == "rint":
        return f"ok {v} {r.pos} {same(r, buf)}"
    assert type(v) in (bytes, packets.RawPacketData)
    return f"ok {hx(bytes(v))} {r.pos} {same(r, buf)}"


def in_domain(line):
    if line.startswith("rseq"):
        return True
    op, d, p, n = line.split()
    return int(n) >= 0 and int(p) + int(n) <= 4 * (len(d) - 1)


def oracle(line, out):
    """Independent evaluation of the property with Python string operations."""
    if line.startswith("rseq"):
        return oracle_seq(line, out)
    op, d, p, n = line.split()
    buf = unhx(d); p = int(p); n = int(n)
    if not in_domain(line):
        return None
    bitstring = "".join(f"{b:08b}" for b in buf)
    want = int(bitstring[p:p + n] or "0", 2)
    if op == "xbits":
        return out == f"ok {want}"
    if op == "rint":
        return out == f"ok {want} {p + n} same"
    return out == f"ok {hx(want.to_bytes((n + 7) // 8, 'big'))} {p + n} same"


def shrink(line, still):
    if line.startswith("rseq"):
        return line
    op, d, p, n = line.split()
    buf = unhx(d); p = int(p); n = int(n)
    changed = True
    while changed:
        changed = False
        cands = []
        if len(buf) > 0:
            cands.append((buf[:-1], p, n))
            if p >= 8:
                cands.append((buf[1:], p - 8, n))
        if n > 0:
            cands += [(buf, p, n - 1), (buf, p, n // 2)]
        if p > 0:
            cands += [(buf, p - 1, n)]
        for i in range(len(buf)):
            if buf[i]:
                cands.append((buf[:i] + b"\0" + buf[i + 1:], p, n))
        for b2, p2, n2 in cands:
            l2 = f"{op} {hx(b2)} {p2} {n2}"
            if still(l2):
                buf, p, n = b2, p2, n2
                changed = True
                break
    return f"{op} {hx(buf)} {p} {n}"
