"""C13 — primary-header construction and header accessors are exact inverses."""
from harness.core import hx, unhx
from harness import pktutil as pu

ID = "C13"
REQUIRED_THEOREMS = ["accessors_create", "layout", "accessors_spec", "rejects", "created_wf", "reframe", "reframe_with_prefix", "create_eq"]
RULE = ("requests `mkpkt v t s apid sf sc <data>`, `hdr <packet>`, `frame ...` of constructed packets; every field over "
        "its whole range with the others at all-zeros / all-ones / random, all pairwise boundary combinations "
        "(min, max, min-1, max+1), all 2^16 values of each 16-bit header word (thorough; stratified in quick), data "
        "lengths 0,1,2,255,256,65535,65536,65537; non-trivial = accepted construction or accessor read; distinct = "
        "distinct request line")
ASSUMPTIONS = ["Python int shifts/ors and int.to_bytes are as modelled"]
MODEL_IS_SPEC = False
RANGES = [("ver", 7), ("typ", 1), ("shf", 1), ("apid", 2047), ("sf", 3), ("sc", 16383)]


def is_trivial(line, mo):
    return mo.startswith("err")


def mk(f, data):
    return f"mkpkt {f[0]} {f[1]} {f[2]} {f[3]} {f[4]} {f[5]} {hx(data)}"


def generate(rng, tier):
    yield "const hdrlen", "const"
    zeros = [0] * 6
    ones = [m for _, m in RANGES]
    # every field over its whole range, others zeros / ones / random
    for i, (_, m) in enumerate(RANGES):
        vals = range(m + 1) if (m < 100 or tier == "thorough") else \
            sorted(set([0, 1, 2, m - 1, m] + [rng.randrange(m + 1) for _ in range(300)] + [1 << k for k in range(14) if (1 << k) <= m]))
        for v in vals:
            for base in (zeros, ones, [rng.randrange(mm + 1) for _, mm in RANGES]):
                f = list(base); f[i] = v
                yield mk(f, rng.randbytes(rng.choice([1, 2, 3]))), "field-sweep"
    # pairwise boundary combinations incl. out-of-range
    for i, (_, mi) in enumerate(RANGES):
        for j, (_, mj) in enumerate(RANGES):
            if i >= j:
                continue
            for vi in (0, mi, -1, mi + 1):
                for vj in (0, mj, -1, mj + 1):
                    f = [rng.randrange(mm + 1) for _, mm in RANGES]; f[i] = vi; f[j] = vj
                    yield mk(f, b"\x01"), "pair-boundary"
    # single out-of-range values far away
    for i in range(6):
        for v in (-1, -2 ** 40, RANGES[i][1] + 1, 2 ** 40):
            f = list(zeros); f[i] = v
            yield mk(f, b"\x00"), "out-of-range"
    # data lengths
    for dl in (0, 1, 2, 255, 256, 65535, 65536, 65537):
        f = [rng.randrange(mm + 1) for _, mm in RANGES]
        yield mk(f, rng.randbytes(dl)), "data-length"
    # accessors on arbitrary header words: all 2^16 values of each of the three words (thorough), stratified (quick)
    for w in range(3):
        vals = range(65536) if tier == "thorough" else \
            sorted(set([0, 1, 0x7FFF, 0x8000, 0xFFFF, 0xFFFE] + [rng.randrange(65536) for _ in range(700)] + [1 << k for k in range(16)]))
        for v in vals:
            hdr = bytearray(rng.randbytes(6)); hdr[2 * w:2 * w + 2] = v.to_bytes(2, "big")
            yield f"hdr {hx(bytes(hdr) + rng.randbytes(rng.choice([1, 1, 2, 9])))}", "hdr-word"
    for ln in range(0, 7):
        yield f"hdr {hx(rng.randbytes(ln))}", "hdr-short"
    # re-framing of constructed packets
    n = 100 if tier == "quick" else 20000
    sweep = [1, 2, 255, 256, 257, 511, 512, 513, 1023, 1024, 1025, 1536, 4096, 32767, 32768, 32769, 65535, 65536]
    for i in range(n + len(sweep)):
        p = pu.mk_packet(rng, sweep[i] if i < len(sweep) else None)
        kind = rng.choice(["bytes", "file", "socket"])
        chunks = [p] if kind == "bytes" else pu.cut(rng, p, rng.choice(["one", 1, 5, "rand"]) if len(p) < 400 else "rand")
        yield pu.frame_line(0, pu.REAL_TRIM, kind, -1 if len(chunks) <= 1 else 0, chunks), "reframe"


def impl(line):
    from space_packet_parser import packets
    t = line.split()
    if t[0] == "const":
        return f"ok {packets.RawPacketData.HEADER_LENGTH_BYTES}"
    if t[0] == "mkpkt":
        v = [int(x) for x in t[1:7]]
        p = packets.create_ccsds_packet(unhx(t[7]), version_number=v[0], type=v[1], secondary_header_flag=v[2],
                                        apid=v[3], sequence_flags=v[4], sequence_count=v[5])
        assert isinstance(p, packets.RawPacketData)
        return f"ok {hx(bytes(p))}"
    if t[0] == "hdr":
        p = packets.RawPacketData(unhx(t[1]))
        vals = []
        for name in ("version_number", "type", "secondary_header_flag", "apid", "sequence_flags", "sequence_count"):
            try:
                vals.append(str(getattr(p, name)))
            except ValueError:
                vals.append("E")
        vals.append(str(p.data_length))
        # the tuple view must be the seven accessors, in header order
        try:
            hv = [str(v) for v in p.header_values]
        except ValueError:
            hv = None
        if hv is not None and "E" not in vals and hv != vals:
            return "err header_values-differ " + " ".join(hv)
        return "ok " + " ".join(vals)
    return pu.run_frame(line)


def in_domain(line):
    return True


def oracle(line, out):
    """Independent re-encoding / decoding with Python string formatting of the bit layout."""
    t = line.split()
    if t[0] == "mkpkt":
        v = [int(x) for x in t[1:7]]
        data = unhx(t[7])
        ok = all(0 <= x <= m for x, (_, m) in zip(v, RANGES)) and 1 <= len(data) <= 65536
        if not ok:
            return out == "err value"
        bits = f"{v[0]:03b}{v[1]:01b}{v[2]:01b}{v[3]:011b}{v[4]:02b}{v[5]:014b}{len(data) - 1:016b}"
        return out == "ok " + hx(int(bits, 2).to_bytes(6, "big") + data)
    if t[0] == "hdr":
        p = unhx(t[1])
        if len(p) < 6:
            return None
        bits = "".join(f"{b:08b}" for b in p[:6])
        want = [int(bits[a:b], 2) for a, b in ((0, 3), (3, 4), (4, 5), (5, 16), (16, 18), (18, 32))] + [len(p) - 7]
        return out == "ok " + " ".join(map(str, want))
    if t[0] == "frame":
        skip, trim, kind, r, chunks = pu.parse_frame_line(line)
        return out == "pkts " + hx(b"".join(chunks))
    return None
