"""Build library objects from the request syntax (inverse of xser): the request line alone determines
what the implementation is run on, so every case replays from its line."""
from fractions import Fraction

from harness.core import unhx, sx


def uS(tok: str) -> str:
    assert tok[0] == "s", tok
    return bytes.fromhex(tok[1:]).decode("utf-8")


def optS(tok):
    return None if tok == "-" else uS(tok)


def optI(tok):
    return None if tok == "-" else int(tok)


def uB(tok):
    return tok == "1"


def uV(tok):
    """Value token → plain Python value."""
    k = tok[0]
    if k == "i":
        return int(tok[1:])
    if k == "f":
        r = tok[1:]
        if r == "-0":
            return -0.0
        if r == "inf":
            return float("inf")
        if r == "-inf":
            return float("-inf")
        if r == "nan":
            return float("nan")
        n, d = r.split("/") if "/" in r else (r, "1")
        fr = Fraction(int(n), int(d))
        x = float(fr)
        assert Fraction(x) == fr, f"{tok} is not exactly a double"
        return x
    if k == "s":
        return uS(tok)
    if k == "x":
        return unhx(tok)
    raise ValueError(tok)


def optV(tok):
    return None if tok == "-" else uV(tok)


def param_value(cls, val, raw):
    from space_packet_parser import common
    C = {"IntP": common.IntParameter, "FloatP": common.FloatParameter, "StrP": common.StrParameter,
         "BinP": common.BinaryParameter, "BoolP": common.BoolParameter}[cls]
    return C(uV(val), uV(raw))


def packet(items, data=b"", pos=0):
    from space_packet_parser import packets
    p = packets.CCSDSPacket(raw_data=data)
    p.raw_data.pos = pos
    for n, c, v, r in items:
        p[uS(n)] = param_value(c, v, r)
    return p


def comparison(t):
    from space_packet_parser.xtce import comparisons as cm
    assert t[0] == "cmp"
    return cm.Comparison(uS(t[3]), uS(t[1]), operator=uS(t[2]), use_calibrated_value=uB(t[4]))


def condition(t):
    from space_packet_parser.xtce import comparisons as cm
    assert t[0] == "cond"
    return cm.Condition(uS(t[1]), uS(t[2]), right_param=optS(t[3]), right_value=optS(t[4]),
                        left_use_calibrated_value=uB(t[5]), right_use_calibrated_value=uB(t[6]))


def anded(t):
    from space_packet_parser.xtce import comparisons as cm
    return cm.Anded([condition(c) for c in t[1]], [ored(o) for o in t[2]])


def ored(t):
    from space_packet_parser.xtce import comparisons as cm
    return cm.Ored([condition(c) for c in t[1]], [anded(a) for a in t[2]])


def criterion(t):
    from space_packet_parser.xtce import comparisons as cm
    if t[0] == "cmp":
        return comparison(t)
    assert t[0] == "bexpr"
    e = t[1]
    if e[0] == "cond":
        return cm.BooleanExpression(condition(e))
    if e[0] == "and":
        return cm.BooleanExpression(anded(e))
    return cm.BooleanExpression(ored(e))


def dl(t):
    from space_packet_parser.xtce import comparisons as cm
    return cm.DiscreteLookup([comparison(c) for c in t[1]], uV(t[2]))


def calibrator(t):
    from space_packet_parser.xtce import calibrators as cal
    if t[0] == "poly":
        return cal.PolynomialCalibrator([cal.PolynomialCoefficient(uV(c), int(e)) for c, e in t[1:]])
    if t[0] == "spline":
        return cal.SplineCalibrator([cal.SplinePoint(uV(a), uV(b)) for a, b in t[3:]], order=int(t[1]),
                                    extrapolate=uB(t[2]))
    raise ValueError(t)


def cals(t):
    from space_packet_parser.xtce import calibrators as cal
    d = None if t[0] == "-" else calibrator(t[0])
    ctx = [cal.ContextCalibrator([criterion(c) for c in c3[1]], calibrator(c3[2])) for c3 in t[1]]
    return d, (ctx or None)


def adjuster(t):
    if t == "-":
        return None
    slope, intercept = int(t[0]), int(t[1])

    def adjust(x):
        # any callable is a linear adjuster to the library; this is the one a `<LinearAdjustment>` stands for
        return intercept + slope * x
    return adjust


def encoding(t):
    from space_packet_parser.xtce import encodings as enc
    k = t[0]
    if k in ("int", "float"):
        d, ctx = cals(t[4])
        if k == "int":
            return enc.IntegerDataEncoding(int(t[1]), uS(t[2]), byte_order=uS(t[3]), default_calibrator=d,
                                           context_calibrators=ctx)
        return enc.FloatDataEncoding(int(t[1]), encoding=uS(t[2]), byte_order=uS(t[3]), default_calibrator=d,
                                     context_calibrators=ctx)
    if k == "str":
        lk = None if t[4] == "-" else [dl(x) for x in t[4]]
        bo = optS(t[9]) if len(t) > 9 else None
        if bo == "unrecorded":
            bo = "mostSignificantByteFirst"
        e = enc.StringDataEncoding(encoding=uS(t[1]), byte_order=bo, fixed_raw_length=optI(t[2]),
                                   dynamic_length_reference=optS(t[3]),
                                   discrete_lookup_length=lk, use_calibrated_value=uB(t[5]),
                                   length_linear_adjuster=adjuster(t[6]),
                                   termination_character=None if t[7] == "-" else unhx(t[7]).hex(),
                                   leading_length_size=optI(t[8]))
        return e
    if k == "bin":
        lk = None if t[4] == "-" else [dl(x) for x in t[4]]
        return enc.BinaryDataEncoding(fixed_size_in_bits=optI(t[1]), size_reference_parameter=optS(t[2]),
                                      use_calibrated_value=uB(t[3]), size_discrete_lookup_list=lk,
                                      linear_adjuster=adjuster(t[5]))
    raise ValueError(t)


def ptype(t, cache=None):
    from space_packet_parser.xtce import parameter_types as pt, encodings as encm
    name = uS(t[1])
    if cache is not None and name in cache:
        return cache[name]
    e = encoding(t[3])
    kind = t[2]
    if kind == "plain":
        if isinstance(e, encm.StringDataEncoding):
            obj = pt.StringParameterType(name, e)
        elif isinstance(e, encm.BinaryDataEncoding):
            obj = pt.BinaryParameterType(name, e)
        else:
            # a numeric field's class does not have to match its encoding (a Float parameter on an integer encoding is
            # legal XTCE and decodes by its encoding): now and then the other class is used
            import zlib
            cross = zlib.crc32(sx(t).encode()) % 5 == 0
            is_f = isinstance(e, encm.FloatDataEncoding)
            obj = (pt.FloatParameterType if is_f != cross else pt.IntegerParameterType)(name, e)
    elif kind == "bool":
        import warnings
        with warnings.catch_warnings():
            warnings.simplefilter("ignore")
            obj = pt.BooleanParameterType(name, e)
    else:
        obj = pt.EnumeratedParameterType(name, e, enumeration={uV(k): uS(v) for k, v in kind[1:]})
    if cache is not None:
        cache[name] = obj
    return obj


def container(t, caches):
    from space_packet_parser.xtce import containers as cont, parameters as prm
    pcache, tcache, ccache = caches
    name = uS(t[1])
    if name in ccache:
        return ccache[name]
    ents = []
    for e in t[6]:
        if e[0] == "p":
            pn = uS(e[1])
            if pn not in pcache:
                pcache[pn] = prm.Parameter(pn, ptype(e[2], tcache))
            ents.append(pcache[pn])
        else:
            ents.append(container(e, caches))
    c = cont.SequenceContainer(name, ents, base_container_name=optS(t[3]),
                               restriction_criteria=[criterion(r) for r in t[4]], abstract=uB(t[2]),
                               inheritors=[uS(n) for n in t[5]])
    ccache[name] = c
    return c


def definition(t):
    from space_packet_parser.xtce import definitions
    assert t[0] == "def"
    caches = ({}, {}, {})
    cs = [container(c, caches) for c in t[2]]
    return definitions.XtcePacketDefinition(cs, root_container_name=uS(t[1]))


# ---------------------------------------------------------------------------------------------------
# definitions assembled from objects, from the by-name syntax (inverse of xser.ldef)
def ldef(t):
    """`(ldef root date ssn prefix nsmap (lpt..) (lp..) (lc..))` -> XtcePacketDefinition built from objects."""
    from space_packet_parser.xtce import definitions, parameter_types as pt, parameters as prm, containers as cont
    import warnings
    assert t[0] == "ldef"
    types = {}
    for x in t[6]:
        tag, name, unit, enc = uS(x[1]), uS(x[2]), optS(x[3]), encoding(x[4])
        cls = getattr(pt, tag)
        with warnings.catch_warnings():
            warnings.simplefilter("ignore")
            if tag == "EnumeratedParameterType":
                obj = cls(name, enc, enumeration={uV(k): uS(v) for k, v in x[5]}, unit=unit)
            elif tag in ("AbsoluteTimeParameterType", "RelativeTimeParameterType"):
                obj = cls(name, enc, unit=unit, epoch=optS(x[6]), offset_from=optS(x[7]))
            else:
                obj = cls(name, enc, unit)
        types[name] = obj
    params = {}
    for x in t[7]:
        params[uS(x[1])] = prm.Parameter(uS(x[1]), types[uS(x[2])], short_description=optS(x[3]),
                                         long_description=optS(x[4]))
    conts = {}
    specs = {uS(x[1]): x for x in t[8]}

    def build(name):
        if name in conts:
            return conts[name]
        x = specs[name]
        ents = [params[uS(e[1])] if e[0] == "p" else build(uS(e[1])) for e in x[2]]
        c = cont.SequenceContainer(name, ents, short_description=optS(x[3]), long_description=optS(x[4]),
                                   base_container_name=optS(x[5]), restriction_criteria=[criterion(r) for r in x[6]],
                                   abstract=uB(x[7]), inheritors=[uS(n) for n in x[8]])
        conts[name] = c
        return c
    for name in specs:
        build(name)
    ns = {(None if k == "-" else uS(k)): uS(v) for k, v in t[5]}
    return definitions.XtcePacketDefinition([conts[n] for n in specs], ns=ns, xtce_ns_prefix=optS(t[4]),
                                            root_container_name=uS(t[1]), space_system_name=optS(t[3]), date=optS(t[2]))
