"""XML text <-> the abstract tree syntax of the Lean driver (lxml does the parsing and serialising)."""
import io

import lxml.etree as ET

from harness.core import sx, parse_sx
from harness.xser import S, optS
from harness.xbuild import uS


def tree_sx(el):
    """lxml element -> nested list in request syntax."""
    if el.tag is ET.Comment:
        return ["c", S(el.text or "")]
    q = ET.QName(el)
    kids = [tree_sx(c) for c in el if isinstance(c.tag, str) or c.tag is ET.Comment]
    text = el.text
    if text is not None and text.strip() == "" and any(k[0] == "e" for k in kids):
        text = None            # inter-element whitespace
    return ["e", optS(q.namespace), S(q.localname), [[S(k), S(v)] for k, v in el.attrib.items()],
            "-" if text is None else S(text), kids]


def nsmap_sx(nsmap):
    return [["-" if k is None else S(k), S(v)] for k, v in nsmap.items()]


def parse_nsmap(t):
    return {(None if k == "-" else uS(k)): uS(v) for k, v in t}


def build(t, nsmap=None):
    """nested list -> lxml element (root gets the namespace declarations)."""
    if t[0] == "c":
        return ET.Comment(uS(t[1]))
    ns = None if t[1] == "-" else uS(t[1])
    tag = uS(t[2])
    el = ET.Element(ET.QName(ns, tag) if ns else tag, nsmap=nsmap)
    for k, v in t[3]:
        el.set(uS(k), uS(v))
    if t[4] != "-":
        el.text = uS(t[4])
    for k in t[5]:
        el.append(build(k))
    return el


def to_text(t, nsmap):
    root = build(t, nsmap=nsmap)
    return ET.tostring(root, xml_declaration=True, encoding="utf-8")


def text_to_sx(xml_bytes):
    root = ET.fromstring(xml_bytes)
    return tree_sx(root), dict(root.nsmap)


def sort_attrs(t):
    """The tree with every element's attributes sorted by name (their order carries no meaning; the Lean driver prints
    them sorted as well)."""
    if t[0] == "c":
        return t
    return [t[0], t[1], t[2], sorted(t[3], key=lambda kv: uS(kv[0])), t[4], [sort_attrs(k) for k in t[5]]]
