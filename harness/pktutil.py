"""Shared helpers for the framing checks (C02, C10, C13, C19): scripted sources, the `frame` request."""
import io
import os
import socket
import types

from harness.core import hx, unhx, parse_sx, sx, BrokenCheck

REAL_TRIM = 20_000_000
TRIM_STATE = {"substituted": True}


class ScriptedFile(io.BufferedIOBase):
    """A binary file object whose successive read() results are scripted (short reads), then b'' forever."""

    def __init__(self, chunks):
        self._chunks = list(chunks)
        self._total = sum(len(c) for c in chunks)
        self.reads = 0

    def seek(self, off, whence=0):
        if whence == io.SEEK_END:
            return self._total
        return 0

    def read(self, n=-1):
        self.reads += 1
        if self._chunks:
            return self._chunks.pop(0)
        return b""

    def readable(self):
        return True


class ScriptedPipe(ScriptedFile):
    """A buffered binary file object that cannot seek (the read end of a pipe, `sock.makefile('rb')`)."""

    def seekable(self):
        return False

    def seek(self, *a):
        raise io.UnsupportedOperation("File or stream is not seekable.")

    def tell(self):
        raise io.UnsupportedOperation("File or stream is not seekable.")


class ScriptedSocket(socket.socket):
    """A socket whose successive recv() results are scripted; afterwards the peer has closed (b'')."""

    def __init__(self, chunks):
        super().__init__(socket.AF_INET, socket.SOCK_STREAM)
        self._chunks = list(chunks)

    def recv(self, n, flags=0):
        if not isinstance(n, int) or n < 0:
            raise ValueError("negative buffersize in recv")       # what a real socket says
        if self._chunks:
            return self._chunks.pop(0)
        return b""


def generator_with_trim(trim):
    """The real `ccsds_generator`, with the 20_000_000 literal of its code object replaced by `trim`
    (no source change).  For trim == 20_000_000 the function itself is returned."""
    from space_packet_parser import packets
    f = packets.ccsds_generator
    if trim == REAL_TRIM:
        return f
    code = f.__code__
    if REAL_TRIM not in code.co_consts:
        # the threshold is no longer a literal of this function (moved, renamed, another value): it cannot be lowered from
        # outside. Framing must not depend on it anyway, so the function is run as it is; trimming itself is then reached
        # only by the genuine > 20 MB streams of the thorough tier. Reported in the evidence.
        TRIM_STATE["substituted"] = False
        return f
    consts = tuple(trim if (c == REAL_TRIM and type(c) is int) else c for c in code.co_consts)
    return types.FunctionType(code.replace(co_consts=consts), f.__globals__, f.__name__, f.__defaults__, f.__closure__) \
        if f.__kwdefaults__ is None else _with_kw(code.replace(co_consts=consts), f)


def _with_kw(code, f):
    g = types.FunctionType(code, f.__globals__, f.__name__, f.__defaults__, f.__closure__)
    g.__kwdefaults__ = dict(f.__kwdefaults__)
    return g


def uniform(chunks, r):
    return r > 0 and all(len(c) == r for c in chunks[:-1]) and (not chunks or 0 < len(chunks[-1]) <= r)


def make_source(kind, r, chunks):
    data = b"".join(chunks)
    if kind == "bytes":
        return data, {}
    if kind == "file":
        if r == -1 and len(chunks) <= 1:
            return io.BytesIO(data), {}
        if uniform(chunks, r):
            return io.BytesIO(data), {"buffer_read_size_bytes": r}
        return ScriptedFile(chunks), ({"buffer_read_size_bytes": r} if r > 0 else {})
    if kind == "socket":
        return ScriptedSocket(chunks), ({"buffer_read_size_bytes": r} if r > 0 else {})
    if kind == "pipe":
        return ScriptedPipe(chunks), ({"buffer_read_size_bytes": r} if r > 0 else {})
    if kind == "gzip":
        # a compressed packet file opened with `gzip.open`: a binary file object that yields the decompressed bytes
        import gzip, tempfile, os
        fd, path = tempfile.mkstemp(suffix=".gz")
        os.close(fd)
        with open(path, "wb") as fh:
            fh.write(gz_bytes(data))
        src = gzip.open(path, "rb")
        _TEMP_PATHS.append(path)
        return src, ({"buffer_read_size_bytes": r} if r > 0 else {})
    raise ValueError(kind)


_TEMP_PATHS = []


def gz_bytes(data):
    import gzip
    return gzip.compress(data, compresslevel=6, mtime=0)


def gz_stream(rng):
    """A packet stream of compressible packets one of whose inner packet boundaries lies exactly at the size the stream
    has on disk once gzip-compressed (a length taken from the file system instead of from the stream ends there)."""
    def pkt(n, apid):
        bits = f"{0:03b}{0:01b}{0:01b}{apid:011b}{3:02b}{0:014b}{n - 1:016b}"
        return int(bits, 2).to_bytes(6, "big") + bytes(n)
    tail = [pkt(rng.randrange(200, 900), 9) for _ in range(rng.randrange(2, 5))]
    first = 40
    for _ in range(40):
        data = pkt(first - 6, 9) + b"".join(tail)
        size = len(gz_bytes(data))
        if size == first:
            return data
        first = max(size, 8)
    return None


def frame_line(skip, trim, kind, r, chunks):
    return f"frame {skip} {trim} {kind} {r} {sx([hx(c) for c in chunks])}"


def parse_frame_line(line):
    t = parse_sx(line)
    assert t[0] == "frame"
    return int(t[1]), int(t[2]), t[3], int(t[4]), [unhx(c) for c in t[5]]


def _run_frame_once(skip, trim, kind, r, chunks, show_progress):
    import contextlib, io as _io
    total = sum(len(c) for c in chunks)
    src, kw = make_source(kind, r, chunks)
    if show_progress:
        kw = dict(kw, show_progress=True)
    cap = total // 7 + 3
    out = []
    try:
        with contextlib.redirect_stdout(_io.StringIO()) if show_progress else contextlib.nullcontext():
            gen = generator_with_trim(trim)(src, skip_header_bytes=skip, **kw)
            if type(src) is io.BytesIO and len(chunks) and skip == 0:
                # the caller looks at the file between creating the generator and iterating it (the framer starts from
                # the beginning of a seekable file when it is first iterated)
                src.read(3)
            for item in gen:
                out.append(bytes(item))
                if len(out) > cap:
                    return "nonterm"
    finally:
        if kind in ("socket", "gzip"):
            src.close()
        while _TEMP_PATHS:
            try:
                os.unlink(_TEMP_PATHS.pop())
            except OSError:
                pass
    return "pkts" + "".join(" " + hx(p) for p in out)


def run_frame(line):
    """Run the real generator on a `frame` request; returns the canonical response.  Small inputs are framed a second
    time with the progress display switched on (output discarded): a display option must not change what is yielded,
    nor make the generator fail."""
    skip, trim, kind, r, chunks = parse_frame_line(line)
    first = _run_frame_once(skip, trim, kind, r, chunks, False)
    if sum(len(c) for c in chunks) <= 2048:
        try:
            second = _run_frame_once(skip, trim, kind, r, chunks, True)
        except Exception as e:  # noqa: BLE001
            return f"err with-show_progress !{type(e).__name__}"
        if second != first:
            return "err show_progress-changes-output"
        # the definition-level generator used as a framer (`ccsds_headers_only=True`) yields the same raw packets
        try:
            third = _run_frame_headers_only(skip, kind, r, chunks)
            if third == first:
                third = _run_frame_headers_only(skip, kind, r, chunks, combine=True)
        except Exception as e:  # noqa: BLE001
            return f"err headers-only-generator !{type(e).__name__}"
        if third != first and first != "nonterm":
            return "err headers-only-generator-differs"
    return first


_HDR_DEF = []


def _run_frame_headers_only(skip, kind, r, chunks, combine=False):
    if not _HDR_DEF:
        from harness import xbuild
        from harness.props import c12
        _HDR_DEF.append(xbuild.definition(c12.header_only_def()))
    total = sum(len(c) for c in chunks)
    src, kw = make_source(kind, r, chunks)
    out = []
    try:
        for item in _HDR_DEF[0].packet_generator(src, ccsds_headers_only=True, skip_header_bytes=skip,
                                                 combine_segmented_packets=combine, **kw):
            out.append(bytes(item))
            if len(out) > total // 7 + 3:
                return "nonterm"
    finally:
        if kind in ("socket", "gzip"):
            src.close()
        while _TEMP_PATHS:
            try:
                os.unlink(_TEMP_PATHS.pop())
            except OSError:
                pass
    return "pkts" + "".join(" " + hx(p) for p in out)


def ref_split(data, skip):
    """Reference splitter: (packets, rest) — the decomposition the CCSDS length fields define."""
    pkts, i = [], 0
    while True:
        if len(data) - i < skip + 6:
            break
        n = 7 + int.from_bytes(data[i + skip + 4:i + skip + 6], "big")
        if len(data) - i - skip < n:
            break
        pkts.append(data[i + skip:i + skip + n])
        i += skip + n
    return pkts, data[i:]


def mk_packet(rng, dlen=None, **hdr):
    """Independent packet encoder (string formatting of the bit layout; no use of the library)."""
    if dlen is None:
        dlen = rng.choice([1, 1, 2, 6, 7, 8, 13, 64, 255, 256, 257, 511, 512, 513, 768, 1024]) if rng.random() < 0.9 else rng.randrange(1, 2000)
    f = dict(ver=rng.randrange(8), typ=rng.randrange(2), shf=rng.randrange(2), apid=rng.randrange(2048),
             sf=rng.randrange(4), sc=rng.randrange(16384))
    f.update(hdr)
    bits = f"{f['ver']:03b}{f['typ']:01b}{f['shf']:01b}{f['apid']:011b}{f['sf']:02b}{f['sc']:014b}{dlen - 1:016b}"
    data = rng.randbytes(dlen)
    return int(bits, 2).to_bytes(6, "big") + data


def cut(rng, data, style):
    """Cut a byte string into non-empty chunks."""
    n = len(data)
    if n == 0:
        return []
    if style == "one":
        return [data]
    if style == "bytes1":
        return [data[i:i + 1] for i in range(n)]
    if isinstance(style, int):
        return [data[i:i + style] for i in range(0, n, style)]
    # random cuts
    k = rng.randrange(1, min(n, 12) + 1)
    pts = sorted(set(rng.randrange(1, n) for _ in range(k - 1))) if n > 1 else []
    res, prev = [], 0
    for p in pts + [n]:
        if p > prev:
            res.append(data[prev:p]); prev = p
    return res
