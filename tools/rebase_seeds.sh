#!/bin/bash
# usage: tools/rebase_seeds.sh <id>...  — re-create stored seed patches against /repo's HEAD with a 3-way apply (scratch
# worktree under /tmp, removed afterwards); reports the ones that need a manual merge and leaves those untouched.
wt=/tmp/rebase_wt_$$
git -C /repo worktree add -q $wt HEAD || exit 2
for id in "$@"; do
  ( cd $wt && git reset -q --hard && out=$(git apply --3way /verif/seeded/$id/patch.diff 2>&1); \
    if git diff --name-only --diff-filter=U | grep -q .; then echo "$id: CONFLICT"; else \
      git reset -q; git diff -- space_packet_parser > /verif/seeded/$id/patch.diff; rm -f /verif/seeded/$id/verify.log; echo "$id: rebased"; fi )
done
git -C /repo worktree remove --force $wt
