#!/bin/bash
# usage: tools/proc_seed2.sh <pid> <suffix1> <suffix2> <checks...>  — keep seeds 1,2 of /tmp/seed2_<pid> as <pid>-<suffix>, try them
pid="$1"; s1="$2"; s2="$3"; shift 3
cd /verif
tools/keep_seed.sh /tmp/seed2_$pid 1 $pid-$s1
tools/keep_seed.sh /tmp/seed2_$pid 2 $pid-$s2
for k in $pid-$s1 $pid-$s2; do
  [ -d seeded/$k ] || continue
  echo "== $k"; tools/try_seed.sh /verif/seeded/$k/patch.diff "$@"
done
