#!/bin/sh
# every Props file must be imported by Spp.lean (so that a clean `lake build` produces its .olean for the audit)
cd "$(dirname "$0")/../lean" || exit 2
rc=0
for f in Spp/Props/*.lean Spp/Lemmas/*.lean Spp/Spec/*.lean Spp/Model/*.lean; do
  m=$(echo "$f" | sed 's/\.lean$//; s#/#.#g')
  grep -q "^import $m$" Spp.lean || { echo "missing import $m"; rc=1; }
done
exit $rc
