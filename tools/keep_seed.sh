#!/bin/bash
# usage: tools/keep_seed.sh <worktree> <n> <id>  — validate (demo fails with patch, passes without) and store under seeded/<id>/
wt="$1"; n="$2"; id="$3"
cd "$wt" || exit 2
git checkout -q -- space_packet_parser
/venv/bin/python seeded_out/$n/demo.py >/dev/null 2>&1; clean=$?
git apply seeded_out/$n/patch.diff || exit 2
/venv/bin/python seeded_out/$n/demo.py >/dev/null 2>&1; patched=$?
git checkout -q -- space_packet_parser
echo "$id: demo clean rc=$clean patched rc=$patched"
if [ $clean -eq 0 ] && [ $patched -ne 0 ]; then
  mkdir -p /verif/seeded/$id && cp seeded_out/$n/patch.diff seeded_out/$n/demo.py seeded_out/$n/meta.json /verif/seeded/$id/
fi
