#!/bin/bash
# Confirm every stored seed in a scratch worktree: suite passes with the patch; demo fails with it and passes without.
# usage: tools/verify_seeds.sh [id ...]   (default: all without verify.log)
cd /verif/seeded || exit 2
ids="$@"; [ -z "$ids" ] && ids=$(ls -d */ | tr -d /)
for id in $ids; do
  [ -f $id/verify.log ] && [ -z "$FORCE" ] && continue
  wt=/tmp/vs_$id
  git -C /repo worktree add -q $wt HEAD || continue
  ( cd $wt && git apply /verif/seeded/$id/patch.diff \
    && PYTHONPATH=$wt /venv/bin/python -m pytest -q -p no:cacheprovider --timeout=900 tests 2>&1 | tail -1 > /tmp/vs_$id.suite; \
    mkdir -p seeded_out/1 && sed -E "s#/tmp/seed[0-9]?_[A-Z][0-9]+#$wt#g" /verif/seeded/$id/demo.py > seeded_out/1/demo.py; \
    PYTHONPATH=$wt /venv/bin/python seeded_out/1/demo.py >/dev/null 2>&1; echo "demo_with_patch_rc=$?" > /tmp/vs_$id.demo; \
    git checkout -q -- space_packet_parser; \
    PYTHONPATH=$wt /venv/bin/python seeded_out/1/demo.py >/dev/null 2>&1; echo "demo_clean_rc=$?" >> /tmp/vs_$id.demo )
  { echo "suite with patch: $(cat /tmp/vs_$id.suite)"; cat /tmp/vs_$id.demo; } > $id/verify.log
  git -C /repo worktree remove --force $wt; rm -f /tmp/vs_$id.suite /tmp/vs_$id.demo
  echo "$id: $(tr '\n' ' ' < $id/verify.log)"
done
