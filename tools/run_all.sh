#!/bin/bash
# usage: tools/run_all.sh <tier> [seed]  — runs every claimed check, 4 at a time; prints one line per check
tier="${1:-quick}"; seed="${2:-0}"
cd /verif
ids=$(python3 -c "import json; print(' '.join(c['property_id'] for c in json.load(open('MANIFEST.json'))['checks']))")
run() { s=$(date +%s); VERIF_SEED=$seed timeout 3600 ./check $1 --tier $tier > /tmp/runall_$1.out 2>&1; rc=$?; e=$(date +%s); echo "$1 rc=$rc $((e-s))s viol=$(grep -c VIOLATION /tmp/runall_$1.out) known=$(grep -c KNOWN-FINDING /tmp/runall_$1.out)"; }
export -f run; export tier seed
echo $ids | tr ' ' '\n' | xargs -P ${RUNALL_P:-4} -I{} bash -c 'run {}'
