#!/bin/bash
# every stored seeded change must still apply to /repo's HEAD
cd /repo || exit 2
rc=0
for d in /verif/seeded/*/; do git apply --check "$d/patch.diff" 2>/dev/null || { echo "does not apply: $d"; rc=1; }; done
exit $rc
