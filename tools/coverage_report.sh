#!/bin/bash
# Diagnostic (not a registered check): statement/branch coverage of /repo/space_packet_parser under all quick checks,
# single-process.  Lines never executed by any check are blind spots of the correspondence (that is how the missing
# DiscreteLookupList / BooleanExpression-context / alias-spelling paths were found).   usage: tools/coverage_report.sh [ids...]
d=$(mktemp -d); trap 'rm -rf "$d"' EXIT
cat > $d/rc <<RC
[run]
branch = True
parallel = True
source = /repo/space_packet_parser
data_file = $d/data
[report]
show_missing = True
RC
cd /verif
ids="$@"; [ -z "$ids" ] && ids=$(python3 -c "import json; print(' '.join(c['property_id'] for c in json.load(open('MANIFEST.json'))['checks']))")
for c in $ids; do VERIF_JOBS=1 /venv/bin/python -m coverage run --rcfile=$d/rc ./check $c --tier quick >/dev/null 2>&1; done
cd $d && /venv/bin/python -m coverage combine --rcfile=$d/rc >/dev/null 2>&1; /venv/bin/python -m coverage report --rcfile=$d/rc
