#!/usr/bin/env python3
"""Regenerate MANIFEST.json from the table below (single source of truth for what is claimed)."""
import json, os
HERE = os.path.dirname(os.path.dirname(os.path.abspath(__file__)))
ALL = [f"C{i:02d}" for i in range(1, 21)]

TB = ("Trusted: Lean 4.33 kernel + axioms propext/Classical.choice/Quot.sound (audited per theorem, no sorry/native_decide/"
      "bv_decide); the Spec-layer definitions; the correspondence harness + Lean driver as the only tie between model and "
      "/repo's working tree; CPython/lxml/numpy semantics are modelled, validated differentially, not verified.")

CLAIMED = {
    "C03": dict(
        text="Theorems Spp.C03.read_as_int / read_as_bytes / field_arith / buffer_unchanged_* prove, for every buffer, cursor and "
             "width with p+n inside the buffer (no size bound), that the Lean mirror of _extract_bits/read_as_int/read_as_bytes "
             "returns int(bits(B)[p:p+n],2), right-aligned in ceil(n/8) bytes, cursor p+n, buffer unchanged. The mirror is tied to "
             "/repo's working tree by a differential run (systematic (p,n) sweep, width sweep, large buffers) with an independent "
             "bit-string oracle.",
        design="§7 C03", technique="Lean 4 proof (induction, Nat div/mod algebra) + correspondence check"),
    "C02": dict(
        text="Theorem Spp.C02.framing_exact proves, for every list of well-formed packets with prefixes, every trim threshold, "
             "every source kind (bytes / file / socket) and every fragmentation into non-empty reads, that the Lean mirror of the "
             "ccsds_generator loop yields exactly the packets and stops; chunking_independent, source_independent and split_unique "
             "are corollaries. The mirror is tied to the working tree by differential runs with scripted file / socket / pipe sources "
             "and gzip-compressed files, the trim literal substituted in the real code object (where it still is one), the "
             "headers-only framer with and without segment combining, and a reference splitter as oracle.",
        design="§7 C02", technique="Lean 4 proof (loop invariant, induction on the packet list) + correspondence check"),
    "C10": dict(
        text="`frame` is a total Lean function (well-founded on bytes still obtainable) — terminates_bound gives "
             "(skip+7)*items <= bytes held by the source for every source; complete_consecutive_short proves for arbitrary byte "
             "strings and all three source kinds that items are complete, consecutive, and the remainder is shorter than a "
             "complete packet. Tied to the code by a truncation sweep (every cut of valid streams x 3 kinds x read sizes), "
             "random byte strings, and an item-count cap that turns non-termination into an observable.",
        design="§7 C10", technique="Lean 4 proof (termination measure, strong induction) + correspondence check"),
    "C13": dict(
        text="accessors_create / layout prove for all in-range fields and 1..65536 data bytes that construction yields the CCSDS "
             "bit layout followed by the data and every accessor returns the value given; accessors_spec is the converse for "
             "any packet; rejects covers every out-of-range input; reframe shows the framer returns the constructed packet as "
             "one item under any chunking. Tied to the code by whole-range field sweeps, pairwise boundaries, 16-bit word "
             "sweeps and an independent string-formatting encoder as oracle.",
        design="§7 C13", technique="Lean 4 proof (shift/or to sum, omega) + correspondence check"),
    "C04": dict(
        text="int_unsigned_msb / int_signed_msb (with twos_is_signed_value relating the spec to BitVec.toInt) / int_lsb / "
             "float_ieee_msb / float_ieee_lsb / float_mil_msb / cursor / class_uncalibrated prove for every buffer, offset and "
             "width that the mirror of IntegerDataEncoding/FloatDataEncoding returns the unsigned or two's-complement value of the "
             "field's bits (byte-reversed for LSB-first whole bytes), the IEEE-754 / MIL-1750A value of the bit pattern, advances "
             "the cursor by the width and returns Int/Float classes. struct.unpack is assumed to compute the Spec-level ieeeDecode "
             "and validated against an independent Fraction-based decoder on every run.",
        design="§7 C04", technique="Lean 4 proof (bit algebra on top of C03) + correspondence check"),
    "C06": dict(
        text="operator_table (decide over the finite table) + int_relations / float_relations / int_float_relations (the six "
             "relations are the mathematical ones on Int/Rat, exact across int/float) + comparison_truth / comparison_current / "
             "condition_truth (which value and which literal type are compared, for every value incl. 0/False/empty) + anded_sem / "
             "ored_sem (mutual structural induction: the early-exit loops equal the plain conjunction/disjunction at any nesting "
             "depth) + list_is_conjunction + lookup_first_match. Tied to the code by exhaustive expression shapes x truth tables, "
             "all 16 spellings, both selectors, live comparison of the operator table, and an independent recursive evaluator.",
        design="§7 C06", technique="Lean 4 proof (mutual structural induction, decide) + correspondence check"),
    "C08": dict(
        text="precedence / first_context / no_context (first context calibrator whose criteria hold, else default, else raw), "
             "calibrated_is_float (class float, raw kept), polynomial (= sum a_i x^n_i over Rat), spline_interior / spline_knot / "
             "spline_last_point / spline_extrapolate / spline_out_of_range (step and linear interpolation on the closed range of "
             "strictly sorted points, extrapolation only when enabled, CalibrationError otherwise), spline_nan (a NaN raw value under "
             "a spline is a CalibrationError), enumerated, boolean. "
             "Arithmetic is exact Rat; the correspondence runs in the exact-arithmetic regime with a Fraction-based reference.",
        design="§7 C08", technique="Lean 4 proof (list induction, grind over Rat) + correspondence check"),
    "C07": dict(
        text="binary_value (the field's bits left-padded to whole bytes), string_raw_buffer (bits followed by zero padding, "
             "as bytes), text_whole / text_terminated (first occurrence of the termination bytes, with minimality) / text_leading "
             "(size tag read from the buffer; exactly strlen bits decoded), size_fixed / size_reference_binary / size_lookup_binary, "
             "cursor_binary / cursor_string (cursor advances by exactly the computed length). `decode` is the Lean codec model "
             "(ASCII, Latin-1, cp1252, strict UTF-8/16/32 with BOM rules), validated against CPython on an adversarial stream. "
             "Tied to the code by generated fields over all encodings, delimiters and length specifications, with an independent "
             "bit-string reference that uses Python's own codecs.",
        design="§7 C07", technique="Lean 4 proof (on top of C03 lemmas) + correspondence check"),
    "C05": dict(
        text="descend_sound + decodes_deterministic + descend_complete: the mirror of the parse_ccsds_packet loop returns exactly "
             "the outcome of a relational big-step specification with one constructor per outcome of the property (unique valid "
             "child -> descend; abstract dead end / ambiguity -> unrecognized with the partial data; concrete stop; errors), for "
             "every container tree and packet; entries_in_order / nested_in_place (mutual structural induction: decoding a "
             "container is decoding its flattened parameter list, nested references expanded in place); valid_inheritors_filter; "
             "views. Fuel exhaustion (cyclic inheritance) is the one excluded outcome. Tied to the code by random container "
             "trees with an encoder steering packets into every node, dead end and overlap; the proved model is the oracle.",
        design="§7 C05", technique="Lean 4 proof (refinement to a relational spec, mutual induction) + correspondence check"),
    "C12": dict(
        text="per_apid (interleaving independence: what an APID sees equals the per-APID group automaton run on its own "
             "sub-history, by induction on the history), emitted_iff (a group is emitted exactly when closed by LAST with "
             "consecutive counts mod 16384; consecutive_spec), complete_group (from any state, FIRST + any number of CONTINUATIONs + "
             "LAST with consecutive counts yields exactly one output made of exactly those packets, and the APID is idle "
             "after; induction on the group length), combined_bytes, at_most_once (counting invariant: no raw packet "
             "contributes to two outputs), drop_warnings. Tied to the code by exhaustive short histories over flags x APIDs x "
             "sequence relations, random long ones, wrap-around groups, and a reference automaton as oracle.",
        design="§7 C12", technique="Lean 4 proof (simulation + counting invariant) + correspondence check"),
    "C14": dict(
        text="cursor_sum (after a successful parse the cursor is the start plus the sum of the widths of the decoded fields, each "
             "computed in the state where it is decoded; bytes untouched), monotone / monotone_path, negative_length_fails, "
             "binary_past_end_fails, clean_iff / mismatch_flagged (delivered without the warning iff pos = 8*len; withheld when "
             "bad packets are excluded), overread_flagged. Tied to the code by definitions with fixed and length-dependent layouts "
             "(negative adjustments included) x short/exact/long packets, with an oracle that recomputes the consumed width from "
             "the definition and the decoded values.",
        design="§7 C14", technique="Lean 4 proof (per-field cursor lemma lifted over the flattened entry list) + correspondence check"),
    "C01": dict(
        text="end_to_end: for every definition, well-formed stream with prefixes, source kind and fragmentation, the mirror of "
             "packet_generator yields exactly refSemantics = frame into the packets the length fields define, give each packet "
             "alone the outcome of the big-step specification, deliver it, stop at the first raising packet (composition of "
             "C02.frame_exact and C11.pointwise); per_packet ties each packet's outcome to the unique Decodes outcome (C05); "
             "field_seam shows fields are decoded at prefix sums of computed widths with exactly the earlier values in scope "
             "(C14); field values are covered by C03/C04/C06/C07/C08. Tied to the code by random XTCE documents written as XML, "
             "loaded by the real loader, and streams delivered through all three source kinds; the proved model is the oracle.",
        design="§7 C01", technique="Lean 4 proof (composition of the component theorems) + correspondence check"),
    "C11": dict(
        text="PARTIAL (streams up to the first packet whose decoding raises: the library ends the generator there, which the "
             "model mirrors and known_findings.json records as C11-generator-ended-by-decoding-error; the `genraise` requests "
             "replay it on every run). pointwise (with combining off, the event stream is the concatenation of what each packet yields on its own, up to "
             "the first raising packet), concat (streams compose), error_in_place, interleave (for any schedule of next() calls "
             "over any number of generators, each generator's remaining items are its solo items minus the number of times it "
             "was advanced; generators may name their own root container). Aliasing and mutation of the shared definition are Python object-model matters: the harness "
             "advances 2..4 real generators over one definition object in PRNG-chosen interleavings and compares a structural "
             "snapshot of the definition before and after.",
        design="§7 C11", technique="Lean 4 proof (list induction) + correspondence check on real generator objects"),
    "C19": dict(
        text="rows_small / rows_large / rows_large_count / rows_are_sublist (at most ten packets: each once, in order; otherwise "
             "first five, one ellipsis row, last five; no packet listed twice for any n) and index_valid / index_out_of_range for "
             "the mirror of the row selection and the index test; termination on every file is C10. PARTIAL: click's argument "
             "handling and rich's rendering are outside the model; the correspondence drives the real commands in-process over "
             "every n = 0..25 and every index -1..n+1 and recovers the rows from the rendered table; live MAX_ROWS/HEAD_ROWS are "
             "compared with the model's constants.",
        design="§7 C19", technique="Lean 4 proof (list lemmas) + exhaustive-range correspondence through click's CliRunner"),
    "C20": dict(
        text="raw_default / raw_kept / raw_falsy_examples (the raw value defaults to the value exactly when none is given — also "
             "for 0, False, empty — and a given raw value is carried unchanged even when falsy), value_copy / packet_copy / "
             "copy_idempotent (reconstruction from the reduced form gives back values and whole packets: items, order, raw bytes, "
             "cursor). PARTIAL: that a parameter object compares, hashes, orders, formats and computes exactly like the built-in "
             "is Python object-model semantics, true of a value model by definition; it is decided by the correspondence harness "
             "alone (a table of ~60 operations on parameter vs plain value for all five classes, plus copy/deepcopy/pickle 0-5 on "
             "real values and packets).",
        design="§7 C20", technique="Lean 4 proof (reconstruction protocol model) + operation-table correspondence on the real classes"),
    "C18": dict(
        text="rows_per_apid / create_rows (the rows of an APID are those of that APID's packets in stream order, files in the "
             "order given: the accumulation loop equals a filter of the concatenated packet list; the first packet fixes the "
             "column order and every later packet contributes its values by column name - alignRow_by_name, alignRow_self - so "
             "packets listing the same fields in another order are one field set), rejects_mixed (differing field "
             "sets are rejected), fits_unsigned / fits_signed (the dtype requested for an uncalibrated integer encoding of <= 64 "
             "bits holds every value the encoding produces), rep_of_decode / ieee_fits / mil_fits (the float dtype chosen — float32 "
             "only for IEEE 32-bit fields, float64 for 16/64-bit IEEE and for MIL-STD-1750A — contains every finite value the "
             "encoding decodes to, as m*2^e within the format's precision and exponent range), enum_is_str. PARTIAL: numpy's array conversion and xarray's Dataset "
             "are outside the model; that each stored cell equals the parsed value is observed by the correspondence on real "
             "datasets (dtype and every cell compared). Five recorded open findings (NUL stripping in bytes/str columns; raw "
             "string buffers stored through a 'str' dtype; rounding of context-only columns; integers wider than 64 bits; "
             "booleans on text encodings) are reported as KNOWN-FINDING and any other difference is a violation.",
        design="§7 C18", technique="Lean 4 proof (fold = filter; range arithmetic) + cell-by-cell correspondence on real datasets"),
    "C16": dict(
        text="Proved for the whole loader model: load_ignores_comments (loadXtce on a document and on the document with every "
             "comment removed give the same definition or the same error) and load_ignores_namespace_convention (the same "
             "abstract document with all elements in namespace u, loaded expecting u, and in namespace v, loaded expecting v "
             "- prefix of any name, default namespace, no namespace - loads to the same definition up to the recorded "
             "prefix/nsmap). Both are instances (stripRendering, nsRendering) of one theorem chain in Lemmas/Render.lean: every "
             "from_xml function (criteria, calibrators, encodings, parameter types, parameters, containers with their "
             "recursion, the three sets, the document) is invariant under any tree map under which the element searches "
             "commute. history_independent / after_any_sequence: the result of a load does not depend on the class-level state "
             "left by any sequence of earlier loads. PARTIAL only in what the tree model leaves out (lxml's text/tail handling: "
             "whitespace, comments inside character data), which the correspondence covers: each document in 5 spellings x "
             "comments x whitespace, with time types, loaded in one process after 0..5 prior loads (other renderings and "
             "malformed inputs), the oracle demanding one definition for all renderings.",
        design="§7 C16", technique="Lean 4 proof (loader invariant under renderings; comment removal and namespace change are renderings; state model) + correspondence check"),
    "C17": dict(
        text="PARTIAL (identity). Proved end to end for loadXtce: loaded_consistent - whenever a load succeeds, the three name "
             "tables hold one entry per name, every container in the table is one of the parsed containers filed under its own "
             "name, every parsed container is in the table and each of its entries resolves (a parameter entry to a declared "
             "parameter whose declared type are both in the tables, a container entry to a parsed container in the table), "
             "and each container's inheritor list is exactly basedOn (the containers naming it as base, each once, in table "
             "order; all lists start empty: loadContainer_empty). Also proved about the mirror of the loader: types_unique / params_unique (a successful load has pairwise "
             "distinct type and parameter names), duplicate_type_rejected / duplicate_parameter_rejected, "
             "unknown_type_ref_rejected / parameter_type_resolves, containers_unique (the three name tables of the definition "
             "object never hold two entries for a name, by induction through the recursive cache filling), inheritors_exact / "
             "popFold_spec / basedOn_nodup (after the back-population pass each container's inheritor list is exactly the "
             "containers naming it as base, each once, in table order, all other fields untouched). End to end for loadXtce: "
             "dangling_type_ref_is_load_failure, dangling_base_is_load_failure, dangling_parameter_entry_is_load_failure (a "
             "document with such a reference fails at load, whatever else it contains; via foldlM_fails, "
             "unparsable_container_rejected_doc, container_set_failure_is_load_failure), and "
             "duplicate_names_are_load_failures (two parameter types or two parameters with one name - used by a container or "
             "not - make from_xtce fail). Not proved: rejection of dangling "
             "ContainerRefEntry references (needs the invariant that the lookup only holds parsed containers), of duplicate "
             "containers and of cycles end to end — decided by the correspondence (all single-point corruptions of generated documents, "
             "also aimed at declared-but-unused parameters) with an independent oracle over the document tree; object "
             "identity is checked with `is` on the real graph.",
        design="§7 C17", technique="Lean 4 proof (fold invariants) + corruption-sweep correspondence check"),
    "C09": dict(
        text="PARTIAL (regime). Proved (Lean mirror of every to_xml / from_xml over abstract XML trees; one hypothesis: a float "
             "printed by str is read back by float as the same value - the integer counterpart int(str(i)) == i is a theorem "
             "about the model's printer and parser, intRoundTrip / readInt_repr): definition_roundtrip(_main) - for every definition in the regime DefWF, "
             "loadXtce (toXml d) = d: parameter types (class, unit, encoding with default and context calibrators, criteria in "
             "all three forms nested to any depth, length specification with adjustment; string encodings in any of the ten "
             "codecs with fixed, parameter-referenced or looked-up size and a leading size or a termination character; "
             "enumerations keyed by integers, finite floats or (on a string encoding) ASCII text in the field's codec; time types "
             "on any encoding with epoch, offset reference, units and scale/offset), parameters "
             "(type reference, descriptions), containers (entry order, base container, restriction criteria, abstract flag, "
             "descriptions, inheritor lists), header date, space-system name, namespace. It is assembled from the element-level "
             "theorems (comparison/condition/boolexpr, polynomial/spline, discrete lookup, context calibrator, int/float/binary/"
             "string encoding round trips), data_encoding_roundtrip (the loader's descendant search finds exactly the written "
             "encoding element: nothing the writers put below or beside it is a data-encoding element), ptype_roundtrip, "
             "parameter_roundtrip, container_roundtrip_known, container_set_fold (containers in dependency order are read back "
             "in order and the loader's recursive descent never happens), popFold_exact / populate_erased (back-population "
             "computes exactly the `basedOn` lists). DefWF is the shape a load produces (keys are names and unique, containers "
             "in dependency order, back-populated inheritors, tables in cache order) with every element inside the regime of "
             "its element-level theorem; a concrete instance (exDef_wf) is proved to satisfy it and its round trip is also "
             "computed by the kernel; membership is computable - inRegime, proved sound (inRegime_sound) - and every run records in "
             "its evidence how many of the definitions the library itself held (loaded, and re-loaded from its own output) the "
             "test accepts. Outside the regime (not theorems; decided by the correspondence): enumerations with NaN / "
             "infinite or non-ASCII keys, a byte order recorded on a single-byte string codec, definitions whose tables are not yet in load order (first cycle of an object-assembled definition), and the "
             "equality of decoding - definitions built both ways go through write/load/write/load/write on model and "
             "library, every stage is compared, and an independent by-name structural comparison (incl. length adjustments) "
             "plus identical decoding of random packets is the oracle.",
        design="§7 C09, §13", technique="Lean 4 proof (whole-definition round trip by structural induction and fold invariants) + staged write/load correspondence"),
    "C15": dict(
        text="PARTIAL (regime). Proved: document_in_namespace - every element of to_xml_tree() of any definition lies in the "
             "definition's XTCE namespace (or in none when it has none), at any nesting depth; write_is_function; and the "
             "fix-point: fixpoint / every_further_cycle - for a definition in the regime C09.DefWF (the shape a load "
             "produces), a write -> load cycle gives back the same definition, so after any number of cycles the written "
             "document is the same tree (corollary of C09.definition_roundtrip). Byte-level determinism of lxml's "
             "serialisation, definitions outside the regime (see C09) and 'writing does not alter the definition' are decided "
             "by the correspondence: the library writes every definition twice with a fixed header date (bytes compared), G2 "
             "and G3 are compared byte for byte and as trees against the model's, every element of G1 is checked to lie in "
             "the namespace, and a structural snapshot of the definition is compared before and after writing - also undated, "
             "and through write_xml with a str and a Path.",
        design="§7 C15, §13", technique="Lean 4 proof (fix-point of write/load as a corollary of the C09 round trip; structural induction over writers) + staged write/load correspondence"),
}

NOT_YET = "check not built yet (work in progress; see DESIGN.md §11 build order)"


def main():
    checks = []
    for pid in ALL:
        if pid not in CLAIMED:
            continue
        c = CLAIMED[pid]
        checks.append({
            "property_id": pid,
            "quick_cmd": f"./check {pid} --tier quick",
            "thorough_cmd": f"./check {pid} --tier thorough",
            "evidence_file": f"evidence/{pid}.json",
            "replay_cmd_template": f"./check {pid} --replay {{path}}",
            "engine": "lean-proof+correspondence",
            "level_claimed": {"category": "proof", "text": c["text"], "design_ref": c["design"]},
            "level_note": c.get("note", TB),
            "technique": c["technique"],
        })
    na = [{"property_id": p, "reason": NOT_YET} for p in ALL if p not in CLAIMED]
    m = {
        "version": 1,
        "setup_cmd": "./setup.sh",
        "hooks": {"guard": "SPACE_PACKET_PARSER_VERIF", "enable": "no hooks are needed: checks import /repo's working tree "
                  "in-process (PYTHONPATH=/repo) and read live constants from the imported modules",
                  "baseline_off_cmd": "cd /repo && /venv/bin/python -m pytest -ra -q -p no:cacheprovider --timeout=900 "
                                      "--continue-on-collection-errors",
                  "source_commits": [], "add_only": True},
        "engines": [{"name": "lean-proof+correspondence", "path": "lean/ + harness/",
                     "serves_properties": sorted(CLAIMED),
                     "kind_free_text": "Lean 4 theorems about a hand-written executable model; Python harness runs the "
                                       "compiled model and the real code on the same generated inputs and diffs"}],
        "checks": checks,
        "notes": "See DESIGN.md. Exit 2 = broken check. known_findings.json lists recorded defects (open) and repaired ones (fixed).",
        "not_applicable": na,
    }
    with open(os.path.join(HERE, "MANIFEST.json"), "w") as f:
        json.dump(m, f, indent=1)
    print("claimed:", sorted(CLAIMED))


if __name__ == "__main__":
    main()
