#!/bin/bash
# usage: tools/keep_seed2.sh <worktree> <dir with patch.diff demo.py meta.json> <id>
# validate (demo exits 0 on the clean worktree, non-zero with the patch) and store under seeded/<id>/
wt="$1"; dir="$2"; id="$3"
cd "$wt" || exit 2
git checkout -q -- . || exit 2
PYTHONPATH="$wt" timeout 600 /venv/bin/python "$dir/demo.py" >/dev/null 2>&1; clean=$?
git apply "$dir/patch.diff" || { echo "$id: patch does not apply"; exit 2; }
PYTHONPATH="$wt" timeout 600 /venv/bin/python "$dir/demo.py" >/dev/null 2>&1; patched=$?
git checkout -q -- .
echo "$id: demo clean rc=$clean patched rc=$patched"
if [ $clean -eq 0 ] && [ $patched -ne 0 ]; then
  mkdir -p /verif/seeded/$id && cp "$dir/patch.diff" "$dir/demo.py" "$dir/meta.json" /verif/seeded/$id/
  # the demo must not depend on the scratch worktree
  sed -i -E "s#/tmp/seed[0-9]?_[A-Z][0-9]*#/repo#g" /verif/seeded/$id/demo.py
else
  echo "$id: NOT kept"
fi
