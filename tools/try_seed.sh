#!/bin/bash
# usage: tools/try_seed.sh <patch.diff> <pid> [<pid>...]   — applies a seeded change to /repo, runs checks, reverts.
patch="$1"; shift
cd /repo || exit 2
if ! git diff --quiet; then echo "/repo not clean"; exit 2; fi
git apply "$patch" || { echo "patch does not apply"; exit 2; }
for pid in "$@"; do
  ( cd /verif && timeout 900 ./check "$pid" --tier "${TIER:-quick}" > /tmp/try_seed_$pid.out 2>&1; echo "$pid rc=$? $(grep -c VIOLATION /tmp/try_seed_$pid.out) violation lines: $(grep VIOLATION /tmp/try_seed_$pid.out | head -2 | tr '\n' ' ')" )
done
git -C /repo checkout -- .
git -C /repo status --short | head -3
