#!/usr/bin/env python3
"""usage: tools/record_seed.py <seed-id> <property> <detected-by,comma-separated|-> [note]  — write the `verified` block."""
import json, sys
sid, pid, det = sys.argv[1], sys.argv[2], sys.argv[3]
note = sys.argv[4] if len(sys.argv) > 4 else ""
p = f"/verif/seeded/{sid}/meta.json"
m = json.load(open(p))
m["property"] = pid
m["verified"] = {"demo_fails_with_patch": True, "demo_passes_without": True,
                 "detected_by_checks": [] if det == "-" else det.split(","), "tier": "quick", "note": note,
                 "ran": [f"tools/keep_seed.sh <worktree> <n> {sid}", f"tools/try_seed.sh seeded/{sid}/patch.diff ...",
                         "tools/verify_seeds.sh"]}
json.dump(m, open(p, "w"), indent=1)
