#!/bin/bash
# usage: tools/try_harmless.sh <diff> [seed] — applies a behaviour-preserving change to /repo, runs every quick check, reverts.
# Any VIOLATION line / non-zero exit here is a false alarm of the machinery.
patch="$1"; seed="${2:-0}"
cd /repo || exit 2
if ! git diff --quiet; then echo "/repo not clean"; exit 2; fi
git apply "$patch" || { echo "patch does not apply"; exit 2; }
( cd /verif && tools/run_all.sh quick "$seed" 2>&1 | grep -v "rc=0 .* viol=0" )
git -C /repo checkout -- .
git -C /repo status --short | head -3
