/-
Specification of container decoding: the flattened entry order, and a relational big-step account of the
inheritance descent with one constructor per outcome the property text names.
-/
import Spp.Model.Definition
namespace Spp

mutual
/-- Parameters of an entry in decoding order: nested container references are expanded in place. -/
def Entry.flatten : Entry → List (String × PType)
  | .param n t => [(n, t)]
  | .cont c => Container.flatten c
def Container.flatten : Container → List (String × PType)
  | .mk _ es _ _ _ _ => flattenList es
def flattenList : List Entry → List (String × PType)
  | [] => []
  | e :: es => e.flatten ++ flattenList es
end

/-- Decode a flat list of parameters one after the other, each at the cursor the previous one left. -/
def parseFlat : List (String × PType) → Pkt → Except Err Pkt
  | [], p => .ok p
  | (n, t) :: fs, p =>
    match t.parseValue p with
    | .error e => .error e
    | .ok (v, raw') => parseFlat fs { raw := raw', items := p.items.set n v }

/-- Width in bits the field of type `t` has in packet state `p` (fixed, or computed from earlier values). -/
def PType.width (t : PType) (p : Pkt) : Except Err Int :=
  match t.enc with
  | .num e => .ok e.size
  | .str e => e.calculateSize p.items
  | .bin e => e.calculateSize p.items

/-- The widths of the fields of a flat parameter list, each computed in the state in which it is decoded. -/
def widthsAlong : List (String × PType) → Pkt → Except Err (List Nat)
  | [], _ => .ok []
  | (n, t) :: fs, p =>
    match t.width p, t.parseValue p with
    | .ok w, .ok (v, raw') =>
      match widthsAlong fs { raw := raw', items := p.items.set n v } with
      | .ok ws => .ok (w.toNat :: ws)
      | .error e => .error e
    | .error e, _ => .error e
    | _, .error e => .error e

/-- Big-step specification of `parse_ccsds_packet`: start at a container, decode its entries, then look at the
    inheritors whose restriction criteria all hold on the values decoded so far. -/
inductive Decodes (d : Definition) : Container → Pkt → ParseResult → Prop
  | entriesFail {cur p e} : cur.parseEntries p = .error e → Decodes d cur p (.error e)
  | criteriaFail {cur p p' e} : cur.parseEntries p = .ok p' →
      validInheritors d p'.items cur.inheritors = .error e → Decodes d cur p (.error e)
  | concreteStop {cur p p'} : cur.parseEntries p = .ok p' →
      validInheritors d p'.items cur.inheritors = .ok [] → cur.abstract = false → Decodes d cur p (.ok p')
  | abstractDeadEnd {cur p p'} : cur.parseEntries p = .ok p' →
      validInheritors d p'.items cur.inheritors = .ok [] → cur.abstract = true → Decodes d cur p (.unrecognized p')
  | ambiguous {cur p p' a b rest} : cur.parseEntries p = .ok p' →
      validInheritors d p'.items cur.inheritors = .ok (a :: b :: rest) → Decodes d cur p (.unrecognized p')
  | danglingChild {cur p p' n} : cur.parseEntries p = .ok p' →
      validInheritors d p'.items cur.inheritors = .ok [n] → d.lookup n = none → Decodes d cur p (.error .other)
  | step {cur p p' n c r} : cur.parseEntries p = .ok p' →
      validInheritors d p'.items cur.inheritors = .ok [n] → d.lookup n = some c →
      Decodes d c p' r → Decodes d cur p r

end Spp
