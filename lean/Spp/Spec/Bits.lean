/-
Specification layer: what "bits p..p+n-1 of a buffer" means, with no slicing tricks.
-/
import Spp.Model.Bits
namespace Spp

/-- The 8 bits of a byte, most significant first. -/
def byteBits (b : UInt8) : List Bool :=
  [b.toNat / 128 % 2 == 1, b.toNat / 64 % 2 == 1, b.toNat / 32 % 2 == 1, b.toNat / 16 % 2 == 1,
   b.toNat / 8 % 2 == 1, b.toNat / 4 % 2 == 1, b.toNat / 2 % 2 == 1, b.toNat % 2 == 1]

/-- Bit string of a buffer: bit 0 is the most significant bit of the first byte. -/
def bits : Bytes → List Bool
  | [] => []
  | b :: bs => byteBits b ++ bits bs

/-- Unsigned big-endian value of a bit string: `int(bitstring, 2)` (empty string ↦ 0). -/
def natOfBits (l : List Bool) : Nat := l.foldl (fun acc b => 2 * acc + (if b then 1 else 0)) 0

/-- Value of bits `p .. p+n-1` of `B`: `int(bits(B)[p:p+n], 2)`. -/
def fieldVal (B : Bytes) (p n : Nat) : Nat := natOfBits (((bits B).drop p).take n)

end Spp
