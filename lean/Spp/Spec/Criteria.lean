/-
Specification of match criteria: plain truth-functional semantics (no early exits, no error plumbing).
-/
import Spp.Model.Criteria
namespace Spp

/-- Truth value of one condition on the values decoded so far (`false` if it has none; see `CondOk`). -/
def condVal (items : Items) (c : Condition) : Bool :=
  match c.evaluate items with | .ok b => b | .error _ => false

/-- The condition is resolvable: its operands exist and its literal can be read in the operand's type. -/
def CondOk (items : Items) (c : Condition) : Prop := ∃ b, c.evaluate items = .ok b

mutual
/-- ANDed group: conjunction of all its conditions and all its nested ORed groups. -/
def semAnd (items : Items) : Anded → Bool
  | .mk conds ors => conds.all (condVal items) && semOrs items ors
def semOrs (items : Items) : List Ored → Bool
  | [] => true
  | o :: os => semOr items o && semOrs items os
/-- ORed group: disjunction of all its conditions and all its nested ANDed groups. -/
def semOr (items : Items) : Ored → Bool
  | .mk conds ands => conds.any (condVal items) || semAnds items ands
def semAnds (items : Items) : List Anded → Bool
  | [] => false
  | a :: as => semAnd items a || semAnds items as
end

mutual
def AndOk (items : Items) : Anded → Prop
  | .mk conds ors => (∀ c ∈ conds, CondOk items c) ∧ OrsOk items ors
def OrsOk (items : Items) : List Ored → Prop
  | [] => True
  | o :: os => OrOk items o ∧ OrsOk items os
def OrOk (items : Items) : Ored → Prop
  | .mk conds ands => (∀ c ∈ conds, CondOk items c) ∧ AndsOk items ands
def AndsOk (items : Items) : List Anded → Prop
  | [] => True
  | a :: as => AndOk items a ∧ AndsOk items as
end

end Spp
