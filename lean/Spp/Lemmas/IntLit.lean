/-
Printing an integer and reading it back: `int(str(i)) == i` for the model's own `readInt` / `toString` (core lemmas about
`Nat.repr` / `Nat.toDigits`).  This discharges the hypothesis `C09.IntRoundTrip`.
-/
import Spp.Model.XmlWrite
namespace Spp

theorem go_digits (l : List Char) (h : ∀ c ∈ l, c.isDigit = true) (acc : Nat) (pd : Bool)
    (hne : l ≠ [] ∨ pd = true) : digitsVal.go l acc pd = some (Nat.ofDigitChars 10 l acc) := by
  induction l generalizing acc pd with
  | nil =>
    rcases hne with h' | h'
    · exact absurd rfl h'
    · simp [digitsVal.go, h']
  | cons c rest ih =>
    have hc := h c (by simp)
    simp only [digitsVal.go, hc, if_true, Nat.ofDigitChars_cons]
    rw [ih (fun c' hc' => h c' (by simp [hc'])) _ true (Or.inr rfl), Nat.mul_comm]

theorem digitsVal_digits (l : List Char) (h : ∀ c ∈ l, c.isDigit = true) (hne : l ≠ []) :
    digitsVal l = some (Nat.ofDigitChars 10 l 0) := by
  cases l with
  | nil => exact absurd rfl hne
  | cons c rest =>
    have hc := h c (by simp)
    simp only [digitsVal, hc, if_true]
    exact go_digits (c :: rest) h 0 false (Or.inl (by simp))

theorem digitsVal_repr (n : Nat) : digitsVal (Nat.repr n).toList = some n := by
  rw [Nat.toList_repr]
  have hne : Nat.toDigits 10 n ≠ [] := by
    intro h
    have := @Nat.repr_ne_empty n
    apply this
    have h2 : (Nat.repr n).toList = [] := by rw [Nat.toList_repr, h]
    exact String.toList_eq_nil_iff.mp h2
  rw [digitsVal_digits _ (fun c hc => Nat.isDigit_of_mem_toDigits (by decide) (by decide) hc) hne,
    Nat.ofDigitChars_ten_toDigits]

end Spp

namespace Spp

theorem digit_props (c : Char) (h : c.isDigit = true) : isAsciiWs c = false ∧ c.toNat < 128 := by
  have h1 : 48 ≤ c.toNat ∧ c.toNat ≤ 57 := by
    simp only [Char.isDigit, Bool.and_eq_true, decide_eq_true_eq] at h
    have a := h.1; have b := h.2
    simp only [Char.toNat, ge_iff_le, UInt32.le_iff_toNat_le] at *
    exact ⟨a, b⟩
  refine ⟨?_, by omega⟩
  simp only [isAsciiWs, Bool.or_eq_false_iff, beq_eq_false_iff_ne, ne_eq]
  refine ⟨⟨⟨⟨⟨?_, ?_⟩, ?_⟩, ?_⟩, ?_⟩, ?_⟩ <;> (intro e; rw [e] at h1; revert h1; decide)

theorem dropWhile_none {α} (p : α → Bool) (l : List α) (h : ∀ a ∈ l, p a = false) : l.dropWhile p = l := by
  cases l with
  | nil => rfl
  | cons a l => simp [List.dropWhile, h a (by simp)]

theorem stripWs_clean (l : List Char) (h : ∀ c ∈ l, isAsciiWs c = false) : stripWs l = l := by
  unfold stripWs
  rw [dropWhile_none _ l h, dropWhile_none _ l.reverse (fun a ha => h a (List.mem_reverse.mp ha)), List.reverse_reverse]

theorem readInt_repr_nat (n : Nat) : readInt (Nat.repr n) = .ok (n : Int) := by
  have hd : ∀ c ∈ (Nat.repr n).toList, c.isDigit = true := by
    rw [Nat.toList_repr]; exact fun c hc => Nat.isDigit_of_mem_toDigits (by decide) (by decide) hc
  have hws : ∀ c ∈ (Nat.repr n).toList, isAsciiWs c = false := fun c hc => (digit_props c (hd c hc)).1
  have hasc : allAscii (Nat.repr n).toList = true := by
    simp only [allAscii, List.all_eq_true, decide_eq_true_eq]
    exact fun c hc => (digit_props c (hd c hc)).2
  have hss : signSplit (Nat.repr n).toList = (false, (Nat.repr n).toList) := by
    cases hl : (Nat.repr n).toList with
    | nil => rfl
    | cons c r =>
      have hcd := hd c (by rw [hl]; simp)
      unfold signSplit
      split
      · rename_i heq; injection heq with h1 _; rw [h1] at hcd; exact absurd hcd (by decide)
      · rename_i heq; injection heq with h1 _; rw [h1] at hcd; exact absurd hcd (by decide)
      · rfl
  unfold readInt parseIntLit
  simp only [stripWs_clean _ hws, hasc, Bool.not_true, Bool.false_eq_true, if_false, hss, digitsVal_repr]

theorem readInt_repr (i : Int) : readInt (toString i) = .ok i := by
  cases i with
  | ofNat n => exact readInt_repr_nat n
  | negSucc n =>
    show readInt ("-" ++ Nat.repr (n + 1)) = .ok (Int.negSucc n)
    have hd : ∀ c ∈ (Nat.repr (n + 1)).toList, c.isDigit = true := by
      rw [Nat.toList_repr]; exact fun c hc => Nat.isDigit_of_mem_toDigits (by decide) (by decide) hc
    have hl : ("-" ++ Nat.repr (n + 1)).toList = '-' :: (Nat.repr (n + 1)).toList := by simp
    have hws : ∀ c ∈ '-' :: (Nat.repr (n + 1)).toList, isAsciiWs c = false := by
      intro c hc
      simp only [List.mem_cons] at hc
      rcases hc with rfl | hc
      · decide
      · exact (digit_props c (hd c hc)).1
    have hasc : allAscii ('-' :: (Nat.repr (n + 1)).toList) = true := by
      simp only [allAscii, List.all_cons, List.all_eq_true, decide_eq_true_eq, Bool.and_eq_true]
      exact ⟨by decide, fun c hc => (digit_props c (hd c hc)).2⟩
    unfold readInt parseIntLit
    simp only [hl, stripWs_clean _ hws, hasc, Bool.not_true, Bool.false_eq_true, if_false, signSplit, digitsVal_repr,
      if_true]
    rfl

end Spp
