import Spp.Model.Encodings
import Spp.Lemmas.Bits
namespace Spp

/-- Spec: two's-complement value of an `n`-bit unsigned pattern `v`. -/
def twos (n : Nat) (v : Nat) : Int := if v < 2 ^ (n - 1) then (v : Int) else (v : Int) - 2 ^ n

theorem twosComplement_eq_twos (n v : Nat) (hn : 1 ≤ n) (hv : v < 2 ^ n) : twosComplement v n = twos n v := by
  unfold twosComplement twos
  have hp : 2 ^ n = 2 * 2 ^ (n - 1) := by
    have : n = (n - 1) + 1 := by omega
    conv => lhs; rw [this, Nat.pow_succ]
    omega
  have hpos : 0 < 2 ^ (n - 1) := Nat.two_pow_pos _
  have hq : v / 2 ^ (n - 1) < 2 := by
    rw [Nat.div_lt_iff_lt_mul hpos]; omega
  by_cases h : v < 2 ^ (n - 1)
  · rw [if_pos h, Nat.div_eq_of_lt h]; simp
  · rw [if_neg h]
    have h1 : 1 ≤ v / 2 ^ (n - 1) := by
      rw [Nat.le_div_iff_mul_le hpos]; omega
    have : v / 2 ^ (n - 1) = 1 := by omega
    rw [this]; simp

/-- The spec agrees with the standard library's reading of a bit vector as a signed integer. -/
theorem twos_eq_toInt (n v : Nat) (hv : v < 2 ^ n) : twos n v = (BitVec.ofNat n v).toInt := by
  unfold twos
  rw [BitVec.toInt_eq_toNat_cond, BitVec.toNat_ofNat, Nat.mod_eq_of_lt hv]
  cases n with
  | zero => simp at hv; subst hv; simp
  | succ k =>
    simp only [Nat.add_sub_cancel]
    have hpn : (2:Nat) ^ (k + 1) = 2 * 2 ^ k := by rw [Nat.pow_succ]; omega
    by_cases h : v < 2 ^ k
    · rw [if_pos h, if_pos (by omega)]
    · rw [if_neg h, if_neg (by omega)]; push_cast; rfl

theorem readAsInt_pos {r : Raw} {n : Int} {v : Nat} {r' : Raw} (h : readAsInt r n = .ok (v, r')) :
    r'.pos = r.pos + n.toNat ∧ r'.data = r.data ∧ 0 ≤ n := by
  unfold readAsInt at h
  split at h
  · contradiction
  · split at h
    · contradiction
    · injection h with h; injection h with _ h; subst h; exact ⟨rfl, rfl, by omega⟩

theorem readAsBytes_pos {r : Raw} {n : Int} {v : Bytes} {r' : Raw} (h : readAsBytes r n = .ok (v, r')) :
    r'.pos = r.pos + n.toNat ∧ r'.data = r.data ∧ 0 ≤ n ∧ r.pos + n.toNat ≤ r.data.length * 8 := by
  unfold readAsBytes at h
  split at h
  · contradiction
  · simp only at h
    split at h
    · contradiction
    · split at h
      · injection h with h; injection h with _ h; subst h; exact ⟨rfl, rfl, by omega, by omega⟩
      · split at h
        · contradiction
        · injection h with h; injection h with _ h; subst h; exact ⟨rfl, rfl, by omega, by omega⟩

theorem liftBit_ok {α} {r : Except BitErr α} {v : α} (h : liftBit r = .ok v) : r = .ok v := by
  unfold liftBit at h
  split at h
  · injection h with h; subst h; rfl
  · contradiction

theorem floatRawValue_pos {e : NumEnc} {r : Raw} {f : FVal} {r' : Raw} (h : floatRawValue e r = .ok (f, r')) :
    r'.pos = r.pos + e.size.toNat ∧ r'.data = r.data := by
  unfold floatRawValue at h
  cases hr : liftBit (readAsBytes r e.size) with
  | error err => simp [hr, bind, Except.bind] at h
  | ok dr =>
    obtain ⟨d, rr⟩ := dr
    have := readAsBytes_pos (liftBit_ok hr)
    simp only [hr, bind, Except.bind, pure, Except.pure] at h
    split at h
    · injection h with h; injection h with _ h; subst h; exact ⟨this.1, this.2.1⟩
    · split at h
      · injection h with h; injection h with _ h; subst h; exact ⟨this.1, this.2.1⟩
      · contradiction

theorem intRawValue_pos {e : NumEnc} {r : Raw} {i : Int} {r' : Raw} (h : intRawValue e r = .ok (i, r')) :
    r'.pos = r.pos + e.size.toNat ∧ r'.data = r.data := by
  unfold intRawValue at h
  cases hr : liftBit (readAsInt r e.size) with
  | error err => simp [hr, bind, Except.bind] at h
  | ok dr =>
    obtain ⟨d, rr⟩ := dr
    have := readAsInt_pos (liftBit_ok hr)
    simp only [hr, bind, Except.bind, pure, Except.pure] at h
    split at h
    · injection h with h; injection h with _ h; subst h; exact ⟨this.1, this.2.1⟩
    · split at h
      · contradiction
      · injection h with h; injection h with _ h; subst h; exact ⟨this.1, this.2.1⟩

theorem NumEnc.rawValue_pos {e : NumEnc} {r : Raw} {v : PyVal} {r' : Raw} (h : e.rawValue r = .ok (v, r')) :
    r'.pos = r.pos + e.size.toNat ∧ r'.data = r.data := by
  unfold NumEnc.rawValue at h
  split at h
  · split at h
    · rename_i hf; injection h with h; injection h with _ h; subst h; exact floatRawValue_pos hf
    · contradiction
  · split at h
    · rename_i hf; injection h with h; injection h with _ h; subst h; exact intRawValue_pos hf
    · contradiction

/-- A successful numeric parse is a successful raw read followed by a successful derivation. -/
theorem NumEnc.parseValue_ok {e : NumEnc} {p : Pkt} {v : Param} {r' : Raw} (h : e.parseValue p = .ok (v, r')) :
    ∃ parsed, e.rawValue p.raw = .ok (parsed, r') ∧ e.derive p.items parsed = .ok v := by
  unfold NumEnc.parseValue at h
  split at h
  · contradiction
  · rename_i parsed raw' hr
    split at h
    · contradiction
    · rename_i v' hd
      injection h with h; injection h with h1 h2; subst h1 h2
      exact ⟨parsed, hr, hd⟩

end Spp
