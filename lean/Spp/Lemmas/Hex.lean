/-
`bytes.fromhex(b.hex()) == b` for the model's hex printer and parser (termination characters are written as hex text).
-/
import Spp.Model.XmlWrite
namespace Spp

theorem hexVal_hexDigit : ∀ n, n < 16 → hexVal (hexDigit n) = some n := by decide

theorem hexDigit_not_ws : ∀ n, n < 16 →
    (!(hexDigit n == ' ' || hexDigit n == '\t' || hexDigit n == '\n')) = true := by decide

theorem hexPairs_hex (t : Bytes) :
    hexPairs (t.flatMap (fun b => [hexDigit (b.toNat / 16), hexDigit (b.toNat % 16)])) = some t := by
  induction t with
  | nil => rfl
  | cons b t ih =>
    have h1 : b.toNat / 16 < 16 := by have := b.toNat_lt; omega
    have h2 : b.toNat % 16 < 16 := by omega
    simp only [List.flatMap_cons, List.cons_append, List.nil_append, hexPairs, hexVal_hexDigit _ h1, hexVal_hexDigit _ h2, ih]
    have : b.toNat / 16 * 16 + b.toNat % 16 = b.toNat := by omega
    rw [this]
    simp

/-- `bytes.fromhex(b.hex()) == b` -/
theorem hexToBytes_bytesToHex (t : Bytes) : hexToBytes (bytesToHex t) = some t := by
  unfold hexToBytes bytesToHex
  rw [String.toList_ofList]
  have : (t.flatMap (fun b => [hexDigit (b.toNat / 16), hexDigit (b.toNat % 16)])).filter
      (fun c => !(c == ' ' || c == '\t' || c == '\n')) =
      t.flatMap (fun b => [hexDigit (b.toNat / 16), hexDigit (b.toNat % 16)]) := by
    rw [List.filter_eq_self]
    intro c hc
    obtain ⟨b, _, hb⟩ := List.mem_flatMap.mp hc
    have h1 : b.toNat / 16 < 16 := by have := b.toNat_lt; omega
    have h2 : b.toNat % 16 < 16 := by omega
    simp only [List.mem_cons, List.mem_nil_iff, or_false] at hb
    rcases hb with rfl | rfl
    · exact hexDigit_not_ws _ h1
    · exact hexDigit_not_ws _ h2
  rw [this, hexPairs_hex]

theorem bytesToHex_nonempty (t : Bytes) (h : t ≠ []) : (bytesToHex t).isEmpty = false := by
  cases t with
  | nil => exact absurd rfl h
  | cons b t =>
    unfold bytesToHex
    cases hh : (String.ofList (List.flatMap (fun b => [hexDigit (b.toNat / 16), hexDigit (b.toNat % 16)]) (b :: t))).isEmpty
    · rfl
    · have := String.isEmpty_iff.mp hh
      have h2 := congrArg String.toList this
      simp at h2

end Spp
