/-
"Loading does not depend on how the document is spelled": every loader function gives the same result on a
document and on a *rendering* of it — a tree map under which the element searches commute.  Two renderings are
instances (Props/C16): removing comments, and moving the document between namespace conventions.
-/
import Spp.Model.XmlLoad
namespace Spp

/-- `T` renders documents of domain `Dom` (closed under children) searched with namespace `ens` as documents
    searched with `ens'`, preserving everything a loader can observe. -/
structure Rendering (ens ens' : Option String) (T : XmlNode → XmlNode) (Dom : XmlNode → Prop) : Prop where
  kids_dom : ∀ x, Dom x → ∀ k ∈ x.kids, Dom k
  attrs : ∀ x, (T x).attrs = x.attrs
  tag : ∀ x, (T x).tag = x.tag
  isElem : ∀ x, (T x).isElem = x.isElem
  text : ∀ x, x.isElem = true → (T x).text = x.text
  elems : ∀ x, (T x).elems = x.elems.map T
  findAll : ∀ path x, Dom x → findAll ens' path (T x) = (Spp.findAll ens path x).map T
  findDesc : ∀ tag x, Dom x → findDescendant ens' tag (T x) = (findDescendant ens tag x).map T

variable {ens ens' : Option String} {T : XmlNode → XmlNode} {Dom : XmlNode → Prop}

namespace Rendering

theorem attr? (R : Rendering ens ens' T Dom) (x : XmlNode) (k : String) : (T x).attr? k = x.attr? k := by
  simp [XmlNode.attr?, R.attrs]

theorem attr! (R : Rendering ens ens' T Dom) (x : XmlNode) (k : String) : (T x).attr! k = x.attr! k := by
  simp [XmlNode.attr!, R.attr?]

theorem boolAttr (R : Rendering ens ens' T Dom) (x : XmlNode) (k : String) (d : Bool) :
    Spp.boolAttr (T x) k d = Spp.boolAttr x k d := by
  simp [Spp.boolAttr, R.attr?]

theorem findFirst (R : Rendering ens ens' T Dom) (path : List Step) (x : XmlNode) (hx : Dom x) :
    Spp.findFirst ens' path (T x) = (Spp.findFirst ens path x).map T := by
  simp [Spp.findFirst, R.findAll path x hx, List.head?_map]

theorem findAll_dom (R : Rendering ens ens' T Dom) (path : List Step) (x : XmlNode) (hx : Dom x) :
    ∀ e ∈ Spp.findAll ens path x, Dom e := by
  induction path generalizing x with
  | nil => intro e he; simp [Spp.findAll] at he; subst he; exact hx
  | cons s rest ih =>
    intro e he
    simp only [Spp.findAll, List.mem_flatten, List.mem_map, List.mem_filter] at he
    obtain ⟨l, ⟨y, ⟨hy, _⟩, rfl⟩, hel⟩ := he
    exact ih y (R.kids_dom x hx y hy) e hel

theorem findAll_isElem (s : Step) (p : List Step) (x e : XmlNode)
    (h : e ∈ Spp.findAll ens (s :: p) x) : e.isElem = true := by
  induction p generalizing s x e with
  | nil =>
    simp only [Spp.findAll, List.mem_flatten, List.mem_map, List.mem_filter] at h
    obtain ⟨l, ⟨y, ⟨_, hy⟩, rfl⟩, he⟩ := h
    simp only [List.mem_singleton] at he
    subst he
    simp only [Step.matches, Bool.and_eq_true] at hy
    exact hy.1.1
  | cons s2 rest ih =>
    simp only [Spp.findAll, List.mem_flatten, List.mem_map, List.mem_filter] at h
    obtain ⟨l, ⟨y, _, rfl⟩, he⟩ := h
    exact ih s2 y e he

theorem findFirst_dom (R : Rendering ens ens' T Dom) (path : List Step) (x e : XmlNode) (hx : Dom x)
    (h : Spp.findFirst ens path x = some e) : Dom e :=
  R.findAll_dom path x hx e (List.mem_of_mem_head? h)

theorem findFirst_isElem (s : Step) (p : List Step) (x e : XmlNode)
    (h : Spp.findFirst ens (s :: p) x = some e) : e.isElem = true :=
  findAll_isElem s p x e (List.mem_of_mem_head? h)

theorem elems_dom (R : Rendering ens ens' T Dom) (x : XmlNode) (hx : Dom x) : ∀ e ∈ x.elems, Dom e := by
  intro e he
  simp only [XmlNode.elems, List.mem_filter] at he
  exact R.kids_dom x hx e he.1

theorem elems_isElem (x : XmlNode) : ∀ e ∈ x.elems, e.isElem = true := by
  intro e he
  simp only [XmlNode.elems, List.mem_filter] at he
  exact he.2

/-- Mapping a loader that is invariant on the domain over rendered nodes. -/
theorem mapM {α} (f g : XmlNode → LoadM α) (l : List XmlNode) (h : ∀ x ∈ l, f (T x) = g x) :
    (l.map T).mapM f = l.mapM g := by
  induction l with
  | nil => rfl
  | cons x xs ih =>
    simp only [List.map_cons, List.mapM_cons, h x (by simp), ih (fun y hy => h y (by simp [hy]))]

/-! ### criteria -/

theorem loadComparison (R : Rendering ens ens' T Dom) (x : XmlNode) :
    Spp.loadComparison (T x) = Spp.loadComparison x := by
  simp only [Spp.loadComparison, R.attr!, R.attr?, R.boolAttr]

theorem loadParamInstanceRef (R : Rendering ens ens' T Dom) (x : XmlNode) :
    Spp.loadParamInstanceRef (T x) = Spp.loadParamInstanceRef x := by
  simp only [Spp.loadParamInstanceRef, R.attr!, R.boolAttr]

theorem condFromParts (R : Rendering ens ens' T Dom) (op : String) (ps : List XmlNode) (vt : Option (Option String)) :
    Spp.condFromParts op (ps.map T) vt = Spp.condFromParts op ps vt := by
  match ps with
  | [] => rfl
  | [p] => simp only [List.map_cons, List.map_nil, Spp.condFromParts, R.loadParamInstanceRef]
  | [p, q] => simp only [List.map_cons, List.map_nil, Spp.condFromParts, R.loadParamInstanceRef]
  | _ :: _ :: _ :: _ => rfl

/-- The text of the first match, if any: the same in the rendering. -/
theorem first_text (R : Rendering ens ens' T Dom) (s : Step) (p : List Step) (x : XmlNode) (hx : Dom x) :
    (Spp.findFirst ens' (s :: p) (T x)).map (·.text) = (Spp.findFirst ens (s :: p) x).map (·.text) := by
  rw [R.findFirst _ x hx]
  cases h : Spp.findFirst ens (s :: p) x with
  | none => rfl
  | some e => simp [R.text e (findFirst_isElem s p x e h)]

theorem first_bind_text (R : Rendering ens ens' T Dom) (s : Step) (p : List Step) (x : XmlNode) (hx : Dom x) :
    (Spp.findFirst ens' (s :: p) (T x)).bind (·.text) = (Spp.findFirst ens (s :: p) x).bind (·.text) := by
  rw [R.findFirst _ x hx]
  cases h : Spp.findFirst ens (s :: p) x with
  | none => rfl
  | some e => simp [R.text e (findFirst_isElem s p x e h)]

theorem loadCondition (R : Rendering ens ens' T Dom) (x : XmlNode) (hx : Dom x) :
    Spp.loadCondition ens' (T x) = Spp.loadCondition ens x := by
  unfold Spp.loadCondition
  rw [R.first_text _ _ x hx, R.findAll _ x hx, R.findFirst _ x hx]
  cases h : Spp.findFirst ens [step "ComparisonOperator"] x with
  | none => rfl
  | some opEl =>
    simp only [Option.map_some, R.text opEl (findFirst_isElem _ _ x opEl h), R.condFromParts]

mutual
theorem loadAnded (R : Rendering ens ens' T Dom) (fuel : Nat) (x : XmlNode) (hx : Dom x) :
    Spp.loadAnded ens' fuel (T x) = Spp.loadAnded ens fuel x := by
  cases fuel with
  | zero => rfl
  | succ fuel =>
    simp only [Spp.loadAnded, R.findAll _ x hx]
    rw [mapM (Spp.loadCondition ens') (Spp.loadCondition ens) _
          (fun y hy => R.loadCondition y (R.findAll_dom _ x hx y hy)),
        mapM (Spp.loadOred ens' fuel) (Spp.loadOred ens fuel) _
          (fun y hy => loadOred R fuel y (R.findAll_dom _ x hx y hy))]
theorem loadOred (R : Rendering ens ens' T Dom) (fuel : Nat) (x : XmlNode) (hx : Dom x) :
    Spp.loadOred ens' fuel (T x) = Spp.loadOred ens fuel x := by
  cases fuel with
  | zero => rfl
  | succ fuel =>
    simp only [Spp.loadOred, R.findAll _ x hx]
    rw [mapM (Spp.loadCondition ens') (Spp.loadCondition ens) _
          (fun y hy => R.loadCondition y (R.findAll_dom _ x hx y hy)),
        mapM (Spp.loadAnded ens' fuel) (Spp.loadAnded ens fuel) _
          (fun y hy => loadAnded R fuel y (R.findAll_dom _ x hx y hy))]
end

theorem loadBoolExpr (R : Rendering ens ens' T Dom) (x : XmlNode) (hx : Dom x) :
    Spp.loadBoolExpr ens' (T x) = Spp.loadBoolExpr ens x := by
  unfold Spp.loadBoolExpr
  simp only [R.findFirst _ x hx]
  cases h1 : Spp.findFirst ens [step "Condition"] x with
  | some c => simp only [Option.map_some, R.loadCondition c (R.findFirst_dom _ x c hx h1)]
  | none =>
    simp only [Option.map_none]
    cases h2 : Spp.findFirst ens [step "ANDedConditions"] x with
    | some a => simp only [Option.map_some, R.loadAnded FUEL a (R.findFirst_dom _ x a hx h2)]
    | none =>
      simp only [Option.map_none]
      cases h3 : Spp.findFirst ens [step "ORedConditions"] x with
      | some o => simp only [Option.map_some, R.loadOred FUEL o (R.findFirst_dom _ x o hx h3)]
      | none => rfl

theorem mapM_elems {α} (R : Rendering ens ens' T Dom) (f g : XmlNode → LoadM α) (x : XmlNode) (hx : Dom x)
    (h : ∀ e, Dom e → e.isElem = true → f (T e) = g e) : (T x).elems.mapM f = x.elems.mapM g := by
  rw [R.elems]
  exact mapM f g _ (fun e he => h e (R.elems_dom x hx e he) (elems_isElem x e he))

theorem loadDiscreteLookup (R : Rendering ens ens' T Dom) (x : XmlNode) (hx : Dom x) :
    Spp.loadDiscreteLookup ens' (T x) = Spp.loadDiscreteLookup ens x := by
  unfold Spp.loadDiscreteLookup
  simp only [R.findFirst _ x hx, R.attr!]
  cases h1 : Spp.findFirst ens [step "ComparisonList"] x with
  | some l =>
    simp only [Option.map_some,
      R.mapM_elems Spp.loadComparison Spp.loadComparison l (R.findFirst_dom _ x l hx h1) (fun e _ _ => R.loadComparison e)]
  | none =>
    simp only [Option.map_none]
    cases h2 : Spp.findFirst ens [step "Comparison"] x with
    | some c => simp only [Option.map_some, R.loadComparison]
    | none => rfl

theorem loadMatchCriteria (R : Rendering ens ens' T Dom) (b : Bool) (x : XmlNode) (hx : Dom x) :
    Spp.loadMatchCriteria ens' b (T x) = Spp.loadMatchCriteria ens b x := by
  unfold Spp.loadMatchCriteria
  simp only [R.findFirst _ x hx]
  cases h1 : Spp.findFirst ens [step "ComparisonList"] x with
  | some l =>
    have hl := R.findFirst_dom _ x l hx h1
    simp only [Option.map_some]
    cases b with
    | true =>
      simp only [if_true, R.findAll _ l hl,
        mapM Spp.loadComparison Spp.loadComparison _ (fun e _ => R.loadComparison e)]
    | false =>
      simp only [Bool.false_eq_true, if_false,
        R.mapM_elems Spp.loadComparison Spp.loadComparison l hl (fun e _ _ => R.loadComparison e)]
  | none =>
    simp only [Option.map_none]
    cases h2 : Spp.findFirst ens [step "Comparison"] x with
    | some c => simp only [Option.map_some, R.loadComparison]
    | none =>
      simp only [Option.map_none]
      cases h3 : Spp.findFirst ens [step "BooleanExpression"] x with
      | some e => simp only [Option.map_some, R.loadBoolExpr e (R.findFirst_dom _ x e hx h3)]
      | none => rfl

/-! ### calibrators -/

theorem loadSplinePoint (R : Rendering ens ens' T Dom) (x : XmlNode) : Spp.loadSplinePoint (T x) = Spp.loadSplinePoint x := by
  simp only [Spp.loadSplinePoint, R.attr!]

theorem loadTerm (R : Rendering ens ens' T Dom) (x : XmlNode) : Spp.loadTerm (T x) = Spp.loadTerm x := by
  simp only [Spp.loadTerm, R.attr!]

theorem loadSpline (R : Rendering ens ens' T Dom) (x : XmlNode) (hx : Dom x) : Spp.loadSpline (T x) = Spp.loadSpline x := by
  simp only [Spp.loadSpline, R.attr?, R.boolAttr,
    R.mapM_elems Spp.loadSplinePoint Spp.loadSplinePoint x hx (fun e _ _ => R.loadSplinePoint e)]

theorem loadPoly (R : Rendering ens ens' T Dom) (x : XmlNode) (hx : Dom x) : Spp.loadPoly (T x) = Spp.loadPoly x := by
  simp only [Spp.loadPoly, R.mapM_elems Spp.loadTerm Spp.loadTerm x hx (fun e _ _ => R.loadTerm e)]

theorem loadContextCalibrator (R : Rendering ens ens' T Dom) (x : XmlNode) (hx : Dom x) :
    Spp.loadContextCalibrator ens' (T x) = Spp.loadContextCalibrator ens x := by
  unfold Spp.loadContextCalibrator
  simp only [R.findFirst _ x hx]
  cases h1 : Spp.findFirst ens [step "ContextMatch"] x with
  | none => rfl
  | some cm =>
    simp only [Option.map_some, bind, Except.bind, pure, Except.pure,
      R.loadMatchCriteria true cm (R.findFirst_dom _ x cm hx h1)]
    cases h2 : Spp.findFirst ens [step "Calibrator", step "SplineCalibrator"] x with
    | some e => simp only [Option.map_some, R.loadSpline e (R.findFirst_dom _ x e hx h2)]
    | none =>
      simp only [Option.map_none]
      cases h3 : Spp.findFirst ens [step "Calibrator", step "PolynomialCalibrator"] x with
      | some e => simp only [Option.map_some, R.loadPoly e (R.findFirst_dom _ x e hx h3)]
      | none => simp only [Option.map_none]

theorem loadDefaultCalibrator (R : Rendering ens ens' T Dom) (x : XmlNode) (hx : Dom x) :
    Spp.loadDefaultCalibrator ens' (T x) = Spp.loadDefaultCalibrator ens x := by
  unfold Spp.loadDefaultCalibrator
  simp only [R.findFirst _ x hx]
  cases h1 : Spp.findFirst ens [step "DefaultCalibrator", step "SplineCalibrator"] x with
  | some e => simp only [Option.map_some, R.loadSpline e (R.findFirst_dom _ x e hx h1)]
  | none =>
    simp only [Option.map_none]
    cases h2 : Spp.findFirst ens [step "DefaultCalibrator", step "PolynomialCalibrator"] x with
    | some e => simp only [Option.map_some, R.loadPoly e (R.findFirst_dom _ x e hx h2)]
    | none =>
      simp only [Option.map_none]
      cases h3 : Spp.findFirst ens [step "DefaultCalibrator", step "MathOperationCalibrator"] x with
      | some e => rfl
      | none => rfl

theorem loadContextCalibrators (R : Rendering ens ens' T Dom) (x : XmlNode) (hx : Dom x) :
    Spp.loadContextCalibrators ens' (T x) = Spp.loadContextCalibrators ens x := by
  unfold Spp.loadContextCalibrators
  simp only [R.findFirst _ x hx]
  cases h1 : Spp.findFirst ens [step "ContextCalibratorList"] x with
  | some l =>
    simp only [Option.map_some,
      R.mapM_elems (Spp.loadContextCalibrator ens') (Spp.loadContextCalibrator ens) l (R.findFirst_dom _ x l hx h1)
        (fun e he _ => R.loadContextCalibrator e he)]
  | none => rfl

/-! ### encodings -/

theorem loadLinearAdjuster (R : Rendering ens ens' T Dom) (x : XmlNode) (hx : Dom x) :
    Spp.loadLinearAdjuster ens' (T x) = Spp.loadLinearAdjuster ens x := by
  unfold Spp.loadLinearAdjuster
  simp only [R.findFirst _ x hx]
  cases h1 : Spp.findFirst ens [step "LinearAdjustment"] x with
  | some e => simp only [Option.map_some, R.attr?]
  | none => rfl

theorem loadIntEncoding (R : Rendering ens ens' T Dom) (x : XmlNode) (hx : Dom x) :
    Spp.loadIntEncoding ens' (T x) = Spp.loadIntEncoding ens x := by
  simp only [Spp.loadIntEncoding, R.attr!, R.attr?, R.loadDefaultCalibrator x hx, R.loadContextCalibrators x hx]

theorem loadFloatEncoding (R : Rendering ens ens' T Dom) (x : XmlNode) (hx : Dom x) :
    Spp.loadFloatEncoding ens' (T x) = Spp.loadFloatEncoding ens x := by
  simp only [Spp.loadFloatEncoding, R.attr!, R.attr?, R.loadDefaultCalibrator x hx, R.loadContextCalibrators x hx]

theorem first_readIntOpt_text (R : Rendering ens ens' T Dom) (s : Step) (p : List Step) (x e : XmlNode)
    (h : Spp.findFirst ens (s :: p) x = some e) : readIntOpt (T e).text = readIntOpt e.text := by
  rw [R.text e (findFirst_isElem s p x e h)]


theorem loadDynamicValue (R : Rendering ens ens' T Dom) (x : XmlNode) (hx : Dom x) :
    Spp.loadDynamicValue ens' (T x) = Spp.loadDynamicValue ens x := by
  unfold Spp.loadDynamicValue
  simp only [R.findFirst _ x hx, R.loadLinearAdjuster x hx]
  cases h : Spp.findFirst ens [step "ParameterInstanceRef"] x with
  | none => rfl
  | some pir => simp only [Option.map_some, R.attr!, R.attr?]

theorem loadBinaryEncoding (R : Rendering ens ens' T Dom) (x : XmlNode) (hx : Dom x) :
    Spp.loadBinaryEncoding ens' (T x) = Spp.loadBinaryEncoding ens x := by
  unfold Spp.loadBinaryEncoding
  simp only [R.findFirst _ x hx]
  cases h1 : Spp.findFirst ens [step "SizeInBits", step "FixedValue"] x with
  | some e => simp only [Option.map_some, R.text e (findFirst_isElem _ _ x e h1)]
  | none =>
    simp only [Option.map_none]
    cases h2 : Spp.findFirst ens [step "SizeInBits", step "DynamicValue"] x with
    | some dv => simp only [Option.map_some, R.loadDynamicValue dv (R.findFirst_dom _ x dv hx h2)]
    | none =>
      simp only [Option.map_none]
      cases h3 : Spp.findFirst ens [step "SizeInBits", step "DiscreteLookupList"] x with
      | some dl =>
        simp only [Option.map_some,
          R.mapM_elems (Spp.loadDiscreteLookup ens') (Spp.loadDiscreteLookup ens) dl (R.findFirst_dom _ x dl hx h3)
            (fun e he _ => R.loadDiscreteLookup e he)]
      | none => rfl

theorem strSizeEl (R : Rendering ens ens' T Dom) (x : XmlNode) (hx : Dom x) :
    Spp.strSizeEl ens' (T x) = (Spp.strSizeEl ens x).map T := by
  unfold Spp.strSizeEl
  simp only [R.findFirst _ x hx]
  cases h1 : Spp.findFirst ens [step "SizeInBits"] x with
  | some se => rfl
  | none => rfl

theorem strSizeEl_dom (R : Rendering ens ens' T Dom) (x e : XmlNode) (hx : Dom x)
    (h : Spp.strSizeEl ens x = some e) : Dom e := by
  unfold Spp.strSizeEl at h
  cases h1 : Spp.findFirst ens [step "SizeInBits"] x with
  | some se => simp only [h1] at h; injection h with h; subst h; exact R.findFirst_dom _ x se hx h1
  | none => simp only [h1] at h; exact R.findFirst_dom _ x e hx h

theorem loadStrSpec (R : Rendering ens ens' T Dom) (x : XmlNode) (hx : Dom x) :
    Spp.loadStrSpec ens' (T x) = Spp.loadStrSpec ens x := by
  unfold Spp.loadStrSpec
  simp only [R.findFirst _ x hx]
  cases h1 : Spp.findFirst ens [step "SizeInBits"] x with
  | some se =>
    have hse := R.findFirst_dom _ x se hx h1
    simp only [Option.map_some, R.findFirst _ se hse]
    cases h2 : Spp.findFirst ens [step "Fixed", step "FixedValue"] se with
    | some e => simp only [Option.map_some, R.text e (findFirst_isElem _ _ se e h2)]
    | none => rfl
  | none =>
    simp only [Option.map_none]
    cases h2 : Spp.findFirst ens [step "Variable"] x with
    | none => rfl
    | some ve =>
      have hve := R.findFirst_dom _ x ve hx h2
      simp only [Option.map_some, R.findFirst _ ve hve]
      cases h3 : Spp.findFirst ens [step "DynamicValue"] ve with
      | some dv => simp only [Option.map_some, R.loadDynamicValue dv (R.findFirst_dom _ ve dv hve h3)]
      | none =>
        simp only [Option.map_none]
        cases h4 : Spp.findFirst ens [step "DiscreteLookupList"] ve with
        | some dl =>
          simp only [Option.map_some,
            R.mapM_elems (Spp.loadDiscreteLookup ens') (Spp.loadDiscreteLookup ens) dl (R.findFirst_dom _ ve dl hve h4)
              (fun e he _ => R.loadDiscreteLookup e he)]
        | none => rfl

theorem loadStrTail (R : Rendering ens ens' T Dom) (x : XmlNode) (hx : Dom x) :
    Spp.loadStrTail ens' (T x) = Spp.loadStrTail ens x := by
  unfold Spp.loadStrTail
  simp only [R.first_bind_text _ _ x hx]
  simp only [R.findFirst _ x hx]
  cases h1 : Spp.findFirst ens [step "LeadingSize"] x with
  | some e => simp only [Option.map_some, R.attr!]
  | none => rfl

theorem loadStringEncoding (R : Rendering ens ens' T Dom) (x : XmlNode) (hx : Dom x) :
    Spp.loadStringEncoding ens' (T x) = Spp.loadStringEncoding ens x := by
  unfold Spp.loadStringEncoding
  have hbo : ∀ enc, Spp.readStrByteOrder (T x) enc = Spp.readStrByteOrder x enc := by
    intro enc; unfold Spp.readStrByteOrder; simp only [R.attr?]
  simp only [R.attr?, hbo, R.loadStrSpec x hx, R.strSizeEl x hx]
  cases h1 : Spp.strSizeEl ens x with
  | none => rfl
  | some se => simp only [Option.map_some, R.loadStrTail se (R.strSizeEl_dom x se hx h1)]

theorem loadDataEncoding (R : Rendering ens ens' T Dom) (x : XmlNode) (hx : Dom x)
    (hdesc : ∀ tag e, findDescendant ens tag x = some e → Dom e) :
    Spp.loadDataEncoding ens' (T x) = Spp.loadDataEncoding ens x := by
  unfold Spp.loadDataEncoding
  simp only [R.findDesc _ x hx]
  cases h1 : findDescendant ens "StringDataEncoding" x with
  | some e => simp only [Option.map_some, R.loadStringEncoding e (hdesc _ e h1)]
  | none =>
    simp only [Option.map_none]
    cases h2 : findDescendant ens "IntegerDataEncoding" x with
    | some e => simp only [Option.map_some, R.loadIntEncoding e (hdesc _ e h2)]
    | none =>
      simp only [Option.map_none]
      cases h3 : findDescendant ens "FloatDataEncoding" x with
      | some e => simp only [Option.map_some, R.loadFloatEncoding e (hdesc _ e h3)]
      | none =>
        simp only [Option.map_none]
        cases h4 : findDescendant ens "BinaryDataEncoding" x with
        | some e => simp only [Option.map_some, R.loadBinaryEncoding e (hdesc _ e h4)]
        | none => rfl

mutual
theorem descendants_dom (R : Rendering ens ens' T Dom) : ∀ x, Dom x → ∀ e ∈ descendants x, Dom e
  | .elem n t a tx c, hx, e, he => by
    simp only [descendants] at he
    exact descendantsList_dom R c (fun k hk => R.kids_dom _ hx k (by simpa [XmlNode.kids] using hk)) e he
  | .comment _, _, e, he => by simp [descendants] at he
theorem descendantsList_dom (R : Rendering ens ens' T Dom) :
    ∀ l : List XmlNode, (∀ k ∈ l, Dom k) → ∀ e ∈ descendantsList l, Dom e
  | [], _, e, he => by simp [descendantsList] at he
  | x :: xs, h, e, he => by
    simp only [descendantsList, List.mem_append] at he
    rcases he with (he | he) | he
    · split at he
      · simp only [List.mem_singleton] at he; rw [he]; exact h x (by simp)
      · simp at he
    · exact descendants_dom R x (h x (by simp)) e he
    · exact descendantsList_dom R xs (fun k hk => h k (by simp [hk])) e he
end

theorem findDescendant_dom (R : Rendering ens ens' T Dom) (x : XmlNode) (hx : Dom x) (tag : String) (e : XmlNode)
    (h : findDescendant ens tag x = some e) : Dom e := by
  unfold findDescendant at h
  exact R.descendants_dom x hx e (List.mem_of_find?_eq_some h)

theorem loadDataEncoding' (R : Rendering ens ens' T Dom) (x : XmlNode) (hx : Dom x) :
    Spp.loadDataEncoding ens' (T x) = Spp.loadDataEncoding ens x :=
  R.loadDataEncoding x hx (fun tag e h => R.findDescendant_dom x hx tag e h)

/-! ### parameter types and parameters -/

theorem loadUnits (R : Rendering ens ens' T Dom) (x : XmlNode) (hx : Dom x) :
    Spp.loadUnits ens' (T x) = Spp.loadUnits ens x := by
  unfold Spp.loadUnits
  rw [R.findAll _ x hx]
  match h : Spp.findAll ens [step "UnitSet", step "Unit"] x with
  | [] => rfl
  | [u] =>
    have hu : u.isElem = true := findAll_isElem _ _ x u (by rw [h]; simp)
    simp only [List.map_cons, List.map_nil, R.text u hu]
  | _ :: _ :: _ => rfl

theorem loadEnumeration (R : Rendering ens ens' T Dom) (x : XmlNode) (hx : Dom x) (enc : Encoding) :
    Spp.loadEnumeration ens' (T x) enc = Spp.loadEnumeration ens x enc := by
  unfold Spp.loadEnumeration
  simp only [R.findFirst _ x hx]
  cases h1 : Spp.findFirst ens [step "EnumerationList"] x with
  | none => rfl
  | some l =>
    have hstep : (fun d el => Spp.enumStep enc d (T el)) = Spp.enumStep enc := by
      funext d el; simp only [Spp.enumStep, R.attr!]
    simp only [Option.map_some, bind, Except.bind, pure, Except.pure, R.elems, List.foldlM_map, hstep]

theorem loadParameter (R : Rendering ens ens' T Dom) (types : List (String × LPType)) (x : XmlNode) (hx : Dom x) :
    Spp.loadParameter ens' types (T x) = Spp.loadParameter ens types x := by
  unfold Spp.loadParameter
  simp only [R.first_bind_text _ _ x hx, R.attr!, R.attr?]

theorem loadParameterType (R : Rendering ens ens' T Dom) (x : XmlNode) (hx : Dom x) :
    Spp.loadParameterType ens' (T x) = Spp.loadParameterType ens x := by
  unfold Spp.loadParameterType
  simp only [R.tag, R.attr!, R.attr?, R.loadDataEncoding' x hx, R.loadUnits x hx, R.loadEnumeration x hx,
    R.first_bind_text _ _ x hx]
  simp only [R.findFirst _ x hx]
  cases h1 : Spp.findFirst ens [step "Encoding"] x <;>
    cases h2 : Spp.findFirst ens [step "ReferenceTime", step "OffsetFrom"] x <;>
      simp only [Option.map_some, Option.map_none, bind, Except.bind, pure, Except.pure, R.attr?, R.attr!]

/-! ### containers -/

theorem getContainerElement (R : Rendering ens ens' T Dom) (root : XmlNode) (hr : Dom root) (name : String) :
    Spp.getContainerElement ens' (T root) name = (Spp.getContainerElement ens root name).map T := by
  unfold Spp.getContainerElement
  simp only [R.findFirst _ root hr]
  cases h1 : Spp.findFirst ens [step "TelemetryMetaData", step "ContainerSet"] root with
  | none => rfl
  | some cs =>
    simp only [Option.map_some, R.findAll _ cs (R.findFirst_dom _ root cs hr h1)]
    match h2 : Spp.findAll ens [{ tag := "SequenceContainer", nameEq := some name }] cs with
    | [] => rfl
    | [e] => rfl
    | _ :: _ :: _ => rfl

theorem getContainerElement_dom (R : Rendering ens ens' T Dom) (root : XmlNode) (hr : Dom root) (name : String)
    (e : XmlNode) (h : Spp.getContainerElement ens root name = .ok e) : Dom e := by
  unfold Spp.getContainerElement at h
  cases h1 : Spp.findFirst ens [step "TelemetryMetaData", step "ContainerSet"] root with
  | none => simp [h1] at h
  | some cs =>
    simp only [h1] at h
    have hcs := R.findFirst_dom _ root cs hr h1
    match h2 : Spp.findAll ens [{ tag := "SequenceContainer", nameEq := some name }] cs with
    | [] => simp [h2] at h
    | [e'] =>
      simp only [h2] at h
      injection h with h; subst h
      exact R.findAll_dom _ cs hcs e' (by rw [h2]; simp)
    | _ :: _ :: _ => simp [h2] at h

theorem loadRestriction (R : Rendering ens ens' T Dom) (bc : XmlNode) (hb : Dom bc) :
    Spp.loadRestriction ens' (T bc) = Spp.loadRestriction ens bc := by
  unfold Spp.loadRestriction
  simp only [R.findFirst _ bc hb]
  cases h0 : Spp.findFirst ens [step "RestrictionCriteria"] bc with
  | none => rfl
  | some rc =>
    have hrc := R.findFirst_dom _ bc rc hb h0
    simp only [Option.map_some, R.findFirst _ rc hrc]
    cases h1 : Spp.findFirst ens [step "ComparisonList"] rc with
    | some l =>
      simp only [Option.map_some,
        R.mapM_elems Spp.loadComparison Spp.loadComparison l (R.findFirst_dom _ rc l hrc h1) (fun e _ _ => R.loadComparison e)]
    | none =>
      simp only [Option.map_none]
      cases h2 : Spp.findFirst ens [step "Comparison"] rc with
      | some c => simp only [Option.map_some, R.loadComparison]
      | none =>
        simp only [Option.map_none]
        cases h3 : Spp.findFirst ens [step "BooleanExpression"] rc with
        | some b => simp only [Option.map_some, R.loadBoolExpr b (R.findFirst_dom _ rc b hrc h3)]
        | none =>
          simp only [Option.map_none]
          cases h4 : Spp.findFirst ens [step "CustomAlgorithm"] rc with
          | some _ => rfl
          | none => rfl

/-- A recursive loader pair that agrees on renderings of nodes of the domain. -/
def RecAgree (T : XmlNode → XmlNode) (Dom : XmlNode → Prop) (rec' rec : ContRec) : Prop :=
  ∀ lk e, Dom e → rec' lk (T e) = rec lk e

theorem loadBaseWith (R : Rendering ens ens' T Dom) (root : XmlNode) (hr : Dom root) (rec' rec : ContRec)
    (hrec : RecAgree T Dom rec' rec) (lookup : CLookup) (x : XmlNode) (hx : Dom x) :
    Spp.loadBaseWith ens' (T root) rec' lookup (T x) = Spp.loadBaseWith ens root rec lookup x := by
  unfold Spp.loadBaseWith
  simp only [R.findFirst _ x hx]
  cases h0 : Spp.findFirst ens [step "BaseContainer"] x with
  | none => rfl
  | some bc =>
    have hbc := R.findFirst_dom _ x bc hx h0
    simp only [Option.map_some, R.loadRestriction bc hbc, R.attr!]
    cases Spp.loadRestriction ens bc with
    | error e => rfl
    | ok crit =>
      simp only
      cases bc.attr! "containerRef" with
      | error e => rfl
      | ok ref =>
        simp only [R.getContainerElement root hr ref]
        cases hg : Spp.getContainerElement ens root ref with
        | error e => rfl
        | ok bEl =>
          have hbEl := R.getContainerElement_dom root hr ref bEl hg
          simp only [Except.map, R.attr!, hrec lookup bEl hbEl]

theorem loadEntryWith (R : Rendering ens ens' T Dom) (root : XmlNode) (hr : Dom root) (params : List (String × LParam))
    (rec' rec : ContRec) (hrec : RecAgree T Dom rec' rec) (acc : List LEntry × CLookup) (entry : XmlNode) :
    Spp.loadEntryWith ens' (T root) params rec' acc (T entry) = Spp.loadEntryWith ens root params rec acc entry := by
  unfold Spp.loadEntryWith
  simp only [R.tag, R.attr!]
  split
  · rfl
  · split
    · cases entry.attr! "containerRef" with
      | error e => rfl
      | ok cn =>
        simp only [R.getContainerElement root hr cn]
        split
        · rfl
        · cases hg : Spp.getContainerElement ens root cn with
          | error e => rfl
          | ok nEl =>
            simp only [Except.map, hrec acc.2 nEl (R.getContainerElement_dom root hr cn nEl hg)]
    · rfl

theorem loadContainer (R : Rendering ens ens' T Dom) (root : XmlNode) (hr : Dom root) (params : List (String × LParam)) :
    ∀ fuel, RecAgree T Dom (Spp.loadContainer ens' (T root) params fuel) (Spp.loadContainer ens root params fuel) := by
  intro fuel
  induction fuel with
  | zero => intro lk e _; rfl
  | succ fuel ih =>
    intro lookup x hx
    simp only [Spp.loadContainer]
    simp only [R.first_bind_text _ _ x hx]
    simp only [R.loadBaseWith root hr _ _ ih lookup x hx, R.findFirst _ x hx, R.attr!, R.attr?, R.boolAttr]
    cases Spp.loadBaseWith ens root (Spp.loadContainer ens root params fuel) lookup x with
    | error e => rfl
    | ok r =>
      obtain ⟨baseName, criteria, lookup2⟩ := r
      simp only
      cases h1 : Spp.findFirst ens [step "EntryList"] x with
      | none => rfl
      | some el =>
        simp only [Option.map_some, R.elems, List.foldlM_map, R.loadEntryWith root hr params _ _ ih]

/-! ### the three sets and the whole document -/

theorem foldlM_render {α} (f g : α → XmlNode → LoadM α) (l : List XmlNode) (init : α)
    (h : ∀ acc, ∀ e ∈ l, f acc (T e) = g acc e) : (l.map T).foldlM f init = l.foldlM g init := by
  induction l generalizing init with
  | nil => rfl
  | cons x xs ih =>
    simp only [List.map_cons, List.foldlM_cons, h init x (by simp)]
    cases g init x with
    | error e => rfl
    | ok a => exact ih a (fun acc e he => h acc e (by simp [he]))

theorem foldlM_elems {α} (R : Rendering ens ens' T Dom) (f g : α → XmlNode → LoadM α) (x : XmlNode) (hx : Dom x)
    (init : α) (h : ∀ acc e, Dom e → f acc (T e) = g acc e) :
    (T x).elems.foldlM f init = x.elems.foldlM g init := by
  rw [R.elems]
  exact foldlM_render f g _ init (fun acc e he => h acc e (R.elems_dom x hx e he))

theorem loadParameterTypeSet (R : Rendering ens ens' T Dom) (root : XmlNode) (hr : Dom root) :
    Spp.loadParameterTypeSet ens' (T root) = Spp.loadParameterTypeSet ens root := by
  unfold Spp.loadParameterTypeSet
  simp only [R.findFirst _ root hr]
  cases h : Spp.findFirst ens [step "TelemetryMetaData", step "ParameterTypeSet"] root with
  | none => rfl
  | some set =>
    simp only [Option.map_some]
    exact R.foldlM_elems _ _ set (R.findFirst_dom _ root set hr h) []
      (fun acc e he => by simp only [typeSetStep, R.loadParameterType e he])

theorem loadParameterSet (R : Rendering ens ens' T Dom) (root : XmlNode) (hr : Dom root) (types : List (String × LPType)) :
    Spp.loadParameterSet ens' (T root) types = Spp.loadParameterSet ens root types := by
  unfold Spp.loadParameterSet
  simp only [R.findFirst _ root hr]
  cases h : Spp.findFirst ens [step "TelemetryMetaData", step "ParameterSet"] root with
  | none => rfl
  | some set =>
    simp only [Option.map_some]
    exact R.foldlM_elems _ _ set (R.findFirst_dom _ root set hr h) []
      (fun acc e he => by simp only [paramSetStep, R.loadParameter types e he])

theorem loadContainerSet (R : Rendering ens ens' T Dom) (root : XmlNode) (hr : Dom root) (params : List (String × LParam)) :
    Spp.loadContainerSet ens' (T root) params = Spp.loadContainerSet ens root params := by
  unfold Spp.loadContainerSet
  simp only [R.findFirst _ root hr]
  cases h : Spp.findFirst ens [step "TelemetryMetaData", step "ContainerSet"] root with
  | none => rfl
  | some set =>
    simp only [Option.map_some]
    rw [R.foldlM_elems (containerSetStep ens' (T root) params) (containerSetStep ens root params) set
      (R.findFirst_dom _ root set hr h) []
      (fun acc e he => by simp only [containerSetStep, R.loadContainer root hr params FUEL acc e he])]

theorem loadDoc (R : Rendering ens ens' T Dom) (root : XmlNode) (hr : Dom root) :
    Spp.loadDoc ens' (T root) = Spp.loadDoc ens root := by
  unfold Spp.loadDoc
  have hdate : (Spp.findFirst ens' [step "Header"] (T root)).bind (·.attr? "date")
      = (Spp.findFirst ens [step "Header"] root).bind (·.attr? "date") := by
    rw [R.findFirst _ root hr]
    cases Spp.findFirst ens [step "Header"] root with
    | none => rfl
    | some e => simp [R.attr?]
  simp only [R.loadParameterTypeSet root hr, R.loadParameterSet root hr, R.loadContainerSet root hr, hdate, R.attr?]

/-- **Loading a rendering of a document gives what loading the document gives** (same recorded namespace context). -/
theorem loadXtce (R : Rendering ens ens' T Dom) (ctx ctx' : NsCtx) (rootName : String) (root : XmlNode) (hr : Dom root)
    (he : ctx.expected = .ok ens) (he' : ctx'.expected = .ok ens')
    (hp : ctx'.nsPrefix = ctx.nsPrefix) (hm : ctx'.nsmap = ctx.nsmap) :
    Spp.loadXtce ctx' rootName (T root) = Spp.loadXtce ctx rootName root := by
  unfold Spp.loadXtce
  simp only [he, he', bind, Except.bind, R.loadDoc root hr, hp, hm]

end Rendering

/-- A loaded definition without the namespace bookkeeping it records (prefix argument and root `nsmap`). -/
def LDef.core (d : LDef) : LDef := { d with nsPrefix := none, nsmap := [] }

/-- When the expected namespace could be determined, the constructor's "prefix is declared" check passes. -/
theorem NsCtx.declared_of_expected (ctx : NsCtx) (ens : Option String) (h : ctx.expected = .ok ens) :
    (ctx.nsPrefix.isSome && !(ctx.nsmap.any (·.1 == ctx.nsPrefix))) = false := by
  unfold NsCtx.expected at h
  cases hp : ctx.nsPrefix with
  | none => simp
  | some p =>
    simp only [hp] at h
    cases hf : ctx.nsmap.find? (·.1 == some p) with
    | none => simp [hf] at h
    | some kv =>
      have hm := List.mem_of_find?_eq_some hf
      have hk := List.find?_some hf
      simp only [Option.isSome_some, Bool.true_and, Bool.not_eq_false', List.any_eq_true]
      exact ⟨kv, hm, hk⟩

namespace Rendering

/-- **Loading a rendering of a document gives what loading the document gives**, up to the recorded namespace
    bookkeeping (which is the convention itself). -/
theorem loadXtce_core (R : Rendering ens ens' T Dom) (ctx ctx' : NsCtx) (rootName : String) (root : XmlNode)
    (hr : Dom root) (he : ctx.expected = .ok ens) (he' : ctx'.expected = .ok ens') :
    (Spp.loadXtce ctx' rootName (T root)).map LDef.core = (Spp.loadXtce ctx rootName root).map LDef.core := by
  unfold Spp.loadXtce
  simp only [he, he', bind, Except.bind, R.loadDoc root hr, ctx.declared_of_expected ens he,
    ctx'.declared_of_expected ens' he']
  cases Spp.loadDoc ens root with
  | error e => rfl
  | ok r =>
    obtain ⟨date, ssn, types, params, lookup⟩ := r
    simp only [Bool.false_eq_true, if_false]
    cases lookup.foldlM (fun acc kv => updateCaches types params lookup FUEL acc kv.2) ([], [], []) with
    | error e => rfl
    | ok r2 => rfl

end Rendering
end Spp
