/-
Decidable equality for the model's definition objects (needed to *compute* whether a definition lies in the regime of
the C09 round-trip theorem).  Everything is derived except the mutually recursive `Anded` / `Ored`.
-/
import Spp.Model.XmlLoad
namespace Spp

mutual
def Anded.decEq : (a b : Anded) → Decidable (a = b)
  | .mk c1 o1, .mk c2 o2 =>
    if hc : c1 = c2 then
      match Ored.decEqList o1 o2 with
      | isTrue h => isTrue (by rw [hc, h])
      | isFalse h => isFalse (by intro e; injection e with _ e2; exact h e2)
    else isFalse (by intro e; injection e with e1 _; exact hc e1)
def Ored.decEqList : (a b : List Ored) → Decidable (a = b)
  | [], [] => isTrue rfl
  | [], _ :: _ => isFalse (by intro e; cases e)
  | _ :: _, [] => isFalse (by intro e; cases e)
  | x :: xs, y :: ys =>
    match Ored.decEq x y, Ored.decEqList xs ys with
    | isTrue h1, isTrue h2 => isTrue (by rw [h1, h2])
    | isFalse h1, _ => isFalse (by intro e; injection e with e1 _; exact h1 e1)
    | _, isFalse h2 => isFalse (by intro e; injection e with _ e2; exact h2 e2)
def Ored.decEq : (a b : Ored) → Decidable (a = b)
  | .mk c1 a1, .mk c2 a2 =>
    if hc : c1 = c2 then
      match Anded.decEqList a1 a2 with
      | isTrue h => isTrue (by rw [hc, h])
      | isFalse h => isFalse (by intro e; injection e with _ e2; exact h e2)
    else isFalse (by intro e; injection e with e1 _; exact hc e1)
def Anded.decEqList : (a b : List Anded) → Decidable (a = b)
  | [], [] => isTrue rfl
  | [], _ :: _ => isFalse (by intro e; cases e)
  | _ :: _, [] => isFalse (by intro e; cases e)
  | x :: xs, y :: ys =>
    match Anded.decEq x y, Anded.decEqList xs ys with
    | isTrue h1, isTrue h2 => isTrue (by rw [h1, h2])
    | isFalse h1, _ => isFalse (by intro e; injection e with e1 _; exact h1 e1)
    | _, isFalse h2 => isFalse (by intro e; injection e with _ e2; exact h2 e2)
end

instance : DecidableEq Anded := Anded.decEq
instance : DecidableEq Ored := Ored.decEq

deriving instance DecidableEq for Spline
deriving instance DecidableEq for Calibrator
deriving instance DecidableEq for BoolExpr
deriving instance DecidableEq for Criterion
deriving instance DecidableEq for DiscreteLookup
deriving instance DecidableEq for ContextCalibrator
deriving instance DecidableEq for Calibs
deriving instance DecidableEq for NumEnc
deriving instance DecidableEq for StrEnc
deriving instance DecidableEq for BinEnc
deriving instance DecidableEq for Encoding
deriving instance DecidableEq for LPType
deriving instance DecidableEq for LContainer

end Spp
