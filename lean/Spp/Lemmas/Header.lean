import Spp.Model.Packets
import Spp.Lemmas.Bits
namespace Spp

/-- The header word as a sum: shifts and ors of in-range fields never overlap. -/
theorem headerWord_sum (a b c d e f g : Nat) (hb : b < 2) (hc : c < 2) (hd : d < 2048) (he : e < 4)
    (hf : f < 16384) (hg : g < 65536) :
    a <<< (48 - 3) ||| b <<< (48 - 4) ||| c <<< (48 - 5) ||| d <<< (48 - 16) ||| e <<< (48 - 18) |||
      f <<< (48 - 32) ||| g
    = a * 2^45 + b * 2^44 + c * 2^43 + d * 2^32 + e * 2^30 + f * 2^16 + g := by
  simp only [Nat.or_assoc]
  have h1 : f <<< (48 - 32) ||| g = f <<< 16 + g := (Nat.shiftLeft_add_eq_or_of_lt (i := 16) (by omega) f).symm
  rw [h1]
  have h2 : e <<< (48 - 18) ||| (f <<< 16 + g) = e <<< 30 + (f <<< 16 + g) :=
    (Nat.shiftLeft_add_eq_or_of_lt (i := 30) (by rw [Nat.shiftLeft_eq]; omega) e).symm
  rw [h2]
  have h3 : d <<< (48 - 16) ||| (e <<< 30 + (f <<< 16 + g)) = d <<< 32 + (e <<< 30 + (f <<< 16 + g)) :=
    (Nat.shiftLeft_add_eq_or_of_lt (i := 32) (by simp only [Nat.shiftLeft_eq]; omega) d).symm
  rw [h3]
  have h4 : c <<< (48 - 5) ||| (d <<< 32 + (e <<< 30 + (f <<< 16 + g)))
      = c <<< 43 + (d <<< 32 + (e <<< 30 + (f <<< 16 + g))) :=
    (Nat.shiftLeft_add_eq_or_of_lt (i := 43) (by simp only [Nat.shiftLeft_eq]; omega) c).symm
  rw [h4]
  have h5 : b <<< (48 - 4) ||| (c <<< 43 + (d <<< 32 + (e <<< 30 + (f <<< 16 + g))))
      = b <<< 44 + (c <<< 43 + (d <<< 32 + (e <<< 30 + (f <<< 16 + g)))) :=
    (Nat.shiftLeft_add_eq_or_of_lt (i := 44) (by simp only [Nat.shiftLeft_eq]; omega) b).symm
  rw [h5]
  have h6 : a <<< (48 - 3) ||| (b <<< 44 + (c <<< 43 + (d <<< 32 + (e <<< 30 + (f <<< 16 + g)))))
      = a <<< 45 + (b <<< 44 + (c <<< 43 + (d <<< 32 + (e <<< 30 + (f <<< 16 + g))))) :=
    (Nat.shiftLeft_add_eq_or_of_lt (i := 45) (by simp only [Nat.shiftLeft_eq]; omega) a).symm
  rw [h6]
  simp only [Nat.shiftLeft_eq]
  omega

/-- Reading a field of the six header bytes of `hdr ++ data` only depends on the header word. -/
theorem extractBits_header (H : Nat) (data : Bytes) (o w : Nat) (hH : H < 2^48) (h : o + w ≤ 48) :
    extractBits (toBytesBE 6 H ++ data) o w = .ok (H / 2^(48 - o - w) % 2^w) := by
  have hl : (toBytesBE 6 H).length = 6 := toBytesBE_length 6 H
  rw [extractBits_arith _ _ _ (by simp [hl]; omega)]
  congr 1
  have hw := window_bytes [] (toBytesBE 6 H) data o w (by rw [hl]; omega)
  rw [hl] at hw
  simp only [List.nil_append] at hw
  have e : 8 * (toBytesBE 6 H ++ data).length - o - w = 8 * data.length + (8 * 6 - o - w) := by
    simp [hl]; omega
  rw [e, hw, fromBytesBE_toBytesBE 6 H (by rw [two_pow_8]; exact hH)]

end Spp
