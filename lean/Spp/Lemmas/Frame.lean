import Spp.Model.Packets
import Spp.Lemmas.Bits
namespace Spp

theorem sumLen_flatten (src : List Bytes) : sumLen src = src.flatten.length := by
  induction src with
  | nil => rfl
  | cons c cs ih => simp [sumLen, ih]

/-- refill keeps the logical stream and, when enough data is pending, obtains `need` bytes -/
theorem refill_spec (need pos : Nat) (buf : Bytes) (src : List Bytes)
    (hne : ∀ c ∈ src, c ≠ []) (hpos : pos ≤ buf.length) :
    let r := refill need pos buf src
    r.1.drop pos ++ r.2.flatten = buf.drop pos ++ src.flatten ∧
    (∀ c ∈ r.2, c ≠ []) ∧ pos ≤ r.1.length ∧
    (need ≤ (buf.drop pos ++ src.flatten).length → need ≤ r.1.length - pos) := by
  induction src generalizing buf with
  | nil =>
    simp only [refill]
    exact ⟨trivial, hne, hpos, fun h => by simpa using h⟩
  | cons c cs ih =>
    have hc : c ≠ [] := hne c (by simp)
    have hcs : ∀ c ∈ cs, c ≠ [] := fun c' h' => hne c' (by simp [h'])
    unfold refill
    split
    · have : c.isEmpty = false := by simpa [List.isEmpty_iff] using hc
      simp only [this, Bool.false_eq_true, if_false]
      have ih' := ih (buf ++ c) hcs (by simp; omega)
      simp only at ih'
      obtain ⟨h1, h2, h3, h4⟩ := ih'
      refine ⟨?_, h2, h3, ?_⟩
      · rw [h1]; simp [List.drop_append_of_le_length hpos]
      · intro hn
        apply h4
        simpa [List.drop_append_of_le_length hpos, Nat.add_assoc] using hn
    · rename_i hlt
      simp only
      exact ⟨trivial, hne, hpos, fun _ => by omega⟩

def wfPkt (p : Bytes) : Prop := p.length = 6 + (be16 (p.take 6) + 1)

theorem take_eq_of_append_eq {α} {xs ys zs : List α} {n : Nat} (h : xs ++ ys = zs) (hn : n ≤ xs.length) :
    xs.take n = zs.take n := by
  rw [← h, List.take_append_of_le_length hn]

theorem stepBody_wf (skip : Nat) (buf0 : Bytes) (pos0 : Nat) (src : List Bytes) (parsed : Nat)
    (total : Option Nat) (pre p rest : Bytes)
    (hne : ∀ c ∈ src, c ≠ []) (hpos : pos0 ≤ buf0.length)
    (hrem : buf0.drop pos0 ++ src.flatten = pre ++ p ++ rest) (hpre : pre.length = skip) (hp : wfPkt p) :
    ∃ st', stepBody skip buf0 pos0 src parsed total = some (p, st') ∧
      st'.buf.drop st'.pos ++ st'.src.flatten = rest ∧ (∀ c ∈ st'.src, c ≠ []) ∧
      st'.pos ≤ st'.buf.length ∧ st'.parsed = parsed + skip + p.length ∧ st'.total = total := by
  have hp7 : 7 ≤ p.length := by unfold wfPkt at hp; omega
  obtain ⟨a1, a2, a3, a4⟩ := refill_spec (skip + 6) pos0 buf0 src hne hpos
  try simp only at a1 a2 a3 a4
  have a4' := a4 (by rw [hrem]; simp; omega)
  unfold stepBody
  simp only
  generalize refill (skip + 6) pos0 buf0 src = r1 at *
  rw [if_neg (by omega)]
  rw [hrem] at a1
  -- header bytes
  have hhdr : ((r1.1.drop (pos0 + skip)).take 6) = p.take 6 := by
    have h1 : (r1.1.drop pos0).take (skip + 6) = (pre ++ p ++ rest).take (skip + 6) :=
      take_eq_of_append_eq a1 (by simp; omega)
    have h2 : ((r1.1.drop pos0).take (skip + 6)).drop skip = ((pre ++ p ++ rest).take (skip + 6)).drop skip := by
      rw [h1]
    rw [List.drop_take, List.drop_take, List.drop_drop] at h2
    simp only [Nat.add_sub_cancel_left] at h2
    rw [h2, List.append_assoc, List.drop_append_of_le_length (by omega), ← hpre, List.drop_length]
    simp
    rw [List.take_append_of_le_length (by omega)]
  rw [hhdr, ← hp]
  -- second refill
  have hpos1 : pos0 + skip ≤ r1.1.length := by omega
  have hrem1 : r1.1.drop (pos0 + skip) ++ r1.2.flatten = p ++ rest := by
    have := congrArg (List.drop skip) a1
    rw [List.drop_append_of_le_length (by simp; omega), List.drop_drop] at this
    rw [this, List.append_assoc, List.drop_append_of_le_length (by omega), ← hpre, List.drop_length]
    simp
  obtain ⟨b1, b2, b3, b4⟩ := refill_spec p.length (pos0 + skip) r1.1 r1.2 a2 hpos1
  try simp only at b1 b2 b3 b4
  have b4' := b4 (by rw [hrem1]; simp)
  generalize refill p.length (pos0 + skip) r1.1 r1.2 = r2 at *
  rw [if_neg (by omega)]
  rw [hrem1] at b1
  refine ⟨{ buf := r2.1, pos := pos0 + skip + p.length, src := r2.2, parsed := parsed + skip + p.length, total := total }, ?_, ?_, b2, ?_, rfl, rfl⟩
  · congr 2
    have := take_eq_of_append_eq (n := p.length) b1 (by simp; omega)
    rw [this]; simp
  · simp only
    have := congrArg (List.drop p.length) b1
    rw [List.drop_append_of_le_length (by simp; omega), List.drop_drop] at this
    rw [this]; simp
  · simp only; omega

theorem trimBuf_drop (cfg : FrameCfg) (buf : Bytes) (pos : Nat) (h : pos ≤ buf.length) :
    (trimBuf cfg buf pos).1.drop (trimBuf cfg buf pos).2 = buf.drop pos ∧
    (trimBuf cfg buf pos).2 ≤ (trimBuf cfg buf pos).1.length := by
  unfold trimBuf; split <;> simp [h]

def encode : List (Bytes × Bytes) → Bytes
  | [] => []
  | (pre, p) :: xs => pre ++ p ++ encode xs

theorem stepBody_empty (skip : Nat) (buf0 : Bytes) (pos0 : Nat) (src : List Bytes) (parsed : Nat)
    (total : Option Nat) (hne : ∀ c ∈ src, c ≠ []) (hpos : pos0 ≤ buf0.length)
    (hrem : buf0.drop pos0 ++ src.flatten = []) :
    stepBody skip buf0 pos0 src parsed total = none := by
  obtain ⟨a1, _, a3, _⟩ := refill_spec (skip + 6) pos0 buf0 src hne hpos
  unfold stepBody
  simp only
  generalize refill (skip + 6) pos0 buf0 src = r1 at *
  rw [hrem] at a1
  have : (r1.1.drop pos0).length = 0 := by
    have := congrArg List.length a1; simp at this; simp; omega
  rw [if_pos (by simp at this; omega)]

theorem frame_exact (cfg : FrameCfg) (items : List (Bytes × Bytes))
    (hitems : ∀ x ∈ items, x.1.length = cfg.skip ∧ wfPkt x.2) (st : FrameSt)
    (hne : ∀ c ∈ st.src, c ≠ []) (hpos : st.pos ≤ st.buf.length)
    (hrem : st.buf.drop st.pos ++ st.src.flatten = encode items)
    (htot : ∀ T, st.total = some T → st.parsed + (encode items).length = T) :
    frame cfg st = items.map (·.2) := by
  induction items generalizing st with
  | nil =>
    have hs : frameStep cfg st = none := by
      unfold frameStep; split
      · rfl
      · obtain ⟨t1, t2⟩ := trimBuf_drop cfg st.buf st.pos hpos
        exact stepBody_empty _ _ _ _ _ _ hne t2 (by rw [t1]; exact hrem)
    rw [frame]; split
    · rfl
    · rename_i h; rw [hs] at h; contradiction
  | cons x xs ih =>
    obtain ⟨pre, p⟩ := x
    have hx := hitems (pre, p) (by simp)
    have hx1 : pre.length = cfg.skip := hx.1
    have hx2 : wfPkt p := hx.2
    have hp7 : 7 ≤ p.length := by unfold wfPkt at hx2; omega
    have hstop : stopNow st = false := by
      unfold stopNow
      split
      · rename_i t ht
        have := htot t ht
        simp [encode] at this
        simp; intro _; omega
      · rfl
    obtain ⟨t1, t2⟩ := trimBuf_drop cfg st.buf st.pos hpos
    obtain ⟨st', s1, s2, s3, s4, s5, s6⟩ := stepBody_wf cfg.skip _ _ st.src st.parsed st.total pre p (encode xs)
      hne t2 (by rw [t1, hrem]; simp [encode]) hx.1 hx.2
    have hs : frameStep cfg st = some (p, st') := by
      unfold frameStep; rw [hstop]; simpa using s1
    rw [frame]; split
    · rename_i h; rw [hs] at h; contradiction
    · rename_i pkt st'' h
      rw [hs] at h
      injection h with h; injection h with h1 h2
      subst h1 h2
      simp only [List.map_cons]
      congr 1
      apply ih (fun y hy => hitems y (by simp [hy])) st' s3 s4 s2
      intro T hT
      rw [s6] at hT
      have := htot T hT
      simp [encode] at this
      omega


end Spp

namespace Spp

/-- What is left of the logical stream in a framer state. -/
def FrameSt.remaining (st : FrameSt) : Bytes := st.buf.drop st.pos ++ st.src.flatten

/-- A remainder that is shorter than one complete packet (with its prefix). -/
def ShortRest (skip : Nat) (rest : Bytes) : Prop :=
  rest.length < skip + 6 ∨ rest.length < skip + (6 + (be16 ((rest.drop skip).take 6) + 1))

theorem refill_short (need pos : Nat) (buf : Bytes) (src : List Bytes)
    (hne : ∀ c ∈ src, c ≠ []) (hpos : pos ≤ buf.length)
    (h : (refill need pos buf src).1.length - pos < need) :
    (buf.drop pos ++ src.flatten).length < need := by
  obtain ⟨_, _, _, a4⟩ := refill_spec need pos buf src hne hpos
  try simp only at a4
  false_or_by_contra
  rename_i hc
  have := a4 (by omega)
  omega

theorem take_take_of_le {α} (l : List α) {a b : Nat} (h : a ≤ b) : (l.take b).take a = l.take a := by
  rw [List.take_take, Nat.min_eq_left h]

/-- Facts shared by both outcomes of one loop iteration. -/
theorem stepBody_cases (skip : Nat) (buf0 : Bytes) (pos0 : Nat) (src : List Bytes) (parsed : Nat)
    (total : Option Nat) (hne : ∀ c ∈ src, c ≠ []) (hpos : pos0 ≤ buf0.length) :
    (stepBody skip buf0 pos0 src parsed total = none ∧ ShortRest skip (buf0.drop pos0 ++ src.flatten)) ∨
    (∃ p st', stepBody skip buf0 pos0 src parsed total = some (p, st') ∧
        p = ((buf0.drop pos0 ++ src.flatten).drop skip).take
              (6 + (be16 (((buf0.drop pos0 ++ src.flatten).drop skip).take 6) + 1)) ∧
        p.length = 6 + (be16 (((buf0.drop pos0 ++ src.flatten).drop skip).take 6) + 1) ∧
        st'.remaining = ((buf0.drop pos0 ++ src.flatten).drop skip).drop
              (6 + (be16 (((buf0.drop pos0 ++ src.flatten).drop skip).take 6) + 1)) ∧
        skip + (6 + (be16 (((buf0.drop pos0 ++ src.flatten).drop skip).take 6) + 1))
          ≤ (buf0.drop pos0 ++ src.flatten).length ∧
        (∀ c ∈ st'.src, c ≠ []) ∧ st'.pos ≤ st'.buf.length ∧
        st'.parsed = parsed + skip + (6 + (be16 (((buf0.drop pos0 ++ src.flatten).drop skip).take 6) + 1)) ∧
        st'.total = total) := by
  generalize hR : buf0.drop pos0 ++ src.flatten = R
  obtain ⟨a1, a2, a3, _⟩ := refill_spec (skip + 6) pos0 buf0 src hne hpos
  have a5 := refill_short (skip + 6) pos0 buf0 src hne hpos
  try simp only at a1 a2 a3
  rw [hR] at a1 a5
  unfold stepBody
  simp only
  generalize refill (skip + 6) pos0 buf0 src = r1 at *
  by_cases hs : r1.1.length - pos0 < skip + 6
  · rw [if_pos hs]
    exact Or.inl ⟨rfl, Or.inl (a5 hs)⟩
  · rw [if_neg hs]
    have hRlen : skip + 6 ≤ R.length := by
      have := congrArg List.length a1; simp at this; omega
    have hrem1 : r1.1.drop (pos0 + skip) ++ r1.2.flatten = R.drop skip := by
      have := congrArg (List.drop skip) a1
      rw [List.drop_append_of_le_length (by simp; omega), List.drop_drop] at this
      exact this
    have hhdr : (r1.1.drop (pos0 + skip)).take 6 = (R.drop skip).take 6 :=
      take_eq_of_append_eq hrem1 (by simp; omega)
    rw [hhdr]
    generalize hn : 6 + (be16 ((R.drop skip).take 6) + 1) = n
    have hpos1 : pos0 + skip ≤ r1.1.length := by omega
    obtain ⟨b1, b2, b3, _⟩ := refill_spec n (pos0 + skip) r1.1 r1.2 a2 hpos1
    have b5 := refill_short n (pos0 + skip) r1.1 r1.2 a2 hpos1
    try simp only at b1 b2 b3
    generalize refill n (pos0 + skip) r1.1 r1.2 = r2 at *
    rw [hrem1] at b1 b5
    by_cases hs2 : r2.1.length - (pos0 + skip) < n
    · rw [if_pos hs2]
      have := b5 hs2
      simp at this
      exact Or.inl ⟨rfl, Or.inr (by rw [hn]; omega)⟩
    · rw [if_neg hs2]
      have hs2' : n ≤ (r2.1.drop (pos0 + skip)).length := by simp; omega
      have hp : (r2.1.drop (pos0 + skip)).take n = (R.drop skip).take n := take_eq_of_append_eq b1 hs2'
      refine Or.inr ⟨_, _, rfl, hp, ?_, ?_, ?_, b2, ?_, rfl, rfl⟩
      · rw [List.length_take]; omega
      · simp only [FrameSt.remaining]
        have := congrArg (List.drop n) b1
        rw [List.drop_append_of_le_length hs2', List.drop_drop] at this
        exact this
      · have := congrArg List.length b1
        simp at this; omega
      · simp only; omega

theorem wfPkt_of_cut (R : Bytes) (skip : Nat) (h : skip + (6 + (be16 ((R.drop skip).take 6) + 1)) ≤ R.length) :
    wfPkt ((R.drop skip).take (6 + (be16 ((R.drop skip).take 6) + 1))) := by
  unfold wfPkt
  rw [take_take_of_le _ (by omega)]
  simp; omega

theorem trimBuf_remaining (cfg : FrameCfg) (st : FrameSt) (h : st.pos ≤ st.buf.length) :
    (trimBuf cfg st.buf st.pos).1.drop (trimBuf cfg st.buf st.pos).2 ++ st.src.flatten = st.remaining := by
  rw [(trimBuf_drop cfg st.buf st.pos h).1]; rfl

/-- The general decomposition theorem behind C10: for every finite source (all delivered chunks non-empty,
    end of source = `[]`), the yielded items are complete packets, consecutive in the input after their
    prefixes, and the unconsumed remainder is shorter than one complete packet. -/
theorem frame_decomp (cfg : FrameCfg) (st : FrameSt)
    (hne : ∀ c ∈ st.src, c ≠ []) (hpos : st.pos ≤ st.buf.length)
    (htot : ∀ T, st.total = some T → st.parsed + st.remaining.length = T) :
    ∃ (pres : List Bytes) (rest : Bytes), pres.length = (frame cfg st).length ∧ (∀ pre ∈ pres, pre.length = cfg.skip) ∧
      encode (pres.zip (frame cfg st)) ++ rest = st.remaining ∧
      (∀ x ∈ frame cfg st, wfPkt x) ∧ ShortRest cfg.skip rest := by
  generalize hm : st.mu = m
  induction m using Nat.strongRecOn generalizing st with
  | _ m ih =>
    have g := stepBody_cases cfg.skip (trimBuf cfg st.buf st.pos).1 (trimBuf cfg st.buf st.pos).2
          st.src st.parsed st.total hne (trimBuf_drop cfg st.buf st.pos hpos).2
    rw [trimBuf_remaining cfg st hpos] at g
    rw [frame]
    split
    · rename_i hs
      refine ⟨[], st.remaining, rfl, by simp, by simp [encode], by simp, ?_⟩
      unfold frameStep at hs
      split at hs
      · rename_i hstop
        unfold stopNow at hstop
        split at hstop
        · rename_i t ht
          have := htot t ht
          simp at hstop
          exact Or.inl (by omega)
        · contradiction
      · rcases g with ⟨_, g⟩ | ⟨p, st', g, _⟩
        · exact g
        · rw [hs] at g; contradiction
    · rename_i p st' hs
      have hmu := frameStep_mu hs
      unfold frameStep at hs
      split at hs
      · contradiction
      · rcases g with ⟨g, _⟩ | ⟨p2, st2, g0, g1, g2, g3, g4, g5, g6, g7, g8⟩
        · rw [hs] at g; contradiction
        · rw [hs] at g0
          injection g0 with g0; injection g0 with e1 e2
          subst e1 e2
          generalize hn : 6 + (be16 ((st.remaining.drop cfg.skip).take 6) + 1) = n at *
          have htot' : ∀ T, st'.total = some T → st'.parsed + st'.remaining.length = T := by
            intro T hT
            rw [g8] at hT
            have := htot T hT
            rw [g3, g7]; simp; omega
          obtain ⟨pres, rest, i1, i2, i3, i4, i5⟩ := ih st'.mu (by omega) st' g5 g6 htot' rfl
          refine ⟨st.remaining.take cfg.skip :: pres, rest, by simp [i1], ?_, ?_, ?_, i5⟩
          · intro pre hpre
            simp at hpre
            rcases hpre with h | h
            · subst h; simp; omega
            · exact i2 pre h
          · simp only [List.zip_cons_cons, encode]
            rw [List.append_assoc, i3, g3, g1, List.append_assoc, List.take_append_drop, List.take_append_drop]
          · intro x hx
            simp at hx
            rcases hx with h | h
            · subst h; rw [g1, ← hn]; exact wfPkt_of_cut _ _ (by omega)
            · exact i4 x h

/-- Quantitative termination: every yielded packet consumes at least `skip + 7` bytes of what the source holds. -/
theorem frame_length_bound (cfg : FrameCfg) (st : FrameSt) :
    (cfg.skip + 7) * (frame cfg st).length ≤ st.mu := by
  generalize hm : st.mu = m
  induction m using Nat.strongRecOn generalizing st with
  | _ m ih =>
    rw [frame]
    split
    · simp
    · rename_i p st' hs
      have hmu := frameStep_mu hs
      have := ih st'.mu (by omega) st' rfl
      simp only [List.length_cons, Nat.mul_add, Nat.mul_one]
      omega

end Spp
