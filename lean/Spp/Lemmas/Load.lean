import Spp.Model.XmlWrite
namespace Spp

/-- Invariant rule for `foldlM` in `Except`. -/
theorem foldlM_inv {α β ε} (f : β → α → Except ε β) (P : β → Prop)
    (step : ∀ b a b', P b → f b a = .ok b' → P b') :
    ∀ (l : List α) (b r : β), P b → l.foldlM f b = .ok r → P r := by
  intro l
  induction l with
  | nil => intro b r hb h; simp [List.foldlM, pure, Except.pure] at h; subst h; exact hb
  | cons a l ih =>
    intro b r hb h
    simp only [List.foldlM_cons, bind, Except.bind] at h
    cases hf : f b a with
    | error e => simp [hf] at h
    | ok b' => simp only [hf] at h; exact ih b' r (step b a b' hb hf) h

/-- Invariant rule restricted to the elements of the list. -/
theorem foldlM_inv_mem {α β ε} (l : List α) (f : β → α → Except ε β) (P : β → Prop)
    (step : ∀ b a b', a ∈ l → P b → f b a = .ok b' → P b') :
    ∀ (b r : β), P b → l.foldlM f b = .ok r → P r := by
  induction l with
  | nil => intro b r hb h; simp [List.foldlM, pure, Except.pure] at h; subst h; exact hb
  | cons a l ih =>
    intro b r hb h
    simp only [List.foldlM_cons, bind, Except.bind] at h
    cases hf : f b a with
    | error e => simp [hf] at h
    | ok b' =>
      simp only [hf] at h
      exact ih (fun b a' b' ha' => step b a' b' (by simp [ha'])) b' r (step b a b' (by simp) hb hf) h

def UniqueKeys {β} (l : List (String × β)) : Prop := (l.map (·.1)).Nodup

theorem uniqueKeys_append_new {β} (l : List (String × β)) (k : String) (v : β) (h : UniqueKeys l)
    (hk : l.any (·.1 == k) = false) : UniqueKeys (l ++ [(k, v)]) := by
  unfold UniqueKeys at *
  simp only [List.map_append, List.map_cons, List.map_nil]
  rw [List.nodup_append]
  refine ⟨h, by simp, ?_⟩
  intro a ha b hb
  simp only [List.mem_singleton] at hb
  simp only [List.mem_map] at ha
  obtain ⟨x, hx, hxa⟩ := ha
  intro heq
  have : l.any (·.1 == k) = true := by
    simp only [List.any_eq_true]
    exact ⟨x, hx, by simp [hxa, heq, hb]⟩
  rw [this] at hk; contradiction

theorem map_keys_replace {β} (l : List (String × β)) (k : String) (v : β) :
    (l.map (fun kv => if kv.1 == k then (k, v) else kv)).map (·.1) = l.map (·.1) := by
  induction l with
  | nil => rfl
  | cons x xs ih =>
    simp only [List.map_cons, ih]
    congr 1
    by_cases h : (x.1 == k) = true
    · simp [h]; exact (by simpa using h : x.1 = k).symm
    · simp [h]

theorem assocSet_unique {β} (l : List (String × β)) (k : String) (v : β) (h : UniqueKeys l) :
    UniqueKeys (assocSet l k v) := by
  unfold assocSet
  split
  · unfold UniqueKeys at *; rw [map_keys_replace]; exact h
  · rename_i hk
    exact uniqueKeys_append_new l k v h (Bool.eq_false_iff.mpr hk)

theorem clookup_set_unique (l : CLookup) (k : String) (c : LContainer) (h : UniqueKeys l) : UniqueKeys (l.set k c) := by
  unfold CLookup.set
  split
  · unfold UniqueKeys at *; rw [map_keys_replace]; exact h
  · rename_i hk
    exact uniqueKeys_append_new l k c h (Bool.eq_false_iff.mpr hk)

/-- A fold fails as soon as one element makes the step fail whatever the accumulator is. -/
theorem foldlM_fails {α β ε} (f : β → α → Except ε β) (l : List α) (a : α) (ha : a ∈ l)
    (hf : ∀ b, ∃ e, f b a = .error e) : ∀ init, ∃ e, l.foldlM f init = .error e := by
  induction l with
  | nil => simp at ha
  | cons x xs ih =>
    intro init
    simp only [List.foldlM_cons, bind, Except.bind]
    simp only [List.mem_cons] at ha
    cases hx : f init x with
    | error e => exact ⟨e, rfl⟩
    | ok b =>
      rcases ha with rfl | ha
      · obtain ⟨e, he⟩ := hf init; rw [he] at hx; cases hx
      · exact ih ha b

end Spp

namespace Spp

theorem find_map_replace_same (l : CLookup) (k : String) (c : LContainer) (h : l.any (·.1 == k) = true) :
    (l.map (fun kv => if kv.1 == k then (k, c) else kv)).find? (·.1 == k) = some (k, c) := by
  induction l with
  | nil => simp at h
  | cons x xs ih =>
    by_cases hx : (x.1 == k) = true
    · simp only [List.map_cons, hx, if_true, List.find?_cons, BEq.rfl]
    · have hx' : (x.1 == k) = false := by simpa using hx
      have hrest : xs.any (·.1 == k) = true := by simpa [hx'] using h
      simp only [List.map_cons, hx', Bool.false_eq_true, if_false, List.find?_cons]
      exact ih hrest

theorem find_map_replace_other (l : CLookup) (k a : String) (c : LContainer) (hne : a ≠ k) :
    (l.map (fun kv => if kv.1 == k then (k, c) else kv)).find? (·.1 == a) = l.find? (·.1 == a) := by
  induction l with
  | nil => rfl
  | cons x xs ih =>
    by_cases hx : (x.1 == k) = true
    · have hxk : x.1 = k := by simpa using hx
      have h1 : (k == a) = false := by simpa using fun e => hne e.symm
      have h2 : (x.1 == a) = false := by rw [hxk]; exact h1
      simp only [List.map_cons, hx, if_true, List.find?_cons, h1, h2]
      exact ih
    · have hx' : (x.1 == k) = false := by simpa using hx
      simp only [List.map_cons, hx', Bool.false_eq_true, if_false, List.find?_cons]
      cases hxa : (x.1 == a)
      · simp only []; exact ih
      · rfl

theorem clookup_get_set_same (l : CLookup) (k : String) (c : LContainer) (h : l.any (·.1 == k) = true) :
    (l.set k c).get? k = some c := by
  unfold CLookup.set CLookup.get?
  rw [if_pos h, find_map_replace_same l k c h]; rfl

theorem clookup_get_set_other (l : CLookup) (k a : String) (c : LContainer) (h : l.any (·.1 == k) = true) (hne : a ≠ k) :
    (l.set k c).get? a = l.get? a := by
  unfold CLookup.set CLookup.get?
  rw [if_pos h, find_map_replace_other l k a c hne]

theorem clookup_keys_set (l : CLookup) (k : String) (c : LContainer) (h : l.any (·.1 == k) = true) :
    (l.set k c).map (·.1) = l.map (·.1) := by
  unfold CLookup.set
  rw [if_pos h, map_keys_replace]

theorem clookup_any_iff_get (l : CLookup) (k : String) : l.any (·.1 == k) = true ↔ (l.get? k).isSome = true := by
  unfold CLookup.get?
  induction l with
  | nil => simp
  | cons x xs ih =>
    by_cases hx : (x.1 == k) = true
    · simp [List.find?_cons, hx]
    · have hx' : (x.1 == k) = false := by simpa using hx
      simp only [List.any_cons, hx', Bool.false_or, List.find?_cons]
      exact ih

end Spp
