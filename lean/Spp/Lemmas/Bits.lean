import Spp.Spec.Bits
namespace Spp

theorem fromBytesBE_foldl (bs : Bytes) (a : Nat) :
    bs.foldl (fun acc b => acc * 256 + b.toNat) a = a * 256^bs.length + fromBytesBE bs := by
  induction bs generalizing a with
  | nil => simp [fromBytesBE]
  | cons b bs ih =>
    simp only [List.foldl_cons, List.length_cons, fromBytesBE]
    rw [ih, ih (0*256 + b.toNat)]
    simp [Nat.pow_succ, Nat.add_mul, Nat.mul_assoc, Nat.add_assoc, Nat.mul_comm 256]

theorem fromBytesBE_append (xs ys : Bytes) :
    fromBytesBE (xs ++ ys) = fromBytesBE xs * 256^ys.length + fromBytesBE ys := by
  simp [fromBytesBE, List.foldl_append]
  exact fromBytesBE_foldl ys _

@[simp] theorem fromBytesBE_nil : fromBytesBE [] = 0 := rfl

theorem fromBytesBE_cons (b : UInt8) (bs : Bytes) :
    fromBytesBE (b :: bs) = b.toNat * 256^bs.length + fromBytesBE bs := by
  have := fromBytesBE_append [b] bs
  simpa [fromBytesBE] using this

theorem fromBytesBE_lt (bs : Bytes) : fromBytesBE bs < 256^bs.length := by
  induction bs with
  | nil => simp [fromBytesBE]
  | cons b bs ih =>
    rw [fromBytesBE_cons]
    simp only [List.length_cons, Nat.pow_succ]
    have hb := b.toNat_lt
    have : b.toNat * 256 ^ bs.length ≤ 255 * 256 ^ bs.length := Nat.mul_le_mul_right _ (by omega)
    omega

theorem two_pow_8 (k : Nat) : (256:Nat)^k = 2^(8*k) := by
  rw [Nat.pow_mul]

theorem fromBytesBE_lt' (bs : Bytes) : fromBytesBE bs < 2^(8*bs.length) := by
  rw [← two_pow_8]; exact fromBytesBE_lt bs

/-! ### bit strings -/

theorem natOfBits_foldl (l : List Bool) (a : Nat) :
    l.foldl (fun acc b => 2 * acc + (if b then 1 else 0)) a = a * 2^l.length + natOfBits l := by
  induction l generalizing a with
  | nil => simp [natOfBits]
  | cons b l ih =>
    simp only [List.foldl_cons, List.length_cons, natOfBits]
    rw [ih, ih (2*0 + _)]
    simp [Nat.pow_succ, Nat.add_mul, Nat.mul_assoc, Nat.add_assoc, Nat.mul_comm 2]

theorem natOfBits_append (xs ys : List Bool) :
    natOfBits (xs ++ ys) = natOfBits xs * 2^ys.length + natOfBits ys := by
  simp [natOfBits, List.foldl_append]
  exact natOfBits_foldl ys _

theorem natOfBits_lt (l : List Bool) : natOfBits l < 2^l.length := by
  induction l with
  | nil => simp [natOfBits]
  | cons b l ih =>
    have := natOfBits_append [b] l
    simp only [List.singleton_append] at this
    rw [this]
    simp only [List.length_cons, Nat.pow_succ]
    have h1 : natOfBits [b] ≤ 1 := by cases b <;> simp [natOfBits]
    have : natOfBits [b] * 2 ^ l.length ≤ 1 * 2 ^ l.length := Nat.mul_le_mul_right _ h1
    omega

theorem byteBits_length (b : UInt8) : (byteBits b).length = 8 := rfl

theorem byte_digits : ∀ v, v < 256 →
    2 * (2 * (2 * (2 * (2 * (2 * (2 * (2 * 0 + v / 128 % 2) + v / 64 % 2) + v / 32 % 2) + v / 16 % 2) + v / 8 % 2)
      + v / 4 % 2) + v / 2 % 2) + v % 2 = v := by decide +kernel

theorem natOfBits_byteBits (b : UInt8) : natOfBits (byteBits b) = b.toNat := by
  have hb := b.toNat_lt
  simp only [byteBits, natOfBits, List.foldl_cons, List.foldl_nil, beq_iff_eq]
  generalize b.toNat = v at *
  have e : ∀ x, (if x % 2 = 1 then 1 else 0) = x % 2 := by intro x; split <;> omega
  simp only [e]
  exact byte_digits v hb

theorem bits_length (B : Bytes) : (bits B).length = 8 * B.length := by
  induction B with
  | nil => rfl
  | cons b bs ih => simp [bits, byteBits_length, ih]; omega

theorem natOfBits_bits (B : Bytes) : natOfBits (bits B) = fromBytesBE B := by
  induction B with
  | nil => rfl
  | cons b bs ih =>
    rw [bits, natOfBits_append, natOfBits_byteBits, ih, fromBytesBE_cons, bits_length, two_pow_8]

theorem bits_append (xs ys : Bytes) : bits (xs ++ ys) = bits xs ++ bits ys := by
  induction xs with
  | nil => rfl
  | cons b bs ih => simp [bits, ih]

/-- The arithmetic form of `fieldVal`. -/
theorem fieldVal_eq_arith (B : Bytes) (p n : Nat) (h : p + n ≤ 8 * B.length) :
    fieldVal B p n = fromBytesBE B / 2^(8 * B.length - p - n) % 2^n := by
  have hpos : ∀ k, 0 < 2^k := fun k => Nat.two_pow_pos k
  unfold fieldVal
  have hlen := bits_length B
  -- split bits B = A ++ F ++ R
  have hsplit : bits B = (bits B).take p ++ (((bits B).drop p).take n ++ ((bits B).drop p).drop n) := by
    rw [List.take_append_drop, List.take_append_drop]
  have hF : (((bits B).drop p).take n).length = n := by simp; omega
  have hR : (((bits B).drop p).drop n).length = 8 * B.length - p - n := by simp; omega
  rw [← natOfBits_bits B]
  conv => rhs; rw [hsplit]
  rw [← List.append_assoc, natOfBits_append, natOfBits_append, hR, hF]
  have hFlt := natOfBits_lt (((bits B).drop p).take n)
  have hRlt := natOfBits_lt (((bits B).drop p).drop n)
  rw [hF] at hFlt; rw [hR] at hRlt
  generalize natOfBits (((bits B).drop p).take n) = F at *
  generalize natOfBits (((bits B).drop p).drop n) = R at *
  generalize natOfBits ((bits B).take p) = A at *
  generalize 8 * B.length - p - n = r at *
  rw [Nat.mul_comm _ (2^r), Nat.mul_add_div (hpos _), Nat.div_eq_of_lt hRlt, Nat.add_zero,
      Nat.add_comm, Nat.add_mul_mod_self_right, Nat.mod_eq_of_lt hFlt]

theorem window_arith (P D Q a b off n : Nat) (_hD : D < 2^(8*a)) (hQ : Q < 2^(8*b))
    (h : off + n ≤ 8*a) :
    ((P * 2^(8*a) + D) * 2^(8*b) + Q) / 2^(8*b + (8*a - off - n)) % 2^n
      = D / 2^(8*a - off - n) % 2^n := by
  have hpos : ∀ k, 0 < 2^k := fun k => Nat.two_pow_pos k
  rw [Nat.pow_add, ← Nat.div_div_eq_div_mul]
  have h1 : ((P * 2^(8*a) + D) * 2^(8*b) + Q) / 2^(8*b) = P * 2^(8*a) + D := by
    rw [Nat.mul_comm _ (2^(8*b)), Nat.mul_add_div (hpos _), Nat.div_eq_of_lt hQ, Nat.add_zero]
  rw [h1]
  have h2 : 2^(8*a) = 2^(off + n) * 2^(8*a - off - n) := by
    rw [← Nat.pow_add]; congr 1; omega
  rw [h2, ← Nat.mul_assoc, Nat.mul_comm _ (2^(8*a-off-n)), Nat.mul_add_div (hpos _)]
  rw [Nat.pow_add, ← Nat.mul_assoc, Nat.add_comm, Nat.add_mul_mod_self_right]

end Spp

namespace Spp

theorem slice_length (data : Bytes) (a b : Nat) (h : b ≤ data.length) : (slice data a b).length = b - a := by
  unfold slice; simp; omega

theorem split3 (data : Bytes) (a b : Nat) :
    data = data.take a ++ (slice data a b ++ data.drop (a + (b - a))) := by
  unfold slice
  rw [← List.drop_drop, List.take_append_drop, List.take_append_drop]

/-- Window lemma on byte lists. -/
theorem window_bytes (P D Q : Bytes) (off n : Nat) (h : off + n ≤ 8 * D.length) :
    fromBytesBE (P ++ (D ++ Q)) / 2^(8 * Q.length + (8 * D.length - off - n)) % 2^n
      = fromBytesBE D / 2^(8 * D.length - off - n) % 2^n := by
  rw [fromBytesBE_append, fromBytesBE_append, List.length_append, Nat.pow_add, ← Nat.mul_assoc,
      ← Nat.add_assoc, ← Nat.add_mul, two_pow_8, two_pow_8]
  exact window_arith _ _ _ _ _ _ _ (fromBytesBE_lt' D) (fromBytesBE_lt' Q) h

/-- `_extract_bits` computes the arithmetic field value whenever the field lies inside the buffer. -/
theorem extractBits_arith (B : Bytes) (p n : Nat) (h : p + n ≤ 8 * B.length) :
    extractBits B p n = .ok (fromBytesBE B / 2^(8 * B.length - p - n) % 2^n) := by
  have hend : p / 8 + (p % 8 + n + 7) / 8 ≤ B.length := by omega
  have hsplit := split3 B (p / 8) (p / 8 + (p % 8 + n + 7) / 8)
  have hdl := slice_length B (p / 8) (p / 8 + (p % 8 + n + 7) / 8) hend
  simp only [Nat.add_sub_cancel_left] at hsplit hdl
  have hval : fromBytesBE B / 2^(8 * B.length - p - n) % 2^n
      = fromBytesBE (slice B (p / 8) (p / 8 + (p % 8 + n + 7) / 8))
          / 2^(8 * ((p % 8 + n + 7) / 8) - p % 8 - n) % 2^n := by
    have hB : 8 * B.length - p - n
        = 8 * (B.drop (p / 8 + (p % 8 + n + 7) / 8)).length + (8 * ((p % 8 + n + 7) / 8) - p % 8 - n) := by
      simp; omega
    conv => lhs; rw [hB]; arg 1; arg 1; rw [hsplit]
    have := window_bytes (B.take (p / 8)) (slice B (p / 8) (p / 8 + (p % 8 + n + 7) / 8))
      (B.drop (p / 8 + (p % 8 + n + 7) / 8)) (p % 8) n (by rw [hdl]; omega)
    rw [hdl] at this
    exact this
  rw [hval]
  unfold extractBits
  simp only [hdl]
  have hDlt := fromBytesBE_lt' (slice B (p / 8) (p / 8 + (p % 8 + n + 7) / 8))
  rw [hdl] at hDlt
  generalize fromBytesBE (slice B (p / 8) (p / 8 + (p % 8 + n + 7) / 8)) = D at *
  split
  · rename_i hal
    have e0 : 8 * ((p % 8 + n + 7) / 8) - p % 8 - n = 0 := by omega
    have e1 : 8 * ((p % 8 + n + 7) / 8) = n := by omega
    rw [e0, Nat.pow_zero, Nat.div_one, Nat.mod_eq_of_lt (by rwa [e1] at hDlt)]
  · rw [if_neg (by omega)]
    rw [Nat.shiftRight_eq_div_pow, Nat.and_two_pow_sub_one_eq_mod, Nat.mul_comm _ 8]

theorem extractBits_spec (B : Bytes) (p n : Nat) (h : p + n ≤ 8 * B.length) :
    extractBits B p n = .ok (fieldVal B p n) := by
  rw [extractBits_arith B p n h, fieldVal_eq_arith B p n h]

end Spp

namespace Spp

theorem toBytesBE_length (k v : Nat) : (toBytesBE k v).length = k := by
  induction k generalizing v with
  | zero => rfl
  | succ k ih => simp [toBytesBE, ih]

theorem UInt8_ofNat_toNat (b : UInt8) : UInt8.ofNat b.toNat = b := by
  simp

theorem toBytesBE_fromBytesBE (d : Bytes) : toBytesBE d.length (fromBytesBE d) = d := by
  generalize hn : d.length = k
  induction k generalizing d with
  | zero => simp [List.length_eq_zero_iff.mp hn, toBytesBE]
  | succ k ih =>
    rcases List.eq_nil_or_concat d with h | ⟨L, b, h⟩
    · subst h; simp at hn
    · subst h
      have hL : L.length = k := by simpa using hn
      have hb := b.toNat_lt
      rw [List.concat_eq_append] at hn ⊢
      rw [toBytesBE, fromBytesBE_append]
      simp only [List.length_singleton, Nat.pow_one, fromBytesBE_cons, List.length_nil, Nat.pow_zero,
        Nat.mul_one, fromBytesBE_nil, Nat.add_zero]
      have e1 : (fromBytesBE L * 256 + b.toNat) / 256 = fromBytesBE L := by omega
      have e2 : (fromBytesBE L * 256 + b.toNat) % 256 = b.toNat := by omega
      rw [e1, e2, ih L hL, UInt8_ofNat_toNat]

theorem fromBytesBE_toBytesBE (k v : Nat) (h : v < 256^k) : fromBytesBE (toBytesBE k v) = v := by
  induction k generalizing v with
  | zero => simp at h; simp [toBytesBE, h]
  | succ k ih =>
    rw [toBytesBE, fromBytesBE_append, ih (v / 256) (by rw [Nat.pow_succ] at h; omega)]
    simp only [List.length_singleton, Nat.pow_one, fromBytesBE_cons, List.length_nil, Nat.pow_zero,
      Nat.mul_one, fromBytesBE_nil, Nat.add_zero]
    have : (UInt8.ofNat (v % 256)).toNat = v % 256 := by
      simp [UInt8.toNat_ofNat']
    omega

theorem fieldVal_lt (B : Bytes) (p n : Nat) : fieldVal B p n < 2^n := by
  unfold fieldVal
  have := natOfBits_lt (((bits B).drop p).take n)
  have hl : (((bits B).drop p).take n).length ≤ n := by simp; omega
  exact Nat.lt_of_lt_of_le this (Nat.pow_le_pow_right (by omega) hl)

/-- A whole-byte field at a byte boundary is the big-endian value of the corresponding slice. -/
theorem fieldVal_aligned (B : Bytes) (p n : Nat) (h : p + n ≤ 8 * B.length) (hp : p % 8 = 0) (hn : n % 8 = 0) :
    fieldVal B p n = fromBytesBE (slice B (p / 8) (p / 8 + (n + 7) / 8)) := by
  have h1 := extractBits_spec B p n h
  unfold extractBits at h1
  simp only [hp, hn, and_self, if_true, Nat.zero_add] at h1
  injection h1 with h1
  exact h1.symm

end Spp

namespace Spp

theorem readAsInt_spec (B : Bytes) (p n : Nat) (h : p + n ≤ 8 * B.length) :
    readAsInt ⟨B, p⟩ (n : Int) = .ok (fieldVal B p n, ⟨B, p + n⟩) := by
  unfold readAsInt
  rw [if_neg (by omega)]
  simp only [Int.toNat_natCast]
  rw [extractBits_spec B p n h]

theorem readAsBytes_spec (B : Bytes) (p n : Nat) (h : p + n ≤ 8 * B.length) :
    readAsBytes ⟨B, p⟩ (n : Int) = .ok (toBytesBE ((n + 7) / 8) (fieldVal B p n), ⟨B, p + n⟩) := by
  unfold readAsBytes
  rw [if_neg (by omega)]
  simp only [Int.toNat_natCast]
  rw [if_neg (by omega)]
  split
  · rename_i hal
    have hend : p / 8 + (n + 7) / 8 ≤ B.length := by omega
    have hsl := slice_length B (p / 8) (p / 8 + (n + 7) / 8) hend
    rw [fieldVal_aligned B p n h hal.1 hal.2]
    have := toBytesBE_fromBytesBE (slice B (p / 8) (p / 8 + (n + 7) / 8))
    rw [hsl, Nat.add_sub_cancel_left] at this
    rw [this]
  · rw [extractBits_spec B p n h]

end Spp
