import Spp.Spec.Inherit
import Spp.Lemmas.Enc
namespace Spp

theorem parseFlat_append (fs gs : List (String × PType)) (p : Pkt) :
    parseFlat (fs ++ gs) p = (match parseFlat fs p with | .ok p' => parseFlat gs p' | .error e => .error e) := by
  induction fs generalizing p with
  | nil => rfl
  | cons f fs ih =>
    obtain ⟨n, t⟩ := f
    simp only [List.cons_append, parseFlat]
    cases t.parseValue p with
    | error e => rfl
    | ok vr => obtain ⟨v, r⟩ := vr; exact ih _

mutual
theorem Entry.parse_flatten (e : Entry) (p : Pkt) : e.parse p = parseFlat e.flatten p := by
  cases e with
  | param n t =>
    simp only [Entry.parse, Entry.flatten, parseFlat, bind, Except.bind, pure, Except.pure]
    cases t.parseValue p with
    | error e => rfl
    | ok vr => obtain ⟨v, r⟩ := vr; rfl
  | cont c =>
    simp only [Entry.parse, Entry.flatten]
    exact Container.parse_flatten c p
theorem Container.parse_flatten (c : Container) (p : Pkt) : c.parseEntries p = parseFlat c.flatten p := by
  cases c with
  | mk n es b cr ab inh =>
    simp only [Container.parseEntries, Container.flatten]
    exact parseList_flatten es p
theorem parseList_flatten (es : List Entry) (p : Pkt) : parseList es p = parseFlat (flattenList es) p := by
  cases es with
  | nil => rfl
  | cons e es =>
    simp only [parseList, flattenList, parseFlat_append, bind, Except.bind]
    rw [Entry.parse_flatten e p]
    cases parseFlat e.flatten p with
    | error err => rfl
    | ok p' => exact parseList_flatten es p'
end

/-- Each field advances the cursor by exactly its (non-negative) width and leaves the bytes alone. -/
theorem PType.parseValue_cursor (t : PType) (p : Pkt) (v : Param) (r' : Raw) (h : t.parseValue p = .ok (v, r')) :
    ∃ n : Int, t.width p = .ok n ∧ 0 ≤ n ∧ r'.pos = p.raw.pos + n.toNat ∧ r'.data = p.raw.data := by
  unfold PType.parseValue at h
  cases he : t.enc.parseValue p with
  | error e => simp [he, bind, Except.bind] at h
  | ok vr =>
    obtain ⟨v0, r0⟩ := vr
    have hr : r' = r0 := by
      simp only [he, bind, Except.bind, pure, Except.pure] at h
      split at h
      · injection h with h; injection h with _ h; exact h.symm
      · split at h
        · injection h with h; injection h with _ h; exact h.symm
        · contradiction
      · injection h with h; injection h with _ h; exact h.symm
    subst hr
    unfold Encoding.parseValue at he
    unfold PType.width
    cases henc : t.enc with
    | num e =>
      simp only [henc] at he ⊢
      obtain ⟨parsed, h1, _⟩ := NumEnc.parseValue_ok he
      have hp := NumEnc.rawValue_pos h1
      have hn : 0 ≤ e.size := by
        unfold NumEnc.rawValue at h1
        split at h1
        · split at h1
          · rename_i hf
            unfold floatRawValue at hf
            cases hr : liftBit (readAsBytes p.raw e.size) with
            | error err => simp [hr, bind, Except.bind] at hf
            | ok dr => obtain ⟨dd, rr⟩ := dr; exact (readAsBytes_pos (liftBit_ok hr)).2.2.1
          · contradiction
        · split at h1
          · rename_i hf
            unfold intRawValue at hf
            cases hr : liftBit (readAsInt p.raw e.size) with
            | error err => simp [hr, bind, Except.bind] at hf
            | ok dr => obtain ⟨dd, rr⟩ := dr; exact (readAsInt_pos (liftBit_ok hr)).2.2
          · contradiction
      exact ⟨e.size, rfl, hn, hp.1, hp.2⟩
    | str e =>
      simp only [henc] at he ⊢
      unfold StrEnc.parseValue at he
      cases hb : e.rawBuffer p with
      | error err => simp [hb] at he
      | ok br =>
        obtain ⟨buf, rr⟩ := br
        simp only [hb] at he
        cases ht : e.extractText buf with
        | error err => simp [ht] at he
        | ok text =>
          simp only [ht] at he
          injection he with he; injection he with _ he; subst he
          unfold StrEnc.rawBuffer at hb
          cases hs : e.calculateSize p.items with
          | error err => simp [hs] at hb
          | ok n =>
            simp only [hs] at hb
            cases hr : liftBit (readAsInt p.raw n) with
            | error err => simp [hr] at hb
            | ok vr =>
              obtain ⟨vv, r2⟩ := vr
              simp only [hr] at hb
              injection hb with hb; injection hb with _ hb; subst hb
              have := readAsInt_pos (liftBit_ok hr)
              exact ⟨n, rfl, this.2.2, this.1, this.2.1⟩
    | bin e =>
      simp only [henc] at he ⊢
      unfold BinEnc.parseValue at he
      cases hs : e.calculateSize p.items with
      | error err => simp [hs] at he
      | ok n =>
        simp only [hs] at he
        cases hr : liftBit (readAsBytes p.raw n) with
        | error err => simp [hr] at he
        | ok br =>
          obtain ⟨bs, rr⟩ := br
          simp only [hr] at he
          injection he with he; injection he with _ he; subst he
          have := readAsBytes_pos (liftBit_ok hr)
          exact ⟨n, rfl, this.2.2.1, this.1, this.2.1⟩

theorem parseFlat_widths (fs : List (String × PType)) (p p' : Pkt) (h : parseFlat fs p = .ok p') :
    ∃ ws, widthsAlong fs p = .ok ws ∧ ws.length = fs.length ∧
      p'.raw.pos = p.raw.pos + ws.sum ∧ p'.raw.data = p.raw.data := by
  induction fs generalizing p with
  | nil => simp [parseFlat] at h; subst h; exact ⟨[], rfl, rfl, by simp, rfl⟩
  | cons f fs ih =>
    obtain ⟨n, t⟩ := f
    simp only [parseFlat] at h
    cases hv : t.parseValue p with
    | error e => simp [hv] at h
    | ok vr =>
      obtain ⟨v, r⟩ := vr
      simp only [hv] at h
      obtain ⟨w, hw, hw0, hpos, hdata⟩ := PType.parseValue_cursor t p v r hv
      obtain ⟨ws, h1, h2, h3, h4⟩ := ih _ h
      refine ⟨w.toNat :: ws, ?_, by simp [h2], ?_, ?_⟩
      · simp only [widthsAlong, hw, hv, h1]
      · simp only [List.sum_cons]; simp only at h3; omega
      · simp only at h4; rw [h4, hdata]

end Spp
