/-
Lifting "comments do not matter" from the element searches to the loader functions built on them.
-/
import Spp.Props.C16
namespace Spp
open Spp.C16

theorem strip_attr? (x : XmlNode) (k : String) : (stripComments x).attr? k = x.attr? k := by
  simp [XmlNode.attr?, strip_attrs]

theorem strip_attr! (x : XmlNode) (k : String) : (stripComments x).attr! k = x.attr! k := by
  simp [XmlNode.attr!, strip_attr?]

theorem strip_boolAttr (x : XmlNode) (k : String) (d : Bool) : boolAttr (stripComments x) k d = boolAttr x k d := by
  simp [boolAttr, strip_attr?]

theorem findAll_isElem (ens : Option String) (s : Step) (p : List Step) (x e : XmlNode)
    (h : e ∈ findAll ens (s :: p) x) : e.isElem = true := by
  induction p generalizing s x e with
  | nil =>
    simp only [findAll, List.mem_flatten, List.mem_map, List.mem_filter] at h
    obtain ⟨l, ⟨y, ⟨_, hy⟩, rfl⟩, he⟩ := h
    simp only [List.mem_singleton] at he
    subst he
    simp only [Step.matches, Bool.and_eq_true] at hy
    exact hy.1.1
  | cons s2 rest ih =>
    simp only [findAll, List.mem_flatten, List.mem_map, List.mem_filter] at h
    obtain ⟨l, ⟨y, _, rfl⟩, he⟩ := h
    exact ih s2 y e he

theorem findFirst_isElem (ens : Option String) (s : Step) (p : List Step) (x e : XmlNode)
    (h : findFirst ens (s :: p) x = some e) : e.isElem = true := by
  unfold findFirst at h
  exact findAll_isElem ens s p x e (List.mem_of_mem_head? h)

/-- A loader that does not care about comments below its node. -/
def StripInv {α} (f : XmlNode → LoadM α) : Prop := ∀ x, f (stripComments x) = f x

theorem mapM_strip {α} (f : XmlNode → LoadM α) (hf : StripInv f) (l : List XmlNode) :
    (l.map stripComments).mapM f = l.mapM f := by
  induction l with
  | nil => rfl
  | cons x xs ih => simp only [List.map_cons, List.mapM_cons, hf x, ih]

theorem loadComparison_strip : StripInv loadComparison := by
  intro x
  simp only [loadComparison, strip_attr!, strip_attr?, strip_boolAttr]

theorem loadParamInstanceRef_strip : StripInv loadParamInstanceRef := by
  intro x
  simp only [loadParamInstanceRef, strip_attr!, strip_boolAttr]

theorem text_of_found_strip (ens : Option String) (s : Step) (p : List Step) (x : XmlNode) :
    (findFirst ens (s :: p) (stripComments x)).bind (·.text) = (findFirst ens (s :: p) x).bind (·.text) := by
  rw [findFirst_strip]
  cases h : findFirst ens (s :: p) x with
  | none => rfl
  | some e => simp [strip_text e (findFirst_isElem ens s p x e h)]

end Spp
