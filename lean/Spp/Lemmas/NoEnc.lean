/-
Helper lemmas for the parameter-type round trip (C09): nothing the writers put *below* a data-encoding element, and
nothing they put next to it inside a parameter type, is itself a `…DataEncoding` element — so the loader's
`find('.//XDataEncoding')` searches find exactly the encoding element that was written.
-/
import Spp.Model.XmlWrite
namespace Spp

/-- A tag that is not one of the four data-encoding element names. -/
def plainTag (t : String) : Bool :=
  t != "StringDataEncoding" && t != "IntegerDataEncoding" && t != "FloatDataEncoding" && t != "BinaryDataEncoding"

mutual
/-- No element of the tree (the root included) is a data-encoding element. -/
def NoEnc : XmlNode → Prop
  | .elem _ t _ _ c => plainTag t = true ∧ NoEncList c
  | .comment _ => True
def NoEncList : List XmlNode → Prop
  | [] => True
  | x :: xs => NoEnc x ∧ NoEncList xs
end

theorem noEncList_append (a b : List XmlNode) : NoEncList (a ++ b) ↔ NoEncList a ∧ NoEncList b := by
  induction a with
  | nil => simp [NoEncList]
  | cons x xs ih => simp [NoEncList, ih, and_assoc]

theorem noEncList_map {α} (f : α → XmlNode) (l : List α) (h : ∀ a ∈ l, NoEnc (f a)) : NoEncList (l.map f) := by
  induction l with
  | nil => simp [NoEncList]
  | cons x xs ih =>
    simp only [List.map_cons, NoEncList]
    exact ⟨h x (by simp), ih (fun a ha => h a (by simp [ha]))⟩

theorem noEncList_of_mapM {α} (w : α → LoadM XmlNode) (l : List α) (xs : List XmlNode)
    (h : ∀ a ∈ l, ∀ x, w a = .ok x → NoEnc x) (hm : l.mapM w = .ok xs) : NoEncList xs := by
  induction l generalizing xs with
  | nil => simp [pure, Except.pure] at hm; subst hm; simp [NoEncList]
  | cons a l ih =>
    simp only [List.mapM_cons, bind, Except.bind, pure, Except.pure] at hm
    cases ha : w a with
    | error e => simp [ha] at hm
    | ok b =>
      simp only [ha] at hm
      cases hl : l.mapM w with
      | error e => simp [hl] at hm
      | ok bs =>
        simp only [hl] at hm
        injection hm with hm; subst hm
        exact ⟨h a (by simp) b ha, ih bs (fun a' ha' => h a' (by simp [ha'])) hl⟩

theorem leaf_noEnc (u : Option String) (tag : String) (attrs : List (String × String)) (text : Option String)
    (ht : plainTag tag = true) : NoEnc (mkEl u tag attrs [] text) := by simp [mkEl, NoEnc, NoEncList, ht]

theorem node_noEnc (u : Option String) (tag : String) (attrs : List (String × String)) (kids : List XmlNode)
    (text : Option String) (ht : plainTag tag = true) (h : NoEncList kids) : NoEnc (mkEl u tag attrs kids text) := by
  simp [mkEl, NoEnc, h, ht]

theorem comparison_noEnc (u : Option String) (c : Comparison) : NoEnc (writeComparison u c) :=
  leaf_noEnc u _ _ _ (by decide)

theorem condition_noEnc (u : Option String) (c : Condition) : NoEnc (writeCondition u c) := by
  unfold writeCondition
  have hl : NoEnc (mkEl u "ParameterInstanceRef" [("parameterRef", c.left), ("useCalibratedValue", pyBool c.leftCal)] []) :=
    leaf_noEnc u _ _ _ (by decide)
  have ho : NoEnc (mkEl u "ComparisonOperator" [] [] (some c.op)) := leaf_noEnc u _ _ _ (by decide)
  refine node_noEnc u _ _ _ _ (by decide) ⟨hl, ho, ?_, trivial⟩
  cases c.rightParam with
  | none => exact leaf_noEnc u _ _ _ (by decide)
  | some rp =>
    simp only
    split
    · exact leaf_noEnc u _ _ _ (by decide)
    · exact leaf_noEnc u _ _ _ (by decide)

mutual
theorem anded_noEnc (u : Option String) (a : Anded) : NoEnc (writeAnded u a) := by
  cases a with
  | mk conds ors =>
    simp only [writeAnded]
    refine node_noEnc u _ _ _ _ (by decide) ?_
    rw [noEncList_append]
    exact ⟨noEncList_map _ _ (fun c _ => condition_noEnc u c), oreds_noEnc u ors⟩
theorem oreds_noEnc (u : Option String) (os : List Ored) : NoEncList (writeOreds u os) := by
  cases os with
  | nil => simp [writeOreds, NoEncList]
  | cons o os => simp only [writeOreds, NoEncList]; exact ⟨ored_noEnc u o, oreds_noEnc u os⟩
theorem ored_noEnc (u : Option String) (o : Ored) : NoEnc (writeOred u o) := by
  cases o with
  | mk conds ands =>
    simp only [writeOred]
    refine node_noEnc u _ _ _ _ (by decide) ?_
    rw [noEncList_append]
    exact ⟨noEncList_map _ _ (fun c _ => condition_noEnc u c), andeds_noEnc u ands⟩
theorem andeds_noEnc (u : Option String) (as : List Anded) : NoEncList (writeAndeds u as) := by
  cases as with
  | nil => simp [writeAndeds, NoEncList]
  | cons a as => simp only [writeAndeds, NoEncList]; exact ⟨anded_noEnc u a, andeds_noEnc u as⟩
end

theorem criterion_noEnc (u : Option String) (c : Criterion) : NoEnc (writeCriterion u c) := by
  cases c with
  | comparison c => exact comparison_noEnc u c
  | boolExpr e =>
    simp only [writeCriterion, writeBoolExpr]
    refine node_noEnc u _ _ _ _ (by decide) ⟨?_, trivial⟩
    cases e with
    | cond c => exact condition_noEnc u c
    | anded a => exact anded_noEnc u a
    | ored o => exact ored_noEnc u o

theorem calibrator_noEnc (u : Option String) (c : Calibrator) (x : XmlNode) (h : writeCalibrator u c = .ok x) :
    NoEnc x := by
  cases c with
  | spline s =>
    simp only [writeCalibrator, bind, Except.bind, pure, Except.pure] at h
    cases hm : s.points.mapM (writeSplinePoint u) with
    | error e => simp [hm] at h
    | ok pts =>
      simp only [hm] at h; injection h with h; subst h
      refine node_noEnc u _ _ _ _ (by decide) (noEncList_of_mapM _ _ _ ?_ hm)
      intro p _ y hy
      simp only [writeSplinePoint, bind, Except.bind, pure, Except.pure] at hy
      cases h1 : showFloat (.fin p.raw) with
      | error e => simp [h1] at hy
      | ok r =>
        cases h2 : showFloat (.fin p.cal) with
        | error e => simp [h1, h2] at hy
        | ok c => simp only [h1, h2] at hy; injection hy with hy; subst hy; exact leaf_noEnc u _ _ _ (by decide)
  | poly ts =>
    simp only [writeCalibrator, bind, Except.bind, pure, Except.pure] at h
    cases hm : ts.mapM (writeTerm u) with
    | error e => simp [hm] at h
    | ok terms =>
      simp only [hm] at h; injection h with h; subst h
      refine node_noEnc u _ _ _ _ (by decide) (noEncList_of_mapM _ _ _ ?_ hm)
      intro t _ y hy
      simp only [writeTerm, bind, Except.bind, pure, Except.pure] at hy
      cases h1 : showCoef t with
      | error e => simp [h1] at hy
      | ok c => simp only [h1] at hy; injection hy with hy; subst hy; exact leaf_noEnc u _ _ _ (by decide)

theorem contextmatch_noEnc (u : Option String) (crit : List Criterion) (x : XmlNode)
    (h : writeContextMatch u crit = .ok x) : NoEnc x := by
  unfold writeContextMatch at h
  split at h
  · cases h
  · injection h with h; subst h
    exact node_noEnc u _ _ _ _ (by decide) ⟨comparison_noEnc u _, trivial⟩
  · injection h with h; subst h
    rename_i e
    exact node_noEnc u _ _ _ _ (by decide) ⟨criterion_noEnc u (.boolExpr e), trivial⟩
  · injection h with h; subst h
    exact node_noEnc u _ _ _ _ (by decide)
      ⟨node_noEnc u _ _ _ _ (by decide) (noEncList_map _ _ (fun c _ => criterion_noEnc u c)), trivial⟩

theorem context_calibrator_noEnc (u : Option String) (c : ContextCalibrator) (x : XmlNode)
    (h : writeContextCalibrator u c = .ok x) : NoEnc x := by
  simp only [writeContextCalibrator, bind, Except.bind, pure, Except.pure] at h
  cases h1 : writeContextMatch u c.criteria with
  | error e => simp [h1] at h
  | ok cm =>
    cases h2 : writeCalibrator u c.calibrator with
    | error e => simp [h1, h2] at h
    | ok cal =>
      simp only [h1, h2] at h; injection h with h; subst h
      exact node_noEnc u _ _ _ _ (by decide) ⟨contextmatch_noEnc u _ cm h1,
        node_noEnc u _ _ _ _ (by decide) ⟨calibrator_noEnc u _ cal h2, trivial⟩, trivial⟩

theorem discrete_lookup_noEnc (u : Option String) (d : DiscreteLookup) (x : XmlNode)
    (h : writeDiscreteLookup u d = .ok x) : NoEnc x := by
  simp only [writeDiscreteLookup, bind, Except.bind, pure, Except.pure] at h
  cases hs : showNum d.value with
  | error e => simp [hs] at h
  | ok v =>
    simp only [hs] at h; injection h with h; subst h
    have hc : NoEncList (d.criteria.map (writeComparison u)) :=
      noEncList_map _ _ (fun c _ => comparison_noEnc u c)
    split
    · exact node_noEnc u _ _ _ _ (by decide) ⟨node_noEnc u _ _ _ _ (by decide) hc, trivial⟩
    · exact node_noEnc u _ _ _ _ (by decide) hc

theorem defaultCal_noEnc (u : Option String) (d : Option Calibrator) (xs : List XmlNode)
    (h : writeDefaultCal u d = .ok xs) : NoEncList xs := by
  cases d with
  | none => simp only [writeDefaultCal] at h; injection h with h; subst h; trivial
  | some c =>
    simp only [writeDefaultCal] at h
    cases hc : writeCalibrator u c with
    | error e => simp [hc] at h
    | ok x =>
      simp only [hc] at h; injection h with h; subst h
      exact ⟨node_noEnc u _ _ _ _ (by decide) ⟨calibrator_noEnc u c x hc, trivial⟩, trivial⟩

theorem contextList_noEnc (u : Option String) (ctxs : List ContextCalibrator) (xs : List XmlNode)
    (h : writeContextList u ctxs = .ok xs) : NoEncList xs := by
  unfold writeContextList at h
  split at h
  · injection h with h; subst h; trivial
  · cases hm : ctxs.mapM (writeContextCalibrator u) with
    | error e => simp [hm] at h
    | ok ys =>
      simp only [hm] at h; injection h with h; subst h
      exact ⟨node_noEnc u _ _ _ _ (by decide)
        (noEncList_of_mapM _ _ _ (fun c _ y hy => context_calibrator_noEnc u c y hy) hm), trivial⟩

theorem pir_noEnc (u : Option String) (r : String) (b : Bool) : NoEnc (writeParamInstanceRef u r b) :=
  leaf_noEnc u _ _ _ (by decide)

theorem linadj_noEnc (u : Option String) (a : LinAdj) : NoEnc (writeLinAdj u a) := leaf_noEnc u _ _ _ (by decide)

theorem lookups_noEnc (u : Option String) (l : List DiscreteLookup) (xs : List XmlNode)
    (h : l.mapM (writeDiscreteLookup u) = .ok xs) : NoEncList xs :=
  noEncList_of_mapM _ _ _ (fun d _ y hy => discrete_lookup_noEnc u d y hy) h

/-- What `writeEncoding` produces: an element in namespace `u` whose tag names the encoding kind and below which there
    is no further data-encoding element. -/
theorem writeEncoding_shape (u : Option String) (e : Encoding) (x : XmlNode) (h : writeEncoding u e = .ok x) :
    ∃ a k, x = .elem u (match e with
        | .num ne => if ne.isFloat then "FloatDataEncoding" else "IntegerDataEncoding"
        | .str _ => "StringDataEncoding"
        | .bin _ => "BinaryDataEncoding") a none k ∧ NoEncList k := by
  cases e with
  | num ne =>
    simp only [writeEncoding, bind, Except.bind, pure, Except.pure] at h
    cases hd : writeDefaultCal u ne.cals.default with
    | error err => simp [hd] at h
    | ok d =>
      cases hc : writeContextList u ne.cals.contexts with
      | error err => simp [hd, hc] at h
      | ok cs =>
        simp only [hd, hc] at h; injection h with h; subst h
        exact ⟨_, _, rfl, (noEncList_append d cs).mpr ⟨defaultCal_noEnc u _ d hd, contextList_noEnc u _ cs hc⟩⟩
  | bin be =>
    simp only [writeEncoding, bind, Except.bind, pure, Except.pure] at h
    split at h
    · injection h with h; subst h
      exact ⟨_, _, rfl, by simp [mkEl, NoEnc, NoEncList, plainTag]⟩
    · have hdv : NoEncList (if strTruthy be.sizeRef = true then
          [mkEl u "DynamicValue" [] (writeParamInstanceRef u (be.sizeRef.getD "") be.useCal ::
            match be.adjuster with | some a => [writeLinAdj u a] | none => [])] else []) := by
        split
        · refine ⟨node_noEnc u _ _ _ _ (by decide) ⟨pir_noEnc u _ _, ?_⟩, trivial⟩
          cases be.adjuster with
          | none => trivial
          | some a => exact ⟨linadj_noEnc u a, trivial⟩
        · trivial
      split at h
      · cases hm : (be.lookup.getD []).mapM (writeDiscreteLookup u) with
        | error e => simp [hm] at h
        | ok ys =>
          simp only [hm] at h; injection h with h; subst h
          exact ⟨_, _, rfl, node_noEnc u _ _ _ _ (by decide) ((noEncList_append _ _).mpr
            ⟨hdv, node_noEnc u _ _ _ _ (by decide) (lookups_noEnc u _ ys hm), trivial⟩), trivial⟩
      · injection h with h; subst h
        exact ⟨_, _, rfl, node_noEnc u _ _ _ _ (by decide) ((noEncList_append _ _).mpr ⟨hdv, trivial⟩), trivial⟩
  | str se =>
    simp only [writeEncoding, bind, Except.bind, pure, Except.pure] at h
    have htail : NoEncList (tailKids u se.leadingSize se.termChar) := by
      unfold tailKids
      rw [noEncList_append]
      constructor
      · split
        · exact ⟨leaf_noEnc u _ _ _ (by decide), trivial⟩
        · trivial
      · cases se.termChar with
        | none => trivial
        | some t =>
          simp only
          split
          · trivial
          · exact ⟨leaf_noEnc u _ _ _ (by decide), trivial⟩
    have hpir : NoEncList ([writeParamInstanceRef u (se.dynRef.getD "") se.useCal] ++ adjKids u se.adjuster) := by
      refine ⟨pir_noEnc u _ _, ?_⟩
      unfold adjKids
      cases se.adjuster with
      | none => trivial
      | some a => exact ⟨linadj_noEnc u a, trivial⟩
    simp only [mkEl] at h hpir
    split at h
    · injection h with h; subst h
      refine ⟨_, _, rfl, ?_⟩
      simp only [NoEnc, NoEncList, and_true]
      refine ⟨by decide, ?_⟩
      rw [noEncList_append]
      exact ⟨by simp [NoEnc, NoEncList, plainTag], htail⟩
    · split at h
      · injection h with h; subst h
        refine ⟨_, _, rfl, ?_⟩
        simp only [NoEnc, NoEncList, and_true]
        refine ⟨by decide, ?_⟩
        rw [noEncList_append]
        exact ⟨⟨⟨by decide, hpir⟩, trivial⟩, htail⟩
      · split at h
        · cases hm : (se.lookup.getD []).mapM (writeDiscreteLookup u) with
          | error e => simp [hm] at h
          | ok ys =>
            simp only [hm] at h; injection h with h; subst h
            refine ⟨_, _, rfl, ?_⟩
            simp only [NoEnc, NoEncList, and_true]
            refine ⟨by decide, ?_⟩
            rw [noEncList_append]
            exact ⟨⟨⟨by decide, lookups_noEnc u _ ys hm⟩, trivial⟩, htail⟩
        · cases h

/-! ### from `NoEnc` to the descendant search -/

mutual
theorem descendants_plain (x : XmlNode) (h : NoEnc x) : ∀ y ∈ descendants x, plainTag y.tag = true := by
  cases x with
  | comment s => intro y hy; simp [descendants] at hy
  | elem n t a tx c =>
    simp only [descendants]
    exact descendantsList_plain c h.2
theorem descendantsList_plain (l : List XmlNode) (h : NoEncList l) : ∀ y ∈ descendantsList l, plainTag y.tag = true := by
  cases l with
  | nil => intro y hy; simp [descendantsList] at hy
  | cons x xs =>
    intro y hy
    simp only [descendantsList, List.mem_append] at hy
    rcases hy with (hy | hy) | hy
    · cases x with
      | comment s => simp [XmlNode.isElem] at hy
      | elem n t a tx c =>
        simp [XmlNode.isElem] at hy
        subst hy
        exact h.1.1
    · exact descendants_plain x h.1 y hy
    · exact descendantsList_plain xs h.2 y hy
end

theorem descendantsList_append (a b : List XmlNode) :
    descendantsList (a ++ b) = descendantsList a ++ descendantsList b := by
  induction a with
  | nil => simp [descendantsList]
  | cons x xs ih => simp [descendantsList, ih, List.append_assoc]

/-- The four data-encoding tags. -/
def isEncTag (t : String) : Bool := !(plainTag t)

theorem find_plain_none (ens : Option String) (l : List XmlNode) (T : String) (hT : plainTag T = false)
    (h : ∀ y ∈ l, plainTag y.tag = true) : l.find? (fun e => e.tag == T && e.ns == ens) = none := by
  rw [List.find?_eq_none]
  intro y hy
  have := h y hy
  intro hc
  simp only [Bool.and_eq_true, beq_iff_eq] at hc
  rw [hc.1] at this
  rw [this] at hT
  cases hT

/-- Searching a document-order list `A ++ [e] ++ B` whose only data-encoding element is `e`. -/
theorem find_enc_split (ens : Option String) (A B : List XmlNode) (e : XmlNode) (T : String) (hT : plainTag T = false)
    (hA : ∀ y ∈ A, plainTag y.tag = true) (hB : ∀ y ∈ B, plainTag y.tag = true) :
    (A ++ e :: B).find? (fun y => y.tag == T && y.ns == ens) =
      if (e.tag == T && e.ns == ens) = true then some e else none := by
  rw [List.find?_append, find_plain_none ens A T hT hA]
  simp only [Option.none_or, List.find?_cons]
  split
  · rename_i h; simp [h]
  · rename_i h
    simp only [h, Bool.false_eq_true, if_false]
    exact find_plain_none ens B T hT hB

end Spp
