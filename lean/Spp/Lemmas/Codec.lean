/-
ASCII text in the ten codecs: `bytes(text, codec).decode(codec) == text` for every codec with an explicit byte order.
Used to show that the enumeration keys the loader builds for string-encoded types lie in the regime of the C09 round trip.
-/
import Spp.Model.Text
namespace Spp

theorem fromUTF8?_toByteArray (s : String) : String.fromUTF8? s.toByteArray = some s := by
  unfold String.fromUTF8?
  rw [dif_pos s.isValidUTF8]
  rfl

theorem utf8Size_ascii (c : Char) (h : c.toNat < 128) : c.utf8Size = 1 := by
  unfold Char.utf8Size
  have : c.val ≤ 127 := by
    show c.val.toNat ≤ 127
    exact Nat.le_of_lt_succ h
  simp [this]

theorem ascii_utf8Encode (l : List Char) (h : ∀ c ∈ l, c.toNat < 128) :
    l.utf8Encode = ByteArray.mk (l.map (fun c => UInt8.ofNat c.toNat)).toArray := by
  induction l with
  | nil => rfl
  | cons c l ih =>
    rw [List.utf8Encode_cons, List.utf8Encode_singleton, String.utf8EncodeChar_eq_singleton (utf8Size_ascii c (h c (by simp))),
      ih (fun c' hc' => h c' (by simp [hc']))]
    apply ByteArray.ext
    simp [List.toByteArray]
    have h1 : (List.toByteArray.loop [c.toUInt8] ByteArray.empty).data.toList = [c.toUInt8] := by
      rfl
    have h2 : c.toUInt8 = UInt8.ofNat c.toNat := by
      rfl
    rw [h1, h2]; rfl

/-- The byte of an ASCII character, read back as a number, is the character's code. -/
theorem byte_ascii (c : Char) (h : c.toNat < 128) : (UInt8.ofNat c.toNat).toNat = c.toNat := by
  simp [UInt8.toNat_ofNat']
  omega

theorem isScalar_ascii (n : Nat) (h : n < 128) : isScalar n = true := by
  simp [isScalar]; omega

theorem mkText_ascii (l : List Char) (h : ∀ c ∈ l, c.toNat < 128) :
    mkText (l.map (fun c => c.toNat)) = some (String.ofList l) := by
  have hall : (l.map (fun c => c.toNat)).all isScalar = true := by
    simp only [List.all_map, List.all_eq_true]
    intro c hc
    exact isScalar_ascii _ (h c hc)
  have hid : (l.map (fun c => c.toNat)).map Char.ofNat = l := by
    rw [List.map_map]
    conv => rhs; rw [← List.map_id l]
    apply List.map_congr_left
    intro c _
    simp [Char.ofNat_toNat]
  simp [mkText, hall, hid]


/-- The bytes of ASCII text in a single-byte codec. -/
def asciiBytesOf (l : List Char) : Bytes := l.map (fun c => UInt8.ofNat c.toNat)

theorem asciiBytesOf_toNat (l : List Char) (h : ∀ c ∈ l, c.toNat < 128) :
    (asciiBytesOf l).map (·.toNat) = l.map (fun c => c.toNat) := by
  simp only [asciiBytesOf, List.map_map]
  apply List.map_congr_left
  intro c hc
  exact byte_ascii c (h c hc)

theorem asciiBytesOf_small (l : List Char) (h : ∀ c ∈ l, c.toNat < 128) :
    (asciiBytesOf l).all (· < 128) = true := by
  simp only [asciiBytesOf, List.all_map, List.all_eq_true]
  intro c hc
  have := byte_ascii c (h c hc)
  have hlt := h c hc
  simp only [Function.comp, decide_eq_true_eq, UInt8.lt_iff_toNat_lt]
  rw [this]; exact hlt

theorem mapM_some_map {α β} (f : α → Option β) (g : α → β) (l : List α) (h : ∀ a ∈ l, f a = some (g a)) :
    l.mapM f = some (l.map g) := by
  induction l with
  | nil => rfl
  | cons a l ih =>
    simp only [List.mapM_cons, h a (by simp), ih (fun b hb => h b (by simp [hb])), List.map_cons]
    rfl

theorem cp1252_ascii (l : List Char) (h : ∀ c ∈ l, c.toNat < 128) :
    decodeCp1252 (asciiBytesOf l) = some (String.ofList l) := by
  unfold decodeCp1252
  rw [mapM_some_map _ (·.toNat) (asciiBytesOf l)]
  · rw [asciiBytesOf_toNat l h]
    exact mkText_ascii l h
  · intro b hb
    simp only [asciiBytesOf, List.mem_map] at hb
    obtain ⟨c, hc, rfl⟩ := hb
    have hb' := byte_ascii c (h c hc)
    have hlt := h c hc
    have : (decide ((UInt8.ofNat c.toNat).toNat < 0x80) || decide ((UInt8.ofNat c.toNat).toNat ≥ 0xA0)) = true := by
      rw [hb']; simp; omega
    simp only [this, if_true]

theorem units2_ascii_le (l : List Char) (h : ∀ c ∈ l, c.toNat < 128) :
    units2 true ((asciiBytesOf l).flatMap (fun c => [c, 0])) = some (l.map (fun c => c.toNat)) := by
  induction l with
  | nil => rfl
  | cons c l ih =>
    have hb := byte_ascii c (h c (by simp))
    have ih' := ih (fun c' hc' => h c' (by simp [hc']))
    simp only [asciiBytesOf] at ih'
    simp only [asciiBytesOf, List.map_cons, List.flatMap_cons, List.cons_append, List.nil_append, units2, ih', if_true,
      Option.map_some, hb]
    simp

theorem units2_ascii_be (l : List Char) (h : ∀ c ∈ l, c.toNat < 128) :
    units2 false ((asciiBytesOf l).flatMap (fun c => [0, c])) = some (l.map (fun c => c.toNat)) := by
  induction l with
  | nil => rfl
  | cons c l ih =>
    have hb := byte_ascii c (h c (by simp))
    have ih' := ih (fun c' hc' => h c' (by simp [hc']))
    simp only [asciiBytesOf] at ih'
    simp only [asciiBytesOf, List.map_cons, List.flatMap_cons, List.cons_append, List.nil_append, units2, ih',
      Bool.false_eq_true, if_false, Option.map_some, hb]
    simp

theorem units4_ascii_le (l : List Char) (h : ∀ c ∈ l, c.toNat < 128) :
    units4 true ((asciiBytesOf l).flatMap (fun c => [c, 0, 0, 0])) = some (l.map (fun c => c.toNat)) := by
  induction l with
  | nil => rfl
  | cons c l ih =>
    have hb := byte_ascii c (h c (by simp))
    have ih' := ih (fun c' hc' => h c' (by simp [hc']))
    simp only [asciiBytesOf] at ih'
    simp only [asciiBytesOf, List.map_cons, List.flatMap_cons, List.cons_append, List.nil_append, units4, ih', if_true,
      Option.map_some, hb]
    simp

theorem units4_ascii_be (l : List Char) (h : ∀ c ∈ l, c.toNat < 128) :
    units4 false ((asciiBytesOf l).flatMap (fun c => [0, 0, 0, c])) = some (l.map (fun c => c.toNat)) := by
  induction l with
  | nil => rfl
  | cons c l ih =>
    have hb := byte_ascii c (h c (by simp))
    have ih' := ih (fun c' hc' => h c' (by simp [hc']))
    simp only [asciiBytesOf] at ih'
    simp only [asciiBytesOf, List.map_cons, List.flatMap_cons, List.cons_append, List.nil_append, units4, ih',
      Bool.false_eq_true, if_false, Option.map_some, hb]
    simp

theorem utf16Units_ascii (ns : List Nat) (h : ∀ n ∈ ns, n < 128) : utf16Units ns = some ns := by
  induction ns with
  | nil => rfl
  | cons n ns ih =>
    have hn := h n (by simp)
    have h1 : ¬ (0xD800 ≤ n ∧ n < 0xDC00) := by omega
    have h2 : ¬ (0xDC00 ≤ n ∧ n < 0xE000) := by omega
    unfold utf16Units
    rw [if_neg h1, if_neg h2, ih (fun m hm => h m (by simp [hm]))]
    rfl


theorem mkText_ascii_nat (l : List Char) (h : ∀ c ∈ l, c.toNat < 128) :
    ∀ n ∈ l.map (fun c => c.toNat), n < 128 := by
  intro n hn
  obtain ⟨c, hc, rfl⟩ := List.mem_map.mp hn
  exact h c hc

/-- **ASCII text survives encode → decode in every codec with an explicit byte order**: what `bytes(text, codec)`
    produces, `bytes.decode(codec)` reads back as the same text. -/
theorem decode_encode_ascii (codec : String) (s : String) (b : Bytes) (h : encodeAsciiText codec s = some b) :
    decodeText codec b = some s := by
  unfold encodeAsciiText at h
  by_cases hall : s.toList.all (fun c => c.toNat < 128) = true
  · simp only [hall, Bool.not_true, Bool.false_eq_true, if_false] at h
    have hasc : ∀ c ∈ s.toList, c.toNat < 128 := by simpa using hall
    have hs : String.ofList s.toList = s := String.ofList_toList
    split at h
    all_goals first | (cases h; done) | skip
    all_goals (injection h with h; subst h)
    · -- US-ASCII
      have := asciiBytesOf_small s.toList hasc
      simp only [asciiBytesOf] at this
      simp only [decodeText, this, if_true]
      have h2 := asciiBytesOf_toNat s.toList hasc
      simp only [asciiBytesOf] at h2
      rw [h2, mkText_ascii s.toList hasc, hs]
    · -- ISO-8859-1
      have h2 := asciiBytesOf_toNat s.toList hasc
      simp only [asciiBytesOf] at h2
      simp only [decodeText]
      rw [h2, mkText_ascii s.toList hasc, hs]
    · -- Windows-1252
      have := cp1252_ascii s.toList hasc
      simp only [asciiBytesOf] at this
      simp only [decodeText, this, hs]
    · -- UTF-8
      simp only [decodeText]
      rw [← ascii_utf8Encode s.toList hasc, String.utf8Encode_toList, fromUTF8?_toByteArray]
    · -- UTF-16LE
      have := units2_ascii_le s.toList hasc
      simp only [asciiBytesOf] at this
      simp only [decodeText, decodeUtf16, this, bind, Option.bind,
        utf16Units_ascii _ (mkText_ascii_nat s.toList hasc), mkText_ascii s.toList hasc, hs]
    · -- UTF-16BE
      have := units2_ascii_be s.toList hasc
      simp only [asciiBytesOf] at this
      simp only [decodeText, decodeUtf16, this, bind, Option.bind,
        utf16Units_ascii _ (mkText_ascii_nat s.toList hasc), mkText_ascii s.toList hasc, hs]
    · -- UTF-32LE
      have := units4_ascii_le s.toList hasc
      simp only [asciiBytesOf] at this
      simp only [decodeText, decodeUtf32, this, bind, Option.bind, mkText_ascii s.toList hasc, hs]
    · -- UTF-32BE
      have := units4_ascii_be s.toList hasc
      simp only [asciiBytesOf] at this
      simp only [decodeText, decodeUtf32, this, bind, Option.bind, mkText_ascii s.toList hasc, hs]
  · simp [hall] at h


theorem encodeAsciiText_ascii (codec : String) (s : String) (b : Bytes) (h : encodeAsciiText codec s = some b) :
    s.toList.all (fun c => c.toNat < 128) = true := by
  unfold encodeAsciiText at h
  by_cases hall : s.toList.all (fun c => c.toNat < 128) = true
  · exact hall
  · simp [hall] at h

end Spp
