import Spp.Model.Encodings
namespace Spp

/-- Strictly increasing raw coordinates. -/
def StrictSorted : List SplinePoint → Prop
  | [] => True
  | [_] => True
  | a :: b :: rest => a.raw < b.raw ∧ StrictSorted (b :: rest)

theorem StrictSorted.tail {a : SplinePoint} {l : List SplinePoint} (h : StrictSorted (a :: l)) : StrictSorted l := by
  cases l with
  | nil => trivial
  | cons b rest => exact h.2

theorem StrictSorted.head_lt {a : SplinePoint} {l : List SplinePoint} (h : StrictSorted (a :: l)) :
    ∀ p ∈ l, a.raw < p.raw := by
  induction l generalizing a with
  | nil => intro p hp; cases hp
  | cons b rest ih =>
    intro p hp
    simp at hp
    rcases hp with rfl | hp
    · exact h.1
    · have := ih h.2 p hp
      have := h.1
      grind

theorem StrictSorted.append_right {l1 l2 : List SplinePoint} (h : StrictSorted (l1 ++ l2)) : StrictSorted l2 := by
  induction l1 with
  | nil => exact h
  | cons a l ih => exact ih (StrictSorted.tail h)

theorem foldl_min_const (m : Rat) (ps : List SplinePoint) (h : ∀ p ∈ ps, m ≤ p.raw) :
    ps.foldl (fun m q => if q.raw < m then q.raw else m) m = m := by
  induction ps with
  | nil => rfl
  | cons p ps ih =>
    have hp := h p (by simp)
    simp only [List.foldl_cons]
    rw [if_neg (by grind)]
    exact ih (fun q hq => h q (by simp [hq]))

theorem minRaw_sorted (a : SplinePoint) (l : List SplinePoint) (h : StrictSorted (a :: l)) :
    minRaw (a :: l) = some a.raw := by
  simp only [minRaw]
  rw [foldl_min_const]
  intro p hp
  have := StrictSorted.head_lt h p hp
  grind

/-- the last point of a non-empty list -/
def lastPt (a : SplinePoint) : List SplinePoint → SplinePoint
  | [] => a
  | b :: rest => lastPt b rest

theorem foldl_max_sorted (a : SplinePoint) (l : List SplinePoint) (h : StrictSorted (a :: l)) :
    l.foldl (fun m q => if q.raw > m then q.raw else m) a.raw = (lastPt a l).raw := by
  induction l generalizing a with
  | nil => rfl
  | cons b rest ih =>
    simp only [List.foldl_cons, lastPt]
    rw [if_pos h.1]
    exact ih b h.2

theorem maxRaw_sorted (a : SplinePoint) (l : List SplinePoint) (h : StrictSorted (a :: l)) :
    maxRaw (a :: l) = some (lastPt a l).raw := by
  simp only [maxRaw]
  rw [foldl_max_sorted a l h]

theorem lastPt_append (a : SplinePoint) (l : List SplinePoint) (b : SplinePoint) :
    lastPt a (l ++ [b]) = b := by
  induction l generalizing a with
  | nil => rfl
  | cons c rest ih => simp [lastPt, ih]

theorem lastPt_mem_or (a : SplinePoint) (l : List SplinePoint) : lastPt a l = a ∨ lastPt a l ∈ l := by
  induction l generalizing a with
  | nil => exact Or.inl rfl
  | cons b rest ih =>
    simp only [lastPt]
    rcases ih b with h | h
    · right; rw [h]; simp
    · right; simp [h]

theorem firstGreater_append (q : Rat) (pre : List SplinePoint) (b : SplinePoint) (post : List SplinePoint)
    (hpre : ∀ p ∈ pre, ¬ p.raw > q) (hb : b.raw > q) :
    firstGreater q (pre ++ b :: post) = some pre.length := by
  induction pre with
  | nil => simp [firstGreater, hb]
  | cons p ps ih =>
    have hp := hpre p (by simp)
    simp only [List.cons_append, firstGreater, if_neg hp]
    rw [ih (fun p' hp' => hpre p' (by simp [hp']))]
    rfl

theorem firstGreater_none (q : Rat) (l : List SplinePoint) (h : ∀ p ∈ l, ¬ p.raw > q) : firstGreater q l = none := by
  induction l with
  | nil => rfl
  | cons p ps ih =>
    simp only [firstGreater, if_neg (h p (by simp))]
    rw [ih (fun p' hp' => h p' (by simp [hp']))]; rfl

theorem pyIndex_nat {α} (l : List α) (i : Nat) : pyIndex l (i : Int) = l[i]? := by
  unfold pyIndex; simp

theorem sorted_mid_bounds (pre : List SplinePoint) (a b : SplinePoint) (post : List SplinePoint)
    (h : StrictSorted (pre ++ a :: b :: post)) :
    (∀ p ∈ pre, p.raw < a.raw) ∧ a.raw < b.raw := by
  induction pre with
  | nil =>
    refine And.intro ?_ h.1
    intro p hp
    simp at hp
  | cons c rest ih =>
    have ht := StrictSorted.tail h
    obtain ⟨i1, i2⟩ := ih ht
    refine ⟨?_, i2⟩
    intro p hp
    simp at hp
    rcases hp with rfl | hp
    · exact StrictSorted.head_lt h a (by simp)
    · exact i1 p hp

end Spp

namespace Spp

theorem lastPt_ge (a : SplinePoint) (l : List SplinePoint) (h : StrictSorted (a :: l)) :
    ∀ p ∈ a :: l, p.raw ≤ (lastPt a l).raw := by
  induction l generalizing a with
  | nil => intro p hp; simp at hp; subst hp; exact Rat.le_refl
  | cons b rest ih =>
    intro p hp
    simp only [lastPt]
    have hb := ih b h.2
    simp at hp
    rcases hp with rfl | rfl | hp
    · have := hb b (by simp); have := h.1; grind
    · exact hb p (by simp)
    · exact hb p (by simp [hp])

/-- Facts about a strictly sorted point list split around an interval `[a, b]`. -/
theorem sorted_split_facts (pre : List SplinePoint) (a b : SplinePoint) (post : List SplinePoint)
    (h : StrictSorted (pre ++ a :: b :: post)) :
    ∃ lo hi, minRaw (pre ++ a :: b :: post) = some lo ∧ maxRaw (pre ++ a :: b :: post) = some hi ∧
      lo ≤ a.raw ∧ b.raw ≤ hi ∧ a.raw < b.raw ∧ (∀ p ∈ pre, p.raw < a.raw) ∧
      (∀ p ∈ pre ++ a :: b :: post, lo ≤ p.raw ∧ p.raw ≤ hi) := by
  obtain ⟨m1, m2⟩ := sorted_mid_bounds pre a b post h
  have hne : ∃ f l', pre ++ a :: b :: post = f :: l' := by
    cases pre with
    | nil => exact ⟨a, b :: post, rfl⟩
    | cons c r => exact ⟨c, r ++ a :: b :: post, rfl⟩
  obtain ⟨f, l', hfl⟩ := hne
  rw [hfl] at h ⊢
  have hmin := minRaw_sorted f l' h
  have hmax := maxRaw_sorted f l' h
  have hge := lastPt_ge f l' h
  have hfa : f.raw ≤ a.raw := by
    cases pre with
    | nil => simp at hfl; rw [← hfl.1]; exact Rat.le_refl
    | cons c r =>
      simp at hfl
      have := m1 c (by simp)
      rw [hfl.1] at this; grind
  have hb : b ∈ f :: l' := by rw [← hfl]; simp
  have hlo : ∀ p ∈ f :: l', f.raw ≤ p.raw := by
    intro p hp
    simp at hp
    rcases hp with rfl | hp
    · exact Rat.le_refl
    · have := StrictSorted.head_lt h p hp; grind
  exact ⟨f.raw, (lastPt f l').raw, hmin, hmax, hfa, hge b hb, m2, m1, fun p hp => ⟨hlo p hp, hge p hp⟩⟩

end Spp

namespace Spp

theorem strictSorted_cons_iff (a : SplinePoint) (l : List SplinePoint) :
    StrictSorted (a :: l) ↔ (∀ x ∈ l, a.raw < x.raw) ∧ StrictSorted l := by
  constructor
  · intro h; exact ⟨StrictSorted.head_lt h, StrictSorted.tail h⟩
  · intro ⟨h1, h2⟩
    cases l with
    | nil => trivial
    | cons b rest => exact ⟨h1 b (by simp), h2⟩

theorem mem_insertPoint (p x : SplinePoint) (l : List SplinePoint) : x ∈ insertPoint p l ↔ x = p ∨ x ∈ l := by
  induction l with
  | nil => simp [insertPoint]
  | cons q qs ih =>
    unfold insertPoint
    split
    · simp
    · simp [ih]; constructor
      · rintro (h | h | h) <;> simp [h]
      · rintro (h | h | h) <;> simp [h]

theorem insertPoint_sorted (p : SplinePoint) (l : List SplinePoint) (hs : StrictSorted l)
    (hne : ∀ q ∈ l, q.raw ≠ p.raw) : StrictSorted (insertPoint p l) := by
  induction l with
  | nil => trivial
  | cons q qs ih =>
    unfold insertPoint
    split
    · rename_i hlt
      exact ⟨hlt, hs⟩
    · rename_i hlt
      rw [strictSorted_cons_iff] at hs ⊢
      refine ⟨?_, ih hs.2 (fun x hx => hne x (by simp [hx]))⟩
      intro x hx
      rw [mem_insertPoint] at hx
      rcases hx with rfl | hx
      · have := hne q (by simp); grind
      · exact hs.1 x hx

/-- The constructor's `sorted(points, key=raw)`: for points with pairwise distinct raw coordinates the stored list is
    strictly increasing and has exactly the given points. -/
theorem sortPoints_sorted (ps : List SplinePoint) (hd : (ps.map (·.raw)).Nodup) :
    StrictSorted (sortPoints ps) ∧ ∀ x, x ∈ sortPoints ps ↔ x ∈ ps := by
  unfold sortPoints
  have key : ∀ (ps acc : List SplinePoint), StrictSorted acc → ((acc ++ ps).map (·.raw)).Nodup →
      StrictSorted (ps.foldl (fun acc p => insertPoint p acc) acc) ∧
      ∀ x, x ∈ ps.foldl (fun acc p => insertPoint p acc) acc ↔ x ∈ acc ∨ x ∈ ps := by
    intro ps
    induction ps with
    | nil => intro acc hs _; simp [hs]
    | cons p rest ih =>
      intro acc hs hnd
      simp only [List.foldl_cons]
      have hne : ∀ q ∈ acc, q.raw ≠ p.raw := by
        intro q hq heq
        simp only [List.map_append, List.map_cons] at hnd
        rw [List.nodup_append] at hnd
        exact hnd.2.2 q.raw (List.mem_map.mpr ⟨q, hq, rfl⟩) p.raw (by simp) heq
      have hs' := insertPoint_sorted p acc hs hne
      have hnd' : ((insertPoint p acc ++ rest).map (·.raw)).Nodup := by
        have hperm : (insertPoint p acc ++ rest).Perm (acc ++ p :: rest) := by
          have h1 : (insertPoint p acc).Perm (p :: acc) := by
            clear hs hnd hne hs' ih
            induction acc with
            | nil => simp [insertPoint]
            | cons q qs ih2 =>
              unfold insertPoint
              split
              · exact List.Perm.refl _
              · exact (List.Perm.cons q ih2).trans (List.Perm.swap p q qs)
          exact (List.Perm.append_right rest h1).trans (by simpa using List.perm_middle.symm)
        exact (List.Perm.nodup_iff (hperm.map _)).mpr hnd
      obtain ⟨i1, i2⟩ := ih (insertPoint p acc) hs' hnd'
      refine ⟨i1, ?_⟩
      intro x
      rw [i2 x, mem_insertPoint]
      simp only [List.mem_cons]
      constructor
      · rintro ((h | h) | h)
        · exact Or.inr (Or.inl h)
        · exact Or.inl h
        · exact Or.inr (Or.inr h)
      · rintro (h | h | h)
        · exact Or.inl (Or.inr h)
        · exact Or.inl (Or.inl h)
        · exact Or.inr h
  have := key ps [] trivial (by simpa using hd)
  exact ⟨this.1, fun x => by simpa using this.2 x⟩

end Spp

namespace Spp

theorem insertPoint_append (p : SplinePoint) (acc : List SplinePoint) (h : ∀ q ∈ acc, q.raw < p.raw) :
    insertPoint p acc = acc ++ [p] := by
  induction acc with
  | nil => rfl
  | cons q qs ih =>
    unfold insertPoint
    have hq := h q (by simp)
    rw [if_neg (by grind), ih (fun x hx => h x (by simp [hx]))]
    rfl

/-- Sorting an already strictly increasing point list leaves it as it is (so re-loading a written spline keeps its points). -/
theorem sortPoints_of_sorted (l : List SplinePoint) (h : StrictSorted l) : sortPoints l = l := by
  unfold sortPoints
  have key : ∀ (l acc : List SplinePoint), StrictSorted (acc ++ l) →
      l.foldl (fun acc p => insertPoint p acc) acc = acc ++ l := by
    intro l
    induction l with
    | nil => intro acc _; simp
    | cons p rest ih =>
      intro acc hs
      simp only [List.foldl_cons]
      have hlt : ∀ q ∈ acc, q.raw < p.raw := by
        intro q hq
        clear ih
        induction acc with
        | nil => simp at hq
        | cons a as iha =>
          simp at hq
          rcases hq with rfl | hq
          · exact StrictSorted.head_lt hs p (by simp)
          · exact iha (StrictSorted.tail hs) hq
      rw [insertPoint_append p acc hlt, ih (acc ++ [p]) (by simpa using hs)]
      simp
  simpa using key l [] (by simpa using h)

end Spp
