import Spp.Props.C09
import Spp.Lemmas.NoEnc
namespace Spp.C09
open Spp

theorem loadDataEncoding_of_split (u : Option String) (x : XmlNode) (A B : List XmlNode) (enc : Encoding)
    (encEl : XmlNode) (hw : writeEncoding u enc = .ok encEl) (hd : descendants x = A ++ encEl :: B)
    (hA : ∀ y ∈ A, plainTag y.tag = true) (hB : ∀ y ∈ B, plainTag y.tag = true) :
    loadDataEncoding u x = (match enc with
      | .str _ => loadStringEncoding u encEl
      | .num ne => if ne.isFloat then loadFloatEncoding u encEl else loadIntEncoding u encEl
      | .bin _ => loadBinaryEncoding u encEl) := by
  obtain ⟨a, k, hx, _⟩ := writeEncoding_shape u enc encEl hw
  have hs := find_enc_split u A B encEl "StringDataEncoding" (by decide) hA hB
  have hi := find_enc_split u A B encEl "IntegerDataEncoding" (by decide) hA hB
  have hf := find_enc_split u A B encEl "FloatDataEncoding" (by decide) hA hB
  have hb := find_enc_split u A B encEl "BinaryDataEncoding" (by decide) hA hB
  simp only [loadDataEncoding, findDescendant, hd, hs, hi, hf, hb]
  subst hx
  cases enc with
  | str se => simp [XmlNode.tag, XmlNode.ns]
  | bin be => simp [XmlNode.tag, XmlNode.ns]
  | num ne =>
    by_cases hfl : ne.isFloat = true <;> simp [XmlNode.tag, XmlNode.ns, hfl]

/-- The float encodings the constructor accepts. -/
def FloatValid (e : NumEnc) : Prop :=
  (e.encoding = "MILSTD_1750A" ∧ e.size = 32) ∨
  ((e.encoding = "IEEE754" ∨ e.encoding = "IEEE754_1985") ∧ (e.size = 16 ∨ e.size = 32 ∨ e.size = 64))

/-- Encodings in the regime the element-level round trips cover. -/
def EncWF : Encoding → Prop
  | .num e => CalibsWF e.cals ∧ (e.isFloat = true → FloatValid e)
  | .str e => StrWF e
  | .bin e => BinWF e

/-- Whatever kind of encoding a parameter type carries, the loader finds the written element below the type element
    and reads it back unchanged. -/
theorem data_encoding_roundtrip (hI : IntRoundTrip) (hV : FValRoundTrip) (u : Option String) (x : XmlNode)
    (A B : List XmlNode) (enc : Encoding) (hwf : EncWF enc)
    (encEl : XmlNode) (hw : writeEncoding u enc = .ok encEl) (hd : descendants x = A ++ encEl :: B)
    (hA : ∀ y ∈ A, plainTag y.tag = true) (hB : ∀ y ∈ B, plainTag y.tag = true) :
    loadDataEncoding u x = .ok enc := by
  rw [loadDataEncoding_of_split u x A B enc encEl hw hd hA hB]
  cases enc with
  | str se => exact string_encoding_roundtrip hI hV u se hwf encEl hw
  | bin be => exact binary_encoding_roundtrip hI hV u be hwf encEl hw
  | num ne =>
    by_cases hfl : ne.isFloat = true
    · simp only [hfl, if_true]
      exact float_encoding_roundtrip hI hV.toFloat u ne hfl hwf.1 (hwf.2 hfl) encEl hw
    · have hfl' : ne.isFloat = false := by simpa using hfl
      simp only [hfl', Bool.false_eq_true, if_false]
      exact int_encoding_roundtrip hI hV.toFloat u ne hfl' hwf.1 encEl hw

theorem encEl_not_plain (u : Option String) (enc : Encoding) (encEl : XmlNode) (h : writeEncoding u enc = .ok encEl) :
    plainTag encEl.tag = false := by
  obtain ⟨a, k, hx, _⟩ := writeEncoding_shape u enc encEl h
  subst hx
  cases enc with
  | str _ => rfl
  | bin _ => rfl
  | num ne => by_cases hf : ne.isFloat = true <;> simp [XmlNode.tag, hf] <;> decide

theorem not_matches_of_tag (ens : Option String) (T : String) (e : XmlNode) (hT : plainTag T = true)
    (hs : (T == "*") = false) (he : plainTag e.tag = false) : (step T).matches ens e = false := by
  have hne : (e.tag == T) = false := by
    cases hh : e.tag == T
    · rfl
    · rw [beq_iff_eq.mp hh, hT] at he; cases he
  simp [Step.matches, step, hne, hs]

def PLAIN_TAGS : List String :=
  ["StringParameterType", "IntegerParameterType", "FloatParameterType", "BinaryParameterType", "BooleanParameterType"]

/-- Parameter types without enumeration or time reference, as the loader produces them. -/
structure PlainWF (t : LPType) : Prop where
  tag : t.tag ∈ PLAIN_TAGS
  unit : t.unit ≠ some ""
  enc : EncWF t.enc
  strOk : t.tag = "StringParameterType" → ∃ e, t.enc = .str e
  binOk : t.tag = "BinaryParameterType" → ∃ e, t.enc = .bin e
  noEnum : t.enumeration = []
  noEpoch : t.epoch = none
  noOffset : t.offsetFrom = none

theorem unit_cases (unit : Option String) (h : unit ≠ some "") :
    (unit = none ∧ strTruthy unit = false) ∨ (∃ s, unit = some s ∧ strTruthy unit = true) := by
  cases unit with
  | none => left; exact ⟨rfl, rfl⟩
  | some s =>
    right
    refine ⟨s, rfl, ?_⟩
    have : s ≠ "" := fun hs => h (by rw [hs])
    simp only [strTruthy]
    cases hh : s.isEmpty
    · rfl
    · exact absurd (String.isEmpty_iff.mp hh) this

theorem plain_type_roundtrip (hI : IntRoundTrip) (hV : FValRoundTrip) (u : Option String) (t : LPType)
    (hwf : PlainWF t) (x : XmlNode) (hw : writeParameterType u t = .ok x) : loadParameterType u x = .ok t := by
  obtain ⟨tag, name, unit, enc, enumeration, epoch, offsetFrom⟩ := t
  obtain ⟨htag, hunit, henc, hstr, hbin, hnoenum, hnoep, hnooff⟩ := hwf
  simp only at htag hunit henc hstr hbin hnoenum hnoep hnooff
  subst hnoenum hnoep hnooff
  have htime : (tag == "AbsoluteTimeParameterType" || tag == "RelativeTimeParameterType") = false := by
    simp only [PLAIN_TAGS, List.mem_cons, List.mem_nil_iff, or_false] at htag
    rcases htag with rfl | rfl | rfl | rfl | rfl <;> decide
  have henum : (tag == "EnumeratedParameterType") = false := by
    simp only [PLAIN_TAGS, List.mem_cons, List.mem_nil_iff, or_false] at htag
    rcases htag with rfl | rfl | rfl | rfl | rfl <;> decide
  have hknown : PARAMETER_TYPE_TAGS.contains tag = true := by
    simp only [PLAIN_TAGS, List.mem_cons, List.mem_nil_iff, or_false] at htag
    rcases htag with rfl | rfl | rfl | rfl | rfl <;> decide
  simp only [writeParameterType, htime, Bool.false_eq_true, if_false, henum] at hw
  cases he : writeEncoding u enc with
  | error e => simp [he] at hw
  | ok encEl =>
    simp only [he] at hw
    injection hw with hw; subst hw
    obtain ⟨ea, ek, hex, hek⟩ := writeEncoding_shape u enc encEl he
    have hekp := descendantsList_plain ek hek
    -- the class-specific constructor check passes
    have hcls : (match tag, enc with
        | "StringParameterType", .str _ => (pure () : LoadM Unit)
        | "StringParameterType", _ => throw Err.value
        | "BinaryParameterType", .bin _ => pure ()
        | "BinaryParameterType", _ => throw Err.value
        | _, _ => pure ()) = .ok () := by
      simp only [PLAIN_TAGS, List.mem_cons, List.mem_nil_iff, or_false] at htag
      rcases htag with rfl | rfl | rfl | rfl | rfl
      · obtain ⟨e, rfl⟩ := hstr rfl; rfl
      · cases enc <;> rfl
      · cases enc <;> rfl
      · obtain ⟨e, rfl⟩ := hbin rfl; rfl
      · cases enc <;> rfl
    rcases unit_cases unit hunit with ⟨rfl, hut⟩ | ⟨s, rfl, hut⟩
    · have hdesc : descendants (mkEl u tag [("name", name)] ([] ++ [encEl])) = [] ++ encEl :: (descendantsList ek ++ []) := by
        subst hex; simp [mkEl, descendants, descendantsList, XmlNode.isElem]
      have hde := data_encoding_roundtrip hI hV u _ [] (descendantsList ek ++ []) enc henc encEl he hdesc
        (by simp) (by simpa using hekp)
      have hun : loadUnits u (mkEl u tag [("name", name)] ([] ++ [encEl])) = .ok none := by
        have hnm := not_matches_of_tag u "UnitSet" encEl (by decide) (by decide) (encEl_not_plain u enc encEl he)
        simp [loadUnits, findAll, mkEl, XmlNode.kids, hnm]
      simp only [hut, Bool.false_eq_true, if_false]
      simp only [loadParameterType, bind, Except.bind, pure, Except.pure]
      simp [mkEl, XmlNode.tag, htime, henum, XmlNode.attr?, XmlNode.attrs] at hde hun ⊢
      simp only [hun, hde]
      simp only [PLAIN_TAGS, List.mem_cons, List.mem_nil_iff, or_false] at htag
      rcases htag with rfl | rfl | rfl | rfl | rfl
      · obtain ⟨e, rfl⟩ := hstr rfl; simp [PARAMETER_TYPE_TAGS]
      · cases enc <;> simp [PARAMETER_TYPE_TAGS]
      · cases enc <;> simp [PARAMETER_TYPE_TAGS]
      · obtain ⟨e, rfl⟩ := hbin rfl; simp [PARAMETER_TYPE_TAGS]
      · cases enc <;> simp [PARAMETER_TYPE_TAGS]
    · have hnm := not_matches_of_tag u "UnitSet" encEl (by decide) (by decide) (encEl_not_plain u enc encEl he)
      have hdesc : descendants (mkEl u tag [("name", name)]
            ([mkEl u "UnitSet" [] [mkEl u "Unit" [] [] (some s)]] ++ [encEl])) =
          [mkEl u "UnitSet" [] [mkEl u "Unit" [] [] (some s)], mkEl u "Unit" [] [] (some s)] ++
            encEl :: (descendantsList ek ++ []) := by
        subst hex; simp [mkEl, descendants, descendantsList, XmlNode.isElem]
      have hde := data_encoding_roundtrip hI hV u _ _ (descendantsList ek ++ []) enc henc encEl he hdesc
        (by intro y hy; simp at hy; rcases hy with rfl | rfl <;> rfl) (by simpa using hekp)
      have hun : loadUnits u (mkEl u tag [("name", name)]
            ([mkEl u "UnitSet" [] [mkEl u "Unit" [] [] (some s)]] ++ [encEl])) = .ok (some s) := by
        have hnm' : Step.matches u { tag := "UnitSet" } encEl = false := hnm
        simp [loadUnits, findAll, mkEl, XmlNode.kids, step, List.filter_cons, hnm']
        simp [Step.matches, XmlNode.isElem, XmlNode.tag, XmlNode.ns, XmlNode.text]
      simp only [hut, if_true]
      simp only [loadParameterType, bind, Except.bind, pure, Except.pure]
      simp [mkEl, XmlNode.tag, htime, henum, XmlNode.attr?, XmlNode.attrs] at hde hun ⊢
      simp only [hun, hde]
      simp only [PLAIN_TAGS, List.mem_cons, List.mem_nil_iff, or_false] at htag
      rcases htag with rfl | rfl | rfl | rfl | rfl
      · obtain ⟨e, rfl⟩ := hstr rfl; simp [PARAMETER_TYPE_TAGS]
      · cases enc <;> simp [PARAMETER_TYPE_TAGS]
      · cases enc <;> simp [PARAMETER_TYPE_TAGS]
      · obtain ⟨e, rfl⟩ := hbin rfl; simp [PARAMETER_TYPE_TAGS]
      · cases enc <;> simp [PARAMETER_TYPE_TAGS]

/-- Reading back the `<Enumeration>` entries of an integer-encoded enumerated type rebuilds the dictionary, entry by
    entry, provided no two keys are equal (as Python compares them). -/
theorem enum_fold (hI : IntRoundTrip) (u : Option String) (ne : NumEnc) (hf : ne.isFloat = false)
    (l : List (PyVal × String)) (hint : ∀ kv ∈ l, ∃ i, kv.1 = .int i)
    (hpw : l.Pairwise (fun a b => pyEq a.1 b.1 = false))
    (acc : List (PyVal × String)) (hfresh : ∀ kv ∈ l, ∀ a ∈ acc, pyEq a.1 kv.1 = false)
    (ens : List XmlNode) (hm : l.mapM (writeEnumEntry u (.num ne)) = .ok ens) :
    ens.foldlM (enumStep (.num ne)) acc = .ok (acc ++ l) ∧ (∀ e ∈ ens, e.isElem = true ∧ NoEnc e) := by
  induction l generalizing acc ens with
  | nil => simp [pure, Except.pure] at hm; subst hm; simp [pure, Except.pure]
  | cons kv l ih =>
    simp only [List.mapM_cons, bind, Except.bind, pure, Except.pure] at hm
    cases ha : writeEnumEntry u (.num ne) kv with
    | error e => simp [ha] at hm
    | ok b =>
      simp only [ha] at hm
      cases hl : l.mapM (writeEnumEntry u (.num ne)) with
      | error e => simp [hl] at hm
      | ok bs =>
        simp only [hl] at hm
        injection hm with hm; subst hm
        obtain ⟨i, hi⟩ := hint kv (by simp)
        obtain ⟨k, lab⟩ := kv
        simp only at hi; subst hi
        simp only [writeEnumEntry, showNum] at ha
        injection ha with ha; subst ha
        have hri : readInt i.repr = .ok i := hI i
        have hany : acc.any (fun a => pyEq a.1 (.int i)) = false := by
          rw [List.any_eq_false]
          intro a ha'
          simpa using hfresh (.int i, lab) (by simp) a ha'
        have hstep : enumStep (.num ne) acc (mkEl u "Enumeration" [("label", lab), ("value", toString i)] []) =
            .ok (acc ++ [(.int i, lab)]) := by
          simp [enumStep, enumKey, hf, mkEl, XmlNode.attr!, XmlNode.attr?, XmlNode.attrs, hri, dictSet, hany, bind,
            Except.bind, pure, Except.pure]
        have hpw' := List.pairwise_cons.mp hpw
        obtain ⟨h1, h2⟩ := ih (fun kv hkv => hint kv (by simp [hkv])) hpw'.2 (acc ++ [(.int i, lab)])
          (by
            intro kv hkv a ha'
            simp only [List.mem_append, List.mem_singleton] at ha'
            rcases ha' with ha' | rfl
            · exact hfresh kv (by simp [hkv]) a ha'
            · exact hpw'.1 kv hkv) bs hl
        refine ⟨?_, ?_⟩
        · simp only [List.foldlM_cons, bind, Except.bind, hstep, h1, List.append_assoc, List.singleton_append]
        · intro e he
          simp only [List.mem_cons] at he
          rcases he with rfl | he
          · exact ⟨rfl, leaf_noEnc u _ _ _ (by decide)⟩
          · exact h2 e he

/-- Enumerated parameter types on an integer encoding, as the loader produces them. -/
structure EnumWF (t : LPType) : Prop where
  tag : t.tag = "EnumeratedParameterType"
  unit : t.unit ≠ some ""
  enc : ∃ ne, t.enc = .num ne ∧ ne.isFloat = false ∧ CalibsWF ne.cals
  keys : ∀ kv ∈ t.enumeration, ∃ i, kv.1 = .int i
  distinct : t.enumeration.Pairwise (fun a b => pyEq a.1 b.1 = false)
  noEpoch : t.epoch = none
  noOffset : t.offsetFrom = none

theorem enum_type_roundtrip (hI : IntRoundTrip) (hV : FValRoundTrip) (u : Option String) (t : LPType)
    (hwf : EnumWF t) (x : XmlNode) (hw : writeParameterType u t = .ok x) : loadParameterType u x = .ok t := by
  obtain ⟨tag, name, unit, enc, enumeration, epoch, offsetFrom⟩ := t
  obtain ⟨htag, hunit, ⟨ne, henc, hfl, hcal⟩, hkeys, hdist, hnoep, hnooff⟩ := hwf
  simp only at htag hunit henc hkeys hdist hnoep hnooff
  subst htag henc hnoep hnooff
  simp only [writeParameterType] at hw
  simp only [show ("EnumeratedParameterType" == "AbsoluteTimeParameterType" ||
      "EnumeratedParameterType" == "RelativeTimeParameterType") = false by decide, Bool.false_eq_true, if_false] at hw
  cases he : writeEncoding u (.num ne) with
  | error e => simp [he] at hw
  | ok encEl =>
    simp only [he, beq_self_eq_true, if_true] at hw
    cases hm : enumeration.mapM (writeEnumEntry u (.num ne)) with
    | error e => simp [hm] at hw
    | ok ens =>
      simp only [hm] at hw
      injection hw with hw; subst hw
      obtain ⟨ea, ek, hex, hek⟩ := writeEncoding_shape u (.num ne) encEl he
      have hekp := descendantsList_plain ek hek
      obtain ⟨hfold, hens⟩ := enum_fold hI u ne hfl enumeration hkeys hdist [] (by simp) ens hm
      have hensNo : NoEncList ens := by
        clear hfold hm
        induction ens with
        | nil => trivial
        | cons e es ih => exact ⟨(hens e (by simp)).2, ih (fun e' he' => hens e' (by simp [he']))⟩
      have hensp := descendantsList_plain ens hensNo
      have hencWF : EncWF (.num ne) := ⟨hcal, fun h => by rw [hfl] at h; cases h⟩
      have hnp := encEl_not_plain u (.num ne) encEl he
      have hnmU : Step.matches u { tag := "UnitSet" } encEl = false :=
        not_matches_of_tag u "UnitSet" encEl (by decide) (by decide) hnp
      have hnmE : Step.matches u { tag := "EnumerationList" } encEl = false :=
        not_matches_of_tag u "EnumerationList" encEl (by decide) (by decide) hnp
      have helems : (mkEl u "EnumerationList" [] ens).elems = ens := by
        simp only [mkEl, XmlNode.elems, XmlNode.kids]
        rw [List.filter_eq_self]; exact fun e he' => (hens e he').1
      have hBplain : ∀ y ∈ descendantsList ek ++ (mkEl u "EnumerationList" [] ens :: (descendantsList ens ++ [])),
          plainTag y.tag = true := by
        intro y hy
        simp only [List.mem_append, List.mem_cons, List.append_nil] at hy
        rcases hy with hy | rfl | hy
        · exact hekp y hy
        · rfl
        · exact hensp y hy
      rcases unit_cases unit hunit with ⟨rfl, hut⟩ | ⟨s, rfl, hut⟩
      · have hdesc : descendants (mkEl u "EnumeratedParameterType" [("name", name)]
              ([] ++ [encEl, mkEl u "EnumerationList" [] ens])) =
            [] ++ encEl :: (descendantsList ek ++ (mkEl u "EnumerationList" [] ens :: (descendantsList ens ++ []))) := by
          subst hex; simp [mkEl, descendants, descendantsList, XmlNode.isElem]
        have hde := data_encoding_roundtrip hI hV u _ [] _ (.num ne) hencWF encEl he hdesc (by simp) hBplain
        have hun : loadUnits u (mkEl u "EnumeratedParameterType" [("name", name)]
              ([] ++ [encEl, mkEl u "EnumerationList" [] ens])) = .ok none := by
          simp [loadUnits, findAll, mkEl, XmlNode.kids, step, List.filter_cons, hnmU]
          simp [Step.matches, XmlNode.isElem, XmlNode.tag, XmlNode.ns]
        have hel : findFirst u [step "EnumerationList"] (mkEl u "EnumeratedParameterType" [("name", name)]
              ([] ++ [encEl, mkEl u "EnumerationList" [] ens])) = some (mkEl u "EnumerationList" [] ens) := by
          simp [findFirst, findAll, mkEl, XmlNode.kids, step, List.filter_cons, hnmE]
          simp [Step.matches, XmlNode.isElem, XmlNode.tag, XmlNode.ns]
        simp only [hut, Bool.false_eq_true, if_false]
        simp only [loadParameterType, loadEnumeration, hel, helems, hfold, hde, hun, bind, Except.bind, pure, Except.pure]
        simp [mkEl, XmlNode.tag, XmlNode.attr!, XmlNode.attr?, XmlNode.attrs, PARAMETER_TYPE_TAGS]
      · have hdesc : descendants (mkEl u "EnumeratedParameterType" [("name", name)]
              ([mkEl u "UnitSet" [] [mkEl u "Unit" [] [] (some s)]] ++ [encEl, mkEl u "EnumerationList" [] ens])) =
            [mkEl u "UnitSet" [] [mkEl u "Unit" [] [] (some s)], mkEl u "Unit" [] [] (some s)] ++
              encEl :: (descendantsList ek ++ (mkEl u "EnumerationList" [] ens :: (descendantsList ens ++ []))) := by
          subst hex; simp [mkEl, descendants, descendantsList, XmlNode.isElem]
        have hde := data_encoding_roundtrip hI hV u _ _ _ (.num ne) hencWF encEl he hdesc
          (by intro y hy; simp at hy; rcases hy with rfl | rfl <;> rfl) hBplain
        have hun : loadUnits u (mkEl u "EnumeratedParameterType" [("name", name)]
              ([mkEl u "UnitSet" [] [mkEl u "Unit" [] [] (some s)]] ++ [encEl, mkEl u "EnumerationList" [] ens])) =
            .ok (some s) := by
          simp [loadUnits, findAll, mkEl, XmlNode.kids, step, List.filter_cons, hnmU]
          simp [Step.matches, XmlNode.isElem, XmlNode.tag, XmlNode.ns, XmlNode.text]
        have hel : findFirst u [step "EnumerationList"] (mkEl u "EnumeratedParameterType" [("name", name)]
              ([mkEl u "UnitSet" [] [mkEl u "Unit" [] [] (some s)]] ++ [encEl, mkEl u "EnumerationList" [] ens])) =
            some (mkEl u "EnumerationList" [] ens) := by
          simp [findFirst, findAll, mkEl, XmlNode.kids, step, List.filter_cons, hnmE]
          simp [Step.matches, XmlNode.isElem, XmlNode.tag, XmlNode.ns]
        simp only [hut, if_true]
        simp only [loadParameterType, loadEnumeration, hel, helems, hfold, hde, hun, bind, Except.bind, pure, Except.pure]
        simp [mkEl, XmlNode.tag, XmlNode.attr!, XmlNode.attr?, XmlNode.attrs, PARAMETER_TYPE_TAGS]
/-- Parameter types of the two families above. -/
def PTypeWF (t : LPType) : Prop := PlainWF t ∨ EnumWF t

/-- **A parameter type written to XML and loaded back is the same parameter type**: class, name, unit, encoding
    (with calibrators and length specification) and enumeration. -/
theorem ptype_roundtrip (hI : IntRoundTrip) (hV : FValRoundTrip) (u : Option String) (t : LPType)
    (hwf : PTypeWF t) (x : XmlNode) (hw : writeParameterType u t = .ok x) : loadParameterType u x = .ok t := by
  rcases hwf with h | h
  · exact plain_type_roundtrip hI hV u t h x hw
  · exact enum_type_roundtrip hI hV u t h x hw

/-- Parameters as the loader produces them: an absent long description is `none`, never the empty string. -/
def ParamWF (p : LParam) : Prop := p.longDesc ≠ some ""

/-- A parameter (name, type reference, short and long description) survives write → load. -/
theorem parameter_roundtrip (u : Option String) (types : List (String × LPType)) (p : LParam) (hwf : ParamWF p)
    (ht : types.any (·.1 == p.typeName) = true) : loadParameter u types (writeParameter u p) = .ok p := by
  obtain ⟨name, typeName, shortDesc, longDesc⟩ := p
  simp only [ParamWF] at hwf
  simp only at ht
  rcases unit_cases longDesc hwf with ⟨rfl, hlt⟩ | ⟨s, rfl, hlt⟩
  · cases shortDesc <;>
      simp [loadParameter, writeParameter, hlt, mkEl, XmlNode.attr!, XmlNode.attr?, XmlNode.attrs, findFirst, findAll,
        XmlNode.kids, ht, bind, Except.bind, pure, Except.pure]
  · cases shortDesc <;>
      simp [loadParameter, writeParameter, hlt, mkEl, XmlNode.attr!, XmlNode.attr?, XmlNode.attrs, findFirst, findAll,
        XmlNode.kids, ht, Step.matches, step, XmlNode.isElem, XmlNode.tag, XmlNode.ns, XmlNode.text, bind, Except.bind,
        pure, Except.pure]

end Spp.C09

