import Spp.Props.C09
import Spp.Lemmas.NoEnc
import Spp.Lemmas.Codec
namespace Spp.C09
open Spp

theorem loadDataEncoding_of_split (u : Option String) (x : XmlNode) (A B : List XmlNode) (enc : Encoding)
    (encEl : XmlNode) (hw : writeEncoding u enc = .ok encEl) (hd : descendants x = A ++ encEl :: B)
    (hA : ∀ y ∈ A, plainTag y.tag = true) (hB : ∀ y ∈ B, plainTag y.tag = true) :
    loadDataEncoding u x = (match enc with
      | .str _ => loadStringEncoding u encEl
      | .num ne => if ne.isFloat then loadFloatEncoding u encEl else loadIntEncoding u encEl
      | .bin _ => loadBinaryEncoding u encEl) := by
  obtain ⟨a, k, hx, _⟩ := writeEncoding_shape u enc encEl hw
  have hs := find_enc_split u A B encEl "StringDataEncoding" (by decide) hA hB
  have hi := find_enc_split u A B encEl "IntegerDataEncoding" (by decide) hA hB
  have hf := find_enc_split u A B encEl "FloatDataEncoding" (by decide) hA hB
  have hb := find_enc_split u A B encEl "BinaryDataEncoding" (by decide) hA hB
  simp only [loadDataEncoding, findDescendant, hd, hs, hi, hf, hb]
  subst hx
  cases enc with
  | str se => simp [XmlNode.tag, XmlNode.ns]
  | bin be => simp [XmlNode.tag, XmlNode.ns]
  | num ne =>
    by_cases hfl : ne.isFloat = true <;> simp [XmlNode.tag, XmlNode.ns, hfl]

/-- The float encodings the constructor accepts. -/
def FloatValid (e : NumEnc) : Prop :=
  (e.encoding = "MILSTD_1750A" ∧ e.size = 32) ∨
  ((e.encoding = "IEEE754" ∨ e.encoding = "IEEE754_1985") ∧ (e.size = 16 ∨ e.size = 32 ∨ e.size = 64))

/-- Encodings in the regime the element-level round trips cover. -/
def EncWF : Encoding → Prop
  | .num e => CalibsWF e.cals ∧ (e.isFloat = true → FloatValid e)
  | .str e => StrWF e
  | .bin e => BinWF e

/-- Whatever kind of encoding a parameter type carries, the loader finds the written element below the type element
    and reads it back unchanged. -/
theorem data_encoding_roundtrip (hI : IntRoundTrip) (hV : FValRoundTrip) (u : Option String) (x : XmlNode)
    (A B : List XmlNode) (enc : Encoding) (hwf : EncWF enc)
    (encEl : XmlNode) (hw : writeEncoding u enc = .ok encEl) (hd : descendants x = A ++ encEl :: B)
    (hA : ∀ y ∈ A, plainTag y.tag = true) (hB : ∀ y ∈ B, plainTag y.tag = true) :
    loadDataEncoding u x = .ok enc := by
  rw [loadDataEncoding_of_split u x A B enc encEl hw hd hA hB]
  cases enc with
  | str se => exact string_encoding_roundtrip hI hV u se hwf encEl hw
  | bin be => exact binary_encoding_roundtrip hI hV u be hwf encEl hw
  | num ne =>
    by_cases hfl : ne.isFloat = true
    · simp only [hfl, if_true]
      exact float_encoding_roundtrip hI hV.toFloat u ne hfl hwf.1 (hwf.2 hfl) encEl hw
    · have hfl' : ne.isFloat = false := by simpa using hfl
      simp only [hfl', Bool.false_eq_true, if_false]
      exact int_encoding_roundtrip hI hV.toFloat u ne hfl' hwf.1 encEl hw

theorem encEl_not_plain (u : Option String) (enc : Encoding) (encEl : XmlNode) (h : writeEncoding u enc = .ok encEl) :
    plainTag encEl.tag = false := by
  obtain ⟨a, k, hx, _⟩ := writeEncoding_shape u enc encEl h
  subst hx
  cases enc with
  | str _ => rfl
  | bin _ => rfl
  | num ne => by_cases hf : ne.isFloat = true <;> simp [XmlNode.tag, hf] <;> decide

theorem not_matches_of_tag (ens : Option String) (T : String) (e : XmlNode) (hT : plainTag T = true)
    (hs : (T == "*") = false) (he : plainTag e.tag = false) : (step T).matches ens e = false := by
  have hne : (e.tag == T) = false := by
    cases hh : e.tag == T
    · rfl
    · rw [beq_iff_eq.mp hh, hT] at he; cases he
  simp [Step.matches, step, hne, hs]

def PLAIN_TAGS : List String :=
  ["StringParameterType", "IntegerParameterType", "FloatParameterType", "BinaryParameterType", "BooleanParameterType"]

/-- Parameter types without enumeration or time reference, as the loader produces them. -/
structure PlainWF (t : LPType) : Prop where
  tag : t.tag ∈ PLAIN_TAGS
  unit : t.unit ≠ some ""
  enc : EncWF t.enc
  strOk : t.tag = "StringParameterType" → ∃ e, t.enc = .str e
  binOk : t.tag = "BinaryParameterType" → ∃ e, t.enc = .bin e
  noEnum : t.enumeration = []
  noEpoch : t.epoch = none
  noOffset : t.offsetFrom = none

theorem unit_cases (unit : Option String) (h : unit ≠ some "") :
    (unit = none ∧ strTruthy unit = false) ∨ (∃ s, unit = some s ∧ strTruthy unit = true) := by
  cases unit with
  | none => left; exact ⟨rfl, rfl⟩
  | some s =>
    right
    refine ⟨s, rfl, ?_⟩
    have : s ≠ "" := fun hs => h (by rw [hs])
    simp only [strTruthy]
    cases hh : s.isEmpty
    · rfl
    · exact absurd (String.isEmpty_iff.mp hh) this

theorem plain_type_roundtrip (hI : IntRoundTrip) (hV : FValRoundTrip) (u : Option String) (t : LPType)
    (hwf : PlainWF t) (x : XmlNode) (hw : writeParameterType u t = .ok x) : loadParameterType u x = .ok t := by
  obtain ⟨tag, name, unit, enc, enumeration, epoch, offsetFrom⟩ := t
  obtain ⟨htag, hunit, henc, hstr, hbin, hnoenum, hnoep, hnooff⟩ := hwf
  simp only at htag hunit henc hstr hbin hnoenum hnoep hnooff
  subst hnoenum hnoep hnooff
  have htime : (tag == "AbsoluteTimeParameterType" || tag == "RelativeTimeParameterType") = false := by
    simp only [PLAIN_TAGS, List.mem_cons, List.mem_nil_iff, or_false] at htag
    rcases htag with rfl | rfl | rfl | rfl | rfl <;> decide
  have henum : (tag == "EnumeratedParameterType") = false := by
    simp only [PLAIN_TAGS, List.mem_cons, List.mem_nil_iff, or_false] at htag
    rcases htag with rfl | rfl | rfl | rfl | rfl <;> decide
  have hknown : PARAMETER_TYPE_TAGS.contains tag = true := by
    simp only [PLAIN_TAGS, List.mem_cons, List.mem_nil_iff, or_false] at htag
    rcases htag with rfl | rfl | rfl | rfl | rfl <;> decide
  simp only [writeParameterType, htime, Bool.false_eq_true, if_false, henum] at hw
  cases he : writeEncoding u enc with
  | error e => simp [he] at hw
  | ok encEl =>
    simp only [he] at hw
    injection hw with hw; subst hw
    obtain ⟨ea, ek, hex, hek⟩ := writeEncoding_shape u enc encEl he
    have hekp := descendantsList_plain ek hek
    -- the class-specific constructor check passes
    have hcls : (match tag, enc with
        | "StringParameterType", .str _ => (pure () : LoadM Unit)
        | "StringParameterType", _ => throw Err.value
        | "BinaryParameterType", .bin _ => pure ()
        | "BinaryParameterType", _ => throw Err.value
        | _, _ => pure ()) = .ok () := by
      simp only [PLAIN_TAGS, List.mem_cons, List.mem_nil_iff, or_false] at htag
      rcases htag with rfl | rfl | rfl | rfl | rfl
      · obtain ⟨e, rfl⟩ := hstr rfl; rfl
      · cases enc <;> rfl
      · cases enc <;> rfl
      · obtain ⟨e, rfl⟩ := hbin rfl; rfl
      · cases enc <;> rfl
    rcases unit_cases unit hunit with ⟨rfl, hut⟩ | ⟨s, rfl, hut⟩
    · have hdesc : descendants (mkEl u tag [("name", name)] ([] ++ [encEl])) = [] ++ encEl :: (descendantsList ek ++ []) := by
        subst hex; simp [mkEl, descendants, descendantsList, XmlNode.isElem]
      have hde := data_encoding_roundtrip hI hV u _ [] (descendantsList ek ++ []) enc henc encEl he hdesc
        (by simp) (by simpa using hekp)
      have hun : loadUnits u (mkEl u tag [("name", name)] ([] ++ [encEl])) = .ok none := by
        have hnm := not_matches_of_tag u "UnitSet" encEl (by decide) (by decide) (encEl_not_plain u enc encEl he)
        simp [loadUnits, findAll, mkEl, XmlNode.kids, hnm]
      simp only [hut, Bool.false_eq_true, if_false]
      simp only [loadParameterType, bind, Except.bind, pure, Except.pure]
      simp [mkEl, XmlNode.tag, htime, henum, XmlNode.attr?, XmlNode.attrs] at hde hun ⊢
      simp only [hun, hde]
      simp only [PLAIN_TAGS, List.mem_cons, List.mem_nil_iff, or_false] at htag
      rcases htag with rfl | rfl | rfl | rfl | rfl
      · obtain ⟨e, rfl⟩ := hstr rfl; simp [PARAMETER_TYPE_TAGS]
      · cases enc <;> simp [PARAMETER_TYPE_TAGS]
      · cases enc <;> simp [PARAMETER_TYPE_TAGS]
      · obtain ⟨e, rfl⟩ := hbin rfl; simp [PARAMETER_TYPE_TAGS]
      · cases enc <;> simp [PARAMETER_TYPE_TAGS]
    · have hnm := not_matches_of_tag u "UnitSet" encEl (by decide) (by decide) (encEl_not_plain u enc encEl he)
      have hdesc : descendants (mkEl u tag [("name", name)]
            ([mkEl u "UnitSet" [] [mkEl u "Unit" [] [] (some s)]] ++ [encEl])) =
          [mkEl u "UnitSet" [] [mkEl u "Unit" [] [] (some s)], mkEl u "Unit" [] [] (some s)] ++
            encEl :: (descendantsList ek ++ []) := by
        subst hex; simp [mkEl, descendants, descendantsList, XmlNode.isElem]
      have hde := data_encoding_roundtrip hI hV u _ _ (descendantsList ek ++ []) enc henc encEl he hdesc
        (by intro y hy; simp at hy; rcases hy with rfl | rfl <;> rfl) (by simpa using hekp)
      have hun : loadUnits u (mkEl u tag [("name", name)]
            ([mkEl u "UnitSet" [] [mkEl u "Unit" [] [] (some s)]] ++ [encEl])) = .ok (some s) := by
        have hnm' : Step.matches u { tag := "UnitSet" } encEl = false := hnm
        simp [loadUnits, findAll, mkEl, XmlNode.kids, step, List.filter_cons, hnm']
        simp [Step.matches, XmlNode.isElem, XmlNode.tag, XmlNode.ns, XmlNode.text]
      simp only [hut, if_true]
      simp only [loadParameterType, bind, Except.bind, pure, Except.pure]
      simp [mkEl, XmlNode.tag, htime, henum, XmlNode.attr?, XmlNode.attrs] at hde hun ⊢
      simp only [hun, hde]
      simp only [PLAIN_TAGS, List.mem_cons, List.mem_nil_iff, or_false] at htag
      rcases htag with rfl | rfl | rfl | rfl | rfl
      · obtain ⟨e, rfl⟩ := hstr rfl; simp [PARAMETER_TYPE_TAGS]
      · cases enc <;> simp [PARAMETER_TYPE_TAGS]
      · cases enc <;> simp [PARAMETER_TYPE_TAGS]
      · obtain ⟨e, rfl⟩ := hbin rfl; simp [PARAMETER_TYPE_TAGS]
      · cases enc <;> simp [PARAMETER_TYPE_TAGS]

/-- The dictionary keys of an enumerated type, by encoding: integers on an integer encoding, finite floats on a float
    encoding, and on a string encoding the byte strings that are ASCII text in the codec the field is decoded with (what
    `bytes(value, encoding=codec)` produces). -/
inductive KeyOK : Encoding → PyVal → Prop
  | int (ne : NumEnc) (h : ne.isFloat = false) (i : Int) : KeyOK (.num ne) (.int i)
  | flt (ne : NumEnc) (h : ne.isFloat = true) (q : Rat) : KeyOK (.num ne) (.flt (.fin q))
  | str (e : StrEnc) (b : Bytes) (s : String) (hd : decodeText e.codec b = some s)
      (ha : s.toList.all (fun c => c.toNat < 128) = true) (he : encodeAsciiText e.codec s = some b) :
      KeyOK (.str e) (.bytes b)

/-- The `value` attribute the writer gives an entry is read back as the entry's key. -/
theorem enum_entry_key (hI : IntRoundTrip) (hV : FValRoundTrip) (u : Option String) (enc : Encoding) (k : PyVal)
    (lab : String) (hk : KeyOK enc k) (x : XmlNode) (hw : writeEnumEntry u enc (k, lab) = .ok x) :
    ∃ s, x = mkEl u "Enumeration" [("label", lab), ("value", s)] [] ∧ enumKey enc s = .ok k := by
  cases hk with
  | int ne hf i =>
    simp only [writeEnumEntry, showNum] at hw
    injection hw with hw; subst hw
    have hri : readInt i.repr = .ok i := hI i
    exact ⟨toString i, rfl, by simp [enumKey, hf, hri, bind, Except.bind, pure, Except.pure]⟩
  | flt ne hf q =>
    simp only [writeEnumEntry, showNum] at hw
    cases hs : showFloat (.fin q) with
    | error e => simp [hs] at hw
    | ok s =>
      simp only [hs] at hw
      injection hw with hw; subst hw
      have hr := hV q s hs
      exact ⟨s, rfl, by simp [enumKey, hf, hr, bind, Except.bind, pure, Except.pure]⟩
  | str e b s hd ha he =>
    simp only [writeEnumEntry, hd, ha, if_true] at hw
    injection hw with hw; subst hw
    exact ⟨s, rfl, by simp [enumKey, he, pure, Except.pure]⟩

/-- Reading back the `<Enumeration>` entries of an enumerated type rebuilds the dictionary, entry by entry, provided no
    two keys are equal (as Python compares them). -/
theorem enum_fold (hI : IntRoundTrip) (hV : FValRoundTrip) (u : Option String) (enc : Encoding)
    (l : List (PyVal × String)) (hint : ∀ kv ∈ l, KeyOK enc kv.1)
    (hpw : l.Pairwise (fun a b => pyEq a.1 b.1 = false))
    (acc : List (PyVal × String)) (hfresh : ∀ kv ∈ l, ∀ a ∈ acc, pyEq a.1 kv.1 = false)
    (ens : List XmlNode) (hm : l.mapM (writeEnumEntry u enc) = .ok ens) :
    ens.foldlM (enumStep enc) acc = .ok (acc ++ l) ∧ (∀ e ∈ ens, e.isElem = true ∧ NoEnc e) := by
  induction l generalizing acc ens with
  | nil => simp [pure, Except.pure] at hm; subst hm; simp [pure, Except.pure]
  | cons kv l ih =>
    simp only [List.mapM_cons, bind, Except.bind, pure, Except.pure] at hm
    cases ha : writeEnumEntry u enc kv with
    | error e => simp [ha] at hm
    | ok b =>
      simp only [ha] at hm
      cases hl : l.mapM (writeEnumEntry u enc) with
      | error e => simp [hl] at hm
      | ok bs =>
        simp only [hl] at hm
        injection hm with hm; subst hm
        have hk := hint kv (by simp)
        obtain ⟨k, lab⟩ := kv
        simp only at hk
        obtain ⟨s, hb, hkey⟩ := enum_entry_key hI hV u enc k lab hk b ha
        subst hb
        have hany : acc.any (fun a => pyEq a.1 k) = false := by
          rw [List.any_eq_false]
          intro a ha'
          simpa using hfresh (k, lab) (by simp) a ha'
        have hstep : enumStep enc acc (mkEl u "Enumeration" [("label", lab), ("value", s)] []) =
            .ok (acc ++ [(k, lab)]) := by
          simp [enumStep, hkey, mkEl, XmlNode.attr!, XmlNode.attr?, XmlNode.attrs, dictSet, hany, bind,
            Except.bind, pure, Except.pure]
        have hpw' := List.pairwise_cons.mp hpw
        obtain ⟨h1, h2⟩ := ih (fun kv hkv => hint kv (by simp [hkv])) hpw'.2 (acc ++ [(k, lab)])
          (by
            intro kv hkv a ha'
            simp only [List.mem_append, List.mem_singleton] at ha'
            rcases ha' with ha' | rfl
            · exact hfresh kv (by simp [hkv]) a ha'
            · exact hpw'.1 kv hkv) bs hl
        refine ⟨?_, ?_⟩
        · simp only [List.foldlM_cons, bind, Except.bind, hstep, h1, List.append_assoc, List.singleton_append]
        · intro e he
          simp only [List.mem_cons] at he
          rcases he with rfl | he
          · exact ⟨rfl, leaf_noEnc u _ _ _ (by decide)⟩
          · exact h2 e he

/-- Enumerated parameter types as the loader produces them: on an integer, float or string encoding, with keys of the
    matching kind. -/
structure EnumWF (t : LPType) : Prop where
  tag : t.tag = "EnumeratedParameterType"
  unit : t.unit ≠ some ""
  enc : EncWF t.enc
  notBin : ∀ be, t.enc ≠ .bin be
  keys : ∀ kv ∈ t.enumeration, KeyOK t.enc kv.1
  distinct : t.enumeration.Pairwise (fun a b => pyEq a.1 b.1 = false)
  noEpoch : t.epoch = none
  noOffset : t.offsetFrom = none

theorem enum_type_roundtrip (hI : IntRoundTrip) (hV : FValRoundTrip) (u : Option String) (t : LPType)
    (hwf : EnumWF t) (x : XmlNode) (hw : writeParameterType u t = .ok x) : loadParameterType u x = .ok t := by
  obtain ⟨tag, name, unit, enc, enumeration, epoch, offsetFrom⟩ := t
  obtain ⟨htag, hunit, hencWF, hnb, hkeys, hdist, hnoep, hnooff⟩ := hwf
  simp only at htag hunit hencWF hnb hkeys hdist hnoep hnooff
  subst htag hnoep hnooff
  simp only [writeParameterType] at hw
  simp only [show ("EnumeratedParameterType" == "AbsoluteTimeParameterType" ||
      "EnumeratedParameterType" == "RelativeTimeParameterType") = false by decide, Bool.false_eq_true, if_false] at hw
  cases he : writeEncoding u enc with
  | error e => simp [he] at hw
  | ok encEl =>
    simp only [he, beq_self_eq_true, if_true] at hw
    cases hm : enumeration.mapM (writeEnumEntry u enc) with
    | error e => simp [hm] at hw
    | ok ens =>
      simp only [hm] at hw
      injection hw with hw; subst hw
      obtain ⟨ea, ek, hex, hek⟩ := writeEncoding_shape u enc encEl he
      have hekp := descendantsList_plain ek hek
      obtain ⟨hfold, hens⟩ := enum_fold hI hV u enc enumeration hkeys hdist [] (by simp) ens hm
      have hensNo : NoEncList ens := by
        clear hfold hm
        induction ens with
        | nil => trivial
        | cons e es ih => exact ⟨(hens e (by simp)).2, ih (fun e' he' => hens e' (by simp [he']))⟩
      have hensp := descendantsList_plain ens hensNo
      have hnp := encEl_not_plain u enc encEl he
      have hnmU : Step.matches u { tag := "UnitSet" } encEl = false :=
        not_matches_of_tag u "UnitSet" encEl (by decide) (by decide) hnp
      have hnmE : Step.matches u { tag := "EnumerationList" } encEl = false :=
        not_matches_of_tag u "EnumerationList" encEl (by decide) (by decide) hnp
      have helems : (mkEl u "EnumerationList" [] ens).elems = ens := by
        simp only [mkEl, XmlNode.elems, XmlNode.kids]
        rw [List.filter_eq_self]; exact fun e he' => (hens e he').1
      have hBplain : ∀ y ∈ descendantsList ek ++ (mkEl u "EnumerationList" [] ens :: (descendantsList ens ++ [])),
          plainTag y.tag = true := by
        intro y hy
        simp only [List.mem_append, List.mem_cons, List.append_nil] at hy
        rcases hy with hy | rfl | hy
        · exact hekp y hy
        · rfl
        · exact hensp y hy
      rcases unit_cases unit hunit with ⟨rfl, hut⟩ | ⟨s, rfl, hut⟩
      · have hdesc : descendants (mkEl u "EnumeratedParameterType" [("name", name)]
              ([] ++ [encEl, mkEl u "EnumerationList" [] ens])) =
            [] ++ encEl :: (descendantsList ek ++ (mkEl u "EnumerationList" [] ens :: (descendantsList ens ++ []))) := by
          subst hex; simp [mkEl, descendants, descendantsList, XmlNode.isElem]
        have hde := data_encoding_roundtrip hI hV u _ [] _ enc hencWF encEl he hdesc (by simp) hBplain
        have hun : loadUnits u (mkEl u "EnumeratedParameterType" [("name", name)]
              ([] ++ [encEl, mkEl u "EnumerationList" [] ens])) = .ok none := by
          simp [loadUnits, findAll, mkEl, XmlNode.kids, step, List.filter_cons, hnmU]
          simp [Step.matches, XmlNode.isElem, XmlNode.tag, XmlNode.ns]
        have hel : findFirst u [step "EnumerationList"] (mkEl u "EnumeratedParameterType" [("name", name)]
              ([] ++ [encEl, mkEl u "EnumerationList" [] ens])) = some (mkEl u "EnumerationList" [] ens) := by
          simp [findFirst, findAll, mkEl, XmlNode.kids, step, List.filter_cons, hnmE]
          simp [Step.matches, XmlNode.isElem, XmlNode.tag, XmlNode.ns]
        simp only [hut, Bool.false_eq_true, if_false]
        simp only [loadParameterType, loadEnumeration, hel, helems, hfold, hde, hun, bind, Except.bind, pure, Except.pure]
        cases enc with
        | bin be => exact absurd rfl (hnb be)
        | num ne => simp [mkEl, XmlNode.tag, XmlNode.attr!, XmlNode.attr?, XmlNode.attrs, PARAMETER_TYPE_TAGS]
        | str se => simp [mkEl, XmlNode.tag, XmlNode.attr!, XmlNode.attr?, XmlNode.attrs, PARAMETER_TYPE_TAGS]
      · have hdesc : descendants (mkEl u "EnumeratedParameterType" [("name", name)]
              ([mkEl u "UnitSet" [] [mkEl u "Unit" [] [] (some s)]] ++ [encEl, mkEl u "EnumerationList" [] ens])) =
            [mkEl u "UnitSet" [] [mkEl u "Unit" [] [] (some s)], mkEl u "Unit" [] [] (some s)] ++
              encEl :: (descendantsList ek ++ (mkEl u "EnumerationList" [] ens :: (descendantsList ens ++ []))) := by
          subst hex; simp [mkEl, descendants, descendantsList, XmlNode.isElem]
        have hde := data_encoding_roundtrip hI hV u _ _ _ enc hencWF encEl he hdesc
          (by intro y hy; simp at hy; rcases hy with rfl | rfl <;> rfl) hBplain
        have hun : loadUnits u (mkEl u "EnumeratedParameterType" [("name", name)]
              ([mkEl u "UnitSet" [] [mkEl u "Unit" [] [] (some s)]] ++ [encEl, mkEl u "EnumerationList" [] ens])) =
            .ok (some s) := by
          simp [loadUnits, findAll, mkEl, XmlNode.kids, step, List.filter_cons, hnmU]
          simp [Step.matches, XmlNode.isElem, XmlNode.tag, XmlNode.ns, XmlNode.text]
        have hel : findFirst u [step "EnumerationList"] (mkEl u "EnumeratedParameterType" [("name", name)]
              ([mkEl u "UnitSet" [] [mkEl u "Unit" [] [] (some s)]] ++ [encEl, mkEl u "EnumerationList" [] ens])) =
            some (mkEl u "EnumerationList" [] ens) := by
          simp [findFirst, findAll, mkEl, XmlNode.kids, step, List.filter_cons, hnmE]
          simp [Step.matches, XmlNode.isElem, XmlNode.tag, XmlNode.ns]
        simp only [hut, if_true]
        simp only [loadParameterType, loadEnumeration, hel, helems, hfold, hde, hun, bind, Except.bind, pure, Except.pure]
        cases enc with
        | bin be => exact absurd rfl (hnb be)
        | num ne => simp [mkEl, XmlNode.tag, XmlNode.attr!, XmlNode.attr?, XmlNode.attrs, PARAMETER_TYPE_TAGS]
        | str se => simp [mkEl, XmlNode.tag, XmlNode.attr!, XmlNode.attr?, XmlNode.attrs, PARAMETER_TYPE_TAGS]
/-- What the time type's `scale` / `offset` attributes say about the default calibrator of its encoding. -/
inductive TimeCal : Option Calibrator → Prop
  | none : TimeCal none
  | scale (c1 : Rat) : TimeCal (some (.poly [{ coef := c1, exp := 1 }]))
  | both (c0 c1 : Rat) : TimeCal (some (.poly [{ coef := c0, exp := 0 }, { coef := c1, exp := 1 }]))
  | other (c : Calibrator) (h : match c with | .poly cs => linearShape cs = false | .spline _ => True) : TimeCal (some c)

/-- Time parameter types on a numeric encoding, as the loader produces them. -/
structure TimeNumWF (t : LPType) : Prop where
  tag : t.tag = "AbsoluteTimeParameterType" ∨ t.tag = "RelativeTimeParameterType"
  enc : ∃ ne, t.enc = .num ne ∧ EncWF (.num ne) ∧ TimeCal ne.cals.default
  noEnum : t.enumeration = []
  epoch : t.epoch ≠ some ""
  offsetFrom : t.offsetFrom ≠ some ""

theorem timeReference_noEnc (u : Option String) (t : LPType) : NoEncList (timeReference u t) := by
  unfold timeReference
  split
  · refine ⟨node_noEnc u _ _ _ _ (by decide) ((noEncList_append _ _).mpr ⟨?_, ?_⟩), trivial⟩
    · split
      · exact ⟨leaf_noEnc u _ _ _ (by decide), trivial⟩
      · trivial
    · split
      · exact ⟨leaf_noEnc u _ _ _ (by decide), trivial⟩
      · trivial
  · trivial

/-- Reading back the reference-time part: epoch and offset-from. -/
theorem timeReference_read (u : Option String) (t : LPType) (he : t.epoch ≠ some "") (ho : t.offsetFrom ≠ some "")
    (tag : String) (attrs : List (String × String)) (E : XmlNode) (hE : E.tag = "Encoding") :
    (findFirst u [step "ReferenceTime", step "Epoch"] (mkEl u tag attrs ([E] ++ timeReference u t))).bind (·.text) = t.epoch ∧
    findFirst u [step "ReferenceTime", step "OffsetFrom"] (mkEl u tag attrs ([E] ++ timeReference u t)) =
      (match t.offsetFrom with | some s => some (mkEl u "OffsetFrom" [("parameterRef", s)] []) | none => none) := by
  have hEm : Step.matches u { tag := "ReferenceTime" } E = false := by simp [Step.matches, hE]
  rcases unit_cases t.epoch he with ⟨h1, h1t⟩ | ⟨se, h1, h1t⟩ <;>
  rcases unit_cases t.offsetFrom ho with ⟨h2, h2t⟩ | ⟨so, h2, h2t⟩ <;>
  · rw [h1] at h1t; rw [h2] at h2t
    simp [timeReference, h1, h2, h1t, h2t, findFirst, findAll, mkEl, XmlNode.kids, step, List.filter_cons, hEm]
    try simp [Step.matches, XmlNode.isElem, XmlNode.tag, XmlNode.ns, XmlNode.text]

/-- The `scale` / `offset` attributes the writer derives, and what the loader makes of them. -/
theorem timeScaleOffset_spec (hF : FloatRoundTrip) (ne : NumEnc) (h : TimeCal ne.cals.default) (so : List (String × String))
    (hso : timeScaleOffset ne = .ok so) :
    (∀ k, k ≠ "scale" → k ≠ "offset" → so.find? (·.1 == k) = none) ∧
    (match ne.cals.default with
     | none => so = []
     | some (.poly cs) => if linearShape cs then
         (match (so.find? (·.1 == "offset")).map (·.2), (so.find? (·.1 == "scale")).map (·.2) with
          | some o, some sc => ∃ c0 c1, cs = [{ coef := c0, exp := 0 }, { coef := c1, exp := 1 }] ∧ readRat o = .ok c0 ∧ readRat sc = .ok c1
          | none, some sc => ∃ c1, cs = [{ coef := c1, exp := 1 }] ∧ readRat sc = .ok c1
          | _, none => False)
         else so = []
     | some (.spline _) => so = []) := by
  generalize hd : ne.cals.default = dflt at h ⊢
  cases h with
  | none => simp only [timeScaleOffset, hd] at hso; injection hso with hso; subst hso; simp
  | scale c1 =>
    simp only [timeScaleOffset, hd] at hso ⊢
    have hl : linearShape [({ coef := c1, exp := 1 } : PolyTerm)] = true := by simp [linearShape]
    simp only [hl, Bool.not_true, Bool.false_eq_true, if_false, List.filter_cons, List.filter_nil] at hso
    simp only [show ((1 : Int) == 1) = true by decide, show ((1 : Int) == 0) = false by decide, if_true,
      Bool.false_eq_true, if_false, List.head?_cons, List.head?_nil, showCoef, Bool.false_and] at hso
    cases hs : showFloat (.fin c1) with
    | error e => simp [hs] at hso
    | ok s1 =>
      simp only [hs, List.append_nil] at hso
      injection hso with hso; subst hso
      refine ⟨fun k h1 h2 => by simp [Ne.symm h1], ?_⟩
      simp only [hl, if_true]
      simp [hF c1 s1 hs]
  | both c0 c1 =>
    simp only [timeScaleOffset, hd] at hso ⊢
    have hl : linearShape [({ coef := c0, exp := 0 } : PolyTerm), { coef := c1, exp := 1 }] = true := by simp [linearShape]
    simp only [hl, Bool.not_true, Bool.false_eq_true, if_false, List.filter_cons, List.filter_nil] at hso
    simp only [show ((1 : Int) == 1) = true by decide, show ((1 : Int) == 0) = false by decide,
      show ((0 : Int) == 1) = false by decide, show ((0 : Int) == 0) = true by decide, if_true,
      Bool.false_eq_true, if_false, List.head?_cons, List.head?_nil, showCoef, Bool.false_and] at hso
    cases hs1 : showFloat (.fin c1) with
    | error e => simp [hs1] at hso
    | ok s1 =>
      cases hs0 : showFloat (.fin c0) with
      | error e => simp [hs1, hs0] at hso
      | ok s0 =>
        simp only [hs1, hs0] at hso
        injection hso with hso; subst hso
        refine ⟨fun k h1 h2 => by simp [Ne.symm h1, Ne.symm h2], ?_⟩
        simp only [hl, if_true]
        simp [hF c1 s1 hs1, hF c0 s0 hs0]
  | other c hc =>
    cases c with
    | spline sp => simp only [timeScaleOffset, hd] at hso ⊢; injection hso with hso; subst hso; simp
    | poly cs =>
      simp only at hc
      simp only [timeScaleOffset, hd, hc, Bool.not_false, if_true] at hso ⊢
      injection hso with hso; subst hso; simp


theorem time_type_roundtrip_num (hI : IntRoundTrip) (hV : FValRoundTrip) (u : Option String) (t : LPType)
    (hwf : TimeNumWF t) (x : XmlNode) (hw : writeParameterType u t = .ok x) : loadParameterType u x = .ok t := by
  obtain ⟨tag, name, unit, enc, enumeration, epoch, offsetFrom⟩ := t
  obtain ⟨htag, ⟨ne, henc, hencwf, htc⟩, hnoenum, hep, hof⟩ := hwf
  simp only at htag henc hnoenum hep hof
  subst henc hnoenum
  have htime : (tag == "AbsoluteTimeParameterType" || tag == "RelativeTimeParameterType") = true := by
    rcases htag with rfl | rfl <;> decide
  have hknown : tag ∈ PARAMETER_TYPE_TAGS := by
    rcases htag with rfl | rfl <;> decide
  simp only [writeParameterType, htime, if_true] at hw
  cases hso : timeScaleOffset ne with
  | error e => simp [hso] at hw
  | ok so =>
    simp only [hso] at hw
    cases he : writeEncoding u (.num ne) with
    | error e => simp [he] at hw
    | ok encEl =>
      simp only [he] at hw
      injection hw with hw; subst hw
      obtain ⟨ea, ek, hex, hek⟩ := writeEncoding_shape u (.num ne) encEl he
      have hekp := descendantsList_plain ek hek
      obtain ⟨hsoKeys, hsoSpec⟩ := timeScaleOffset_spec hV.toFloat ne htc so hso
      generalize hUA : unitAttr unit = ua at *
      generalize hE : mkEl u "Encoding" (ua ++ so) [encEl] = E
      have hEt : E.tag = "Encoding" := by rw [← hE]; rfl
      have hEk : E.kids = [encEl] := by rw [← hE]; rfl
      have hEelem : E = .elem u "Encoding" (ua ++ so) none [encEl] := hE.symm
      -- the reference-time part
      obtain ⟨hepoch, hofrom⟩ := timeReference_read u
        { tag := tag, name := name, unit := unit, enc := .num ne, epoch := epoch, offsetFrom := offsetFrom } hep hof
        tag [("name", name)] E hEt
      -- the Encoding element is found
      have hfindE : findFirst u [step "Encoding"] (mkEl u tag [("name", name)] ([E] ++ timeReference u
          { tag := tag, name := name, unit := unit, enc := .num ne, epoch := epoch, offsetFrom := offsetFrom })) = some E := by
        subst hEelem
        simp [findFirst, findAll, mkEl, XmlNode.kids, List.filter_cons, Step.matches, step, XmlNode.isElem, XmlNode.tag,
          XmlNode.ns]
      -- the data encoding is found below it
      have hdesc : descendants (mkEl u tag [("name", name)] ([E] ++ timeReference u
          { tag := tag, name := name, unit := unit, enc := .num ne, epoch := epoch, offsetFrom := offsetFrom })) =
          [E] ++ encEl :: (descendantsList ek ++ [] ++ descendantsList (timeReference u
            { tag := tag, name := name, unit := unit, enc := .num ne, epoch := epoch, offsetFrom := offsetFrom })) := by
        subst hEelem; subst hex
        simp [mkEl, descendants, descendantsList, descendantsList_append, XmlNode.isElem]
      have hde := data_encoding_roundtrip hI hV u _ [E] _ (.num ne) hencwf encEl he hdesc
        (by intro y hy; simp at hy; subst hy; rw [hEt]; rfl)
        (by
          intro y hy
          simp only [List.append_nil, List.mem_append] at hy
          rcases hy with hy | hy
          · exact hekp y hy
          · exact descendantsList_plain _ (timeReference_noEnc u _) y hy)
      have hunits : E.attr? "units" = unit := by
        subst hEelem; subst hUA
        cases unit with
        | none => simp [unitAttr, XmlNode.attr?, XmlNode.attrs, hsoKeys "units" (by decide) (by decide)]
        | some v => simp [unitAttr, XmlNode.attr?, XmlNode.attrs]
      have hattr : ∀ k, k ≠ "units" → E.attr? k = (so.find? (·.1 == k)).map (·.2) := by
        intro k hk
        subst hEelem; subst hUA
        cases unit with
        | none => simp [unitAttr, XmlNode.attr?, XmlNode.attrs]
        | some v =>
          have : ("units" == k) = false := by simpa using fun e => hk e.symm
          simp [unitAttr, XmlNode.attr?, XmlNode.attrs, List.find?_cons, this]
      have hoff := hattr "offset" (by decide)
      have hsc := hattr "scale" (by decide)
      have hnm : (mkEl u tag [("name", name)] ([E] ++ timeReference u
          { tag := tag, name := name, unit := unit, enc := .num ne, epoch := epoch, offsetFrom := offsetFrom })).attr! "name"
          = .ok name := by simp [mkEl, XmlNode.attr!, XmlNode.attr?, XmlNode.attrs]
      clear hEelem
      subst hE
      subst hUA
      simp only [loadParameterType, bind, Except.bind, pure, Except.pure]
      simp only [show (mkEl u tag [("name", name)] ([mkEl u "Encoding" (unitAttr unit ++ so) [encEl]] ++ timeReference u
          { tag := tag, name := name, unit := unit, enc := .num ne, epoch := epoch, offsetFrom := offsetFrom })).tag = tag from rfl,
        List.contains_iff_mem.mpr hknown, htime, Bool.not_true, Bool.false_eq_true, if_false, if_true, hnm, hfindE, hde,
        hunits, hoff, hsc, hepoch, hofrom]
      obtain ⟨isFloat, size, encoding, byteOrder, ⟨dflt, contexts⟩⟩ := ne
      simp only at hsoSpec
      cases dflt with
      | none =>
        subst hsoSpec
        cases offsetFrom <;> simp [mkEl, XmlNode.attr!, XmlNode.attr?, XmlNode.attrs]
      | some c =>
        cases c with
        | spline sp =>
          simp only at hsoSpec
          subst hsoSpec
          cases offsetFrom <;> simp [mkEl, XmlNode.attr!, XmlNode.attr?, XmlNode.attrs]
        | poly cs =>
          simp only at hsoSpec
          by_cases hl : linearShape cs = true
          · simp only [hl, if_true] at hsoSpec
            cases ho : (so.find? (·.1 == "offset")).map (·.2) with
            | none =>
              cases hs : (so.find? (·.1 == "scale")).map (·.2) with
              | none => simp only [ho, hs] at hsoSpec
              | some sc =>
                simp only [ho, hs] at hsoSpec
                obtain ⟨c1, rfl, hr⟩ := hsoSpec
                cases offsetFrom <;> simp [hr, mkEl, XmlNode.attr!, XmlNode.attr?, XmlNode.attrs]
            | some o =>
              cases hs : (so.find? (·.1 == "scale")).map (·.2) with
              | none => simp only [ho, hs] at hsoSpec
              | some sc =>
                simp only [ho, hs] at hsoSpec
                obtain ⟨c0, c1, rfl, hr0, hr1⟩ := hsoSpec
                cases offsetFrom <;> simp [hr0, hr1, mkEl, XmlNode.attr!, XmlNode.attr?, XmlNode.attrs]
          · simp only [hl, Bool.false_eq_true, if_false] at hsoSpec
            subst hsoSpec
            cases offsetFrom <;> simp [mkEl, XmlNode.attr!, XmlNode.attr?, XmlNode.attrs]

/-- Time types on a string or binary encoding (no scale or offset to derive): epoch, offset reference, units and the
    encoding are read back. -/
theorem time_type_roundtrip_nonnum (hI : IntRoundTrip) (hV : FValRoundTrip) (u : Option String) (t : LPType)
    (htag : t.tag = "AbsoluteTimeParameterType" ∨ t.tag = "RelativeTimeParameterType")
    (hnn : ∀ ne, t.enc ≠ .num ne) (hencwf : EncWF t.enc) (hnoenum : t.enumeration = [])
    (hep : t.epoch ≠ some "") (hof : t.offsetFrom ≠ some "")
    (x : XmlNode) (hw : writeParameterType u t = .ok x) : loadParameterType u x = .ok t := by
  obtain ⟨tag, name, unit, enc, enumeration, epoch, offsetFrom⟩ := t
  simp only at htag hnn hencwf hnoenum hep hof
  subst hnoenum
  have htime : (tag == "AbsoluteTimeParameterType" || tag == "RelativeTimeParameterType") = true := by
    rcases htag with rfl | rfl <;> decide
  have hknown : tag ∈ PARAMETER_TYPE_TAGS := by
    rcases htag with rfl | rfl <;> decide
  simp only [writeParameterType, htime, if_true] at hw
  have hw' : (match writeEncoding u enc with
      | .error e => .error e
      | .ok encEl => .ok (mkEl u tag [("name", name)] ([mkEl u "Encoding" (unitAttr unit) [encEl]] ++ timeReference u
          { tag := tag, name := name, unit := unit, enc := enc, epoch := epoch, offsetFrom := offsetFrom }))) = Except.ok x := by
    cases enc with
    | num ne => exact absurd rfl (hnn ne)
    | str se => exact hw
    | bin be => exact hw
  clear hw
  cases he : writeEncoding u enc with
  | error e => simp [he] at hw'
  | ok encEl =>
    simp only [he] at hw'
    injection hw' with hw; subst hw
    obtain ⟨ea, ek, hex, hek⟩ := writeEncoding_shape u enc encEl he
    have hekp := descendantsList_plain ek hek
    generalize hUA : unitAttr unit = ua at *
    generalize hE : mkEl u "Encoding" ua [encEl] = E
    have hEt : E.tag = "Encoding" := by rw [← hE]; rfl
    have hEelem : E = .elem u "Encoding" ua none [encEl] := hE.symm
    obtain ⟨hepoch, hofrom⟩ := timeReference_read u
      { tag := tag, name := name, unit := unit, enc := enc, epoch := epoch, offsetFrom := offsetFrom } hep hof
      tag [("name", name)] E hEt
    have hfindE : findFirst u [step "Encoding"] (mkEl u tag [("name", name)] ([E] ++ timeReference u
        { tag := tag, name := name, unit := unit, enc := enc, epoch := epoch, offsetFrom := offsetFrom })) = some E := by
      subst hEelem
      simp [findFirst, findAll, mkEl, XmlNode.kids, List.filter_cons, Step.matches, step, XmlNode.isElem, XmlNode.tag,
        XmlNode.ns]
    have hdesc : descendants (mkEl u tag [("name", name)] ([E] ++ timeReference u
        { tag := tag, name := name, unit := unit, enc := enc, epoch := epoch, offsetFrom := offsetFrom })) =
        [E] ++ encEl :: (descendantsList ek ++ [] ++ descendantsList (timeReference u
          { tag := tag, name := name, unit := unit, enc := enc, epoch := epoch, offsetFrom := offsetFrom })) := by
      subst hEelem; subst hex
      simp [mkEl, descendants, descendantsList, descendantsList_append, XmlNode.isElem]
    have hde := data_encoding_roundtrip hI hV u _ [E] _ enc hencwf encEl he hdesc
      (by intro y hy; simp at hy; subst hy; rw [hEt]; rfl)
      (by
        intro y hy
        simp only [List.append_nil, List.mem_append] at hy
        rcases hy with hy | hy
        · exact hekp y hy
        · exact descendantsList_plain _ (timeReference_noEnc u _) y hy)
    have hunits : E.attr? "units" = unit := by
      subst hEelem; subst hUA
      cases unit with
      | none => simp [unitAttr, XmlNode.attr?, XmlNode.attrs]
      | some v => simp [unitAttr, XmlNode.attr?, XmlNode.attrs]
    have hattr : ∀ k, k ≠ "units" → E.attr? k = none := by
      intro k hk
      subst hEelem; subst hUA
      cases unit with
      | none => simp [unitAttr, XmlNode.attr?, XmlNode.attrs]
      | some v =>
        have : ("units" == k) = false := by simpa using fun e => hk e.symm
        simp [unitAttr, XmlNode.attr?, XmlNode.attrs, List.find?_cons, this]
    have hoff := hattr "offset" (by decide)
    have hsc := hattr "scale" (by decide)
    have hnm : (mkEl u tag [("name", name)] ([E] ++ timeReference u
        { tag := tag, name := name, unit := unit, enc := enc, epoch := epoch, offsetFrom := offsetFrom })).attr! "name"
        = .ok name := by simp [mkEl, XmlNode.attr!, XmlNode.attr?, XmlNode.attrs]
    clear hEelem
    subst hE
    subst hUA
    simp only [loadParameterType, bind, Except.bind, pure, Except.pure]
    simp only [show (mkEl u tag [("name", name)] ([mkEl u "Encoding" (unitAttr unit) [encEl]] ++ timeReference u
        { tag := tag, name := name, unit := unit, enc := enc, epoch := epoch, offsetFrom := offsetFrom })).tag = tag from rfl,
      List.contains_iff_mem.mpr hknown, htime, Bool.not_true, Bool.false_eq_true, if_false, if_true, hnm, hfindE, hde,
      hunits, hoff, hsc, hepoch, hofrom]
    cases offsetFrom <;> simp [mkEl, XmlNode.attr!, XmlNode.attr?, XmlNode.attrs]

/-- Time parameter types on a string or binary encoding, as the loader produces them. -/
structure TimeOtherWF (t : LPType) : Prop where
  tag : t.tag = "AbsoluteTimeParameterType" ∨ t.tag = "RelativeTimeParameterType"
  notNum : ∀ ne, t.enc ≠ .num ne
  enc : EncWF t.enc
  noEnum : t.enumeration = []
  epoch : t.epoch ≠ some ""
  offsetFrom : t.offsetFrom ≠ some ""

/-- Time parameter types as the loader produces them, on any kind of encoding. -/
def TimeWF (t : LPType) : Prop := TimeNumWF t ∨ TimeOtherWF t

/-- **A time parameter type written to XML and loaded back is the same type**: class, name, units, epoch, offset
    reference, encoding, and the scale / offset pair as the linear default calibrator it stands for. -/
theorem time_type_roundtrip (hI : IntRoundTrip) (hV : FValRoundTrip) (u : Option String) (t : LPType)
    (hwf : TimeWF t) (x : XmlNode) (hw : writeParameterType u t = .ok x) : loadParameterType u x = .ok t := by
  rcases hwf with h | h
  · exact time_type_roundtrip_num hI hV u t h x hw
  · exact time_type_roundtrip_nonnum hI hV u t h.tag h.notNum h.enc h.noEnum h.epoch h.offsetFrom x hw

/-- Parameter types of the three families above. -/
def PTypeWF (t : LPType) : Prop := PlainWF t ∨ EnumWF t ∨ TimeWF t

/-- **A parameter type written to XML and loaded back is the same parameter type**: class, name, unit, encoding
    (with calibrators and length specification) and enumeration. -/
theorem ptype_roundtrip (hI : IntRoundTrip) (hV : FValRoundTrip) (u : Option String) (t : LPType)
    (hwf : PTypeWF t) (x : XmlNode) (hw : writeParameterType u t = .ok x) : loadParameterType u x = .ok t := by
  rcases hwf with h | h | h
  · exact plain_type_roundtrip hI hV u t h x hw
  · exact enum_type_roundtrip hI hV u t h x hw
  · exact time_type_roundtrip hI hV u t h x hw

/-- Parameters as the loader produces them: an absent long description is `none`, never the empty string. -/
def ParamWF (p : LParam) : Prop := p.longDesc ≠ some ""

/-- A parameter (name, type reference, short and long description) survives write → load. -/
theorem parameter_roundtrip (u : Option String) (types : List (String × LPType)) (p : LParam) (hwf : ParamWF p)
    (ht : types.any (·.1 == p.typeName) = true) : loadParameter u types (writeParameter u p) = .ok p := by
  obtain ⟨name, typeName, shortDesc, longDesc⟩ := p
  simp only [ParamWF] at hwf
  simp only at ht
  rcases unit_cases longDesc hwf with ⟨rfl, hlt⟩ | ⟨s, rfl, hlt⟩
  · cases shortDesc <;>
      simp [loadParameter, writeParameter, hlt, mkEl, XmlNode.attr!, XmlNode.attr?, XmlNode.attrs, findFirst, findAll,
        XmlNode.kids, ht, bind, Except.bind, pure, Except.pure]
  · cases shortDesc <;>
      simp [loadParameter, writeParameter, hlt, mkEl, XmlNode.attr!, XmlNode.attr?, XmlNode.attrs, findFirst, findAll,
        XmlNode.kids, ht, Step.matches, step, XmlNode.isElem, XmlNode.tag, XmlNode.ns, XmlNode.text, bind, Except.bind,
        pure, Except.pure]

/-- **Every key the loader builds is in the regime** (finite floats aside): whatever `value` attribute an
    `<Enumeration>` entry carries, if the loader accepts it for the type's encoding then the resulting dictionary key
    satisfies `KeyOK` — for string encodings because ASCII text survives encode → decode in the field's codec
    (`decode_encode_ascii`). -/
theorem enumKey_in_regime (enc : Encoding) (s : String) (k : PyVal) (h : enumKey enc s = .ok k)
    (hfin : ∀ f, k = .flt f → ∃ q, f = .fin q) : KeyOK enc k := by
  cases enc with
  | bin be => simp [enumKey, throw, throwThe, MonadExceptOf.throw] at h
  | num ne =>
    by_cases hf : ne.isFloat = true
    · simp only [enumKey, hf, if_true, bind, Except.bind, pure, Except.pure] at h
      cases hr : readFloat s with
      | error e => simp [hr] at h
      | ok f =>
        simp only [hr] at h
        injection h with h; subst h
        obtain ⟨q, rfl⟩ := hfin f rfl
        exact KeyOK.flt ne hf q
    · have hf' : ne.isFloat = false := by simpa using hf
      simp only [enumKey, hf', Bool.false_eq_true, if_false, bind, Except.bind, pure, Except.pure] at h
      cases hr : readInt s with
      | error e => simp [hr] at h
      | ok i =>
        simp only [hr] at h
        injection h with h; subst h
        exact KeyOK.int ne hf' i
  | str se =>
    simp only [enumKey] at h
    cases he : encodeAsciiText se.codec s with
    | none => simp [he, throw, throwThe, MonadExceptOf.throw] at h
    | some b =>
      simp only [he, pure, Except.pure] at h
      injection h with h; subst h
      exact KeyOK.str se b s (decode_encode_ascii se.codec s b he) (encodeAsciiText_ascii se.codec s b he) he

/-! ### the enumeration regime is inhabited beyond integer keys -/

def exStrEnum : LPType :=
  { tag := "EnumeratedParameterType", name := "MODE_T", unit := none,
    enc := .str { encoding := "UTF-16BE", fixedLength := some 32, dynRef := none, lookup := none, useCal := true,
                  adjuster := none, termChar := none, leadingSize := none, byteOrder := some "mostSignificantByteFirst" },
    enumeration := [(.bytes [0, 0x4F, 0, 0x4E], "ON"), (.bytes [0, 0x4F, 0, 0x46], "OFF")] }

/-- The enumeration regime holds string-keyed types in a multi-byte codec … -/
theorem exStrEnum_wf : EnumWF exStrEnum where
  tag := rfl
  unit := by decide
  enc := ⟨CodecOK.be16, Or.inl ⟨32, by decide, rfl, rfl, rfl, rfl, rfl⟩, Or.inl ⟨rfl, by decide⟩⟩
  notBin := by intro be h; cases h
  keys := by
    intro kv hkv
    simp only [exStrEnum, List.mem_cons, List.mem_nil_iff, or_false] at hkv
    rcases hkv with rfl | rfl
    · exact KeyOK.str _ _ "ON" (by decide +kernel) (by decide +kernel) (by decide +kernel)
    · exact KeyOK.str _ _ "OF" (by decide +kernel) (by decide +kernel) (by decide +kernel)
  distinct := by decide
  noEpoch := rfl
  noOffset := rfl

def exFltEnum : LPType :=
  { tag := "EnumeratedParameterType", name := "LEVEL_T", unit := some "V",
    enc := .num { isFloat := true, size := 32, encoding := "IEEE754", byteOrder := "mostSignificantByteFirst",
                  cals := { default := none, contexts := [] } },
    enumeration := [(.flt (.fin 0), "ZERO"), (.flt (.fin (3/2)), "NOMINAL")] }

/-- … and float-keyed types on a float encoding. -/
theorem exFltEnum_wf : EnumWF exFltEnum where
  tag := rfl
  unit := by decide
  enc := ⟨⟨fun d h => (by cases h), fun x h => (by cases h)⟩, fun _ => Or.inr ⟨Or.inl rfl, Or.inr (Or.inl rfl)⟩⟩
  notBin := by intro be h; cases h
  keys := by
    intro kv hkv
    simp only [exFltEnum, List.mem_cons, List.mem_nil_iff, or_false] at hkv
    rcases hkv with rfl | rfl
    · exact KeyOK.flt _ rfl 0
    · exact KeyOK.flt _ rfl (3/2)
  distinct := by decide +kernel
  noEpoch := rfl
  noOffset := rfl

def exBinTime : LPType :=
  { tag := "AbsoluteTimeParameterType", name := "CUC_T", unit := some "s",
    enc := .bin { fixedSize := some 56, sizeRef := none, useCal := true, lookup := none, adjuster := none },
    epoch := some "TAI", offsetFrom := none }

/-- The time regime holds types on a binary encoding. -/
theorem exBinTime_wf : TimeWF exBinTime :=
  Or.inr { tag := Or.inl rfl, notNum := fun ne h => (by cases h), enc := BinWF.fixed 56, noEnum := rfl,
           epoch := by decide, offsetFrom := by decide }

end Spp.C09

