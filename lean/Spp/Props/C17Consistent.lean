/-
C17 — end to end: a definition that `loadXtce` returns is a consistent object graph (`loaded_consistent`).
Object identity ("the same object") has no counterpart in a value model: here a container *is* its value, and the
theorem says the value in the table is the parsed container's value; `is`-identity is checked on the real graph by the
harness.
-/
import Spp.Props.C17
import Spp.Props.C09Definition
namespace Spp.C17
open Spp

/-- The tables only grow (by key). -/
def Mono (a b : Caches) : Prop :=
  (∀ k, a.1.any (·.1 == k) = true → b.1.any (·.1 == k) = true) ∧
  (∀ k, a.2.1.any (·.1 == k) = true → b.2.1.any (·.1 == k) = true) ∧
  (∀ k, a.2.2.any (·.1 == k) = true → b.2.2.any (·.1 == k) = true)

theorem Mono.refl (a : Caches) : Mono a a := ⟨fun _ h => h, fun _ h => h, fun _ h => h⟩
theorem Mono.trans {a b c : Caches} (h1 : Mono a b) (h2 : Mono b c) : Mono a c :=
  ⟨fun k h => h2.1 k (h1.1 k h), fun k h => h2.2.1 k (h1.2.1 k h), fun k h => h2.2.2 k (h1.2.2 k h)⟩

theorem assocSet_any {β} (l : List (String × β)) (k : String) (v : β) (k' : String) :
    (assocSet l k v).any (·.1 == k') = (l.any (·.1 == k') || k == k') := by
  unfold assocSet
  by_cases h : l.any (·.1 == k) = true
  · simp only [h, if_true]
    rw [List.any_map]
    have hfun : ((fun x : String × β => x.1 == k') ∘ fun kv => if (kv.1 == k) = true then (k, v) else kv)
        = fun x : String × β => x.1 == k' := by
      funext a
      simp only [Function.comp]
      by_cases hak : (a.1 == k) = true
      · simp only [hak, if_true]
        rw [beq_iff_eq.mp hak]
      · simp [hak]
    rw [hfun]
    by_cases hk : (k == k') = true
    · have : k = k' := beq_iff_eq.mp hk
      subst this
      simp [h]
    · simp [hk]
  · simp only [h, Bool.false_eq_true, if_false, List.any_append, List.any_cons, List.any_nil, Bool.or_false]

/-- One entry resolves within the tables `r`: a declared parameter whose declared type are both present, or a parsed
    container that is present. -/
def Covers (allTypes : List (String × LPType)) (allParams : List (String × LParam)) (lookup : CLookup) (r : Caches) :
    LEntry → Prop
  | .param n => ∃ pn p tn t, allParams.find? (·.1 == n) = some (pn, p) ∧ allTypes.find? (·.1 == p.typeName) = some (tn, t) ∧
      r.2.1.any (·.1 == p.name) = true ∧ r.1.any (·.1 == t.name) = true
  | .cont n => ∃ nc, lookup.get? n = some nc ∧ r.2.2.any (·.1 == nc.name) = true

theorem Covers.mono {allTypes allParams lookup} {a b : Caches} (h : Mono a b) (e : LEntry)
    (hc : Covers allTypes allParams lookup a e) : Covers allTypes allParams lookup b e := by
  cases e with
  | param n =>
    obtain ⟨pn, p, tn, t, h1, h2, h3, h4⟩ := hc
    exact ⟨pn, p, tn, t, h1, h2, h.2.1 _ h3, h.1 _ h4⟩
  | cont n =>
    obtain ⟨nc, h1, h2⟩ := hc
    exact ⟨nc, h1, h.2.2 _ h2⟩

/-- The cache filling for one container: tables grow, the container is registered and each of its entries resolves. -/
theorem updateCaches_covers (allTypes : List (String × LPType)) (allParams : List (String × LParam)) (lookup : CLookup)
    (fuel : Nat) (acc res : Caches) (c : LContainer)
    (h : updateCaches allTypes allParams lookup fuel acc c = .ok res) :
    Mono acc res ∧ res.2.2.any (·.1 == c.name) = true ∧ ∀ e ∈ c.entries, Covers allTypes allParams lookup res e := by
  induction fuel generalizing acc res c with
  | zero => simp [updateCaches] at h
  | succ fuel ih =>
    simp only [updateCaches] at h
    have key : ∀ (es : List LEntry) (a r : Caches),
        es.foldlM (cacheEntry allTypes allParams lookup (updateCaches allTypes allParams lookup fuel)) a = .ok r →
        Mono a r ∧ ∀ e ∈ es, Covers allTypes allParams lookup r e := by
      intro es
      induction es with
      | nil => intro a r hr; simp [pure, Except.pure] at hr; subst hr; exact ⟨Mono.refl _, by simp⟩
      | cons e es ihes =>
        intro a r hr
        simp only [List.foldlM_cons, bind, Except.bind] at hr
        cases hstep : cacheEntry allTypes allParams lookup (updateCaches allTypes allParams lookup fuel) a e with
        | error err => simp [hstep] at hr
        | ok a' =>
          simp only [hstep] at hr
          obtain ⟨m2, cov⟩ := ihes a' r hr
          cases e with
          | cont n =>
            simp only [cacheEntry] at hstep
            cases hl : lookup.get? n with
            | none => simp [hl] at hstep
            | some nc =>
              simp only [hl] at hstep
              obtain ⟨m1, reg, _⟩ := ih _ _ _ hstep
              refine ⟨m1.trans m2, ?_⟩
              intro e he
              simp only [List.mem_cons] at he
              rcases he with rfl | he
              · exact ⟨nc, hl, m2.2.2 _ reg⟩
              · exact cov e he
          | param n =>
            simp only [cacheEntry] at hstep
            cases hp : allParams.find? (·.1 == n) with
            | none => simp [hp] at hstep
            | some np =>
              obtain ⟨pn, p⟩ := np
              simp only [hp] at hstep
              cases ht : allTypes.find? (·.1 == p.typeName) with
              | none => simp [ht] at hstep
              | some nt =>
                obtain ⟨tn, t⟩ := nt
                simp only [ht] at hstep
                injection hstep with hstep; subst hstep
                have m1 : Mono a (assocSet a.1 t.name t, assocSet a.2.1 p.name p, a.2.2) :=
                  ⟨fun k hk => by rw [assocSet_any]; simp [hk], fun k hk => by rw [assocSet_any]; simp [hk],
                   fun _ hk => hk⟩
                refine ⟨m1.trans m2, ?_⟩
                intro e he
                simp only [List.mem_cons] at he
                rcases he with rfl | he
                · exact ⟨pn, p, tn, t, hp, ht, m2.2.1 _ (by rw [assocSet_any]; simp),
                    m2.1 _ (by rw [assocSet_any]; simp)⟩
                · exact cov e he
    obtain ⟨m, cov⟩ := key c.entries _ res h
    have m0 : Mono acc (acc.1, acc.2.1, assocSet acc.2.2 c.name c) :=
      ⟨fun _ hk => hk, fun _ hk => hk, fun k hk => by rw [assocSet_any]; simp [hk]⟩
    exact ⟨m0.trans m, m.2.2 _ (by rw [assocSet_any]; simp), cov⟩


theorem mem_assocSet {β} (l : List (String × β)) (k : String) (v : β) (kv : String × β) (h : kv ∈ assocSet l k v) :
    kv ∈ l ∨ kv = (k, v) := by
  unfold assocSet at h
  split at h
  · obtain ⟨a, ha, hak⟩ := List.mem_map.mp h
    split at hak
    · exact Or.inr hak.symm
    · exact Or.inl (hak ▸ ha)
  · simp only [List.mem_append, List.mem_singleton] at h
    exact h

/-- Every container object in the definition's table is one of the parsed containers, filed under its own name. -/
theorem updateCaches_from (allTypes : List (String × LPType)) (allParams : List (String × LParam)) (lookup : CLookup)
    (S : LContainer → Prop) (hS : ∀ n c, lookup.get? n = some c → S c)
    (fuel : Nat) (acc res : Caches) (c : LContainer) (hc : S c)
    (hacc : ∀ kv ∈ acc.2.2, kv.1 = kv.2.name ∧ S kv.2)
    (h : updateCaches allTypes allParams lookup fuel acc c = .ok res) :
    ∀ kv ∈ res.2.2, kv.1 = kv.2.name ∧ S kv.2 := by
  induction fuel generalizing acc res c with
  | zero => simp [updateCaches] at h
  | succ fuel ih =>
    simp only [updateCaches] at h
    refine foldlM_inv _ (fun a : Caches => ∀ kv ∈ a.2.2, kv.1 = kv.2.name ∧ S kv.2) ?_ _ _ res ?_ h
    · intro a e a' ha hstep
      cases e with
      | cont n =>
        simp only [cacheEntry] at hstep
        cases hl : lookup.get? n with
        | none => simp [hl] at hstep
        | some nc => simp only [hl] at hstep; exact ih _ _ _ (hS n nc hl) ha hstep
      | param n =>
        simp only [cacheEntry] at hstep
        cases hp : allParams.find? (·.1 == n) with
        | none => simp [hp] at hstep
        | some np =>
          obtain ⟨pn, p⟩ := np
          simp only [hp] at hstep
          cases ht : allTypes.find? (·.1 == p.typeName) with
          | none => simp [ht] at hstep
          | some nt =>
            obtain ⟨tn, t⟩ := nt
            simp only [ht] at hstep
            injection hstep with hstep; subst hstep
            exact ha
    · intro kv hkv
      rcases mem_assocSet _ _ _ _ hkv with h1 | h1
      · exact hacc kv h1
      · subst h1; exact ⟨rfl, hc⟩

/-- The cache filling over the whole container table. -/
theorem caches_consistent (types : List (String × LPType)) (params : List (String × LParam)) (lookup : CLookup)
    (res : Caches)
    (h : lookup.foldlM (fun acc kv => updateCaches types params lookup FUEL acc kv.2) ([], [], []) = .ok res) :
    (∀ kv ∈ lookup, res.2.2.any (·.1 == kv.2.name) = true ∧ ∀ e ∈ kv.2.entries, Covers types params lookup res e) ∧
    (∀ kv ∈ res.2.2, kv.1 = kv.2.name ∧ ∃ k, (k, kv.2) ∈ lookup) := by
  have hS : ∀ n c, lookup.get? n = some c → ∃ k, (k, c) ∈ lookup := by
    intro n c hg
    unfold CLookup.get? at hg
    cases hf : lookup.find? (·.1 == n) with
    | none => simp [hf] at hg
    | some kv =>
      simp only [hf, Option.map_some, Option.some.injEq] at hg
      subst hg
      exact ⟨kv.1, List.mem_of_find?_eq_some hf⟩
  constructor
  · -- processed containers are covered, and coverage is kept by later steps
    have key : ∀ (done rest : CLookup) (a r : Caches), done ++ rest = lookup →
        (∀ kv ∈ done, a.2.2.any (·.1 == kv.2.name) = true ∧ ∀ e ∈ kv.2.entries, Covers types params lookup a e) →
        rest.foldlM (fun acc kv => updateCaches types params lookup FUEL acc kv.2) a = .ok r →
        ∀ kv ∈ lookup, r.2.2.any (·.1 == kv.2.name) = true ∧ ∀ e ∈ kv.2.entries, Covers types params lookup r e := by
      intro done rest
      induction rest generalizing done with
      | nil =>
        intro a r hl hd hr
        simp [pure, Except.pure] at hr; subst hr
        rw [List.append_nil] at hl; subst hl; exact hd
      | cons kv rest ih =>
        intro a r hl hd hr
        simp only [List.foldlM_cons, bind, Except.bind] at hr
        cases hu : updateCaches types params lookup FUEL a kv.2 with
        | error e => simp [hu] at hr
        | ok a' =>
          simp only [hu] at hr
          obtain ⟨m, reg, cov⟩ := updateCaches_covers types params lookup FUEL a a' kv.2 hu
          refine ih (done ++ [kv]) a' r (by rw [List.append_assoc]; exact hl) ?_ hr
          intro kv' hkv'
          simp only [List.mem_append, List.mem_singleton] at hkv'
          rcases hkv' with h' | rfl
          · obtain ⟨h1, h2⟩ := hd kv' h'
            exact ⟨m.2.2 _ h1, fun e he => Covers.mono m e (h2 e he)⟩
          · exact ⟨reg, cov⟩
    exact key [] lookup _ res rfl (by simp) h
  · refine foldlM_inv_mem lookup _ (fun a : Caches => ∀ kv ∈ a.2.2, kv.1 = kv.2.name ∧ ∃ k, (k, kv.2) ∈ lookup) ?_ _ res
      (by simp) h
    intro a kv a' hkv ha hstep
    exact updateCaches_from types params lookup _ hS FUEL a a' kv.2 ⟨kv.1, hkv⟩ ha hstep

/-- What a successful `from_xtce` consists of. -/
theorem loadXtce_parts (ctx : NsCtx) (rootName : String) (root : XmlNode) (d : LDef)
    (h : loadXtce ctx rootName root = .ok d) :
    ∃ ens types params lookup, ctx.expected = .ok ens ∧ loadParameterTypeSet ens root = .ok types ∧
      loadParameterSet ens root types = .ok params ∧ loadContainerSet ens root params = .ok lookup ∧
      lookup.foldlM (fun acc kv => updateCaches types params lookup FUEL acc kv.2) ([], [], [])
        = .ok (d.ptypes, d.params, d.containers) := by
  unfold loadXtce at h
  simp only [bind, Except.bind, pure, Except.pure] at h
  cases he : ctx.expected with
  | error e => simp [he] at h
  | ok ens =>
    simp only [he] at h
    unfold loadDoc at h
    cases ht : loadParameterTypeSet ens root with
    | error e => simp [ht] at h
    | ok types =>
      simp only [ht] at h
      cases hp : loadParameterSet ens root types with
      | error e => simp [hp] at h
      | ok params =>
        simp only [hp] at h
        cases hc : loadContainerSet ens root params with
        | error e => simp [hc] at h
        | ok lookup =>
          simp only [hc] at h
          split at h
          · simp [throw, throwThe, MonadExceptOf.throw] at h
          · cases hf : lookup.foldlM (fun acc kv => updateCaches types params lookup FUEL acc kv.2) ([], [], []) with
            | error e => simp [hf] at h
            | ok r =>
              simp only [hf] at h
              injection h with h; subst h
              exact ⟨ens, types, params, lookup, rfl, ht, hp, hc, hf⟩


def AllEmpty (lk : CLookup) : Prop := ∀ kv ∈ lk, kv.2.inheritors = []

theorem mem_clookup_set (l : CLookup) (n : String) (c : LContainer) (kv : String × LContainer) (h : kv ∈ l.set n c) :
    kv ∈ l ∨ kv = (n, c) := by
  unfold CLookup.set at h
  split at h
  · obtain ⟨a, ha, hak⟩ := List.mem_map.mp h
    split at hak
    · exact Or.inr hak.symm
    · exact Or.inl (hak ▸ ha)
  · simp only [List.mem_append, List.mem_singleton] at h
    exact h

theorem allEmpty_set (l : CLookup) (n : String) (c : LContainer) (hl : AllEmpty l) (hc : c.inheritors = []) :
    AllEmpty (l.set n c) := by
  intro kv hkv
  rcases mem_clookup_set l n c kv hkv with h | h
  · exact hl kv h
  · subst h; exact hc

/-- Every container the recursive loader creates — the one it returns and those it files in the lookup on the way —
    starts with an empty inheritor list. -/
theorem loadContainer_empty (ens : Option String) (root : XmlNode) (params : List (String × LParam)) (fuel : Nat)
    (lk : CLookup) (x : XmlNode) (c : LContainer) (lk' : CLookup) (hlk : AllEmpty lk)
    (h : loadContainer ens root params fuel lk x = .ok (c, lk')) : c.inheritors = [] ∧ AllEmpty lk' := by
  induction fuel generalizing lk x c lk' with
  | zero => simp [loadContainer] at h
  | succ fuel ih =>
    simp only [loadContainer] at h
    cases hb : loadBaseWith ens root (loadContainer ens root params fuel) lk x with
    | error e => simp [hb] at h
    | ok r =>
      obtain ⟨baseName, criteria, lk1⟩ := r
      simp only [hb] at h
      have hlk1 : AllEmpty lk1 := by
        unfold loadBaseWith at hb
        split at hb
        · injection hb with hb; injection hb with _ hb; injection hb with _ hb; subst hb; exact hlk
        · split at hb
          · cases hb
          · split at hb
            · cases hb
            · split at hb
              · cases hb
              · split at hb
                · cases hb
                · split at hb
                  · injection hb with hb; injection hb with _ hb; injection hb with _ hb; subst hb; exact hlk
                  · split at hb
                    · cases hb
                    · rename_i b lkb hrec
                      injection hb with hb; injection hb with _ hb; injection hb with _ hb; subst hb
                      obtain ⟨h1, h2⟩ := ih _ _ _ _ hlk hrec
                      exact allEmpty_set _ _ _ h2 h1
      cases hel : findFirst ens [step "EntryList"] x with
      | none => simp [hel] at h
      | some el =>
        simp only [hel] at h
        cases hf : el.elems.foldlM (loadEntryWith ens root params (loadContainer ens root params fuel)) ([], lk1) with
        | error e => simp [hf] at h
        | ok r2 =>
          obtain ⟨entries, lk2⟩ := r2
          simp only [hf] at h
          have hlk2 : AllEmpty lk2 := by
            have := foldlM_inv (loadEntryWith ens root params (loadContainer ens root params fuel))
              (fun a : List LEntry × CLookup => AllEmpty a.2) ?_ el.elems ([], lk1) (entries, lk2) hlk1 hf
            · exact this
            · intro a e a' ha hstep
              unfold loadEntryWith at hstep
              split at hstep
              · split at hstep
                · cases hstep
                · split at hstep
                  · cases hstep
                  · injection hstep with hstep; subst hstep; exact ha
              · split at hstep
                · split at hstep
                  · cases hstep
                  · split at hstep
                    · injection hstep with hstep; subst hstep; exact ha
                    · split at hstep
                      · cases hstep
                      · split at hstep
                        · cases hstep
                        · rename_i nc lk3 hrec
                          injection hstep with hstep; subst hstep
                          obtain ⟨h1, h2⟩ := ih _ _ _ _ ha hrec
                          exact allEmpty_set _ _ _ h2 h1
                · injection hstep with hstep; subst hstep; exact ha
          cases hn : x.attr! "name" with
          | error e => simp [hn] at h
          | ok name =>
            simp only [hn] at h
            injection h with h
            injection h with h1 h2
            subst h1 h2
            exact ⟨rfl, hlk2⟩


/-- The container table before back-population: every inheritor list is empty. -/
theorem loadContainerSet_parts (ens : Option String) (root : XmlNode) (params : List (String × LParam)) (lookup : CLookup)
    (h : loadContainerSet ens root params = .ok lookup) :
    ∃ lookup0, AllEmpty lookup0 ∧ populateInheritors lookup0 = .ok lookup := by
  unfold loadContainerSet at h
  cases hf : findFirst ens [step "TelemetryMetaData", step "ContainerSet"] root with
  | none => simp [hf] at h
  | some set =>
    simp only [hf] at h
    cases hl : set.elems.foldlM (containerSetStep ens root params) [] with
    | error e => simp [hl] at h
    | ok lookup0 =>
      simp only [hl] at h
      refine ⟨lookup0, ?_, h⟩
      refine foldlM_inv (containerSetStep ens root params) AllEmpty ?_ set.elems [] lookup0 (by intro kv hkv; cases hkv) hl
      intro lk el lk' hlk hstep
      unfold containerSetStep at hstep
      cases hc : loadContainer ens root params FUEL lk el with
      | error e => simp [hc] at hstep
      | ok r =>
        obtain ⟨c, lk2⟩ := r
        simp only [hc] at hstep
        obtain ⟨h1, h2⟩ := loadContainer_empty ens root params FUEL lk el c lk2 hlk hc
        split at hstep
        · injection hstep with hstep; subst hstep; exact allEmpty_set _ _ _ h2 h1
        · split at hstep
          · injection hstep with hstep; subst hstep; exact h2
          · cases hstep

/-- **A loaded definition is a consistent object graph** (end to end, for `loadXtce` itself): the three name tables
    hold one entry per name; every container object in the table is one of the parsed containers, filed under its own
    name; every parsed container is in the table and each of its entries resolves — a parameter entry to a declared
    parameter whose declared type are both in the tables, a container entry to a parsed container that is in the
    table; and each container's inheritor list is exactly the list of containers naming it as their base
    (`basedOn`, which has no repetitions when names are unique: `basedOn_nodup`). -/
theorem loaded_consistent (ctx : NsCtx) (rootName : String) (root : XmlNode) (d : LDef)
    (h : loadXtce ctx rootName root = .ok d) :
    UniqueKeys d.ptypes ∧ UniqueKeys d.params ∧ UniqueKeys d.containers ∧
    ∃ types params lookup0 lookup,
      AllEmpty lookup0 ∧ populateInheritors lookup0 = .ok lookup ∧
      (∀ kv ∈ d.containers, kv.1 = kv.2.name ∧ ∃ k, (k, kv.2) ∈ lookup) ∧
      (∀ kv ∈ lookup, d.containers.any (·.1 == kv.2.name) = true ∧
        ∀ e ∈ kv.2.entries, Covers types params lookup (d.ptypes, d.params, d.containers) e) ∧
      (lookup.map (·.1) = lookup0.map (·.1)) ∧
      (∀ n c, lookup0.get? n = some c → ∃ c', lookup.get? n = some c' ∧ c'.inheritors = basedOn lookup0 n ∧
        c'.base = c.base ∧ c'.name = c.name ∧ c'.entries = c.entries ∧ c'.abstract = c.abstract) := by
  obtain ⟨ens, types, params, lookup, _, _, _, hc, hf⟩ := loadXtce_parts ctx rootName root d h
  obtain ⟨lookup0, he, hp⟩ := loadContainerSet_parts ens root params lookup hc
  have hu : UniqueKeys (d.ptypes, d.params, d.containers).1 ∧ UniqueKeys (d.ptypes, d.params, d.containers).2.1 ∧
      UniqueKeys (d.ptypes, d.params, d.containers).2.2 := by
    refine foldlM_inv _ (fun a : Caches => UniqueKeys a.1 ∧ UniqueKeys a.2.1 ∧ UniqueKeys a.2.2) ?_ lookup ([], [], [])
      _ (by simp [UniqueKeys]) hf
    intro a kv a' ha hstep
    exact containers_unique types params lookup FUEL a a' kv.2 ha hstep
  obtain ⟨c1, c2⟩ := caches_consistent types params lookup _ hf
  obtain ⟨i1, i2⟩ := inheritors_exact lookup0 lookup hp he
  exact ⟨hu.1, hu.2.1, hu.2.2, types, params, lookup0, lookup, he, hp, c2, c1, i1, i2⟩


/-- Non-vacuity: a document that loads (the written form of `C09.exDef`). -/
example : ∃ x d, toXml C09.exDef = .ok x ∧
    loadXtce { nsPrefix := C09.exDef.nsPrefix, nsmap := C09.exDef.nsmap } "ROOT" x = .ok d := ⟨_, _, rfl, rfl⟩

end Spp.C17
