/-
C10 — Framing terminates on every finite source and yields only complete packets.
-/
import Spp.Lemmas.Frame
namespace Spp.C10
open Spp

/-- Termination, quantitatively.  `frame` is a total function (its definition carries the well-founded
    recursion proof); moreover the number of items it can yield is bounded by the bytes the source holds:
    every item consumes at least `skip + 7` of them.  Holds for *every* source, including ones that deliver
    empty chunks in the middle. -/
theorem terminates_bound (cfg : FrameCfg) (st : FrameSt) :
    (cfg.skip + 7) * (frame cfg st).length ≤ st.buf.length - st.pos + sumLen st.src :=
  frame_length_bound cfg st

/-- For every finite byte source — arbitrary bytes, cut anywhere — delivered as a bytes object, a file in any
    chunks or a socket in any non-empty fragments followed by close: every item is a complete packet whose
    length is what its own length field declares, the items (with their skipped prefixes) are consecutive slices
    of the input, and the unconsumed remainder is shorter than one complete packet. -/
theorem complete_consecutive_short (cfg : FrameCfg) (S : Bytes) (chunks : List Bytes)
    (hne : ∀ c ∈ chunks, c ≠ []) (hcat : chunks.flatten = S) (st : FrameSt)
    (hst : st = initBytes S ∨ st = initFile chunks S.length ∨ st = initSocket chunks) :
    ∃ (pres : List Bytes) (rest : Bytes), pres.length = (frame cfg st).length ∧
      (∀ pre ∈ pres, pre.length = cfg.skip) ∧
      encode (pres.zip (frame cfg st)) ++ rest = S ∧
      (∀ x ∈ frame cfg st, x.length = 6 + (be16 (x.take 6) + 1)) ∧
      ShortRest cfg.skip rest := by
  have key : ∀ st : FrameSt, (∀ c ∈ st.src, c ≠ []) → st.pos ≤ st.buf.length → st.remaining = S →
      (∀ T, st.total = some T → st.parsed + S.length = T) →
      ∃ (pres : List Bytes) (rest : Bytes), pres.length = (frame cfg st).length ∧
        (∀ pre ∈ pres, pre.length = cfg.skip) ∧ encode (pres.zip (frame cfg st)) ++ rest = S ∧
        (∀ x ∈ frame cfg st, x.length = 6 + (be16 (x.take 6) + 1)) ∧ ShortRest cfg.skip rest := by
    intro st h1 h2 h3 h4
    have := frame_decomp cfg st h1 h2 (by rw [h3]; exact h4)
    rw [h3] at this
    exact this
  rcases hst with h | h | h <;> subst h
  · exact key _ (by simp [initBytes]) (by simp [initBytes]) (by simp [initBytes, FrameSt.remaining])
      (by simp [initBytes])
  · exact key _ (by simpa [initFile] using hne) (by simp [initFile])
      (by simp [initFile, FrameSt.remaining, hcat]) (by simp [initFile])
  · exact key _ (by simpa [initSocket] using hne) (by simp [initSocket])
      (by simp [initSocket, FrameSt.remaining, hcat]) (by simp [initSocket])

/-- Empty input yields nothing (in particular no empty items). -/
theorem empty_input (cfg : FrameCfg) :
    frame cfg (initBytes []) = [] ∧ frame cfg (initFile [] 0) = [] ∧ frame cfg (initSocket []) = [] := by
  have key : ∀ st : FrameSt, st.mu = 0 → frame cfg st = [] := by
    intro st hmu
    have h := frame_length_bound cfg st
    rw [hmu] at h
    have : (frame cfg st).length = 0 := by
      rcases Nat.eq_zero_or_pos (frame cfg st).length with h0 | h0
      · exact h0
      · have : cfg.skip + 7 ≤ (cfg.skip + 7) * (frame cfg st).length := Nat.le_mul_of_pos_right _ h0
        omega
    exact List.length_eq_zero_iff.mp this
  exact ⟨key _ rfl, key _ rfl, key _ rfl⟩

/-- No internal error can escape the loop once the source contract holds: `frame` has no error outcome,
    and a `bytes` source's reader is the empty reader (the pinned code called `None` here). -/
theorem no_internal_error (cfg : FrameCfg) (st : FrameSt) : ∃ items : List Bytes, frame cfg st = items :=
  ⟨_, rfl⟩

/-- Non-vacuity: a stream cut in the middle of its second packet yields the first packet only. -/
example : frame ⟨0, 20000000⟩ (initFile [[0x0F, 0xFF, 0xFF, 0xFF, 0x00, 0x00, 0xAB, 0x0F, 0xFF], [0xFF, 0xFF, 0x00, 0x05, 0x01]] 14)
    = [[0x0F, 0xFF, 0xFF, 0xFF, 0x00, 0x00, 0xAB]] := by
  simp [frame, frameStep, stopNow, initFile, trimBuf, stepBody, refill, be16, fromBytesBE]

end Spp.C10
