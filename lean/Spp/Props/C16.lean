/-
C16 — Loading is independent of lexical spelling and of earlier loads.
PARTIAL: proved at the level of the element searches the loader is built from (every access to the document goes
through them) and for the loader-state bookkeeping; the lifting through all ~40 `from_xml` functions is carried by the
correspondence check, not by a theorem.
-/
import Spp.Model.XmlLoad
namespace Spp.C16
open Spp

/-! ### comments and inter-element whitespace -/

theorem strip_isElem (x : XmlNode) : (stripComments x).isElem = x.isElem := by
  cases x <;> simp [stripComments, XmlNode.isElem]

theorem strip_tag (x : XmlNode) : (stripComments x).tag = x.tag := by cases x <;> simp [stripComments, XmlNode.tag]
theorem strip_ns (x : XmlNode) : (stripComments x).ns = x.ns := by cases x <;> simp [stripComments, XmlNode.ns]
theorem strip_attrs (x : XmlNode) : (stripComments x).attrs = x.attrs := by cases x <;> simp [stripComments, XmlNode.attrs]
theorem strip_text (x : XmlNode) (h : x.isElem = true) : (stripComments x).text = x.text := by
  cases x <;> simp_all [stripComments, XmlNode.text, XmlNode.isElem]

theorem stripList_eq (l : List XmlNode) : stripList l = (l.filter XmlNode.isElem).map stripComments := by
  induction l with
  | nil => simp [stripList]
  | cons x xs ih =>
    simp only [stripList, List.filter_cons]
    by_cases h : x.isElem = true
    · simp [h, ih]
    · simp [h, ih]

/-- The element children of a document with comments removed are the element children of the original
    (with comments removed below them): `iterfind('*')` never sees a comment. -/
theorem elems_strip (x : XmlNode) : (stripComments x).elems = x.elems.map stripComments := by
  cases x with
  | comment s => simp [stripComments, XmlNode.elems, XmlNode.kids]
  | elem n t a tx c =>
    simp only [stripComments, XmlNode.elems, XmlNode.kids, stripList_eq]
    rw [List.filter_eq_self.mpr]
    intro y hy
    simp only [List.mem_map, List.mem_filter] at hy
    obtain ⟨z, ⟨_, hz⟩, rfl⟩ := hy
    rw [strip_isElem]; exact hz

theorem matches_strip (ens : Option String) (s : Step) (e : XmlNode) :
    s.matches ens (stripComments e) = s.matches ens e := by
  simp [Step.matches, strip_isElem, strip_tag, strip_ns, XmlNode.attr?, strip_attrs]

/-- Path searches (`find` / `findall` / `iterfind`) commute with comment removal: a comment placed between any two
    elements changes no search result. -/
theorem findAll_strip (ens : Option String) (path : List Step) (x : XmlNode) :
    findAll ens path (stripComments x) = (findAll ens path x).map stripComments := by
  induction path generalizing x with
  | nil => simp [findAll]
  | cons s rest ih =>
    cases x with
    | comment c => simp [findAll, stripComments, XmlNode.kids]
    | elem n t a tx kids =>
      simp only [findAll, stripComments, XmlNode.kids, stripList_eq, List.filter_map, List.map_map]
      have hfilter : List.filter (s.matches ens ∘ stripComments) (List.filter XmlNode.isElem kids)
          = List.filter (s.matches ens) kids := by
        rw [List.filter_filter]
        apply List.filter_congr
        intro y _
        simp only [Function.comp, matches_strip]
        cases h : s.matches ens y
        · simp
        · have : y.isElem = true := by
            simp only [Step.matches, Bool.and_eq_true] at h; exact h.1.1
          simp [this]
      rw [hfilter, List.map_flatten, List.map_map]
      congr 1
      apply List.map_congr_left
      intro y _
      exact ih y

theorem findFirst_strip (ens : Option String) (path : List Step) (x : XmlNode) :
    findFirst ens path (stripComments x) = (findFirst ens path x).map stripComments := by
  simp [findFirst, findAll_strip, List.head?_map]

/-! ### namespace spelling -/

mutual
/-- Render a document in a namespace spelling: every element lies in namespace `u` (`none` = no namespace). -/
def setNs (u : Option String) : XmlNode → XmlNode
  | .elem _ t a tx c => .elem u t a tx (setNsList u c)
  | .comment s => .comment s
def setNsList (u : Option String) : List XmlNode → List XmlNode
  | [] => []
  | x :: xs => setNs u x :: setNsList u xs
end

theorem setNsList_eq (u : Option String) (l : List XmlNode) : setNsList u l = l.map (setNs u) := by
  induction l with
  | nil => rfl
  | cons x xs ih => simp [setNsList, ih]

theorem matches_setNs (u v : Option String) (s : Step) (e : XmlNode) :
    s.matches u (setNs u e) = s.matches v (setNs v e) := by
  cases e <;> simp [Step.matches, setNs, XmlNode.isElem, XmlNode.tag, XmlNode.ns, XmlNode.attr?, XmlNode.attrs]

/-- Searching a document rendered in namespace `u` with the matching expected namespace finds the renderings of
    exactly the elements found in any other rendering `v`: the result does not depend on the namespace convention
    (a prefix of any name and a default namespace denote a URI; no namespace is `none`). -/
theorem findAll_spelling (u v : Option String) (path : List Step) (x : XmlNode) :
    (findAll u path (setNs u x)).length = (findAll v path (setNs v x)).length ∧
    (findAll u path (setNs u x)).map (fun e => (e.tag, e.attrs, e.text)) =
      (findAll v path (setNs v x)).map (fun e => (e.tag, e.attrs, e.text)) := by
  induction path generalizing x with
  | nil => cases x <;> simp [findAll, setNs, XmlNode.tag, XmlNode.attrs, XmlNode.text]
  | cons s rest ih =>
    cases x with
    | comment c => simp [findAll, setNs, XmlNode.kids]
    | elem n t a tx kids =>
      simp only [findAll, setNs, XmlNode.kids, setNsList_eq, List.filter_map, List.map_map]
      have hf : List.filter (s.matches u ∘ setNs u) kids = List.filter (s.matches v ∘ setNs v) kids := by
        apply List.filter_congr
        intro y _
        simp only [Function.comp, matches_setNs u v]
      rw [hf]
      generalize List.filter (s.matches v ∘ setNs v) kids = sel
      induction sel with
      | nil => simp
      | cons y ys ihy =>
        simp only [List.map_cons, List.flatten_cons, List.length_append, List.map_append, Function.comp] at ihy ⊢
        obtain ⟨i1, i2⟩ := ih y
        exact ⟨by omega, by rw [i2, ihy.2]⟩

/-! ### earlier loads -/

/-- The process-wide state of `NamespaceAwareElement`: the class attributes `_ns_prefix` and `_nsmap`. -/
structure LoaderState where
  nsPrefix : Option String
  nsmap : List (Option String × String)

/-- `from_xtce`: `set_ns_prefix(prefix)`, `set_nsmap(root.nsmap)`, then every search reads the class state. -/
def loadWithState (s : LoaderState) (ctx : NsCtx) (rootName : String) (x : XmlNode) : LoadM LDef × LoaderState :=
  let s1 : LoaderState := { s with nsPrefix := ctx.nsPrefix }
  let s2 : LoaderState := { s1 with nsmap := ctx.nsmap }
  (loadXtce { nsPrefix := s2.nsPrefix, nsmap := s2.nsmap } rootName x, s2)

/-- Loading a document gives the same result whatever the loader state left behind by earlier loads. -/
theorem history_independent (s s' : LoaderState) (ctx : NsCtx) (rootName : String) (x : XmlNode) :
    (loadWithState s ctx rootName x).1 = (loadWithState s' ctx rootName x).1 := rfl

def loadSequence (s : LoaderState) : List (NsCtx × String × XmlNode) → List (LoadM LDef) × LoaderState
  | [] => ([], s)
  | (ctx, r, x) :: rest =>
    let (res, s1) := loadWithState s ctx r x
    let (ress, s2) := loadSequence s1 rest
    (res :: ress, s2)

/-- … and hence after any sequence of other loads, successful or failed, with any namespace conventions. -/
theorem after_any_sequence (s : LoaderState) (prior : List (NsCtx × String × XmlNode)) (ctx : NsCtx) (r : String)
    (x : XmlNode) :
    (loadWithState (loadSequence s prior).2 ctx r x).1 = (loadWithState s ctx r x).1 := rfl

end Spp.C16
