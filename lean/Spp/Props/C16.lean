/-
C16 — Loading is independent of lexical spelling and of earlier loads.
Proved for the whole loader model: the element searches commute with comment removal and with a change of namespace
convention (this file), every `from_xml` function is invariant under any such rendering (Lemmas/Render.lean), hence
`load_ignores_comments` and `load_ignores_namespace_convention` for `loadXtce` itself; the loader-state bookkeeping
gives independence from earlier loads.  PARTIAL only in what the tree model leaves out: lxml's text/tail handling of
whitespace and of comments inside character data, which the correspondence check covers on real documents.
-/
import Spp.Lemmas.Render
namespace Spp.C16
open Spp

/-! ### comments and inter-element whitespace -/

theorem strip_isElem (x : XmlNode) : (stripComments x).isElem = x.isElem := by
  cases x <;> simp [stripComments, XmlNode.isElem]

theorem strip_tag (x : XmlNode) : (stripComments x).tag = x.tag := by cases x <;> simp [stripComments, XmlNode.tag]
theorem strip_ns (x : XmlNode) : (stripComments x).ns = x.ns := by cases x <;> simp [stripComments, XmlNode.ns]
theorem strip_attrs (x : XmlNode) : (stripComments x).attrs = x.attrs := by cases x <;> simp [stripComments, XmlNode.attrs]
theorem strip_text (x : XmlNode) (h : x.isElem = true) : (stripComments x).text = x.text := by
  cases x <;> simp_all [stripComments, XmlNode.text, XmlNode.isElem]

theorem stripList_eq (l : List XmlNode) : stripList l = (l.filter XmlNode.isElem).map stripComments := by
  induction l with
  | nil => simp [stripList]
  | cons x xs ih =>
    simp only [stripList, List.filter_cons]
    by_cases h : x.isElem = true
    · simp [h, ih]
    · simp [h, ih]

/-- The element children of a document with comments removed are the element children of the original
    (with comments removed below them): `iterfind('*')` never sees a comment. -/
theorem elems_strip (x : XmlNode) : (stripComments x).elems = x.elems.map stripComments := by
  cases x with
  | comment s => simp [stripComments, XmlNode.elems, XmlNode.kids]
  | elem n t a tx c =>
    simp only [stripComments, XmlNode.elems, XmlNode.kids, stripList_eq]
    rw [List.filter_eq_self.mpr]
    intro y hy
    simp only [List.mem_map, List.mem_filter] at hy
    obtain ⟨z, ⟨_, hz⟩, rfl⟩ := hy
    rw [strip_isElem]; exact hz

theorem matches_strip (ens : Option String) (s : Step) (e : XmlNode) :
    s.matches ens (stripComments e) = s.matches ens e := by
  simp [Step.matches, strip_isElem, strip_tag, strip_ns, XmlNode.attr?, strip_attrs]

/-- Path searches (`find` / `findall` / `iterfind`) commute with comment removal: a comment placed between any two
    elements changes no search result. -/
theorem findAll_strip (ens : Option String) (path : List Step) (x : XmlNode) :
    findAll ens path (stripComments x) = (findAll ens path x).map stripComments := by
  induction path generalizing x with
  | nil => simp [findAll]
  | cons s rest ih =>
    cases x with
    | comment c => simp [findAll, stripComments, XmlNode.kids]
    | elem n t a tx kids =>
      simp only [findAll, stripComments, XmlNode.kids, stripList_eq, List.filter_map, List.map_map]
      have hfilter : List.filter (s.matches ens ∘ stripComments) (List.filter XmlNode.isElem kids)
          = List.filter (s.matches ens) kids := by
        rw [List.filter_filter]
        apply List.filter_congr
        intro y _
        simp only [Function.comp, matches_strip]
        cases h : s.matches ens y
        · simp
        · have : y.isElem = true := by
            simp only [Step.matches, Bool.and_eq_true] at h; exact h.1.1
          simp [this]
      rw [hfilter, List.map_flatten, List.map_map]
      congr 1
      apply List.map_congr_left
      intro y _
      exact ih y

theorem findFirst_strip (ens : Option String) (path : List Step) (x : XmlNode) :
    findFirst ens path (stripComments x) = (findFirst ens path x).map stripComments := by
  simp [findFirst, findAll_strip, List.head?_map]

/-! ### namespace spelling -/

mutual
/-- Render a document in a namespace spelling: every element lies in namespace `u` (`none` = no namespace). -/
def setNs (u : Option String) : XmlNode → XmlNode
  | .elem _ t a tx c => .elem u t a tx (setNsList u c)
  | .comment s => .comment s
def setNsList (u : Option String) : List XmlNode → List XmlNode
  | [] => []
  | x :: xs => setNs u x :: setNsList u xs
end

theorem setNsList_eq (u : Option String) (l : List XmlNode) : setNsList u l = l.map (setNs u) := by
  induction l with
  | nil => rfl
  | cons x xs ih => simp [setNsList, ih]

theorem matches_setNs (u v : Option String) (s : Step) (e : XmlNode) :
    s.matches u (setNs u e) = s.matches v (setNs v e) := by
  cases e <;> simp [Step.matches, setNs, XmlNode.isElem, XmlNode.tag, XmlNode.ns, XmlNode.attr?, XmlNode.attrs]

/-- Searching a document rendered in namespace `u` with the matching expected namespace finds the renderings of
    exactly the elements found in any other rendering `v`: the result does not depend on the namespace convention
    (a prefix of any name and a default namespace denote a URI; no namespace is `none`). -/
theorem findAll_spelling (u v : Option String) (path : List Step) (x : XmlNode) :
    (findAll u path (setNs u x)).length = (findAll v path (setNs v x)).length ∧
    (findAll u path (setNs u x)).map (fun e => (e.tag, e.attrs, e.text)) =
      (findAll v path (setNs v x)).map (fun e => (e.tag, e.attrs, e.text)) := by
  induction path generalizing x with
  | nil => cases x <;> simp [findAll, setNs, XmlNode.tag, XmlNode.attrs, XmlNode.text]
  | cons s rest ih =>
    cases x with
    | comment c => simp [findAll, setNs, XmlNode.kids]
    | elem n t a tx kids =>
      simp only [findAll, setNs, XmlNode.kids, setNsList_eq, List.filter_map, List.map_map]
      have hf : List.filter (s.matches u ∘ setNs u) kids = List.filter (s.matches v ∘ setNs v) kids := by
        apply List.filter_congr
        intro y _
        simp only [Function.comp, matches_setNs u v]
      rw [hf]
      generalize List.filter (s.matches v ∘ setNs v) kids = sel
      induction sel with
      | nil => simp
      | cons y ys ihy =>
        simp only [List.map_cons, List.flatten_cons, List.length_append, List.map_append, Function.comp] at ihy ⊢
        obtain ⟨i1, i2⟩ := ih y
        exact ⟨by omega, by rw [i2, ihy.2]⟩

/-! ### the whole loader: comments -/

mutual
theorem descendants_strip : ∀ x : XmlNode, descendants (stripComments x) = (descendants x).map stripComments
  | .elem n t a tx c => by
    simp only [stripComments, descendants]
    exact descendantsList_strip c
  | .comment s => by simp [stripComments, descendants]
theorem descendantsList_strip : ∀ l : List XmlNode,
    descendantsList (stripList l) = (descendantsList l).map stripComments
  | [] => by simp [stripList, descendantsList]
  | x :: xs => by
    simp only [stripList]
    by_cases hx : x.isElem = true
    · simp only [hx, if_true, descendantsList, strip_isElem, List.map_append, descendants_strip x,
        descendantsList_strip xs, List.map_cons, List.map_nil]
    · have : descendants x = [] := by cases x <;> simp_all [XmlNode.isElem, descendants]
      simp only [hx, Bool.false_eq_true, if_false, descendantsList, this, descendantsList_strip xs, List.map_append,
        List.map_nil, List.nil_append]
end

theorem findDescendant_strip (ens : Option String) (tag : String) (x : XmlNode) :
    findDescendant ens tag (stripComments x) = (findDescendant ens tag x).map stripComments := by
  simp only [findDescendant, descendants_strip, List.find?_map]
  have : ((fun e : XmlNode => e.tag == tag && e.ns == ens) ∘ stripComments) = (fun e => e.tag == tag && e.ns == ens) := by
    funext e
    simp [Function.comp, strip_tag, strip_ns]
  rw [this]

/-- Removing comments is a rendering (of every document, for any expected namespace). -/
theorem stripRendering (ens : Option String) : Rendering ens ens stripComments (fun _ => True) where
  kids_dom := fun _ _ _ _ => trivial
  attrs := strip_attrs
  tag := strip_tag
  isElem := strip_isElem
  text := strip_text
  elems := elems_strip
  findAll := fun path x _ => findAll_strip ens path x
  findDesc := fun tag x _ => findDescendant_strip ens tag x

/-- **Comments placed between elements change nothing**: loading a document and loading it with every comment
    removed give the same definition, or fail with the same error. -/
theorem load_ignores_comments (ctx : NsCtx) (rootName : String) (x : XmlNode) :
    loadXtce ctx rootName (stripComments x) = loadXtce ctx rootName x := by
  cases he : ctx.expected with
  | error e => simp [loadXtce, he, bind, Except.bind]
  | ok ens => exact (stripRendering ens).loadXtce ctx ctx rootName x trivial he he rfl rfl

/-! ### the whole loader: namespace convention -/

/-- Every element of the document lies in namespace `v`. -/
def InNs (v : Option String) (x : XmlNode) : Prop := setNs v x = x

mutual
theorem setNs_setNs (u v : Option String) : ∀ x : XmlNode, setNs u (setNs v x) = setNs u x
  | .elem n t a tx c => by simp only [setNs]; rw [setNsList_setNsList u v c]
  | .comment s => by simp [setNs]
theorem setNsList_setNsList (u v : Option String) : ∀ l : List XmlNode, setNsList u (setNsList v l) = setNsList u l
  | [] => by simp [setNsList]
  | x :: xs => by simp only [setNsList]; rw [setNs_setNs u v x, setNsList_setNsList u v xs]
end

theorem inNs_setNs (v : Option String) (x : XmlNode) : InNs v (setNs v x) := setNs_setNs v v x

theorem inNs_kids (v : Option String) (x : XmlNode) (h : InNs v x) : ∀ k ∈ x.kids, InNs v k := by
  cases x with
  | comment s => intro k hk; simp [XmlNode.kids] at hk
  | elem n t a tx c =>
    intro k hk
    simp only [InNs, setNs, setNsList_eq] at h
    injection h with _ _ _ _ hc
    simp only [XmlNode.kids] at hk
    have : ∀ l : List XmlNode, l.map (setNs v) = l → ∀ k ∈ l, setNs v k = k := by
      intro l
      induction l with
      | nil => intro _ k hk; simp at hk
      | cons y ys ih =>
        intro hl k hk
        simp only [List.map_cons] at hl
        injection hl with h1 h2
        simp only [List.mem_cons] at hk
        rcases hk with rfl | hk
        · exact h1
        · exact ih h2 k hk
    exact this c hc k hk

theorem inNs_ns (v : Option String) (x : XmlNode) (h : InNs v x) (he : x.isElem = true) : x.ns = v := by
  cases x with
  | comment s => simp [XmlNode.isElem] at he
  | elem n t a tx c =>
    simp only [InNs, setNs] at h
    injection h with h1
    simp [XmlNode.ns, h1.symm]

theorem setNs_attrs (u : Option String) (x : XmlNode) : (setNs u x).attrs = x.attrs := by cases x <;> simp [setNs, XmlNode.attrs]
theorem setNs_tag (u : Option String) (x : XmlNode) : (setNs u x).tag = x.tag := by cases x <;> simp [setNs, XmlNode.tag]
theorem setNs_isElem (u : Option String) (x : XmlNode) : (setNs u x).isElem = x.isElem := by
  cases x <;> simp [setNs, XmlNode.isElem]
theorem setNs_text (u : Option String) (x : XmlNode) : (setNs u x).text = x.text := by cases x <;> simp [setNs, XmlNode.text]
theorem setNs_ns (u : Option String) (x : XmlNode) (he : x.isElem = true) : (setNs u x).ns = u := by
  cases x <;> simp_all [setNs, XmlNode.ns, XmlNode.isElem]

theorem setNs_elems (u : Option String) (x : XmlNode) : (setNs u x).elems = x.elems.map (setNs u) := by
  cases x with
  | comment s => simp [setNs, XmlNode.elems, XmlNode.kids]
  | elem n t a tx c =>
    simp only [setNs, XmlNode.elems, XmlNode.kids, setNsList_eq, List.filter_map]
    congr 1
    apply List.filter_congr
    intro y _
    simp [Function.comp, setNs_isElem]

theorem matches_inNs (u v : Option String) (s : Step) (e : XmlNode) (h : InNs v e) :
    s.matches u (setNs u e) = s.matches v e := by
  by_cases he : e.isElem = true
  · simp [Step.matches, setNs_isElem, setNs_tag, setNs_ns u e he, inNs_ns v e h he, XmlNode.attr?, setNs_attrs]
  · simp [Step.matches, setNs_isElem, he]

theorem findAll_inNs (u v : Option String) (path : List Step) (x : XmlNode) (h : InNs v x) :
    findAll u path (setNs u x) = (findAll v path x).map (setNs u) := by
  induction path generalizing x with
  | nil => simp [findAll]
  | cons s rest ih =>
    cases x with
    | comment c => simp [findAll, setNs, XmlNode.kids]
    | elem n t a tx kids =>
      have hk := inNs_kids v _ h
      simp only [XmlNode.kids] at hk
      simp only [findAll, setNs, XmlNode.kids, setNsList_eq, List.filter_map, List.map_map]
      have hf : List.filter (s.matches u ∘ setNs u) kids = List.filter (s.matches v) kids := by
        apply List.filter_congr
        intro y hy
        simp only [Function.comp, matches_inNs u v s y (hk y hy)]
      rw [hf]
      have : ∀ sel : List XmlNode, (∀ y ∈ sel, InNs v y) →
          (List.map (findAll u rest ∘ setNs u) sel).flatten
            = List.map (setNs u) (List.map (findAll v rest) sel).flatten := by
        intro sel
        induction sel with
        | nil => intro _; simp
        | cons y ys ihy =>
          intro hs
          simp only [List.map_cons, List.flatten_cons, List.map_append, Function.comp,
            ih y (hs y (by simp)), ihy (fun z hz => hs z (by simp [hz]))]
      exact this _ (fun y hy => hk y (List.mem_filter.mp hy).1)

mutual
theorem descendants_setNs (u : Option String) : ∀ x : XmlNode, descendants (setNs u x) = (descendants x).map (setNs u)
  | .elem n t a tx c => by simp only [setNs, descendants]; exact descendantsList_setNs u c
  | .comment s => by simp [setNs, descendants]
theorem descendantsList_setNs (u : Option String) : ∀ l : List XmlNode,
    descendantsList (setNsList u l) = (descendantsList l).map (setNs u)
  | [] => by simp [setNsList, descendantsList]
  | x :: xs => by
    simp only [setNsList, descendantsList, setNs_isElem, descendants_setNs u x, descendantsList_setNs u xs,
      List.map_append]
    by_cases hx : x.isElem = true <;> simp [hx]
end

mutual
theorem descendants_inNs (v : Option String) : ∀ x : XmlNode, InNs v x → ∀ e ∈ descendants x, InNs v e ∧ e.isElem = true
  | .elem n t a tx c, h, e, he => by
    simp only [descendants] at he
    exact descendantsList_inNs v c (fun k hk => inNs_kids v _ h k (by simpa [XmlNode.kids] using hk)) e he
  | .comment _, _, e, he => by simp [descendants] at he
theorem descendantsList_inNs (v : Option String) : ∀ l : List XmlNode, (∀ k ∈ l, InNs v k) →
    ∀ e ∈ descendantsList l, InNs v e ∧ e.isElem = true
  | [], _, e, he => by simp [descendantsList] at he
  | x :: xs, h, e, he => by
    simp only [descendantsList, List.mem_append] at he
    rcases he with (he | he) | he
    · split at he
      · rename_i hx
        simp only [List.mem_singleton] at he; rw [he]; exact ⟨h x (by simp), hx⟩
      · simp at he
    · exact descendants_inNs v x (h x (by simp)) e he
    · exact descendantsList_inNs v xs (fun k hk => h k (by simp [hk])) e he
end

theorem findDescendant_inNs (u v : Option String) (tag : String) (x : XmlNode) (h : InNs v x) :
    findDescendant u tag (setNs u x) = (findDescendant v tag x).map (setNs u) := by
  simp only [findDescendant, descendants_setNs]
  have : ∀ l : List XmlNode, (∀ e ∈ l, InNs v e ∧ e.isElem = true) →
      (l.map (setNs u)).find? (fun e => e.tag == tag && e.ns == u)
        = (l.find? (fun e => e.tag == tag && e.ns == v)).map (setNs u) := by
    intro l
    induction l with
    | nil => intro _; rfl
    | cons y ys ih =>
      intro hl
      obtain ⟨hy1, hy2⟩ := hl y (by simp)
      simp only [List.map_cons, List.find?_cons, setNs_tag, setNs_ns u y hy2, inNs_ns v y hy1 hy2, BEq.rfl,
        Bool.and_true]
      cases y.tag == tag
      · simpa using ih (fun e he => hl e (by simp [he]))
      · rfl
  exact this _ (descendants_inNs v x h)

/-- Moving a document from namespace `v` to namespace `u` (a prefix of any name and a default namespace denote a
    URI; no namespace is `none`) is a rendering, for searches that expect `v` before and `u` after. -/
theorem nsRendering (u v : Option String) : Rendering v u (setNs u) (InNs v) where
  kids_dom := inNs_kids v
  attrs := setNs_attrs u
  tag := setNs_tag u
  isElem := setNs_isElem u
  text := fun x _ => setNs_text u x
  elems := setNs_elems u
  findAll := fun path x h => findAll_inNs u v path x h
  findDesc := fun tag x h => findDescendant_inNs u v tag x h

/-- **The namespace convention changes nothing**: the same abstract document written with every element in
    namespace `u` (loaded with a context that expects `u`) and with every element in namespace `v` (loaded with a
    context that expects `v`) — prefixed with any prefix name, default namespace, or no namespace at all — loads to
    the same definition, or fails with the same error; only the recorded prefix / nsmap differ. -/
theorem load_ignores_namespace_convention (ctxU ctxV : NsCtx) (u v : Option String)
    (hU : ctxU.expected = .ok u) (hV : ctxV.expected = .ok v) (rootName : String) (x : XmlNode) :
    (loadXtce ctxU rootName (setNs u x)).map LDef.core = (loadXtce ctxV rootName (setNs v x)).map LDef.core := by
  have := (nsRendering u v).loadXtce_core ctxV ctxU rootName (setNs v x) (inNs_setNs v x) hV hU
  rwa [setNs_setNs] at this

/-- Non-vacuity: the three conventions give contexts whose expected namespace is determined. -/
example : ({ nsPrefix := some "xtce", nsmap := [(some "xtce", "urn:x"), (some "xsi", "urn:y")] } : NsCtx).expected
    = .ok (some "urn:x") := by simp [NsCtx.expected, List.find?]
example : ({ nsPrefix := none, nsmap := [(none, "urn:x")] } : NsCtx).expected = .ok (some "urn:x") := by
  simp [NsCtx.expected, List.find?]
example : ({ nsPrefix := none, nsmap := [(some "xsi", "urn:y")] } : NsCtx).expected = .ok none := by
  simp [NsCtx.expected, List.find?]
example : InNs (some "urn:x") (.elem (some "urn:x") "A" [] none [.comment "c", .elem (some "urn:x") "B" [] none []]) := by
  simp [InNs, setNs, setNsList]

/-! ### earlier loads -/

/-- The process-wide state of `NamespaceAwareElement`: the class attributes `_ns_prefix` and `_nsmap`. -/
structure LoaderState where
  nsPrefix : Option String
  nsmap : List (Option String × String)

/-- `from_xtce`: `set_ns_prefix(prefix)`, `set_nsmap(root.nsmap)`, then every search reads the class state. -/
def loadWithState (s : LoaderState) (ctx : NsCtx) (rootName : String) (x : XmlNode) : LoadM LDef × LoaderState :=
  let s1 : LoaderState := { s with nsPrefix := ctx.nsPrefix }
  let s2 : LoaderState := { s1 with nsmap := ctx.nsmap }
  (loadXtce { nsPrefix := s2.nsPrefix, nsmap := s2.nsmap } rootName x, s2)

/-- Loading a document gives the same result whatever the loader state left behind by earlier loads. -/
theorem history_independent (s s' : LoaderState) (ctx : NsCtx) (rootName : String) (x : XmlNode) :
    (loadWithState s ctx rootName x).1 = (loadWithState s' ctx rootName x).1 := rfl

def loadSequence (s : LoaderState) : List (NsCtx × String × XmlNode) → List (LoadM LDef) × LoaderState
  | [] => ([], s)
  | (ctx, r, x) :: rest =>
    let (res, s1) := loadWithState s ctx r x
    let (ress, s2) := loadSequence s1 rest
    (res :: ress, s2)

/-- … and hence after any sequence of other loads, successful or failed, with any namespace conventions. -/
theorem after_any_sequence (s : LoaderState) (prior : List (NsCtx × String × XmlNode)) (ctx : NsCtx) (r : String)
    (x : XmlNode) :
    (loadWithState (loadSequence s prior).2 ctx r x).1 = (loadWithState s ctx r x).1 := rfl

end Spp.C16
