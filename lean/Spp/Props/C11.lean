/-
C11 — Packets are parsed independently; generators and definitions do not interfere.
-/
import Spp.Model.Definition
namespace Spp.C11
open Spp

/-- What one raw packet contributes when segment combining is off: it depends on that packet alone. -/
def solo (d : Definition) (root : String) (o : GenOpts) (b : Bytes) : List Event × Bool :=
  if o.headersOnly then ([.rawPacket b], true)
  else deliver o (parsePacket d root (combineSegments o.secHdrBytes [b]))

theorem genStep_solo (d : Definition) (root : String) (o : GenOpts) (seg : SegState) (b : Bytes)
    (hc : o.combine = false) :
    genStep d root o seg b = (seg, (solo d root o b).1, (solo d root o b).2) := by
  unfold genStep solo segStep
  by_cases hh : o.headersOnly = true
  · simp [hh]
  · simp [hh, hc]

/-- Items in stream order are exactly what parsing each packet on its own yields, up to the first packet whose
    parse raises (which ends the generator): a skipped, unrecognized or wrong-length packet never changes the result
    for any other packet. -/
def concatUntilRaise : List (List Event × Bool) → List Event
  | [] => []
  | (evs, go) :: rest => if go then evs ++ concatUntilRaise rest else evs

theorem pointwise (d : Definition) (root : String) (o : GenOpts) (seg : SegState) (bs : List Bytes)
    (hc : o.combine = false) :
    genLoop d root o seg bs = concatUntilRaise (bs.map (solo d root o)) := by
  induction bs generalizing seg with
  | nil => rfl
  | cons b bs ih =>
    simp only [genLoop, genStep_solo d root o seg b hc, List.map_cons, concatUntilRaise]
    cases (solo d root o b).2
    · simp
    · simp [ih]

/-- Streams compose: if no packet of the first part raises, the generator over the concatenation yields the
    items of the first part followed by the items of the second. -/
theorem concat (d : Definition) (root : String) (o : GenOpts) (seg : SegState) (s1 s2 : List Bytes)
    (hc : o.combine = false) (hok : ∀ b ∈ s1, (solo d root o b).2 = true) :
    genLoop d root o seg (s1 ++ s2) = genLoop d root o seg s1 ++ genLoop d root o seg s2 := by
  rw [pointwise _ _ _ _ _ hc, pointwise _ _ _ _ _ hc, pointwise _ _ _ _ _ hc]
  induction s1 with
  | nil => rfl
  | cons b bs ih =>
    have hb := hok b (by simp)
    simp only [List.cons_append, List.map_cons, concatUntilRaise, hb, if_true, List.append_assoc]
    rw [ih (fun b' hb' => hok b' (by simp [hb']))]

/-- With error reporting on, an unrecognized packet appears in its stream position as an error object carrying its
    partial data; with it off it contributes nothing; either way the generator goes on. -/
theorem error_in_place (o : GenOpts) (part : Pkt) :
    deliver o (.unrecognized part) = ((if o.yieldUnrec then [.unrec part] else []), true) := rfl

/-- The whole generator is the loop over the framed packets (C02/C10 describe the framing). -/
theorem generator_is_loop_over_frames (d : Definition) (root : String) (o : GenOpts) (cfg : FrameCfg) (src : FrameSt) :
    packetGenerator d root o cfg src = genLoop d root o [] (frame cfg src) := rfl

/-! Interleaving: several generators advanced in any order.  Each generator is its list of pending events; a
    `next` on generator `i` pops its head.  (In the value model a generator cannot touch another one's state or the
    definition — that this also holds of the Python objects is what the correspondence harness checks.) -/

def nextOn (gens : List (List Event)) (i : Nat) : List (List Event) :=
  gens.mapIdx (fun j g => if j = i then g.drop 1 else g)

def runSchedule (gens : List (List Event)) : List Nat → List (List Event)
  | [] => gens
  | i :: rest => runSchedule (nextOn gens i) rest

theorem nextOn_get (gens : List (List Event)) (i k : Nat) :
    (nextOn gens i)[k]?.getD [] = if k = i then (gens[k]?.getD []).drop 1 else gens[k]?.getD [] := by
  unfold nextOn
  simp only [List.getElem?_mapIdx]
  cases h : gens[k]? with
  | none => simp
  | some g => by_cases hk : k = i <;> simp [hk]

/-- For any schedule, what generator `k` still has to yield is its solo sequence minus as many items as it was
    advanced — independent of how the calls were interleaved with other generators. -/
theorem interleave (gens : List (List Event)) (sched : List Nat) (k : Nat) :
    (runSchedule gens sched)[k]?.getD [] = (gens[k]?.getD []).drop (sched.count k) := by
  induction sched generalizing gens with
  | nil => simp [runSchedule]
  | cons i rest ih =>
    simp only [runSchedule, ih, nextOn_get]
    by_cases hk : k = i
    · subst hk; simp [List.drop_drop, Nat.add_comm]
    · have : (i == k) = false := by simpa using fun e => hk e.symm
      simp [hk, List.count_cons, this]

end Spp.C11
