import Spp.Props.C09Containers
import Spp.Lemmas.IntLit
namespace Spp.C09
open Spp C17

/-- `XtcePacketDefinition.__init__`'s cache filling over the whole container table. -/
def cachesOf (types : List (String × LPType)) (params : List (String × LParam)) (lookup : CLookup) :
    LoadM (List (String × LPType) × List (String × LParam) × CLookup) :=
  lookup.foldlM (fun acc kv => updateCaches types params lookup FUEL acc kv.2) ([], [], [])

/-- Definitions in the regime of the whole-document round trip: what a load produces (names are the table keys and are
    unique; containers come in dependency order; inheritor lists are the back-populated ones; the tables are already
    in cache order), with every part inside the regime of its element-level theorem. -/
structure DefWF (d : LDef) : Prop where
  ns : d.nsPrefix = none ∨ d.nsmap.any (·.1 == d.nsPrefix) = true
  ssn : d.spaceSystemName ≠ some ""
  typeKeys : ∀ kv ∈ d.ptypes, kv.1 = kv.2.name
  typesUnique : UniqueKeys d.ptypes
  typesWF : ∀ kv ∈ d.ptypes, PTypeWF kv.2
  paramKeys : ∀ kv ∈ d.params, kv.1 = kv.2.name
  paramsUnique : UniqueKeys d.params
  paramsWF : ∀ kv ∈ d.params, ParamWF kv.2
  paramTypes : ∀ kv ∈ d.params, d.ptypes.any (·.1 == kv.2.typeName) = true
  sorted : SortedFrom d.params [] d.containers
  inheritors : ∀ kv ∈ d.containers, kv.2.inheritors = basedOn d.containers kv.1
  normal : cachesOf d.ptypes d.params d.containers = .ok (d.ptypes, d.params, d.containers)

theorem find_typeSet (u : Option String) (attrs : List (String × String)) (date : String) (ts ps cs : List XmlNode) :
    findFirst u [step "TelemetryMetaData", step "ParameterTypeSet"]
      (docEl u attrs (mkEl u "Header" [("date", date), ("version", "1.0"), ("validationStatus", "Unknown")] []) ts ps cs)
      = some (mkEl u "ParameterTypeSet" [] ts) := by
  simp [docEl, findFirst, findAll, mkEl, XmlNode.kids, Step.matches, step, XmlNode.isElem, XmlNode.tag, XmlNode.ns]

theorem find_paramSet (u : Option String) (attrs : List (String × String)) (date : String) (ts ps cs : List XmlNode) :
    findFirst u [step "TelemetryMetaData", step "ParameterSet"]
      (docEl u attrs (mkEl u "Header" [("date", date), ("version", "1.0"), ("validationStatus", "Unknown")] []) ts ps cs)
      = some (mkEl u "ParameterSet" [] ps) := by
  simp [docEl, findFirst, findAll, mkEl, XmlNode.kids, Step.matches, step, XmlNode.isElem, XmlNode.tag, XmlNode.ns]

/-- Keys, names and the dependency order: what `SortedFrom` gives about the whole list. -/
theorem sorted_facts (params : List (String × LParam)) (rest : List (String × LContainer)) :
    ∀ lk : CLookup, SortedFrom params lk rest →
      (∀ kv ∈ rest, kv.1 = kv.2.name) ∧
      (lk ++ rest.map (fun kv => (kv.1, eraseInh kv.2))).map (·.1) = lk.map (·.1) ++ rest.map (·.1) ∧
      ((lk.map (·.1)).Nodup → ((lk ++ rest).map (·.1)).Nodup) ∧
      (∀ kv ∈ rest, ∀ b, kv.2.base = some b → b ≠ "" → b ∈ lk.map (·.1) ++ rest.map (·.1)) := by
  induction rest with
  | nil => intro lk _; simp
  | cons kv rest ih =>
    intro lk hs
    obtain ⟨hkn, hwf, hnew, hrest⟩ := hs
    obtain ⟨i1, i2, i3, i4⟩ := ih _ hrest
    refine ⟨?_, ?_, ?_, ?_⟩
    · intro kv' h'
      simp only [List.mem_cons] at h'
      rcases h' with rfl | h'
      · exact hkn
      · exact i1 kv' h'
    · simp [List.map_append, Function.comp_def]
    · intro hnd
      have hnotin : kv.1 ∉ lk.map (·.1) := by
        intro hin
        obtain ⟨a, ha, hak⟩ := List.mem_map.mp hin
        rw [List.any_eq_false] at hnew
        have := hnew a ha
        simp [hak] at this
      have h1 : ((lk ++ [(kv.1, eraseInh kv.2)]).map (·.1)).Nodup := by
        simp only [List.map_append, List.map_cons, List.map_nil]
        rw [List.nodup_append]
        refine ⟨hnd, by simp, ?_⟩
        intro a ha b hb
        simp only [List.mem_singleton] at hb
        subst hb
        intro e; subst e; exact hnotin ha
      have := i3 h1
      simpa [List.map_append, List.append_assoc] using this
    · intro kv' h' b hb hbne
      simp only [List.mem_cons] at h'
      rcases h' with rfl | h'
      · rcases hwf.base with ⟨h0, _⟩ | ⟨b', hb', _, hin, _⟩
        · rw [h0] at hb; cases hb
        · rw [hb'] at hb; injection hb with hb; subst hb
          obtain ⟨a, ha, hak⟩ := List.any_eq_true.mp hin
          have : a.1 = b' := beq_iff_eq.mp hak
          simp only [List.mem_append]
          left; exact List.mem_map.mpr ⟨a, ha, this⟩
      · have := i4 kv' h' b hb hbne
        simp only [List.map_append, List.map_cons, List.map_nil, List.mem_append, List.mem_cons, List.mem_nil_iff,
          or_false] at this ⊢
        rcases this with (h | h) | h
        · exact Or.inl h
        · exact Or.inr (Or.inl h)
        · exact Or.inr (Or.inr h)


theorem basedOn_erase (l : CLookup) (n : String) :
    basedOn (l.map (fun kv => (kv.1, eraseInh kv.2))) n = basedOn l n := by
  unfold basedOn
  rw [List.filter_map, List.map_map]
  rfl

theorem withInh_nil_erase (l : CLookup) :
    withInh (l.map (fun kv => (kv.1, eraseInh kv.2))) (fun _ => []) = l.map (fun kv => (kv.1, eraseInh kv.2)) := by
  unfold withInh
  rw [List.map_map]
  rfl

/-- Back-population after the container-set fold gives exactly the inheritor lists `basedOn` describes. -/
theorem populate_erased (l : CLookup) (hu : UniqueKeys l)
    (hres : ∀ kv ∈ l, ∀ b, kv.2.base = some b → b ≠ "" → b ∈ l.map (·.1))
    (hinh : ∀ kv ∈ l, kv.2.inheritors = basedOn l kv.1) :
    populateInheritors (l.map (fun kv => (kv.1, eraseInh kv.2))) = .ok l := by
  have hu0 : UniqueKeys (l.map (fun kv => (kv.1, eraseInh kv.2))) := by
    unfold UniqueKeys at *; rw [List.map_map]; exact hu
  have hres0 : ∀ kv ∈ l.map (fun kv => (kv.1, eraseInh kv.2)), ∀ b, kv.2.base = some b → b ≠ "" →
      ∃ kvb ∈ l.map (fun kv => (kv.1, eraseInh kv.2)), kvb.1 = b := by
    intro kv hkv b hb hbne
    obtain ⟨kv0, hkv0, rfl⟩ := List.mem_map.mp hkv
    obtain ⟨kvb, hkvb, hk⟩ := List.mem_map.mp (hres kv0 hkv0 b hb hbne)
    exact ⟨(kvb.1, eraseInh kvb.2), List.mem_map.mpr ⟨kvb, hkvb, rfl⟩, hk⟩
  rw [populate_eq_fold]
  have := popFold_exact _ hu0 (l.map (fun kv => (kv.1, eraseInh kv.2))) (fun _ => []) hres0
  rw [withInh_nil_erase] at this
  rw [this]
  congr 1
  unfold withInh
  rw [List.map_map]
  conv => rhs; rw [← List.map_id l]
  apply List.map_congr_left
  intro kv hkv
  simp only [Function.comp, List.nil_append, basedOn_erase, id]
  have := hinh kv hkv
  obtain ⟨k, c⟩ := kv
  obtain ⟨name, entries, shortDesc, longDesc, base, criteria, abstract, inheritors⟩ := c
  simp only at this
  simp only [eraseInh, this]

theorem toXml_eq (d : LDef) (x : XmlNode) (h : toXml d = .ok x) :
    ∃ date ts cs, d.date = some date ∧
      d.ptypes.mapM (fun kv => writeParameterType ((d.nsmap.find? (·.1 == d.nsPrefix)).map (·.2)) kv.2) = .ok ts ∧
      d.containers.mapM (fun kv => writeContainer ((d.nsmap.find? (·.1 == d.nsPrefix)).map (·.2)) kv.2) = .ok cs ∧
      x = docEl ((d.nsmap.find? (·.1 == d.nsPrefix)).map (·.2))
        (match d.spaceSystemName with | some n => if n.isEmpty then [] else [("name", n)] | none => [])
        (mkEl ((d.nsmap.find? (·.1 == d.nsPrefix)).map (·.2)) "Header"
          [("date", date), ("version", "1.0"), ("validationStatus", "Unknown")] [])
        ts (d.params.map (fun kv => writeParameter ((d.nsmap.find? (·.1 == d.nsPrefix)).map (·.2)) kv.2)) cs := by
  unfold toXml at h
  simp only [bind, Except.bind, pure, Except.pure] at h
  generalize (d.nsmap.find? (·.1 == d.nsPrefix)).map (·.2) = u at h ⊢
  cases hd : d.date with
  | none => simp [hd, throw, throwThe, MonadExceptOf.throw] at h
  | some date =>
    simp only [hd] at h
    by_cases hde : date.isEmpty = true
    · simp [hde, throw, throwThe, MonadExceptOf.throw] at h
    simp only [hde, Bool.false_eq_true, if_false] at h
    cases ht : d.ptypes.mapM (fun kv => writeParameterType u kv.2) with
    | error e => simp [ht] at h
    | ok ts =>
      simp only [ht] at h
      cases hc : d.containers.mapM (fun kv => writeContainer u kv.2) with
      | error e => simp [hc] at h
      | ok cs =>
        simp only [hc] at h; injection h with h; subst h
        exact ⟨date, ts, cs, rfl, rfl, rfl, rfl⟩


theorem expected_ok (d : LDef) (h : d.nsPrefix = none ∨ d.nsmap.any (·.1 == d.nsPrefix) = true) :
    NsCtx.expected { nsPrefix := d.nsPrefix, nsmap := d.nsmap } = .ok ((d.nsmap.find? (·.1 == d.nsPrefix)).map (·.2)) := by
  unfold NsCtx.expected
  cases hp : d.nsPrefix with
  | none => rfl
  | some p =>
    simp only
    rw [hp] at h
    rcases h with h | h
    · cases h
    · cases hf : d.nsmap.find? (·.1 == some p) with
      | none =>
        rw [List.find?_eq_none] at hf
        obtain ⟨a, ha, hak⟩ := List.any_eq_true.mp h
        exact absurd hak (hf a ha)
      | some kv => rfl

/-- **Writing a definition to XTCE XML and loading the document back gives the same definition** — parameter types
    (class, unit, encoding with calibrators and length specification, enumeration), parameters (type reference,
    descriptions), containers (entry order, base container, restriction criteria, abstract flag, descriptions,
    inheritor lists), header date, space-system name and namespace — for every definition in the regime `DefWF`. -/
theorem definition_roundtrip (hI : IntRoundTrip) (hV : FValRoundTrip) (d : LDef) (hwf : DefWF d) (x : XmlNode)
    (hw : toXml d = .ok x) :
    loadXtce { nsPrefix := d.nsPrefix, nsmap := d.nsmap } d.root x = .ok d := by
  obtain ⟨date, ts, cs, hdate, hts, hcs, hx⟩ := toXml_eq d x hw
  have hexp := expected_ok d hwf.ns
  generalize (d.nsmap.find? (·.1 == d.nsPrefix)).map (·.2) = u at *
  generalize hattrs : (match d.spaceSystemName with
    | some n => if n.isEmpty then [] else [("name", n)] | none => [] : List (String × String)) = attrs at hx
  -- parameter types
  obtain ⟨htf, htel⟩ := type_set_fold hI hV u d.ptypes hwf.typeKeys hwf.typesWF ts [] hts (by simpa using hwf.typesUnique)
  have htelems : (mkEl u "ParameterTypeSet" [] ts).elems = ts := by
    simp only [mkEl, XmlNode.elems, XmlNode.kids]; rw [List.filter_eq_self]; exact htel
  have hT : loadParameterTypeSet u x = .ok d.ptypes := by
    subst hx
    simp only [loadParameterTypeSet, find_typeSet, htelems, htf, List.nil_append]
  -- parameters
  have hpf := param_set_fold u d.ptypes d.params hwf.paramKeys hwf.paramsWF hwf.paramTypes []
    (by simpa using hwf.paramsUnique)
  have hpelems : (mkEl u "ParameterSet" [] (d.params.map (fun kv => writeParameter u kv.2))).elems
      = d.params.map (fun kv => writeParameter u kv.2) := by
    simp only [mkEl, XmlNode.elems, XmlNode.kids]; rw [List.filter_eq_self]
    intro y hy; obtain ⟨kv, _, rfl⟩ := List.mem_map.mp hy; rfl
  have hP : loadParameterSet u x d.ptypes = .ok d.params := by
    subst hx
    simp only [loadParameterSet, find_paramSet, hpelems, hpf, List.nil_append]
  -- containers
  obtain ⟨sk, sm, sn, sb⟩ := sorted_facts d.params d.containers [] hwf.sorted
  have hnames : (d.containers.map (·.2.name)).Nodup := by
    have h1 := sn (by simp)
    simp only [List.nil_append] at h1
    have : d.containers.map (·.2.name) = d.containers.map (·.1) := by
      apply List.map_congr_left; intro kv hkv; exact (sk kv hkv).symm
    rw [this]; exact h1
  have hcel : ∀ y ∈ cs, y.isElem = true := by
    refine mapM_all (fun kv : String × LContainer => writeContainer u kv.2) (fun b => b.isElem = true) d.containers ?_ cs hcs
    intro kv _ b hb
    obtain ⟨a, k, hbe, _⟩ := writeContainer_shape u kv.2 b hb
    rw [hbe]; rfl
  have hcelems : (mkEl u "ContainerSet" [] cs).elems = cs := by
    simp only [mkEl, XmlNode.elems, XmlNode.kids]; rw [List.filter_eq_self]; exact hcel
  have hfold := container_set_fold u attrs date ts (d.params.map (fun kv => writeParameter u kv.2)) cs d.containers hcs
    hnames d.params d.containers cs [] hcs hwf.sorted (by simp) (fun kv h => h)
  simp only [List.nil_append] at hfold
  have hkeysU : UniqueKeys d.containers := by
    have h1 := sn (by simp)
    simpa [UniqueKeys] using h1
  have hpop := populate_erased d.containers hkeysU
    (fun kv hkv b hb hbne => by simpa using sb kv hkv b hb hbne) hwf.inheritors
  have hC : loadContainerSet u x d.params = .ok d.containers := by
    subst hx
    simp only [loadContainerSet, find_containerSet, hcelems, hfold, hpop]
  have hdatex : (findFirst u [step "Header"] x).bind (·.attr? "date") = some date := by
    subst hx
    simp [docEl, findFirst, findAll, mkEl, XmlNode.kids, Step.matches, step, XmlNode.isElem, XmlNode.tag, XmlNode.ns,
      XmlNode.attr?, XmlNode.attrs]
  have hssn : x.attr? "name" = d.spaceSystemName := by
    subst hx
    subst hattrs
    have := hwf.ssn
    cases hs : d.spaceSystemName with
    | none => simp [docEl, mkEl, XmlNode.attr?, XmlNode.attrs]
    | some n =>
      have hne : n.isEmpty = false := by
        cases hh : n.isEmpty
        · rfl
        · rw [hs, String.isEmpty_iff.mp hh] at this; exact absurd rfl this
      simp [docEl, mkEl, XmlNode.attr?, XmlNode.attrs, hne]
  have hnorm := hwf.normal
  unfold cachesOf at hnorm
  simp only [loadXtce, hexp, loadDoc, hT, hP, hC, hdatex, hssn, bind, Except.bind, pure, Except.pure, hnorm]
  have hcond : (d.nsPrefix.isSome && !d.nsmap.any fun x => x.fst == d.nsPrefix) = false := by
    rcases hwf.ns with h | h
    · rw [h]; rfl
    · rw [h]; simp
  simp only [hcond, Bool.false_eq_true, if_false]
  rw [← hdate]

/-- `int(str(i)) == i` holds for the model's own printer and parser: no hypothesis is needed for integers. -/
theorem intRoundTrip : IntRoundTrip := fun i => readInt_repr i

/-- The whole-definition round trip with the integer hypothesis discharged: the only remaining assumption is that a
    float printed by `str` is read back by `float` as the same value (`FValRoundTrip`, CPython's shortest-repr
    guarantee; it is used for calibrator coefficients, spline points and looked-up sizes only). -/
theorem definition_roundtrip_main (hV : FValRoundTrip) (d : LDef) (hwf : DefWF d) (x : XmlNode) (hw : toXml d = .ok x) :
    loadXtce { nsPrefix := d.nsPrefix, nsmap := d.nsmap } d.root x = .ok d :=
  definition_roundtrip intRoundTrip hV d hwf x hw

/-! ### non-vacuity: a concrete definition inside the regime, and its round trip computed outright -/

def exEnc : Encoding :=
  .num { isFloat := false, size := 8, encoding := "unsigned", byteOrder := "mostSignificantByteFirst",
         cals := { default := none, contexts := [] } }

def exType : LPType := { tag := "IntegerParameterType", name := "U8_T", unit := some "counts", enc := exEnc }

def exRoot : LContainer :=
  { name := "ROOT", entries := [.param "APID"], shortDesc := some "", longDesc := none, base := none, criteria := [],
    abstract := true, inheritors := ["CHILD"] }

def exChild : LContainer :=
  { name := "CHILD", entries := [.param "X", .cont "ROOT"], shortDesc := none, longDesc := some "child packet",
    base := some "ROOT",
    criteria := [.comparison { requiredValue := "1", ref := "APID", op := "==", useCal := true }],
    abstract := false, inheritors := [] }

def exDef : LDef :=
  { ptypes := [("U8_T", exType)],
    params := [("APID", { name := "APID", typeName := "U8_T", shortDesc := none, longDesc := none }),
               ("X", { name := "X", typeName := "U8_T", shortDesc := some "x", longDesc := some "an x" })],
    containers := [("ROOT", exRoot), ("CHILD", exChild)],
    root := "ROOT", date := some "2024-01-01T00:00:00", spaceSystemName := some "SYS",
    nsPrefix := some "xtce", nsmap := [(some "xtce", "http://www.omg.org/spec/XTCE/20180204")] }

theorem exDef_wf : DefWF exDef where
  ns := Or.inr (by decide)
  ssn := by decide
  typeKeys := by intro kv h; simp [exDef] at h; subst h; rfl
  typesUnique := by simp [UniqueKeys, exDef]
  typesWF := by
    intro kv h; simp [exDef] at h; subst h
    left
    exact { tag := by decide, unit := by decide,
            enc := by
              show CalibsWF _ ∧ _
              exact ⟨⟨fun d h => (by cases h), fun x h => (by cases h)⟩, fun h => (by cases h)⟩,
            strOk := fun h => absurd h (by decide), binOk := fun h => absurd h (by decide),
            noEnum := rfl, noEpoch := rfl, noOffset := rfl }
  paramKeys := by intro kv h; simp [exDef] at h; rcases h with rfl | rfl <;> rfl
  paramsUnique := by simp [UniqueKeys, exDef]
  paramsWF := by intro kv h; simp [exDef] at h; rcases h with rfl | rfl <;> simp [ParamWF]
  paramTypes := by intro kv h; simp [exDef] at h; rcases h with rfl | rfl <;> rfl
  sorted := by
    refine ⟨rfl, ⟨by decide, Or.inl ⟨rfl, rfl⟩, ?_⟩, rfl, rfl, ⟨by decide, Or.inr ⟨"ROOT", rfl, by decide, rfl, Or.inr ?_⟩, ?_⟩,
      rfl, trivial⟩
    · intro e he; simp [exDef, exRoot] at he; subst he; rfl
    · exact Or.inl ⟨[{ requiredValue := "1", ref := "APID", op := "==", useCal := true }], rfl, by simp,
        by intro c hc; simp at hc; subst hc; rfl⟩
    · intro e he; simp [exDef, exChild] at he; rcases he with rfl | rfl <;> rfl
  inheritors := by intro kv h; simp [exDef] at h; rcases h with rfl | rfl <;> rfl
  normal := by rfl

/-- The round trip of the example, computed by the kernel (no hypotheses about number printing needed here). -/
example : (toXml exDef).toOption.bind (fun x =>
    (loadXtce { nsPrefix := exDef.nsPrefix, nsmap := exDef.nsmap } exDef.root x).toOption.map
      (fun d' => d'.containers.map (fun kv => (kv.1, kv.2.inheritors, kv.2.base))))
    = some [("ROOT", ["CHILD"], none), ("CHILD", [], some "ROOT")] := by decide +kernel


end Spp.C09
