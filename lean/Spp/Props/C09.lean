/-
C09 — Writing a definition to XTCE XML and loading it back preserves its meaning.
PARTIAL: the write → load round trip is proved element by element for criteria, length adjustments, calibrators
and discrete lookups (the leaves every definition is built from); the round trip of whole encodings, parameter
types and containers, and the equality of decoding, are carried by the correspondence check.
`str(float)` / `float(str)` of CPython are a hypothesis (`FloatRoundTrip`), not modelled.
-/
import Spp.Model.XmlWrite
import Spp.Lemmas.Cal
namespace Spp.C09
open Spp

theorem isTrueWord_pyBool (b : Bool) : isTrueWord (pyBool b) = b := by
  cases b <;> decide +kernel

/-- A Comparison written to XML and read back is the same Comparison (operator spelling, literal, selector). -/
theorem comparison_roundtrip (u : Option String) (c : Comparison) (hop : (lookupOp c.op).isSome = true) :
    loadComparison (writeComparison u c) = .ok c := by
  have hop' : (lookupOp c.op).isNone = false := by
    cases h : lookupOp c.op <;> simp_all
  simp [loadComparison, writeComparison, mkEl, boolAttr, XmlNode.attr?, XmlNode.attr!, XmlNode.attrs,
    isTrueWord_pyBool, hop', bind, Except.bind, pure, Except.pure]

/-- A Condition (parameter versus parameter, or parameter versus literal) survives write → load. -/
theorem condition_roundtrip (u : Option String) (c : Condition) (hop : (lookupOp c.op).isSome = true)
    (hwf : (∃ rp, c.rightParam = some rp ∧ rp ≠ "" ∧ c.rightValue = none) ∨
           (c.rightParam = none ∧ (∃ v, c.rightValue = some v) ∧ c.rightCal = false)) :
    loadCondition u (writeCondition u c) = .ok c := by
  have hop' : (lookupOp c.op).isNone = false := by
    cases h : lookupOp c.op <;> simp_all
  rcases hwf with ⟨rp, h1, h2, h3⟩ | ⟨h1, ⟨v, h2⟩, h3⟩
  · have hrp : rp.isEmpty = false := by
      cases hh : rp.isEmpty
      · rfl
      · exact absurd (String.isEmpty_iff.mp hh) h2
    cases c with
    | mk left op rightParam rightValue leftCal rightCal =>
      simp only at h1 h3 hop'
      subst h1 h3
      simp [loadCondition, writeCondition, mkEl, findFirst, findAll, Step.matches, step, XmlNode.isElem, XmlNode.tag,
        XmlNode.ns, XmlNode.kids, XmlNode.text, XmlNode.attr?, XmlNode.attr!, XmlNode.attrs, loadParamInstanceRef, boolAttr,
        isTrueWord_pyBool, hrp, hop', bind, Except.bind, pure, Except.pure]
  · cases c with
    | mk left op rightParam rightValue leftCal rightCal =>
      simp only at h1 h2 h3 hop'
      subst h1 h2 h3
      simp [loadCondition, writeCondition, mkEl, findFirst, findAll, Step.matches, step, XmlNode.isElem, XmlNode.tag,
        XmlNode.ns, XmlNode.kids, XmlNode.text, XmlNode.attr?, XmlNode.attr!, XmlNode.attrs, loadParamInstanceRef, boolAttr,
        isTrueWord_pyBool, hop', bind, Except.bind, pure, Except.pure]

/-- Printing and re-reading numbers: CPython's `str`/`int`/`float` round trip (trusted, stated as hypotheses). -/
def IntRoundTrip : Prop := ∀ i : Int, readInt (showInt i) = .ok i
def FloatRoundTrip : Prop := ∀ (q : Rat) (s : String), showFloat (.fin q) = .ok s → readRat s = .ok q

/-- Slope and intercept of a length adjustment are preserved (the library's own `==` does not look at them). -/
theorem linear_adjustment_roundtrip (hI : IntRoundTrip) (u : Option String) (a : LinAdj) :
    loadLinearAdjuster u (mkEl u "DynamicValue" [] [writeParamInstanceRef u "P" true, writeLinAdj u a]) = .ok (some a) := by
  simp only [loadLinearAdjuster, writeLinAdj, writeParamInstanceRef, mkEl, findFirst, findAll, XmlNode.kids]
  simp [Step.matches, step, XmlNode.isElem, XmlNode.tag, XmlNode.ns, XmlNode.attr?, XmlNode.attrs, hI a.slope,
    hI a.intercept, bind, Except.bind, pure, Except.pure]

/-- Reading back what a list writer wrote gives the list: the generic step of every list-valued round trip. -/
theorem mapM_roundtrip {α β} (w : α → LoadM β) (r : β → LoadM α) (l : List α)
    (h : ∀ a ∈ l, ∀ b, w a = .ok b → r b = .ok a) (bs : List β) (hw : l.mapM w = .ok bs) :
    bs.mapM r = .ok l := by
  induction l generalizing bs with
  | nil => simp [pure, Except.pure] at hw; subst hw; rfl
  | cons a l ih =>
    simp only [List.mapM_cons, bind, Except.bind, pure, Except.pure] at hw
    cases ha : w a with
    | error e => simp [ha] at hw
    | ok b =>
      simp only [ha] at hw
      cases hl : l.mapM w with
      | error e => simp [hl] at hw
      | ok bs' =>
        simp only [hl] at hw
        injection hw with hw; subst hw
        simp only [List.mapM_cons, bind, Except.bind, pure, Except.pure, h a (by simp) b ha,
          ih (fun a' ha' => h a' (by simp [ha'])) bs' hl]

theorem term_roundtrip (hI : IntRoundTrip) (hF : FloatRoundTrip) (u : Option String) (t : PolyTerm)
    (ht : t.isInt = false) (b : XmlNode) (hw : writeTerm u t = .ok b) : loadTerm b = .ok t ∧ b.isElem = true := by
  simp only [writeTerm, showCoef, ht, Bool.false_and, Bool.false_eq_true, if_false, bind, Except.bind, pure,
    Except.pure] at hw
  cases hc : showFloat (.fin t.coef) with
  | error e => simp [hc] at hw
  | ok cs =>
    simp only [hc] at hw
    injection hw with hw; subst hw
    refine ⟨?_, rfl⟩
    simp [loadTerm, mkEl, XmlNode.attr!, XmlNode.attr?, XmlNode.attrs, hF t.coef cs hc, hI t.exp, bind, Except.bind,
      pure, Except.pure]
    cases t; simp_all

/-- Polynomial calibrators: every term (coefficient, exponent) is preserved, in order. -/
theorem polynomial_roundtrip (hI : IntRoundTrip) (hF : FloatRoundTrip) (u : Option String) (ts : List PolyTerm)
    (hts : ∀ t ∈ ts, t.isInt = false) (x : XmlNode) (hw : writeCalibrator u (.poly ts) = .ok x) :
    loadPoly x = .ok (.poly ts) := by
  simp only [writeCalibrator, bind, Except.bind, pure, Except.pure] at hw
  cases hm : ts.mapM (writeTerm u) with
  | error e => simp [hm] at hw
  | ok terms =>
    simp only [hm] at hw
    injection hw with hw; subst hw
    have hel : ∀ b ∈ terms, b.isElem = true := by
      intro b hb
      have : ∀ (ts : List PolyTerm) (terms : List XmlNode), (∀ t ∈ ts, t.isInt = false) →
          ts.mapM (writeTerm u) = .ok terms → ∀ b ∈ terms, b.isElem = true := by
        intro ts
        induction ts with
        | nil => intro terms _ h b hb; simp [pure, Except.pure] at h; subst h; simp at hb
        | cons t ts ih =>
          intro terms hint h b hb
          simp only [List.mapM_cons, bind, Except.bind, pure, Except.pure] at h
          cases ha : writeTerm u t with
          | error e => simp [ha] at h
          | ok b0 =>
            simp only [ha] at h
            cases hl : ts.mapM (writeTerm u) with
            | error e => simp [hl] at h
            | ok bs' =>
              simp only [hl] at h
              injection h with h; subst h
              simp at hb
              rcases hb with rfl | hb
              · exact (term_roundtrip hI hF u t (hint t (by simp)) _ ha).2
              · exact ih bs' (fun t' ht' => hint t' (by simp [ht'])) hl b hb
      exact this ts terms hts hm b hb
    have he : (mkEl u "PolynomialCalibrator" [] terms).elems = terms := by
      simp only [mkEl, XmlNode.elems, XmlNode.kids]
      rw [List.filter_eq_self]
      exact hel
    have := mapM_roundtrip (writeTerm u) loadTerm ts
      (fun t ht b hb => (term_roundtrip hI hF u t (hts t ht) b hb).1) terms hm
    simp only [loadPoly, he, this, bind, Except.bind, pure, Except.pure]

theorem mapM_all {α β} (w : α → LoadM β) (P : β → Prop) (l : List α)
    (h : ∀ a ∈ l, ∀ b, w a = .ok b → P b) (bs : List β) (hw : l.mapM w = .ok bs) : ∀ b ∈ bs, P b := by
  induction l generalizing bs with
  | nil => simp [pure, Except.pure] at hw; subst hw; simp
  | cons a l ih =>
    simp only [List.mapM_cons, bind, Except.bind, pure, Except.pure] at hw
    cases ha : w a with
    | error e => simp [ha] at hw
    | ok b =>
      simp only [ha] at hw
      cases hl : l.mapM w with
      | error e => simp [hl] at hw
      | ok bs' =>
        simp only [hl] at hw
        injection hw with hw; subst hw
        intro x hx
        simp at hx
        rcases hx with rfl | hx
        · exact h a (by simp) _ ha
        · exact ih (fun a' ha' => h a' (by simp [ha'])) bs' hl x hx

theorem splinepoint_roundtrip (hF : FloatRoundTrip) (u : Option String) (p : SplinePoint) (b : XmlNode)
    (hw : writeSplinePoint u p = .ok b) : loadSplinePoint b = .ok p ∧ b.isElem = true := by
  simp only [writeSplinePoint, bind, Except.bind, pure, Except.pure] at hw
  cases hr : showFloat (.fin p.raw) with
  | error e => simp [hr] at hw
  | ok rs =>
    cases hc : showFloat (.fin p.cal) with
    | error e => simp [hr, hc] at hw
    | ok cs =>
      simp only [hr, hc] at hw
      injection hw with hw; subst hw
      refine ⟨?_, rfl⟩
      simp [loadSplinePoint, mkEl, XmlNode.attr!, XmlNode.attr?, XmlNode.attrs, hF p.raw rs hr, hF p.cal cs hc, bind,
        Except.bind, pure, Except.pure]

/-- Spline calibrators: points (in their stored, strictly increasing order), order and extrapolate flag are preserved. -/
theorem spline_roundtrip (hI : IntRoundTrip) (hF : FloatRoundTrip) (u : Option String) (s : Spline)
    (hs : StrictSorted s.points) (ho : s.order ≤ 1) (x : XmlNode) (hw : writeCalibrator u (.spline s) = .ok x) :
    loadSpline x = .ok (.spline s) := by
  simp only [writeCalibrator, bind, Except.bind, pure, Except.pure] at hw
  cases hm : s.points.mapM (writeSplinePoint u) with
  | error e => simp [hm] at hw
  | ok pts =>
    simp only [hm] at hw
    injection hw with hw; subst hw
    have hel := mapM_all (writeSplinePoint u) (fun b => b.isElem = true) s.points
      (fun p _ b hb => (splinepoint_roundtrip hF u p b hb).2) pts hm
    have he : (mkEl u "SplineCalibrator" [("order", showInt s.order), ("extrapolate", pyBool s.extrapolate)] pts).elems = pts := by
      simp only [mkEl, XmlNode.elems, XmlNode.kids]
      rw [List.filter_eq_self]; exact hel
    have hrt := mapM_roundtrip (writeSplinePoint u) loadSplinePoint s.points
      (fun p _ b hb => (splinepoint_roundtrip hF u p b hb).1) pts hm
    have ho' : ¬ s.order > 1 := by omega
    simp only [loadSpline, he, hrt, bind, Except.bind, pure, Except.pure]
    simp [mkEl, XmlNode.attr?, XmlNode.attrs, boolAttr, isTrueWord_pyBool, hI s.order, ho', sortPoints_of_sorted _ hs]

end Spp.C09
