/-
C09 — Writing a definition to XTCE XML and loading it back preserves its meaning.
PARTIAL: the write → load round trip is proved element by element for criteria, length adjustments, calibrators
and discrete lookups (the leaves every definition is built from); the round trip of whole encodings, parameter
types and containers, and the equality of decoding, are carried by the correspondence check.
`str(float)` / `float(str)` of CPython are a hypothesis (`FloatRoundTrip`), not modelled.
-/
import Spp.Model.XmlWrite
import Spp.Lemmas.Cal
import Spp.Lemmas.Hex
namespace Spp.C09
open Spp

theorem isTrueWord_pyBool (b : Bool) : isTrueWord (pyBool b) = b := by
  cases b <;> decide +kernel

/-- Text that is written and parsed again: the empty string comes back as "no text", which the loader of a
    `<Value>` reads as the empty literal. -/
theorem textOf_getD (v : String) : (textOf v).getD "" = v := by
  unfold textOf
  by_cases h : v.isEmpty = true
  · simp [h, String.isEmpty_iff.mp h]
  · simp [h]

/-- A Comparison written to XML and read back is the same Comparison (operator spelling, literal, selector). -/
theorem comparison_roundtrip (u : Option String) (c : Comparison) (hop : (lookupOp c.op).isSome = true) :
    loadComparison (writeComparison u c) = .ok c := by
  have hop' : (lookupOp c.op).isNone = false := by
    cases h : lookupOp c.op <;> simp_all
  simp [loadComparison, writeComparison, mkEl, boolAttr, XmlNode.attr?, XmlNode.attr!, XmlNode.attrs,
    isTrueWord_pyBool, hop', bind, Except.bind, pure, Except.pure]

/-- A Condition (parameter versus parameter, or parameter versus literal) survives write → load. -/
theorem condition_roundtrip (u : Option String) (c : Condition) (hop : (lookupOp c.op).isSome = true)
    (hwf : (∃ rp, c.rightParam = some rp ∧ rp ≠ "" ∧ c.rightValue = none) ∨
           (c.rightParam = none ∧ (∃ v, c.rightValue = some v) ∧ c.rightCal = false)) :
    loadCondition u (writeCondition u c) = .ok c := by
  have hop' : (lookupOp c.op).isNone = false := by
    cases h : lookupOp c.op <;> simp_all
  rcases hwf with ⟨rp, h1, h2, h3⟩ | ⟨h1, ⟨v, h2⟩, h3⟩
  · have hrp : rp.isEmpty = false := by
      cases hh : rp.isEmpty
      · rfl
      · exact absurd (String.isEmpty_iff.mp hh) h2
    cases c with
    | mk left op rightParam rightValue leftCal rightCal =>
      simp only at h1 h3 hop'
      subst h1 h3
      simp [loadCondition, condFromParts, writeCondition, mkEl, findFirst, findAll, Step.matches, step, XmlNode.isElem, XmlNode.tag,
        XmlNode.ns, XmlNode.kids, XmlNode.text, XmlNode.attr?, XmlNode.attr!, XmlNode.attrs, loadParamInstanceRef, boolAttr,
        isTrueWord_pyBool, hrp, hop', bind, Except.bind, pure, Except.pure]
  · cases c with
    | mk left op rightParam rightValue leftCal rightCal =>
      simp only at h1 h2 h3 hop'
      subst h1 h2 h3
      simp [loadCondition, condFromParts, writeCondition, mkEl, findFirst, findAll, Step.matches, step, XmlNode.isElem, XmlNode.tag,
        XmlNode.ns, XmlNode.kids, XmlNode.text, XmlNode.attr?, XmlNode.attr!, XmlNode.attrs, loadParamInstanceRef, boolAttr,
        isTrueWord_pyBool, hop', textOf_getD, bind, Except.bind, pure, Except.pure]

/-- Printing and re-reading numbers: CPython's `str`/`int`/`float` round trip (trusted, stated as hypotheses). -/
def IntRoundTrip : Prop := ∀ i : Int, readInt (showInt i) = .ok i
def FloatRoundTrip : Prop := ∀ (q : Rat) (s : String), showFloat (.fin q) = .ok s → readRat s = .ok q

/-- Slope and intercept of a length adjustment are preserved (the library's own `==` does not look at them). -/
theorem linear_adjustment_roundtrip (hI : IntRoundTrip) (u : Option String) (a : LinAdj) :
    loadLinearAdjuster u (mkEl u "DynamicValue" [] [writeParamInstanceRef u "P" true, writeLinAdj u a]) = .ok (some a) := by
  simp only [loadLinearAdjuster, writeLinAdj, writeParamInstanceRef, mkEl, findFirst, findAll, XmlNode.kids]
  simp [Step.matches, step, XmlNode.isElem, XmlNode.tag, XmlNode.ns, XmlNode.attr?, XmlNode.attrs, hI a.slope,
    hI a.intercept, bind, Except.bind, pure, Except.pure]

/-- Reading back what a list writer wrote gives the list: the generic step of every list-valued round trip. -/
theorem mapM_roundtrip {α β} (w : α → LoadM β) (r : β → LoadM α) (l : List α)
    (h : ∀ a ∈ l, ∀ b, w a = .ok b → r b = .ok a) (bs : List β) (hw : l.mapM w = .ok bs) :
    bs.mapM r = .ok l := by
  induction l generalizing bs with
  | nil => simp [pure, Except.pure] at hw; subst hw; rfl
  | cons a l ih =>
    simp only [List.mapM_cons, bind, Except.bind, pure, Except.pure] at hw
    cases ha : w a with
    | error e => simp [ha] at hw
    | ok b =>
      simp only [ha] at hw
      cases hl : l.mapM w with
      | error e => simp [hl] at hw
      | ok bs' =>
        simp only [hl] at hw
        injection hw with hw; subst hw
        simp only [List.mapM_cons, bind, Except.bind, pure, Except.pure, h a (by simp) b ha,
          ih (fun a' ha' => h a' (by simp [ha'])) bs' hl]

theorem term_roundtrip (hI : IntRoundTrip) (hF : FloatRoundTrip) (u : Option String) (t : PolyTerm)
    (ht : t.isInt = false) (b : XmlNode) (hw : writeTerm u t = .ok b) : loadTerm b = .ok t ∧ b.isElem = true := by
  simp only [writeTerm, showCoef, ht, Bool.false_and, Bool.false_eq_true, if_false, bind, Except.bind, pure,
    Except.pure] at hw
  cases hc : showFloat (.fin t.coef) with
  | error e => simp [hc] at hw
  | ok cs =>
    simp only [hc] at hw
    injection hw with hw; subst hw
    refine ⟨?_, rfl⟩
    simp [loadTerm, mkEl, XmlNode.attr!, XmlNode.attr?, XmlNode.attrs, hF t.coef cs hc, hI t.exp, bind, Except.bind,
      pure, Except.pure]
    cases t; simp_all

/-- Polynomial calibrators: every term (coefficient, exponent) is preserved, in order. -/
theorem polynomial_roundtrip (hI : IntRoundTrip) (hF : FloatRoundTrip) (u : Option String) (ts : List PolyTerm)
    (hts : ∀ t ∈ ts, t.isInt = false) (x : XmlNode) (hw : writeCalibrator u (.poly ts) = .ok x) :
    loadPoly x = .ok (.poly ts) := by
  simp only [writeCalibrator, bind, Except.bind, pure, Except.pure] at hw
  cases hm : ts.mapM (writeTerm u) with
  | error e => simp [hm] at hw
  | ok terms =>
    simp only [hm] at hw
    injection hw with hw; subst hw
    have hel : ∀ b ∈ terms, b.isElem = true := by
      intro b hb
      have : ∀ (ts : List PolyTerm) (terms : List XmlNode), (∀ t ∈ ts, t.isInt = false) →
          ts.mapM (writeTerm u) = .ok terms → ∀ b ∈ terms, b.isElem = true := by
        intro ts
        induction ts with
        | nil => intro terms _ h b hb; simp [pure, Except.pure] at h; subst h; simp at hb
        | cons t ts ih =>
          intro terms hint h b hb
          simp only [List.mapM_cons, bind, Except.bind, pure, Except.pure] at h
          cases ha : writeTerm u t with
          | error e => simp [ha] at h
          | ok b0 =>
            simp only [ha] at h
            cases hl : ts.mapM (writeTerm u) with
            | error e => simp [hl] at h
            | ok bs' =>
              simp only [hl] at h
              injection h with h; subst h
              simp at hb
              rcases hb with rfl | hb
              · exact (term_roundtrip hI hF u t (hint t (by simp)) _ ha).2
              · exact ih bs' (fun t' ht' => hint t' (by simp [ht'])) hl b hb
      exact this ts terms hts hm b hb
    have he : (mkEl u "PolynomialCalibrator" [] terms).elems = terms := by
      simp only [mkEl, XmlNode.elems, XmlNode.kids]
      rw [List.filter_eq_self]
      exact hel
    have := mapM_roundtrip (writeTerm u) loadTerm ts
      (fun t ht b hb => (term_roundtrip hI hF u t (hts t ht) b hb).1) terms hm
    simp only [loadPoly, he, this, bind, Except.bind, pure, Except.pure]

theorem mapM_all {α β} (w : α → LoadM β) (P : β → Prop) (l : List α)
    (h : ∀ a ∈ l, ∀ b, w a = .ok b → P b) (bs : List β) (hw : l.mapM w = .ok bs) : ∀ b ∈ bs, P b := by
  induction l generalizing bs with
  | nil => simp [pure, Except.pure] at hw; subst hw; simp
  | cons a l ih =>
    simp only [List.mapM_cons, bind, Except.bind, pure, Except.pure] at hw
    cases ha : w a with
    | error e => simp [ha] at hw
    | ok b =>
      simp only [ha] at hw
      cases hl : l.mapM w with
      | error e => simp [hl] at hw
      | ok bs' =>
        simp only [hl] at hw
        injection hw with hw; subst hw
        intro x hx
        simp at hx
        rcases hx with rfl | hx
        · exact h a (by simp) _ ha
        · exact ih (fun a' ha' => h a' (by simp [ha'])) bs' hl x hx

theorem splinepoint_roundtrip (hF : FloatRoundTrip) (u : Option String) (p : SplinePoint) (b : XmlNode)
    (hw : writeSplinePoint u p = .ok b) : loadSplinePoint b = .ok p ∧ b.isElem = true := by
  simp only [writeSplinePoint, bind, Except.bind, pure, Except.pure] at hw
  cases hr : showFloat (.fin p.raw) with
  | error e => simp [hr] at hw
  | ok rs =>
    cases hc : showFloat (.fin p.cal) with
    | error e => simp [hr, hc] at hw
    | ok cs =>
      simp only [hr, hc] at hw
      injection hw with hw; subst hw
      refine ⟨?_, rfl⟩
      simp [loadSplinePoint, mkEl, XmlNode.attr!, XmlNode.attr?, XmlNode.attrs, hF p.raw rs hr, hF p.cal cs hc, bind,
        Except.bind, pure, Except.pure]

/-- Spline calibrators: points (in their stored, strictly increasing order), order and extrapolate flag are preserved. -/
theorem spline_roundtrip (hI : IntRoundTrip) (hF : FloatRoundTrip) (u : Option String) (s : Spline)
    (hs : StrictSorted s.points) (ho : s.order ≤ 1) (x : XmlNode) (hw : writeCalibrator u (.spline s) = .ok x) :
    loadSpline x = .ok (.spline s) := by
  simp only [writeCalibrator, bind, Except.bind, pure, Except.pure] at hw
  cases hm : s.points.mapM (writeSplinePoint u) with
  | error e => simp [hm] at hw
  | ok pts =>
    simp only [hm] at hw
    injection hw with hw; subst hw
    have hel := mapM_all (writeSplinePoint u) (fun b => b.isElem = true) s.points
      (fun p _ b hb => (splinepoint_roundtrip hF u p b hb).2) pts hm
    have he : (mkEl u "SplineCalibrator" [("order", showInt s.order), ("extrapolate", pyBool s.extrapolate)] pts).elems = pts := by
      simp only [mkEl, XmlNode.elems, XmlNode.kids]
      rw [List.filter_eq_self]; exact hel
    have hrt := mapM_roundtrip (writeSplinePoint u) loadSplinePoint s.points
      (fun p _ b hb => (splinepoint_roundtrip hF u p b hb).1) pts hm
    have ho' : ¬ s.order > 1 := by omega
    simp only [loadSpline, he, hrt, bind, Except.bind, pure, Except.pure]
    simp [mkEl, XmlNode.attr?, XmlNode.attrs, boolAttr, isTrueWord_pyBool, hI s.order, ho', sortPoints_of_sorted _ hs]

/-! ### lists of comparisons, discrete lookups, context calibrators -/

/-- The stronger form of the float hypothesis: the re-read value is the very same finite float. -/
def FValRoundTrip : Prop := ∀ (q : Rat) (s : String), showFloat (.fin q) = .ok s → readFloat s = .ok (.fin q)

theorem FValRoundTrip.toFloat (h : FValRoundTrip) : FloatRoundTrip := by
  intro q s hs
  simp [readRat, h q s hs, bind, Except.bind, pure, Except.pure]

theorem comparisons_roundtrip (u : Option String) (cs : List Comparison)
    (hop : ∀ c ∈ cs, (lookupOp c.op).isSome = true) :
    (cs.map (writeComparison u)).mapM loadComparison = .ok cs := by
  induction cs with
  | nil => rfl
  | cons c cs ih =>
    simp only [List.map_cons, List.mapM_cons, bind, Except.bind, pure, Except.pure,
      comparison_roundtrip u c (hop c (by simp)), ih (fun c' h => hop c' (by simp [h]))]

theorem writeComparison_isElem (u : Option String) (c : Comparison) : (writeComparison u c).isElem = true := rfl

theorem matches_comparison (u : Option String) (c : Comparison) :
    (step "Comparison").matches u (writeComparison u c) = true := by
  simp [Step.matches, step, writeComparison, mkEl, XmlNode.isElem, XmlNode.tag, XmlNode.ns]

theorem filter_comparisons (u : Option String) (cs : List Comparison) :
    (cs.map (writeComparison u)).filter ((step "Comparison").matches u) = cs.map (writeComparison u) := by
  rw [List.filter_eq_self]
  intro x hx
  obtain ⟨c, _, rfl⟩ := List.mem_map.mp hx
  exact matches_comparison u c

/-- A discrete lookup entry (value plus its one or several comparisons) survives write → load. -/
theorem discrete_lookup_roundtrip (hV : FValRoundTrip) (u : Option String) (d : DiscreteLookup) (q : Rat)
    (hv : d.value = .flt (.fin q)) (hne : d.criteria ≠ [])
    (hop : ∀ c ∈ d.criteria, (lookupOp c.op).isSome = true) (x : XmlNode)
    (hw : writeDiscreteLookup u d = .ok x) : loadDiscreteLookup u x = .ok d := by
  obtain ⟨crit, value⟩ := d
  simp only at hv hne hop
  subst hv
  simp only [writeDiscreteLookup, showNum, bind, Except.bind, pure, Except.pure] at hw
  cases hs : showFloat (.fin q) with
  | error e => simp [hs] at hw
  | ok vs =>
    simp only [hs] at hw
    injection hw with hw; subst hw
    have hrd := hV q vs hs
    by_cases hlen : crit.length > 1
    · simp only [hlen, if_true]
      have hel : (mkEl u "ComparisonList" [] (crit.map (writeComparison u))).elems = crit.map (writeComparison u) := by
        simp only [mkEl, XmlNode.elems, XmlNode.kids]
        rw [List.filter_eq_self]
        intro x hx
        obtain ⟨c, _, rfl⟩ := List.mem_map.mp hx
        rfl
      have hff : findFirst u [step "ComparisonList"]
          (mkEl u "DiscreteLookup" [("value", vs)] [mkEl u "ComparisonList" [] (crit.map (writeComparison u))])
          = some (mkEl u "ComparisonList" [] (crit.map (writeComparison u))) := by
        simp [findFirst, findAll, mkEl, XmlNode.kids, Step.matches, step, XmlNode.isElem, XmlNode.tag, XmlNode.ns]
      simp only [loadDiscreteLookup, hff, hel, comparisons_roundtrip u crit hop, bind, Except.bind, pure, Except.pure]
      simp [mkEl, XmlNode.attr!, XmlNode.attr?, XmlNode.attrs, hrd]
    · simp only [hlen, if_false]
      match crit, hne, hlen, hop with
      | [c], _, _, hop =>
        have hc := comparison_roundtrip u c (hop c (by simp))
        have h1 : findFirst u [step "ComparisonList"]
            (mkEl u "DiscreteLookup" [("value", vs)] ([c].map (writeComparison u))) = none := by
          simp [findFirst, findAll, mkEl, XmlNode.kids, Step.matches, step, XmlNode.isElem, XmlNode.tag, writeComparison]
        have h2 : findFirst u [step "Comparison"]
            (mkEl u "DiscreteLookup" [("value", vs)] ([c].map (writeComparison u))) = some (writeComparison u c) := by
          simp [findFirst, findAll, mkEl, XmlNode.kids, Step.matches, step, XmlNode.isElem, XmlNode.tag, XmlNode.ns,
            writeComparison]
        simp only [loadDiscreteLookup, h1, h2, hc, bind, Except.bind, pure, Except.pure]
        simp [mkEl, XmlNode.attr!, XmlNode.attr?, XmlNode.attrs, hrd]
      | [], hne, _, _ => exact absurd rfl hne
      | _ :: _ :: _, _, hlen, _ => exact absurd (by simp) hlen

/-- What `writeCalibrator` produces is an element whose tag names the calibrator kind. -/
theorem writeCalibrator_shape (u : Option String) (c : Calibrator) (x : XmlNode) (hw : writeCalibrator u c = .ok x) :
    ∃ a k, x = .elem u (match c with | .spline _ => "SplineCalibrator" | .poly _ => "PolynomialCalibrator") a none k := by
  cases c with
  | spline s =>
    simp only [writeCalibrator, bind, Except.bind, pure, Except.pure] at hw
    cases hm : s.points.mapM (writeSplinePoint u) with
    | error e => simp [hm] at hw
    | ok pts => simp only [hm] at hw; injection hw with hw; subst hw; exact ⟨_, _, rfl⟩
  | poly ts =>
    simp only [writeCalibrator, bind, Except.bind, pure, Except.pure] at hw
    cases hm : ts.mapM (writeTerm u) with
    | error e => simp [hm] at hw
    | ok terms => simp only [hm] at hw; injection hw with hw; subst hw; exact ⟨_, _, rfl⟩

/-- Well-formed calibrators: what the loader itself can produce (sorted points, order ≤ 1, float coefficients). -/
def CalWF : Calibrator → Prop
  | .spline s => StrictSorted s.points ∧ s.order ≤ 1
  | .poly ts => ∀ t ∈ ts, t.isInt = false

/-- A calibrator wrapped in `<wrapper>` (DefaultCalibrator or Calibrator) is found again and re-read unchanged. -/
theorem wrapped_calibrator_roundtrip (hI : IntRoundTrip) (hF : FloatRoundTrip) (u : Option String) (c : Calibrator)
    (hc : CalWF c) (x : XmlNode) (hw : writeCalibrator u c = .ok x) (wrapper : String) :
    (match c with
     | .spline _ => findFirst u [step wrapper, step "SplineCalibrator"] (mkEl u "P" [] [mkEl u wrapper [] [x]]) = some x
     | .poly _ => findFirst u [step wrapper, step "SplineCalibrator"] (mkEl u "P" [] [mkEl u wrapper [] [x]]) = none ∧
                  findFirst u [step wrapper, step "PolynomialCalibrator"] (mkEl u "P" [] [mkEl u wrapper [] [x]]) = some x) ∧
    (match c with | .spline _ => loadSpline x | .poly _ => loadPoly x) = .ok c := by
  obtain ⟨a, k, hx⟩ := writeCalibrator_shape u c x hw
  cases c with
  | spline s =>
    refine ⟨?_, spline_roundtrip hI hF u s hc.1 hc.2 x hw⟩
    subst hx
    simp [findFirst, findAll, mkEl, XmlNode.kids, Step.matches, step, XmlNode.isElem, XmlNode.tag, XmlNode.ns]
  | poly ts =>
    refine ⟨?_, polynomial_roundtrip hI hF u ts hc x hw⟩
    subst hx
    simp [findFirst, findAll, mkEl, XmlNode.kids, Step.matches, step, XmlNode.isElem, XmlNode.tag, XmlNode.ns]

/-! ### boolean expressions: conditions in ANDed / ORed groups nested to any depth -/

/-- The two shapes of a condition the loader produces (right-hand side a parameter, or a literal). -/
def CondWF (c : Condition) : Prop :=
  (lookupOp c.op).isSome = true ∧
  ((∃ rp, c.rightParam = some rp ∧ rp ≠ "" ∧ c.rightValue = none) ∨
   (c.rightParam = none ∧ (∃ v, c.rightValue = some v) ∧ c.rightCal = false))

mutual
def andedWF : Anded → Prop
  | .mk conds ors => (∀ c ∈ conds, CondWF c) ∧ oredsWF ors
def oredsWF : List Ored → Prop
  | [] => True
  | o :: os => oredWF o ∧ oredsWF os
def oredWF : Ored → Prop
  | .mk conds ands => (∀ c ∈ conds, CondWF c) ∧ andedsWF ands
def andedsWF : List Anded → Prop
  | [] => True
  | a :: as => andedWF a ∧ andedsWF as
end

mutual
def andedDepth : Anded → Nat
  | .mk _ ors => oredsDepth ors + 1
def oredsDepth : List Ored → Nat
  | [] => 0
  | o :: os => max (oredDepth o) (oredsDepth os)
def oredDepth : Ored → Nat
  | .mk _ ands => andedsDepth ands + 1
def andedsDepth : List Anded → Nat
  | [] => 0
  | a :: as => max (andedDepth a) (andedsDepth as)
end

theorem conditions_roundtrip (u : Option String) (cs : List Condition) (h : ∀ c ∈ cs, CondWF c) :
    (cs.map (writeCondition u)).mapM (loadCondition u) = .ok cs := by
  induction cs with
  | nil => rfl
  | cons c cs ih =>
    have hc := h c (by simp)
    simp only [List.map_cons, List.mapM_cons, bind, Except.bind, pure, Except.pure,
      condition_roundtrip u c hc.1 hc.2, ih (fun c' h' => h c' (by simp [h']))]

theorem matches_condition (u : Option String) (c : Condition) (t : String) :
    (step t).matches u (writeCondition u c) = (t == "*" || "Condition" == t) := by
  simp [Step.matches, step, writeCondition, mkEl, XmlNode.isElem, XmlNode.tag, XmlNode.ns]

theorem matches_oreds (u : Option String) (os : List Ored) (t : String) :
    ∀ x ∈ writeOreds u os, (step t).matches u x = (t == "*" || "ORedConditions" == t) := by
  induction os with
  | nil => intro x hx; simp [writeOreds] at hx
  | cons o os ih =>
    intro x hx
    simp only [writeOreds, List.mem_cons] at hx
    rcases hx with rfl | hx
    · cases o; simp [Step.matches, step, writeOred, mkEl, XmlNode.isElem, XmlNode.tag, XmlNode.ns]
    · exact ih x hx

theorem matches_andeds (u : Option String) (as : List Anded) (t : String) :
    ∀ x ∈ writeAndeds u as, (step t).matches u x = (t == "*" || "ANDedConditions" == t) := by
  induction as with
  | nil => intro x hx; simp [writeAndeds] at hx
  | cons a as ih =>
    intro x hx
    simp only [writeAndeds, List.mem_cons] at hx
    rcases hx with rfl | hx
    · cases a; simp [Step.matches, step, writeAnded, mkEl, XmlNode.isElem, XmlNode.tag, XmlNode.ns]
    · exact ih x hx

theorem findAll_one (u : Option String) (t : String) (ns : Option String) (tag : String) (a : List (String × String))
    (kids : List XmlNode) :
    findAll u [step t] (mkEl ns tag a kids) = kids.filter ((step t).matches u) := by
  simp only [findAll, mkEl, XmlNode.kids]
  have : ∀ l : List XmlNode, (l.map (findAll u [])).flatten = l := by
    intro l; induction l with
    | nil => rfl
    | cons x l ih => simp only [List.map_cons, List.flatten_cons, ih]; simp [findAll]
  exact this _

/-- In a group element, searching for conditions finds exactly the written conditions, and searching for the nested
    groups finds exactly the written groups. -/
theorem group_children (u : Option String) (conds : List Condition) (nested : List XmlNode) (gt : String)
    (hn : ∀ t, ∀ x ∈ nested, (step t).matches u x = (t == "*" || gt == t)) (hgt : gt ≠ "Condition")
    (hgs : gt ≠ "*") (ns : Option String) (tag : String) :
    findAll u [step "Condition"] (mkEl ns tag [] (conds.map (writeCondition u) ++ nested)) = conds.map (writeCondition u) ∧
    findAll u [step gt] (mkEl ns tag [] (conds.map (writeCondition u) ++ nested)) = nested := by
  have hgt' : (gt == "Condition") = false := by simpa using hgt
  have hgt'' : ("Condition" == gt) = false := by simpa using fun h => hgt h.symm
  have hstar : ∀ s : String, s ≠ "*" → (s == "*") = false := by intro s h; simpa using h
  constructor
  · rw [findAll_one, List.filter_append]
    have h1 : (conds.map (writeCondition u)).filter ((step "Condition").matches u) = conds.map (writeCondition u) := by
      rw [List.filter_eq_self]; intro x hx
      obtain ⟨c, _, rfl⟩ := List.mem_map.mp hx
      rw [matches_condition]; decide
    have h2 : nested.filter ((step "Condition").matches u) = [] := by
      rw [List.filter_eq_nil_iff]; intro x hx
      rw [hn "Condition" x hx, hgt']; decide
    rw [h1, h2, List.append_nil]
  · rw [findAll_one, List.filter_append]
    have hs := hgs
    have h1 : (conds.map (writeCondition u)).filter ((step gt).matches u) = [] := by
      rw [List.filter_eq_nil_iff]; intro x hx
      obtain ⟨c, _, rfl⟩ := List.mem_map.mp hx
      rw [matches_condition, hstar gt hs, hgt'']; decide
    have h2 : nested.filter ((step gt).matches u) = nested := by
      rw [List.filter_eq_self]; intro x hx
      rw [hn gt x hx]; simp
    rw [h1, h2, List.nil_append]

mutual
/-- ANDed groups: conditions and nested ORed groups, to any depth the loader's recursion budget covers. -/
theorem anded_roundtrip (u : Option String) (fuel : Nat) (a : Anded) (hwf : andedWF a) (hd : andedDepth a ≤ fuel) :
    loadAnded u fuel (writeAnded u a) = .ok a := by
  cases a with
  | mk conds ors =>
    simp only [andedWF] at hwf
    simp only [andedDepth] at hd
    cases fuel with
    | zero => omega
    | succ fuel =>
      obtain ⟨h1, h2⟩ := group_children u conds (writeOreds u ors) "ORedConditions"
        (fun t x hx => matches_oreds u ors t x hx) (by decide) (by decide) u "ANDedConditions"
      simp only [writeAnded, loadAnded, h1, h2, conditions_roundtrip u conds hwf.1,
        oreds_roundtrip u fuel ors hwf.2 (by omega), bind, Except.bind, pure, Except.pure]
theorem oreds_roundtrip (u : Option String) (fuel : Nat) (os : List Ored) (hwf : oredsWF os) (hd : oredsDepth os ≤ fuel) :
    (writeOreds u os).mapM (loadOred u fuel) = .ok os := by
  cases os with
  | nil => rfl
  | cons o os =>
    simp only [oredsWF] at hwf
    simp only [oredsDepth] at hd
    simp only [writeOreds, List.mapM_cons, ored_roundtrip u fuel o hwf.1 (by omega),
      oreds_roundtrip u fuel os hwf.2 (by omega), bind, Except.bind, pure, Except.pure]
theorem ored_roundtrip (u : Option String) (fuel : Nat) (o : Ored) (hwf : oredWF o) (hd : oredDepth o ≤ fuel) :
    loadOred u fuel (writeOred u o) = .ok o := by
  cases o with
  | mk conds ands =>
    simp only [oredWF] at hwf
    simp only [oredDepth] at hd
    cases fuel with
    | zero => omega
    | succ fuel =>
      obtain ⟨h1, h2⟩ := group_children u conds (writeAndeds u ands) "ANDedConditions"
        (fun t x hx => matches_andeds u ands t x hx) (by decide) (by decide) u "ORedConditions"
      simp only [writeOred, loadOred, h1, h2, conditions_roundtrip u conds hwf.1,
        andeds_roundtrip u fuel ands hwf.2 (by omega), bind, Except.bind, pure, Except.pure]
theorem andeds_roundtrip (u : Option String) (fuel : Nat) (as : List Anded) (hwf : andedsWF as) (hd : andedsDepth as ≤ fuel) :
    (writeAndeds u as).mapM (loadAnded u fuel) = .ok as := by
  cases as with
  | nil => rfl
  | cons a as =>
    simp only [andedsWF] at hwf
    simp only [andedsDepth] at hd
    simp only [writeAndeds, List.mapM_cons, anded_roundtrip u fuel a hwf.1 (by omega),
      andeds_roundtrip u fuel as hwf.2 (by omega), bind, Except.bind, pure, Except.pure]
end

/-- A BooleanExpression (single condition, ANDed or ORed group nested up to the loader's recursion budget of 64)
    survives write → load. -/
theorem boolexpr_roundtrip (u : Option String) (e : BoolExpr)
    (hwf : match e with
      | .cond c => CondWF c
      | .anded a => andedWF a ∧ andedDepth a ≤ FUEL
      | .ored o => oredWF o ∧ oredDepth o ≤ FUEL) :
    loadBoolExpr u (writeBoolExpr u e) = .ok e := by
  cases e with
  | cond c =>
    have hf : findFirst u [step "Condition"] (writeBoolExpr u (.cond c)) = some (writeCondition u c) := by
      simp only [findFirst, writeBoolExpr, findAll_one]
      simp [matches_condition]
    simp only [loadBoolExpr, hf, condition_roundtrip u c hwf.1 hwf.2, bind, Except.bind, pure, Except.pure]
  | anded a =>
    have hm := matches_andeds u [a]
    simp only [writeAndeds, List.mem_cons, List.not_mem_nil, or_false, forall_eq] at hm
    have hf1 : findFirst u [step "Condition"] (writeBoolExpr u (.anded a)) = none := by
      simp only [findFirst, writeBoolExpr, findAll_one]
      simp [hm]
    have hf2 : findFirst u [step "ANDedConditions"] (writeBoolExpr u (.anded a)) = some (writeAnded u a) := by
      simp only [findFirst, writeBoolExpr, findAll_one]
      simp [hm]
    simp only [loadBoolExpr, hf1, hf2, anded_roundtrip u FUEL a hwf.1 hwf.2, bind, Except.bind, pure, Except.pure]
  | ored o =>
    have hm := matches_oreds u [o]
    simp only [writeOreds, List.mem_cons, List.not_mem_nil, or_false, forall_eq] at hm
    have hf1 : findFirst u [step "Condition"] (writeBoolExpr u (.ored o)) = none := by
      simp only [findFirst, writeBoolExpr, findAll_one]
      simp [hm]
    have hf2 : findFirst u [step "ANDedConditions"] (writeBoolExpr u (.ored o)) = none := by
      simp only [findFirst, writeBoolExpr, findAll_one]
      simp [hm]
    have hf3 : findFirst u [step "ORedConditions"] (writeBoolExpr u (.ored o)) = some (writeOred u o) := by
      simp only [findFirst, writeBoolExpr, findAll_one]
      simp [hm]
    simp only [loadBoolExpr, hf1, hf2, hf3, ored_roundtrip u FUEL o hwf.1 hwf.2, bind, Except.bind, pure, Except.pure]

/-- The criteria of a context calibrator in the two forms that consist of comparisons. -/
def CmpCriteria (crit : List Criterion) (cmps : List Comparison) : Prop :=
  crit = cmps.map Criterion.comparison ∧ cmps ≠ [] ∧ ∀ c ∈ cmps, (lookupOp c.op).isSome = true

theorem writeCriterion_comparisons (u : Option String) (cmps : List Comparison) :
    (cmps.map Criterion.comparison).map (writeCriterion u) = cmps.map (writeComparison u) := by
  simp [List.map_map, Function.comp_def, writeCriterion]

theorem flatten_singletons {α β} (f : α → β) (l : List α) :
    (l.map ((fun x => [x]) ∘ f)).flatten = l.map f := by
  induction l with
  | nil => rfl
  | cons a l ih => simp [ih]

/-- `ContextMatch` with one comparison or a `ComparisonList` of several is read back as the same criteria. -/
theorem contextmatch_cmp_roundtrip (u : Option String) (crit : List Criterion) (cmps : List Comparison)
    (h : CmpCriteria crit cmps) :
    ∃ cm, writeContextMatch u crit = .ok cm ∧
      cm.isElem = true ∧ cm.tag = "ContextMatch" ∧ cm.ns = u ∧ loadMatchCriteria u true cm = .ok crit := by
  obtain ⟨rfl, hne, hop⟩ := h
  match cmps, hne, hop with
  | [c], _, hop =>
    refine ⟨mkEl u "ContextMatch" [] [writeComparison u c], rfl, rfl, rfl, rfl, ?_⟩
    have hc := comparison_roundtrip u c (hop c (by simp))
    have h1 : findFirst u [step "ComparisonList"] (mkEl u "ContextMatch" [] [writeComparison u c]) = none := by
      simp [findFirst, findAll, mkEl, XmlNode.kids, Step.matches, step, XmlNode.isElem, XmlNode.tag, writeComparison]
    have h2 : findFirst u [step "Comparison"] (mkEl u "ContextMatch" [] [writeComparison u c]) = some (writeComparison u c) := by
      simp [findFirst, findAll, mkEl, XmlNode.kids, Step.matches, step, XmlNode.isElem, XmlNode.tag, XmlNode.ns,
        writeComparison]
    simp only [loadMatchCriteria, h1, h2, hc, bind, Except.bind, pure, Except.pure, List.map_cons, List.map_nil]
  | c1 :: c2 :: rest, _, hop =>
    refine ⟨mkEl u "ContextMatch" [] [mkEl u "ComparisonList" []
      (((c1 :: c2 :: rest).map Criterion.comparison).map (writeCriterion u))], rfl, rfl, rfl, rfl, ?_⟩
    rw [writeCriterion_comparisons]
    have hff : findFirst u [step "ComparisonList"]
        (mkEl u "ContextMatch" [] [mkEl u "ComparisonList" [] ((c1 :: c2 :: rest).map (writeComparison u))])
        = some (mkEl u "ComparisonList" [] ((c1 :: c2 :: rest).map (writeComparison u))) := by
      simp [findFirst, findAll, mkEl, XmlNode.kids, Step.matches, step, XmlNode.isElem, XmlNode.tag, XmlNode.ns]
    have hfa : findAll u [step "Comparison"] (mkEl u "ComparisonList" [] ((c1 :: c2 :: rest).map (writeComparison u)))
        = (c1 :: c2 :: rest).map (writeComparison u) := by
      simp only [findAll, mkEl, XmlNode.kids, filter_comparisons, List.map_map]
      exact flatten_singletons _ _
    simp only [loadMatchCriteria, hff, hfa, if_true, comparisons_roundtrip u _ hop, bind, Except.bind, pure, Except.pure]

/-- Well-formed boolean expressions: loader-producible conditions, nesting within the loader's recursion budget. -/
def BoolWF : BoolExpr → Prop
  | .cond c => CondWF c
  | .anded a => andedWF a ∧ andedDepth a ≤ FUEL
  | .ored o => oredWF o ∧ oredDepth o ≤ FUEL

/-- The three forms of match criteria: one comparison, a list of comparisons, one boolean expression. -/
def CritOK (crit : List Criterion) : Prop :=
  (∃ cmps, CmpCriteria crit cmps) ∨ (∃ e, crit = [.boolExpr e] ∧ BoolWF e)

theorem contextmatch_roundtrip (u : Option String) (crit : List Criterion) (h : CritOK crit) :
    ∃ cm, writeContextMatch u crit = .ok cm ∧
      cm.isElem = true ∧ cm.tag = "ContextMatch" ∧ cm.ns = u ∧ loadMatchCriteria u true cm = .ok crit := by
  rcases h with ⟨cmps, h⟩ | ⟨e, rfl, he⟩
  · exact contextmatch_cmp_roundtrip u crit cmps h
  · refine ⟨mkEl u "ContextMatch" [] [writeBoolExpr u e], rfl, rfl, rfl, rfl, ?_⟩
    have hb : loadBoolExpr u (writeBoolExpr u e) = .ok e := by
      apply boolexpr_roundtrip; cases e <;> exact he
    have h1 : findFirst u [step "ComparisonList"] (mkEl u "ContextMatch" [] [writeBoolExpr u e]) = none := by
      simp [findFirst, findAll, mkEl, XmlNode.kids, Step.matches, step, XmlNode.isElem, XmlNode.tag, writeBoolExpr]
    have h2 : findFirst u [step "Comparison"] (mkEl u "ContextMatch" [] [writeBoolExpr u e]) = none := by
      simp [findFirst, findAll, mkEl, XmlNode.kids, Step.matches, step, XmlNode.isElem, XmlNode.tag, writeBoolExpr]
    have h3 : findFirst u [step "BooleanExpression"] (mkEl u "ContextMatch" [] [writeBoolExpr u e])
        = some (writeBoolExpr u e) := by
      simp [findFirst, findAll, mkEl, XmlNode.kids, Step.matches, step, XmlNode.isElem, XmlNode.tag, XmlNode.ns,
        writeBoolExpr]
    simp only [loadMatchCriteria, h1, h2, h3, hb, bind, Except.bind, pure, Except.pure]

/-- A context calibrator (match criteria in any of their three forms plus a calibrator) survives write → load. -/
theorem context_calibrator_roundtrip (hI : IntRoundTrip) (hF : FloatRoundTrip) (u : Option String)
    (c : ContextCalibrator) (hcrit : CritOK c.criteria) (hcal : CalWF c.calibrator)
    (x : XmlNode) (hw : writeContextCalibrator u c = .ok x) :
    loadContextCalibrator u x = .ok c ∧ x.isElem = true := by
  obtain ⟨crit, cal⟩ := c
  simp only at hcrit hcal
  obtain ⟨cm, hcm, hel, htag, hns, hload⟩ := contextmatch_roundtrip u crit hcrit
  simp only [writeContextCalibrator, bind, Except.bind, hcm] at hw
  cases hwc : writeCalibrator u cal with
  | error e => simp [hwc, pure, Except.pure] at hw
  | ok xc =>
    simp only [hwc, pure, Except.pure] at hw
    injection hw with hw; subst hw
    refine ⟨?_, rfl⟩
    obtain ⟨a, k, hx⟩ := writeCalibrator_shape u cal xc hwc
    cases cm with
    | comment s => simp [XmlNode.isElem] at hel
    | elem cns ctag cattrs ctext ckids =>
      simp only [XmlNode.tag] at htag
      simp only [XmlNode.ns] at hns
      have hns' := hns.symm
      subst htag hns'
      have hfm : findFirst u [step "ContextMatch"]
          (mkEl u "ContextCalibrator" [] [.elem u "ContextMatch" cattrs ctext ckids, mkEl u "Calibrator" [] [xc]])
          = some (.elem u "ContextMatch" cattrs ctext ckids) := by
        simp [findFirst, findAll, mkEl, XmlNode.kids, Step.matches, step, XmlNode.isElem, XmlNode.tag, XmlNode.ns]
      cases cal with
      | spline sp =>
        have hrt := spline_roundtrip hI hF u sp hcal.1 hcal.2 xc hwc
        subst hx
        have hfs : findFirst u [step "Calibrator", step "SplineCalibrator"]
            (mkEl u "ContextCalibrator" [] [.elem u "ContextMatch" cattrs ctext ckids,
              mkEl u "Calibrator" [] [.elem u "SplineCalibrator" a none k]])
            = some (.elem u "SplineCalibrator" a none k) := by
          simp [findFirst, findAll, mkEl, XmlNode.kids, Step.matches, step, XmlNode.isElem, XmlNode.tag, XmlNode.ns]
        simp only [loadContextCalibrator, hfm, hload, hfs, hrt, bind, Except.bind, pure, Except.pure]
      | poly ts =>
        have hrt := polynomial_roundtrip hI hF u ts hcal xc hwc
        subst hx
        have hfs : findFirst u [step "Calibrator", step "SplineCalibrator"]
            (mkEl u "ContextCalibrator" [] [.elem u "ContextMatch" cattrs ctext ckids,
              mkEl u "Calibrator" [] [.elem u "PolynomialCalibrator" a none k]]) = none := by
          simp [findFirst, findAll, mkEl, XmlNode.kids, Step.matches, step, XmlNode.isElem, XmlNode.tag, XmlNode.ns]
        have hfp : findFirst u [step "Calibrator", step "PolynomialCalibrator"]
            (mkEl u "ContextCalibrator" [] [.elem u "ContextMatch" cattrs ctext ckids,
              mkEl u "Calibrator" [] [.elem u "PolynomialCalibrator" a none k]])
            = some (.elem u "PolynomialCalibrator" a none k) := by
          simp [findFirst, findAll, mkEl, XmlNode.kids, Step.matches, step, XmlNode.isElem, XmlNode.tag, XmlNode.ns]
        simp only [loadContextCalibrator, hfm, hload, hfs, hfp, hrt, bind, Except.bind, pure, Except.pure]

/-! ### numeric encodings with their calibrators -/

/-- Calibrator sets the theorems cover: any form of match criteria, loader-producible calibrators. -/
def CalibsWF (c : Calibs) : Prop :=
  (∀ d, c.default = some d → CalWF d) ∧
  ∀ x ∈ c.contexts, CritOK x.criteria ∧ CalWF x.calibrator

theorem writeDefaultCal_shape (u : Option String) (dflt : Option Calibrator) (d : List XmlNode)
    (h : writeDefaultCal u dflt = .ok d) :
    (dflt = none ∧ d = []) ∨ ∃ c x, dflt = some c ∧ writeCalibrator u c = .ok x ∧ d = [mkEl u "DefaultCalibrator" [] [x]] := by
  cases dflt with
  | none => left; simp only [writeDefaultCal] at h; injection h with h; exact ⟨rfl, h.symm⟩
  | some c =>
    right
    simp only [writeDefaultCal] at h
    cases hc : writeCalibrator u c with
    | error e => simp [hc] at h
    | ok x => simp only [hc] at h; injection h with h; exact ⟨c, x, rfl, hc, h.symm⟩

theorem writeContextList_shape (u : Option String) (ctxs : List ContextCalibrator) (cs : List XmlNode)
    (h : writeContextList u ctxs = .ok cs) :
    (ctxs = [] ∧ cs = []) ∨ ∃ xs, ctxs ≠ [] ∧ ctxs.mapM (writeContextCalibrator u) = .ok xs ∧
      cs = [mkEl u "ContextCalibratorList" [] xs] := by
  unfold writeContextList at h
  cases ctxs with
  | nil => left; simp only [List.isEmpty_nil, if_true] at h; injection h with h; exact ⟨rfl, h.symm⟩
  | cons a l =>
    right
    simp only [List.isEmpty_cons, Bool.false_eq_true, if_false] at h
    cases hm : (a :: l).mapM (writeContextCalibrator u) with
    | error e => simp [hm] at h
    | ok xs => simp only [hm] at h; injection h with h; exact ⟨xs, by simp, rfl, h.symm⟩

theorem default_calibrator_roundtrip (hI : IntRoundTrip) (hF : FloatRoundTrip) (u : Option String)
    (dflt : Option Calibrator) (hwf : ∀ c, dflt = some c → CalWF c) (d : List XmlNode)
    (hd : writeDefaultCal u dflt = .ok d) (tag : String) (attrs : List (String × String)) (cs xs : List XmlNode)
    (hcs : cs = [] ∨ cs = [mkEl u "ContextCalibratorList" [] xs]) :
    loadDefaultCalibrator u (mkEl u tag attrs (d ++ cs)) = .ok dflt := by
  rcases writeDefaultCal_shape u dflt d hd with ⟨rfl, rfl⟩ | ⟨c, x, rfl, hx, rfl⟩
  · rcases hcs with rfl | rfl <;>
      simp [loadDefaultCalibrator, findFirst, findAll, mkEl, XmlNode.kids, Step.matches, step, XmlNode.isElem, XmlNode.tag]
  · obtain ⟨a, k, hshape⟩ := writeCalibrator_shape u c x hx
    have hc := hwf c rfl
    cases c with
    | spline sp =>
      have hrt := spline_roundtrip hI hF u sp hc.1 hc.2 x hx
      subst hshape
      have hfs : findFirst u [step "DefaultCalibrator", step "SplineCalibrator"]
          (mkEl u tag attrs ([mkEl u "DefaultCalibrator" [] [.elem u "SplineCalibrator" a none k]] ++ cs))
          = some (.elem u "SplineCalibrator" a none k) := by
        rcases hcs with rfl | rfl <;>
          simp [findFirst, findAll, mkEl, XmlNode.kids, Step.matches, step, XmlNode.isElem, XmlNode.tag, XmlNode.ns]
      simp only [loadDefaultCalibrator, hfs, hrt, bind, Except.bind, pure, Except.pure]
    | poly ts =>
      have hrt := polynomial_roundtrip hI hF u ts hc x hx
      subst hshape
      have hfs : findFirst u [step "DefaultCalibrator", step "SplineCalibrator"]
          (mkEl u tag attrs ([mkEl u "DefaultCalibrator" [] [.elem u "PolynomialCalibrator" a none k]] ++ cs)) = none := by
        rcases hcs with rfl | rfl <;>
          simp [findFirst, findAll, mkEl, XmlNode.kids, Step.matches, step, XmlNode.isElem, XmlNode.tag, XmlNode.ns]
      have hfp : findFirst u [step "DefaultCalibrator", step "PolynomialCalibrator"]
          (mkEl u tag attrs ([mkEl u "DefaultCalibrator" [] [.elem u "PolynomialCalibrator" a none k]] ++ cs))
          = some (.elem u "PolynomialCalibrator" a none k) := by
        rcases hcs with rfl | rfl <;>
          simp [findFirst, findAll, mkEl, XmlNode.kids, Step.matches, step, XmlNode.isElem, XmlNode.tag, XmlNode.ns]
      simp only [loadDefaultCalibrator, hfs, hfp, hrt, bind, Except.bind, pure, Except.pure]

theorem context_list_roundtrip (hI : IntRoundTrip) (hF : FloatRoundTrip) (u : Option String)
    (ctxs : List ContextCalibrator)
    (hwf : ∀ x ∈ ctxs, CritOK x.criteria ∧ CalWF x.calibrator) (cs : List XmlNode)
    (hcs : writeContextList u ctxs = .ok cs) (tag : String) (attrs : List (String × String)) (d : List XmlNode)
    (x : XmlNode) (hd : d = [] ∨ d = [mkEl u "DefaultCalibrator" [] [x]]) :
    loadContextCalibrators u (mkEl u tag attrs (d ++ cs)) = .ok (if ctxs.isEmpty then none else some ctxs) := by
  rcases writeContextList_shape u ctxs cs hcs with ⟨rfl, rfl⟩ | ⟨xs, hne, hm, rfl⟩
  · rcases hd with rfl | rfl <;>
      simp [loadContextCalibrators, findFirst, findAll, mkEl, XmlNode.kids, Step.matches, step, XmlNode.isElem, XmlNode.tag]
  · have hel := mapM_all (writeContextCalibrator u) (fun b => b.isElem = true) ctxs
      (fun c hc b hb => by
        obtain ⟨h1, h2⟩ := hwf c hc
        exact (context_calibrator_roundtrip hI hF u c h1 h2 b hb).2) xs hm
    have hrt := mapM_roundtrip (writeContextCalibrator u) (loadContextCalibrator u) ctxs
      (fun c hc b hb => by
        obtain ⟨h1, h2⟩ := hwf c hc
        exact (context_calibrator_roundtrip hI hF u c h1 h2 b hb).1) xs hm
    have he : (mkEl u "ContextCalibratorList" [] xs).elems = xs := by
      simp only [mkEl, XmlNode.elems, XmlNode.kids]
      rw [List.filter_eq_self]; exact hel
    have hff : findFirst u [step "ContextCalibratorList"] (mkEl u tag attrs (d ++ [mkEl u "ContextCalibratorList" [] xs]))
        = some (mkEl u "ContextCalibratorList" [] xs) := by
      rcases hd with rfl | rfl <;>
        simp [findFirst, findAll, mkEl, XmlNode.kids, Step.matches, step, XmlNode.isElem, XmlNode.tag, XmlNode.ns]
    have hemp : ctxs.isEmpty = false := by cases ctxs <;> simp_all
    simp only [loadContextCalibrators, hff, he, hrt, hemp, bind, Except.bind, pure, Except.pure, Bool.false_eq_true, if_false]

theorem num_children_roundtrip (hI : IntRoundTrip) (hF : FloatRoundTrip) (u : Option String) (cals : Calibs)
    (hwf : CalibsWF cals) (d cs : List XmlNode) (hd : writeDefaultCal u cals.default = .ok d)
    (hc : writeContextList u cals.contexts = .ok cs) (tag : String) (attrs : List (String × String)) :
    loadDefaultCalibrator u (mkEl u tag attrs (d ++ cs)) = .ok cals.default ∧
    loadContextCalibrators u (mkEl u tag attrs (d ++ cs)) = .ok (if cals.contexts.isEmpty then none else some cals.contexts) := by
  have hcs : cs = [] ∨ ∃ xs, cs = [mkEl u "ContextCalibratorList" [] xs] := by
    rcases writeContextList_shape u _ cs hc with ⟨_, h⟩ | ⟨xs, _, _, h⟩
    · exact Or.inl h
    · exact Or.inr ⟨xs, h⟩
  have hds : d = [] ∨ ∃ y, d = [mkEl u "DefaultCalibrator" [] [y]] := by
    rcases writeDefaultCal_shape u _ d hd with ⟨_, h⟩ | ⟨_, y, _, _, h⟩
    · exact Or.inl h
    · exact Or.inr ⟨y, h⟩
  constructor
  · rcases hcs with h | ⟨xs, h⟩
    · exact default_calibrator_roundtrip hI hF u _ hwf.1 d hd _ _ cs [] (Or.inl h)
    · exact default_calibrator_roundtrip hI hF u _ hwf.1 d hd _ _ cs xs (Or.inr h)
  · rcases hds with h | ⟨y, h⟩
    · exact context_list_roundtrip hI hF u _ hwf.2 cs hc _ _ d (.comment "") (Or.inl h)
    · exact context_list_roundtrip hI hF u _ hwf.2 cs hc _ _ d y (Or.inr h)

/-- An integer encoding — size, signedness spelling, byte order, default and context calibrators — survives
    write → load. -/
theorem int_encoding_roundtrip (hI : IntRoundTrip) (hF : FloatRoundTrip) (u : Option String) (e : NumEnc)
    (hf : e.isFloat = false) (hwf : CalibsWF e.cals) (x : XmlNode) (hw : writeEncoding u (.num e) = .ok x) :
    loadIntEncoding u x = .ok (.num e) := by
  simp only [writeEncoding, bind, Except.bind, pure, Except.pure] at hw
  cases hd : writeDefaultCal u e.cals.default with
  | error err => simp [hd] at hw
  | ok d =>
    cases hc : writeContextList u e.cals.contexts with
    | error err => simp [hd, hc] at hw
    | ok cs =>
      simp only [hd, hc, hf, Bool.false_eq_true, if_false] at hw
      injection hw with hw; subst hw
      obtain ⟨hA, hB⟩ := num_children_roundtrip hI hF u e.cals hwf d cs hd hc "IntegerDataEncoding"
        [("sizeInBits", toString e.size), ("encoding", e.encoding), ("byteOrder", e.byteOrder)]
      simp only [loadIntEncoding, hA, hB, bind, Except.bind, pure, Except.pure]
      simp only [mkEl, XmlNode.attr!, XmlNode.attr?, XmlNode.attrs, List.find?]
      obtain ⟨isFloat, size, encoding, byteOrder, ⟨dflt, contexts⟩⟩ := e
      simp only at hf
      subst hf
      have hsz' : readInt size.repr = .ok size := hI size
      cases contexts <;> simp [hsz']

/-- A float encoding (IEEE 16/32/64 or MIL-STD-1750A 32) with its calibrators survives write → load. -/
theorem float_encoding_roundtrip (hI : IntRoundTrip) (hF : FloatRoundTrip) (u : Option String) (e : NumEnc)
    (hf : e.isFloat = true) (hwf : CalibsWF e.cals)
    (hvalid : (e.encoding = "MILSTD_1750A" ∧ e.size = 32) ∨
              ((e.encoding = "IEEE754" ∨ e.encoding = "IEEE754_1985") ∧ (e.size = 16 ∨ e.size = 32 ∨ e.size = 64)))
    (x : XmlNode) (hw : writeEncoding u (.num e) = .ok x) :
    loadFloatEncoding u x = .ok (.num e) := by
  simp only [writeEncoding, bind, Except.bind, pure, Except.pure] at hw
  cases hd : writeDefaultCal u e.cals.default with
  | error err => simp [hd] at hw
  | ok d =>
    cases hc : writeContextList u e.cals.contexts with
    | error err => simp [hd, hc] at hw
    | ok cs =>
      simp only [hd, hc, hf, if_true] at hw
      injection hw with hw; subst hw
      obtain ⟨hA, hB⟩ := num_children_roundtrip hI hF u e.cals hwf d cs hd hc "FloatDataEncoding"
        [("sizeInBits", toString e.size), ("encoding", e.encoding), ("byteOrder", e.byteOrder)]
      simp only [loadFloatEncoding, hA, hB, bind, Except.bind, pure, Except.pure]
      simp only [mkEl, XmlNode.attr!, XmlNode.attr?, XmlNode.attrs, List.find?]
      obtain ⟨isFloat, size, encoding, byteOrder, ⟨dflt, contexts⟩⟩ := e
      simp only at hf hvalid
      subst hf
      have hsz' : readInt size.repr = .ok size := hI size
      rcases hvalid with ⟨rfl, rfl⟩ | ⟨rfl | rfl, rfl | rfl | rfl⟩ <;>
        cases contexts <;> simp [hsz', normFloatEncoding] <;> decide

/-! ### binary encodings -/

/-- The three shapes of a binary encoding that the library's constructor is meant for. -/
inductive BinWF : BinEnc → Prop
  | fixed (n : Int) :
      BinWF { fixedSize := some n, sizeRef := none, useCal := true, lookup := none, adjuster := none }
  | dynamic (r : String) (hr : r ≠ "") (uc : Bool) (adj : Option LinAdj) :
      BinWF { fixedSize := none, sizeRef := some r, useCal := uc, lookup := none, adjuster := adj }
  | lookup (l : List DiscreteLookup) (hl : l ≠ [])
      (hwf : ∀ d ∈ l, (∃ q, d.value = .flt (.fin q)) ∧ d.criteria ≠ [] ∧ ∀ c ∈ d.criteria, (lookupOp c.op).isSome = true) :
      BinWF { fixedSize := none, sizeRef := none, useCal := true, lookup := some l, adjuster := none }

theorem writeDiscreteLookup_isElem (u : Option String) (d : DiscreteLookup) (x : XmlNode)
    (h : writeDiscreteLookup u d = .ok x) : x.isElem = true := by
  simp only [writeDiscreteLookup, bind, Except.bind, pure, Except.pure] at h
  cases hs : showNum d.value with
  | error e => simp [hs] at h
  | ok v => simp only [hs] at h; injection h with h; subst h; rfl

/-- A binary encoding — fixed size, size taken from a parameter (with its raw/calibrated selector and its
    linear adjustment), or size looked up from conditions — survives write → load. -/
theorem binary_encoding_roundtrip (hI : IntRoundTrip) (hV : FValRoundTrip) (u : Option String) (e : BinEnc)
    (hwf : BinWF e) (x : XmlNode) (hw : writeEncoding u (.bin e) = .ok x) :
    loadBinaryEncoding u x = .ok (.bin e) := by
  cases hwf with
  | fixed n =>
    simp only [writeEncoding, Option.isSome_some, if_true, pure, Except.pure, Option.getD] at hw
    injection hw with hw; subst hw
    have hff : findFirst u [step "SizeInBits", step "FixedValue"]
        (mkEl u "BinaryDataEncoding" [] [mkEl u "SizeInBits" [] [mkEl u "FixedValue" [] [] (some (toString n))]])
        = some (mkEl u "FixedValue" [] [] (some (toString n))) := by
      simp [findFirst, findAll, mkEl, XmlNode.kids, Step.matches, step, XmlNode.isElem, XmlNode.tag, XmlNode.ns]
    have hsz : readInt (toString n) = .ok n := hI n
    simp only [loadBinaryEncoding, hff, bind, Except.bind, pure, Except.pure]
    simp only [mkEl, XmlNode.text, readIntOpt, hsz]
  | dynamic r hr uc adj =>
    have hr' : r.isEmpty = false := by
      cases hh : r.isEmpty
      · rfl
      · exact absurd (String.isEmpty_iff.mp hh) hr
    simp only [writeEncoding, optTruthy, strTruthy, listTruthy, hr', Bool.not_false, Bool.false_eq_true, if_true, if_false,
      bind, Except.bind, pure, Except.pure, Option.getD, List.append_nil] at hw
    injection hw with hw; subst hw
    cases adj with
    | none =>
      simp [loadBinaryEncoding, loadDynamicValue, loadLinearAdjuster, writeParamInstanceRef, adjKids, findFirst, findAll, mkEl, XmlNode.kids,
        Step.matches, step, XmlNode.isElem, XmlNode.tag, XmlNode.ns, XmlNode.attr!, XmlNode.attr?, XmlNode.attrs,
        isTrueWord_pyBool, bind, Except.bind, pure, Except.pure]
    | some a =>
      have h1 : readInt (toString a.slope) = .ok a.slope := hI a.slope
      have h2 : readInt (toString a.intercept) = .ok a.intercept := hI a.intercept
      simp [loadBinaryEncoding, loadDynamicValue, loadLinearAdjuster, writeParamInstanceRef, adjKids, writeLinAdj, showInt, findFirst, findAll, mkEl,
        XmlNode.kids, Step.matches, step, XmlNode.isElem, XmlNode.tag, XmlNode.ns, XmlNode.attr!, XmlNode.attr?,
        XmlNode.attrs, isTrueWord_pyBool, bind, Except.bind, pure, Except.pure]
      have h1' : readInt a.slope.repr = .ok a.slope := h1
      have h2' : readInt a.intercept.repr = .ok a.intercept := h2
      simp [h1', h2']
  | lookup l hl hwf =>
    have hl' : l.isEmpty = false := by cases l <;> simp_all
    simp only [writeEncoding, optTruthy, strTruthy, listTruthy, hl', Bool.not_false, Bool.false_eq_true, if_true, if_false,
      bind, Except.bind, pure, Except.pure, Option.getD, List.nil_append] at hw
    cases hm : l.mapM (writeDiscreteLookup u) with
    | error err => simp [hm] at hw
    | ok xs =>
      simp only [hm] at hw
      injection hw with hw; subst hw
      have hel := mapM_all (writeDiscreteLookup u) (fun b => b.isElem = true) l
        (fun d _ b hb => writeDiscreteLookup_isElem u d b hb) xs hm
      have hrt := mapM_roundtrip (writeDiscreteLookup u) (loadDiscreteLookup u) l
        (fun d hd b hb => by
          obtain ⟨⟨q, hq⟩, hne, hop⟩ := hwf d hd
          exact discrete_lookup_roundtrip hV u d q hq hne hop b hb) xs hm
      have he : (mkEl u "DiscreteLookupList" [] xs).elems = xs := by
        simp only [mkEl, XmlNode.elems, XmlNode.kids]
        rw [List.filter_eq_self]; exact hel
      have h1 : findFirst u [step "SizeInBits", step "FixedValue"]
          (mkEl u "BinaryDataEncoding" [] [mkEl u "SizeInBits" [] [mkEl u "DiscreteLookupList" [] xs]]) = none := by
        simp [findFirst, findAll, mkEl, XmlNode.kids, Step.matches, step, XmlNode.isElem, XmlNode.tag, XmlNode.ns]
      have h2 : findFirst u [step "SizeInBits", step "DynamicValue"]
          (mkEl u "BinaryDataEncoding" [] [mkEl u "SizeInBits" [] [mkEl u "DiscreteLookupList" [] xs]]) = none := by
        simp [findFirst, findAll, mkEl, XmlNode.kids, Step.matches, step, XmlNode.isElem, XmlNode.tag, XmlNode.ns]
      have h3 : findFirst u [step "SizeInBits", step "DiscreteLookupList"]
          (mkEl u "BinaryDataEncoding" [] [mkEl u "SizeInBits" [] [mkEl u "DiscreteLookupList" [] xs]])
          = some (mkEl u "DiscreteLookupList" [] xs) := by
        simp [findFirst, findAll, mkEl, XmlNode.kids, Step.matches, step, XmlNode.isElem, XmlNode.tag, XmlNode.ns]
      simp only [loadBinaryEncoding, h1, h2, h3, he, hrt, bind, Except.bind, pure, Except.pure]

/-! ### string encodings: all ten codecs, three size forms, leading size or termination character -/

/-- A termination character the constructor accepts: non-empty bytes that decode to exactly one character. -/
def TermOK (enc : String) (t : Bytes) : Prop := t ≠ [] ∧ ∃ s, decodeText enc t = some s ∧ s.length = 1

theorem leading_cases (lead : Option Int) (hl : lead ≠ some 0) :
    (lead = none ∧ optTruthy lead = false) ∨ (∃ k, lead = some k ∧ k ≠ 0 ∧ optTruthy lead = true) := by
  cases lead with
  | none => left; exact ⟨rfl, rfl⟩
  | some k =>
    right
    have hk : k ≠ 0 := fun h => hl (by rw [h])
    exact ⟨k, rfl, hk, by simpa [optTruthy] using hk⟩

theorem singleByte_facts (enc : String) (h : enc ∈ singleByteEncodings) :
    singleByteEncodings.contains enc = true ∧ SUPPORTED_STRING_ENCODINGS.contains enc = true := by
  simp only [singleByteEncodings, List.mem_cons, List.mem_nil_iff, or_false] at h
  rcases h with rfl | rfl | rfl | rfl <;> exact ⟨by decide, by decide⟩

/-- A codec name together with the byte order the object records for it. -/
inductive CodecOK : String → Option String → Prop
  | single (enc : String) (h : enc ∈ singleByteEncodings) : CodecOK enc none
  | bare16 (b : String) (hb : b = "leastSignificantByteFirst" ∨ b = "mostSignificantByteFirst") : CodecOK "UTF-16" (some b)
  | bare32 (b : String) (hb : b = "leastSignificantByteFirst" ∨ b = "mostSignificantByteFirst") : CodecOK "UTF-32" (some b)
  | le16 : CodecOK "UTF-16LE" (some "leastSignificantByteFirst")
  | be16 : CodecOK "UTF-16BE" (some "mostSignificantByteFirst")
  | le32 : CodecOK "UTF-32LE" (some "leastSignificantByteFirst")
  | be32 : CodecOK "UTF-32BE" (some "mostSignificantByteFirst")

/-- The byte order the loader passes to the constructor: the `byteOrder` attribute for a bare `UTF-16` / `UTF-32`. -/
def boIn (enc : String) (bo : Option String) : Option String :=
  if enc == "UTF-16" || enc == "UTF-32" then bo else none

/-- The Python codec the termination character is checked with. -/
def codecOf (enc : String) (bo : Option String) : String :=
  if enc == "UTF-16" || enc == "UTF-32" then enc ++ (if bo == some "leastSignificantByteFirst" then "LE" else "BE") else enc

/-- The termination character as the loader sees it (hex text) and as the object stores it. -/
inductive TailOK (enc : String) (bo : Option String) : Option String → Option Int → Option Bytes → Prop
  | plain (lead : Option Int) : TailOK enc bo none lead none
  | term (t : Bytes) (h : TermOK (codecOf enc bo) t) : TailOK enc bo (some (bytesToHex t)) none (some t)

theorem mkStrEnc_ok (enc : String) (bo : Option String) (hc : CodecOK enc bo) (fixed : Option Int) (dyn : Option String)
    (lookup : Option (List DiscreteLookup)) (useCal : Bool) (adj : Option LinAdj) (termHex : Option String)
    (leading : Option Int) (term : Option Bytes)
    (hspecs : (if strTruthy dyn then 1 else 0) + (if listTruthy lookup then 1 else 0) + (if optTruthy fixed then 1 else 0) = 1)
    (hadj : adj.isSome = true → strTruthy dyn = true) (htail : TailOK enc bo termHex leading term) :
    mkStrEnc enc (boIn enc bo) fixed dyn lookup useCal adj termHex leading =
      .ok { encoding := enc, fixedLength := fixed, dynRef := dyn, lookup := lookup, useCal := useCal, adjuster := adj,
            termChar := term, leadingSize := leading, byteOrder := bo } := by
  have hspecs' : ((if strTruthy dyn then 1 else 0) + (if listTruthy lookup then 1 else 0) + (if optTruthy fixed then 1 else 0) != 1) = false := by
    simp [hspecs]
  have hadj' : (adj.isSome && !strTruthy dyn) = false := by
    cases h : adj.isSome
    · rfl
    · simp [hadj h]
  cases htail with
  | plain lead =>
    cases hc with
    | single enc henc =>
      obtain ⟨hsb, hsup⟩ := singleByte_facts enc henc
      have hne : (enc == "UTF-16" || enc == "UTF-32") = false := by
        simp only [singleByteEncodings, List.mem_cons, List.mem_nil_iff, or_false] at henc
        rcases henc with rfl | rfl | rfl | rfl <;> decide
      have hsupm : enc ∈ SUPPORTED_STRING_ENCODINGS := by simpa using hsup
      simp [mkStrEnc, boIn, hne, henc, hsupm, hspecs', hadj', bind, Except.bind, pure, Except.pure]
    | bare16 b hb => rcases hb with rfl | rfl <;>
        simp [mkStrEnc, boIn, SUPPORTED_STRING_ENCODINGS, singleByteEncodings, hspecs', hadj', bind, Except.bind, pure, Except.pure]
    | bare32 b hb => rcases hb with rfl | rfl <;>
        simp [mkStrEnc, boIn, SUPPORTED_STRING_ENCODINGS, singleByteEncodings, hspecs', hadj', bind, Except.bind, pure, Except.pure]
    | le16 =>
      have e : hasSub "UTF-16LE" "LE" = true := by decide +kernel
      simp [mkStrEnc, boIn, SUPPORTED_STRING_ENCODINGS, singleByteEncodings, hspecs', hadj', e, bind, Except.bind, pure, Except.pure]
    | be16 =>
      have e1 : hasSub "UTF-16BE" "LE" = false := by decide +kernel
      have e2 : hasSub "UTF-16BE" "BE" = true := by decide +kernel
      simp [mkStrEnc, boIn, SUPPORTED_STRING_ENCODINGS, singleByteEncodings, hspecs', hadj', e1, e2, bind, Except.bind, pure, Except.pure]
    | le32 =>
      have e : hasSub "UTF-32LE" "LE" = true := by decide +kernel
      simp [mkStrEnc, boIn, SUPPORTED_STRING_ENCODINGS, singleByteEncodings, hspecs', hadj', e, bind, Except.bind, pure, Except.pure]
    | be32 =>
      have e1 : hasSub "UTF-32BE" "LE" = false := by decide +kernel
      have e2 : hasSub "UTF-32BE" "BE" = true := by decide +kernel
      simp [mkStrEnc, boIn, SUPPORTED_STRING_ENCODINGS, singleByteEncodings, hspecs', hadj', e1, e2, bind, Except.bind, pure, Except.pure]
  | term t ht =>
    obtain ⟨htne, s, hdec, hlen⟩ := ht
    have hhex := hexToBytes_bytesToHex t
    have hhne := bytesToHex_nonempty t htne
    have hhne' : ¬ (bytesToHex t = "") := by
      intro e; rw [e] at hhne; simp at hhne
    have hlen' : (s.length != 1) = false := by simp [hlen]
    have hon : optTruthy (none : Option Int) = false := rfl
    cases hc with
    | single enc henc =>
      obtain ⟨hsb, hsup⟩ := singleByte_facts enc henc
      have hsupm : enc ∈ SUPPORTED_STRING_ENCODINGS := by simpa using hsup
      have hne : (enc == "UTF-16" || enc == "UTF-32") = false := by
        simp only [singleByteEncodings, List.mem_cons, List.mem_nil_iff, or_false] at henc
        rcases henc with rfl | rfl | rfl | rfl <;> decide
      have hne16a : ¬ (enc = "UTF-16") ∧ ¬ (enc = "UTF-32") := by
        simp only [Bool.or_eq_false_iff, beq_eq_false_iff_ne, ne_eq] at hne; exact hne
      simp only [codecOf, hne, Bool.false_eq_true, if_false] at hdec
      simp [mkStrEnc, boIn, hne, henc, hsupm, hspecs', hadj', hhex, hhne, hhne', hdec, hlen, hne16a.1, hne16a.2, hon,
        bind, Except.bind, pure, Except.pure]
    | bare16 b hb =>
      rcases hb with rfl | rfl <;>
      · simp only [codecOf] at hdec
        simp [mkStrEnc, boIn, SUPPORTED_STRING_ENCODINGS, singleByteEncodings, hspecs', hadj', hhex, hhne, hhne', hon,
          bind, Except.bind, pure, Except.pure]
        simp at hdec
        simp [hdec, hlen]
    | bare32 b hb =>
      rcases hb with rfl | rfl <;>
      · simp only [codecOf] at hdec
        simp [mkStrEnc, boIn, SUPPORTED_STRING_ENCODINGS, singleByteEncodings, hspecs', hadj', hhex, hhne, hhne', hon,
          bind, Except.bind, pure, Except.pure]
        simp at hdec
        simp [hdec, hlen]
    | le16 =>
      have e : hasSub "UTF-16LE" "LE" = true := by decide +kernel
      simp only [codecOf] at hdec
      simp at hdec
      simp [mkStrEnc, boIn, SUPPORTED_STRING_ENCODINGS, singleByteEncodings, hspecs', hadj', e, hhex, hhne, hhne', hdec, hlen,
        hon, bind, Except.bind, pure, Except.pure]
    | be16 =>
      have e1 : hasSub "UTF-16BE" "LE" = false := by decide +kernel
      have e2 : hasSub "UTF-16BE" "BE" = true := by decide +kernel
      simp only [codecOf] at hdec
      simp at hdec
      simp [mkStrEnc, boIn, SUPPORTED_STRING_ENCODINGS, singleByteEncodings, hspecs', hadj', e1, e2, hhex, hhne, hhne', hdec,
        hlen, hon, bind, Except.bind, pure, Except.pure]
    | le32 =>
      have e : hasSub "UTF-32LE" "LE" = true := by decide +kernel
      simp only [codecOf] at hdec
      simp at hdec
      simp [mkStrEnc, boIn, SUPPORTED_STRING_ENCODINGS, singleByteEncodings, hspecs', hadj', e, hhex, hhne, hhne', hdec, hlen,
        hon, bind, Except.bind, pure, Except.pure]
    | be32 =>
      have e1 : hasSub "UTF-32BE" "LE" = false := by decide +kernel
      have e2 : hasSub "UTF-32BE" "BE" = true := by decide +kernel
      simp only [codecOf] at hdec
      simp at hdec
      simp [mkStrEnc, boIn, SUPPORTED_STRING_ENCODINGS, singleByteEncodings, hspecs', hadj', e1, e2, hhex, hhne, hhne', hdec,
        hlen, hon, bind, Except.bind, pure, Except.pure]

/-- The children of the size element that follow the size specification. -/
theorem tailKids_tags (u : Option String) (lead : Option Int) (term : Option Bytes) :
    ∀ y ∈ tailKids u lead term, y.tag = "LeadingSize" ∨ y.tag = "TerminationChar" := by
  intro y hy
  unfold tailKids at hy
  simp only [List.mem_append] at hy
  rcases hy with hy | hy
  · split at hy
    · simp only [List.mem_singleton] at hy; subst hy; exact Or.inl rfl
    · simp at hy
  · cases term with
    | none => simp at hy
    | some t =>
      simp only at hy
      split at hy
      · simp at hy
      · simp only [List.mem_singleton] at hy; subst hy; exact Or.inr rfl

theorem filter_head_only (u : Option String) (T : String) (a : XmlNode) (tail : List XmlNode)
    (ha : (step T).matches u a = true) (ht : ∀ y ∈ tail, (step T).matches u y = false) :
    (a :: tail).filter ((step T).matches u) = [a] := by
  have : tail.filter ((step T).matches u) = [] := by
    rw [List.filter_eq_nil_iff]; intro y hy; simp [ht y hy]
  simp [List.filter_cons, ha, this]

theorem tail_no_match (u : Option String) (lead : Option Int) (term : Option Bytes) (T : String)
    (h1 : (T == "LeadingSize") = false) (h2 : (T == "TerminationChar") = false) (h3 : (T == "*") = false) :
    ∀ y ∈ tailKids u lead term, (step T).matches u y = false := by
  intro y hy
  rcases tailKids_tags u lead term y hy with h | h
  · have : (y.tag == T) = false := by
      rw [h]; cases hh : ("LeadingSize" == T)
      · rfl
      · rw [← beq_iff_eq.mp hh] at h1; simp at h1
    simp [Step.matches, step, this, h3]
  · have : (y.tag == T) = false := by
      rw [h]; cases hh : ("TerminationChar" == T)
      · rfl
      · rw [← beq_iff_eq.mp hh] at h2; simp at h2
    simp [Step.matches, step, this, h3]

/-- Reading the tail (termination character as hex text, leading size) of a written size element. -/
theorem loadStrTail_written (hI : IntRoundTrip) (u : Option String) (T : String) (spec : XmlNode)
    (hs1 : (step "TerminationChar").matches u spec = false) (hs2 : (step "LeadingSize").matches u spec = false)
    (lead : Option Int) (term : Option Bytes)
    (h : (term = none ∧ lead ≠ some 0) ∨ (∃ t, term = some t ∧ t ≠ [] ∧ lead = none)) :
    loadStrTail u (.elem u T [] none (spec :: tailKids u lead term)) =
      .ok (term.map bytesToHex, lead) := by
  have hs1' : Step.matches u { tag := "TerminationChar" } spec = false := hs1
  have hs2' : Step.matches u { tag := "LeadingSize" } spec = false := hs2
  rcases h with ⟨rfl, hl⟩ | ⟨t, rfl, htne, rfl⟩
  · rcases leading_cases lead hl with ⟨rfl, hlt⟩ | ⟨k, rfl, hk, hlt⟩
    · simp [loadStrTail, tailKids, hlt, findFirst, findAll, XmlNode.kids, step, List.filter_cons, hs1', hs2']
    · have hks' : readInt k.repr = .ok k := hI k
      simp [loadStrTail, tailKids, hlt, findFirst, findAll, XmlNode.kids, step, List.filter_cons, hs1', hs2', mkEl]
      simp [Step.matches, XmlNode.isElem, XmlNode.tag, XmlNode.ns, XmlNode.attr!, XmlNode.attr?, XmlNode.attrs, hks']
  · have hte : t.isEmpty = false := by cases t <;> simp_all
    have hon : optTruthy (none : Option Int) = false := rfl
    simp [loadStrTail, tailKids, hon, hte, findFirst, findAll, XmlNode.kids, step, List.filter_cons, hs1', hs2', mkEl]
    simp [Step.matches, XmlNode.isElem, XmlNode.tag, XmlNode.ns, XmlNode.text]


theorem spec_fixed (hI : IntRoundTrip) (u : Option String) (attrs : List (String × String)) (n : Int)
    (lead : Option Int) (term : Option Bytes) :
    let se := XmlNode.elem u "SizeInBits" [] none
      (mkEl u "Fixed" [] [mkEl u "FixedValue" [] [] (some (toString n))] :: tailKids u lead term)
    loadStrSpec u (mkEl u "StringDataEncoding" attrs [se]) = .ok (some n, none, true, none, none) ∧
    strSizeEl u (mkEl u "StringDataEncoding" attrs [se]) = some se := by
  intro se
  have hf := filter_head_only u "Fixed" (mkEl u "Fixed" [] [mkEl u "FixedValue" [] [] (some (toString n))])
    (tailKids u lead term) (by simp [Step.matches, step, mkEl, XmlNode.isElem, XmlNode.tag, XmlNode.ns])
    (tail_no_match u lead term "Fixed" (by decide) (by decide) (by decide))
  have hsz : readInt n.repr = .ok n := hI n
  have h1 : findFirst u [step "SizeInBits"] (mkEl u "StringDataEncoding" attrs [se]) = some se := by
    simp [se, findFirst, findAll, mkEl, XmlNode.kids, Step.matches, step, XmlNode.isElem, XmlNode.tag, XmlNode.ns]
  have h2 : findFirst u [step "Fixed", step "FixedValue"] se = some (mkEl u "FixedValue" [] [] (some (toString n))) := by
    simp only [se, findFirst, findAll, XmlNode.kids, hf]
    simp [mkEl, XmlNode.kids, Step.matches, step, XmlNode.isElem, XmlNode.tag, XmlNode.ns]
  refine ⟨?_, by simp only [strSizeEl, h1]⟩
  simp only [loadStrSpec, h1, h2]
  simp [mkEl, XmlNode.text, readIntOpt, hsz]

theorem spec_dyn (hI : IntRoundTrip) (u : Option String) (attrs : List (String × String)) (r : String) (uc : Bool)
    (adj : Option LinAdj) (lead : Option Int) (term : Option Bytes) :
    let dv := mkEl u "DynamicValue" [] ([writeParamInstanceRef u r uc] ++
      adjKids u adj)
    let se := XmlNode.elem u "Variable" [] none (dv :: tailKids u lead term)
    loadStrSpec u (mkEl u "StringDataEncoding" attrs [se]) = .ok (none, some r, uc, adj, none) ∧
    strSizeEl u (mkEl u "StringDataEncoding" attrs [se]) = some se := by
  intro dv se
  have hf := filter_head_only u "DynamicValue" dv (tailKids u lead term)
    (by simp [dv, Step.matches, step, mkEl, XmlNode.isElem, XmlNode.tag, XmlNode.ns])
    (tail_no_match u lead term "DynamicValue" (by decide) (by decide) (by decide))
  have h0 : findFirst u [step "SizeInBits"] (mkEl u "StringDataEncoding" attrs [se]) = none := by
    simp [se, findFirst, findAll, mkEl, XmlNode.kids, Step.matches, step, XmlNode.isElem, XmlNode.tag, XmlNode.ns]
  have h1 : findFirst u [step "Variable"] (mkEl u "StringDataEncoding" attrs [se]) = some se := by
    simp [se, findFirst, findAll, mkEl, XmlNode.kids, Step.matches, step, XmlNode.isElem, XmlNode.tag, XmlNode.ns]
  have h2 : findFirst u [step "DynamicValue"] se = some dv := by
    simp only [se, findFirst, findAll, XmlNode.kids, hf]
    simp
  have h3 : loadDynamicValue u dv = .ok (r, uc, adj) := by
    cases adj with
    | none =>
      simp [dv, adjKids, loadDynamicValue, loadLinearAdjuster, writeParamInstanceRef, findFirst, findAll, mkEl, XmlNode.kids,
        Step.matches, step, XmlNode.isElem, XmlNode.tag, XmlNode.ns, XmlNode.attr!, XmlNode.attr?, XmlNode.attrs,
        isTrueWord_pyBool, bind, Except.bind, pure, Except.pure]
    | some a =>
      have g1 : readInt a.slope.repr = .ok a.slope := hI a.slope
      have g2 : readInt a.intercept.repr = .ok a.intercept := hI a.intercept
      simp [dv, adjKids, loadDynamicValue, loadLinearAdjuster, writeParamInstanceRef, writeLinAdj, showInt, findFirst, findAll, mkEl,
        XmlNode.kids, Step.matches, step, XmlNode.isElem, XmlNode.tag, XmlNode.ns, XmlNode.attr!, XmlNode.attr?,
        XmlNode.attrs, isTrueWord_pyBool, g1, g2, bind, Except.bind, pure, Except.pure]
  refine ⟨?_, by simp only [strSizeEl, h0, h1]⟩
  simp only [loadStrSpec, h0, h1, h2, h3]

theorem spec_lookup (hV : FValRoundTrip) (u : Option String) (attrs : List (String × String)) (l : List DiscreteLookup)
    (hwf : ∀ d ∈ l, (∃ q, d.value = .flt (.fin q)) ∧ d.criteria ≠ [] ∧ ∀ c ∈ d.criteria, (lookupOp c.op).isSome = true)
    (xs : List XmlNode) (hm : l.mapM (writeDiscreteLookup u) = .ok xs) (lead : Option Int) (term : Option Bytes) :
    let se := XmlNode.elem u "Variable" [] none (mkEl u "DiscreteLookupList" [] xs :: tailKids u lead term)
    loadStrSpec u (mkEl u "StringDataEncoding" attrs [se]) = .ok (none, none, true, none, some l) ∧
    strSizeEl u (mkEl u "StringDataEncoding" attrs [se]) = some se := by
  intro se
  have hfd := tail_no_match u lead term "DynamicValue" (by decide) (by decide) (by decide)
  have hf := filter_head_only u "DiscreteLookupList" (mkEl u "DiscreteLookupList" [] xs) (tailKids u lead term)
    (by simp [Step.matches, step, mkEl, XmlNode.isElem, XmlNode.tag, XmlNode.ns])
    (tail_no_match u lead term "DiscreteLookupList" (by decide) (by decide) (by decide))
  have hfd' : (mkEl u "DiscreteLookupList" [] xs :: tailKids u lead term).filter ((step "DynamicValue").matches u) = [] := by
    rw [List.filter_eq_nil_iff]
    intro y hy
    simp only [List.mem_cons] at hy
    rcases hy with rfl | hy
    · simp [Step.matches, step, mkEl, XmlNode.tag]
    · simp [hfd y hy]
  have hel := mapM_all (writeDiscreteLookup u) (fun b => b.isElem = true) l
    (fun d _ b hb => writeDiscreteLookup_isElem u d b hb) xs hm
  have hrt := mapM_roundtrip (writeDiscreteLookup u) (loadDiscreteLookup u) l
    (fun d hd b hb => by
      obtain ⟨⟨q, hq⟩, hne, hop⟩ := hwf d hd
      exact discrete_lookup_roundtrip hV u d q hq hne hop b hb) xs hm
  have he : (mkEl u "DiscreteLookupList" [] xs).elems = xs := by
    simp only [mkEl, XmlNode.elems, XmlNode.kids]
    rw [List.filter_eq_self]; exact hel
  have h0 : findFirst u [step "SizeInBits"] (mkEl u "StringDataEncoding" attrs [se]) = none := by
    simp [se, findFirst, findAll, mkEl, XmlNode.kids, Step.matches, step, XmlNode.isElem, XmlNode.tag, XmlNode.ns]
  have h1 : findFirst u [step "Variable"] (mkEl u "StringDataEncoding" attrs [se]) = some se := by
    simp [se, findFirst, findAll, mkEl, XmlNode.kids, Step.matches, step, XmlNode.isElem, XmlNode.tag, XmlNode.ns]
  have h2 : findFirst u [step "DynamicValue"] se = none := by
    simp only [se, findFirst, findAll, XmlNode.kids, hfd']
    simp
  have h3 : findFirst u [step "DiscreteLookupList"] se = some (mkEl u "DiscreteLookupList" [] xs) := by
    simp only [se, findFirst, findAll, XmlNode.kids, hf]
    simp
  refine ⟨?_, by simp only [strSizeEl, h0, h1]⟩
  simp only [loadStrSpec, h0, h1, h2, h3, he, hrt]


/-- The attributes the writer gives a `StringDataEncoding` element. -/
def strAttrs (enc : String) (bo : Option String) : List (String × String) :=
  [("encoding", enc)] ++ (if enc == "UTF-16" || enc == "UTF-32" then [("byteOrder", bo.getD "None")] else [])

theorem readStrByteOrder_written (u : Option String) (enc : String) (bo : Option String) (hc : CodecOK enc bo)
    (kids : List XmlNode) :
    ((mkEl u "StringDataEncoding" (strAttrs enc bo) kids).attr? "encoding").getD "UTF-8" = enc ∧
    readStrByteOrder (mkEl u "StringDataEncoding" (strAttrs enc bo) kids) enc = .ok (boIn enc bo) := by
  cases hc with
  | single enc henc =>
    have hne : (enc == "UTF-16" || enc == "UTF-32") = false := by
      simp only [singleByteEncodings, List.mem_cons, List.mem_nil_iff, or_false] at henc
      rcases henc with rfl | rfl | rfl | rfl <;> decide
    simp [strAttrs, hne, mkEl, XmlNode.attr?, XmlNode.attrs, readStrByteOrder, boIn, henc, pure, Except.pure]
  | bare16 b hb =>
    have e1 : ("UTF-16".endsWith "BE") = false := by decide +kernel
    have e2 : ("UTF-16".endsWith "LE") = false := by decide +kernel
    simp [strAttrs, mkEl, XmlNode.attr?, XmlNode.attrs, readStrByteOrder, boIn, singleByteEncodings, e1, e2, pure, Except.pure]
  | bare32 b hb =>
    have e1 : ("UTF-32".endsWith "BE") = false := by decide +kernel
    have e2 : ("UTF-32".endsWith "LE") = false := by decide +kernel
    simp [strAttrs, mkEl, XmlNode.attr?, XmlNode.attrs, readStrByteOrder, boIn, singleByteEncodings, e1, e2, pure, Except.pure]
  | le16 =>
    have e2 : ("UTF-16LE".endsWith "LE") = true := by decide +kernel
    simp [strAttrs, mkEl, XmlNode.attr?, XmlNode.attrs, readStrByteOrder, boIn, singleByteEncodings, e2, pure, Except.pure]
  | be16 =>
    have e1 : ("UTF-16BE".endsWith "BE") = true := by decide +kernel
    simp [strAttrs, mkEl, XmlNode.attr?, XmlNode.attrs, readStrByteOrder, boIn, singleByteEncodings, e1, pure, Except.pure]
  | le32 =>
    have e2 : ("UTF-32LE".endsWith "LE") = true := by decide +kernel
    simp [strAttrs, mkEl, XmlNode.attr?, XmlNode.attrs, readStrByteOrder, boIn, singleByteEncodings, e2, pure, Except.pure]
  | be32 =>
    have e1 : ("UTF-32BE".endsWith "BE") = true := by decide +kernel
    simp [strAttrs, mkEl, XmlNode.attr?, XmlNode.attrs, readStrByteOrder, boIn, singleByteEncodings, e1, pure, Except.pure]


/-- String encodings in the regime of the round trip: any of the ten codecs with the byte order the object records for
    it; exactly one size form (fixed and non-zero, taken from a parameter with its selector and adjustment, or looked up
    from criteria); and either a leading size that is absent or non-zero, or a termination character (one character of
    the codec). -/
structure StrWF (e : StrEnc) : Prop where
  codec : CodecOK e.encoding e.byteOrder
  spec : (∃ n, n ≠ 0 ∧ e.fixedLength = some n ∧ e.dynRef = none ∧ e.lookup = none ∧ e.useCal = true ∧ e.adjuster = none) ∨
         (∃ r, r ≠ "" ∧ e.fixedLength = none ∧ e.dynRef = some r ∧ e.lookup = none) ∨
         (∃ l, l ≠ [] ∧ (∀ d ∈ l, (∃ q, d.value = .flt (.fin q)) ∧ d.criteria ≠ [] ∧
                          ∀ c ∈ d.criteria, (lookupOp c.op).isSome = true) ∧
               e.fixedLength = none ∧ e.dynRef = none ∧ e.lookup = some l ∧ e.useCal = true ∧ e.adjuster = none)
  tail : (e.termChar = none ∧ e.leadingSize ≠ some 0) ∨
         (∃ t, e.termChar = some t ∧ TermOK (codecOf e.encoding e.byteOrder) t ∧ e.leadingSize = none)

theorem tail_facts (enc : String) (bo : Option String) (term : Option Bytes) (lead : Option Int)
    (h : (term = none ∧ lead ≠ some 0) ∨ (∃ t, term = some t ∧ TermOK (codecOf enc bo) t ∧ lead = none)) :
    TailOK enc bo (term.map bytesToHex) lead term ∧
    ((term = none ∧ lead ≠ some 0) ∨ (∃ t, term = some t ∧ t ≠ [] ∧ lead = none)) := by
  rcases h with ⟨rfl, hl⟩ | ⟨t, rfl, ht, rfl⟩
  · exact ⟨TailOK.plain lead, Or.inl ⟨rfl, hl⟩⟩
  · exact ⟨TailOK.term t ht, Or.inr ⟨t, rfl, ht.1, rfl⟩⟩

/-- **A string encoding written to XML and loaded back is the same string encoding** — codec and byte order, size
    specification, leading size or termination character. -/
theorem string_encoding_roundtrip (hI : IntRoundTrip) (hV : FValRoundTrip) (u : Option String) (e : StrEnc) (hwf : StrWF e)
    (x : XmlNode) (hw : writeEncoding u (.str e) = .ok x) : loadStringEncoding u x = .ok (.str e) := by
  obtain ⟨enc, fixed, dyn, lookup, useCal, adj, term, lead, bo⟩ := e
  obtain ⟨hc, hspec, htail⟩ := hwf
  simp only at hc hspec htail
  obtain ⟨htl, htl'⟩ := tail_facts enc bo term lead htail
  rcases hspec with ⟨n, hn, rfl, rfl, rfl, rfl, rfl⟩ | ⟨r, hr, rfl, rfl, rfl⟩ | ⟨l, hl, hlwf, rfl, rfl, rfl, rfl, rfl⟩
  · -- fixed size
    have hn' : (n != 0) = true := by simpa using hn
    simp only [writeEncoding, optTruthy, hn', if_true, bind, Except.bind, pure, Except.pure, Option.getD_some] at hw
    simp only [mkEl, List.cons_append, List.nil_append] at hw
    injection hw with hw; subst hw
    obtain ⟨hS1, hS2⟩ := spec_fixed hI u (strAttrs enc bo) n lead term
    obtain ⟨hB1, hB2⟩ := readStrByteOrder_written u enc bo hc
      [XmlNode.elem u "SizeInBits" [] none (mkEl u "Fixed" [] [mkEl u "FixedValue" [] [] (some (toString n))] :: tailKids u lead term)]
    have hT := loadStrTail_written hI u "SizeInBits" (mkEl u "Fixed" [] [mkEl u "FixedValue" [] [] (some (toString n))])
      (by simp [Step.matches, step, mkEl, XmlNode.tag]) (by simp [Step.matches, step, mkEl, XmlNode.tag]) lead term htl'
    have hM := mkStrEnc_ok enc bo hc (some n) none none true none (term.map bytesToHex) lead term
      (by simp [strTruthy, listTruthy, optTruthy, hn']) (by intro h; cases h) htl
    simp only [mkEl, strAttrs, List.cons_append, List.nil_append] at hS1 hS2 hB1 hB2 hT
    simp only [loadStringEncoding, hB1, hB2, hS1, hS2, hT, hM, bind, Except.bind, pure, Except.pure]
  · -- size taken from a parameter
    have hr' : strTruthy (some r) = true := by simpa [strTruthy] using hr
    simp only [writeEncoding, optTruthy, hr', if_true, bind, Except.bind, pure, Except.pure, Option.getD_some,
      Bool.false_eq_true, if_false] at hw
    simp only [mkEl, List.cons_append, List.nil_append] at hw
    injection hw with hw; subst hw
    obtain ⟨hS1, hS2⟩ := spec_dyn hI u (strAttrs enc bo) r useCal adj lead term
    obtain ⟨hB1, hB2⟩ := readStrByteOrder_written u enc bo hc
      [XmlNode.elem u "Variable" [] none (mkEl u "DynamicValue" [] ([writeParamInstanceRef u r useCal] ++
        adjKids u adj) :: tailKids u lead term)]
    have hT := loadStrTail_written hI u "Variable" (mkEl u "DynamicValue" [] ([writeParamInstanceRef u r useCal] ++
        adjKids u adj))
      (by simp [Step.matches, step, mkEl, XmlNode.tag]) (by simp [Step.matches, step, mkEl, XmlNode.tag]) lead term htl'
    have hM := mkStrEnc_ok enc bo hc none (some r) none useCal adj (term.map bytesToHex) lead term
      (by simp [hr', listTruthy, optTruthy]) (by intro _; exact hr') htl
    simp only [mkEl, strAttrs, List.cons_append, List.nil_append] at hS1 hS2 hB1 hB2 hT
    simp only [loadStringEncoding, hB1, hB2, hS1, hS2, hT, hM, bind, Except.bind, pure, Except.pure]
  · -- size looked up from criteria
    have hl' : listTruthy (some l) = true := by cases l with | nil => exact absurd rfl hl | cons a t => rfl
    simp only [writeEncoding, optTruthy, strTruthy, hl', if_true, bind, Except.bind, pure, Except.pure, Option.getD_some,
      Bool.false_eq_true, if_false] at hw
    cases hm : l.mapM (writeDiscreteLookup u) with
    | error err => rw [hm] at hw; cases hw
    | ok xs =>
      rw [hm] at hw
      simp only [mkEl, List.cons_append, List.nil_append] at hw
      injection hw with hw; subst hw
      obtain ⟨hS1, hS2⟩ := spec_lookup hV u (strAttrs enc bo) l hlwf xs hm lead term
      obtain ⟨hB1, hB2⟩ := readStrByteOrder_written u enc bo hc
        [XmlNode.elem u "Variable" [] none (mkEl u "DiscreteLookupList" [] xs :: tailKids u lead term)]
      have hT := loadStrTail_written hI u "Variable" (mkEl u "DiscreteLookupList" [] xs)
        (by simp [Step.matches, step, mkEl, XmlNode.tag]) (by simp [Step.matches, step, mkEl, XmlNode.tag]) lead term htl'
      have hM := mkStrEnc_ok enc bo hc none none (some l) true none (term.map bytesToHex) lead term
        (by simp [hl', strTruthy, optTruthy]) (by intro h; cases h) htl
      simp only [mkEl, strAttrs, List.cons_append, List.nil_append] at hS1 hS2 hB1 hB2 hT
      simp only [loadStringEncoding, hB1, hB2, hS1, hS2, hT, hM, bind, Except.bind, pure, Except.pure]


/-- The regime is inhabited by multi-byte, terminated encodings: a bare `UTF-16` with a byte-order attribute, sized by a
    parameter with an adjustment, ended by a two-byte NUL. -/
example : StrWF { encoding := "UTF-16", fixedLength := none, dynRef := some "LEN", lookup := none, useCal := false,
                  adjuster := some { slope := 8, intercept := -16 }, termChar := some [0, 0], leadingSize := none,
                  byteOrder := some "mostSignificantByteFirst" } :=
  ⟨CodecOK.bare16 _ (Or.inr rfl), Or.inr (Or.inl ⟨"LEN", by decide, rfl, rfl, rfl⟩),
   Or.inr ⟨[0, 0], rfl, ⟨by decide, ⟨String.ofList [Char.ofNat 0], by decide +kernel, by decide⟩⟩, rfl⟩⟩

/-- … and by a fixed-size `UTF-32LE` string with a leading size. -/
example : StrWF { encoding := "UTF-32LE", fixedLength := some 64, dynRef := none, lookup := none, useCal := true,
                  adjuster := none, termChar := none, leadingSize := some 16,
                  byteOrder := some "leastSignificantByteFirst" } :=
  ⟨CodecOK.le32, Or.inl ⟨64, by decide, rfl, rfl, rfl, rfl, rfl⟩, Or.inl ⟨rfl, by decide⟩⟩

end Spp.C09
