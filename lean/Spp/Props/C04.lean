/-
C04 — Integer and float fields decode correctly at every size, offset and byte order.
-/
import Spp.Lemmas.Enc
namespace Spp.C04
open Spp

def mkEnc (isFloat : Bool) (n : Nat) (encoding bo : String) : NumEnc :=
  { isFloat := isFloat, size := (n : Int), encoding := encoding, byteOrder := bo,
    cals := { default := none, contexts := [] } }

/-- Unsigned, most-significant-byte-first integer of any width at any offset: the value of its bits. -/
theorem int_unsigned_msb (B : Bytes) (p n : Nat) (bo : String) (h : p + n ≤ 8 * B.length)
    (hbo : bo ≠ "leastSignificantByteFirst") :
    intRawValue (mkEnc false n "unsigned" bo) ⟨B, p⟩ = .ok ((fieldVal B p n : Nat), ⟨B, p + n⟩) := by
  have h1 : (bo == "leastSignificantByteFirst") = false := by simpa using hbo
  unfold intRawValue
  simp only [mkEnc, readAsInt_spec B p n h, liftBit, bind, Except.bind, pure, Except.pure, h1,
    Int.toNat_natCast, BEq.rfl, Bool.false_eq_true, if_false, if_true]

/-- Signed (any spelling other than `unsigned`), MSB-first: the two's-complement value of its bits. -/
theorem int_signed_msb (B : Bytes) (p n : Nat) (enc bo : String) (h : p + n ≤ 8 * B.length) (hn : 1 ≤ n)
    (henc : enc ≠ "unsigned") (hbo : bo ≠ "leastSignificantByteFirst") :
    intRawValue (mkEnc false n enc bo) ⟨B, p⟩ = .ok (twos n (fieldVal B p n), ⟨B, p + n⟩) := by
  have h1 : (bo == "leastSignificantByteFirst") = false := by simpa using hbo
  have h2 : (enc == "unsigned") = false := by simpa using henc
  have h3 : (n == 0) = false := by simp; omega
  unfold intRawValue
  simp only [mkEnc, readAsInt_spec B p n h, liftBit, bind, Except.bind, pure, Except.pure, h1, h2, h3,
    Int.toNat_natCast, Bool.false_eq_true, if_false]
  rw [twosComplement_eq_twos n _ hn (fieldVal_lt B p n)]

/-- `twos` is the standard signed reading of an `n`-bit vector. -/
theorem twos_is_signed_value (n v : Nat) (hv : v < 2 ^ n) : twos n v = (BitVec.ofNat n v).toInt :=
  twos_eq_toInt n v hv

/-- Least-significant-byte-first, whole-byte widths: the little-endian value of the field's bytes
    (then the sign as above). -/
theorem int_lsb (B : Bytes) (p k : Nat) (enc : String) (h : p + 8 * k ≤ 8 * B.length) :
    ∃ fb : Bytes, fb = toBytesBE k (fieldVal B p (8 * k)) ∧ fb.length = k ∧
      fromBytesBE fb = fieldVal B p (8 * k) ∧
      intRawValue (mkEnc false (8 * k) enc "leastSignificantByteFirst") ⟨B, p⟩ =
        (if enc == "unsigned" then .ok ((fromBytesLE fb : Nat), ⟨B, p + 8 * k⟩)
         else if k == 0 then .error .value
         else .ok (twosComplement (fromBytesLE fb) (8 * k), ⟨B, p + 8 * k⟩)) := by
  have hlt : fieldVal B p (8 * k) < 256 ^ k := by rw [two_pow_8]; exact fieldVal_lt _ _ _
  refine ⟨_, rfl, toBytesBE_length _ _, fromBytesBE_toBytesBE _ _ hlt, ?_⟩
  have e : (8 * k + 7) / 8 = k := by omega
  have e0 : (8 * k == 0) = (k == 0) := by
    cases k <;> simp
  unfold intRawValue
  simp only [mkEnc, readAsInt_spec B p (8 * k) h, liftBit, bind, Except.bind, pure, Except.pure,
    Int.toNat_natCast, e, e0, fromBytesLE, BEq.rfl, if_true]
  split
  · rfl
  · split <;> rfl

/-- IEEE-754 binary16/32/64, MSB-first: exactly the IEEE value of the field's bits. -/
theorem float_ieee_msb (B : Bytes) (p w : Nat) (enc bo : String) (h : p + w ≤ 8 * B.length)
    (hw : w = 16 ∨ w = 32 ∨ w = 64) (henc : enc ≠ "MILSTD_1750A") (hbo : bo ≠ "leastSignificantByteFirst") :
    ∃ f, ieeeVal w (fieldVal B p w) = some f ∧
      floatRawValue (mkEnc true w enc bo) ⟨B, p⟩ = .ok (f, ⟨B, p + w⟩) := by
  have h1' : (bo == "leastSignificantByteFirst") = false := by simpa using hbo
  have h2' : (enc == "MILSTD_1750A") = false := by simpa using henc
  have hf : ∃ f, ieeeVal w (fieldVal B p w) = some f := by
    rcases hw with rfl | rfl | rfl <;> exact ⟨_, rfl⟩
  obtain ⟨f, hf⟩ := hf
  refine ⟨f, hf, ?_⟩
  have hlt : fieldVal B p w < 256 ^ ((w + 7) / 8) := by
    rw [two_pow_8]
    exact Nat.lt_of_lt_of_le (fieldVal_lt B p w) (Nat.pow_le_pow_right (by omega) (by omega))
  unfold floatRawValue
  simp only [mkEnc, readAsBytes_spec B p w h, liftBit, bind, Except.bind, pure, Except.pure, h1', h2',
    Int.toNat_natCast, Bool.false_eq_true, if_false, fromBytesBE_toBytesBE _ _ hlt, hf]

/-- IEEE-754, LSB-first: the IEEE value of the byte-reversed field. -/
theorem float_ieee_lsb (B : Bytes) (p w : Nat) (enc : String) (h : p + w ≤ 8 * B.length)
    (hw : w = 16 ∨ w = 32 ∨ w = 64) (henc : enc ≠ "MILSTD_1750A") :
    ∃ f, ieeeVal w (fromBytesLE (toBytesBE (w / 8) (fieldVal B p w))) = some f ∧
      floatRawValue (mkEnc true w enc "leastSignificantByteFirst") ⟨B, p⟩ = .ok (f, ⟨B, p + w⟩) := by
  have h2' : (enc == "MILSTD_1750A") = false := by simpa using henc
  have e : (w + 7) / 8 = w / 8 := by rcases hw with rfl | rfl | rfl <;> rfl
  have hf : ∃ f, ieeeVal w (fromBytesLE (toBytesBE (w / 8) (fieldVal B p w))) = some f := by
    rcases hw with rfl | rfl | rfl <;> exact ⟨_, rfl⟩
  obtain ⟨f, hf⟩ := hf
  refine ⟨f, hf, ?_⟩
  unfold floatRawValue
  simp only [mkEnc, readAsBytes_spec B p w h, liftBit, bind, Except.bind, pure, Except.pure, h2',
    Int.toNat_natCast, Bool.false_eq_true, if_false, BEq.rfl, if_true, e, hf]

/-- MIL-STD-1750A (32 bits): `mantissa · 2^(exponent − 23)` with both parts two's complement. -/
theorem float_mil_msb (B : Bytes) (p : Nat) (bo : String) (h : p + 32 ≤ 8 * B.length)
    (hbo : bo ≠ "leastSignificantByteFirst") :
    floatRawValue (mkEnc true 32 "MILSTD_1750A" bo) ⟨B, p⟩ =
      .ok (.fin ((twos 24 (fieldVal B p 32 / 256 % 2 ^ 24) : Rat) * pow2 (twos 8 (fieldVal B p 32 % 256) - 23)),
           ⟨B, p + 32⟩) := by
  have h1' : (bo == "leastSignificantByteFirst") = false := by simpa using hbo
  have hlt : fieldVal B p 32 < 256 ^ ((32 + 7) / 8) := by
    rw [two_pow_8]
    exact Nat.lt_of_lt_of_le (fieldVal_lt B p 32) (Nat.pow_le_pow_right (by omega) (by omega))
  unfold floatRawValue
  simp only [mkEnc, readAsBytes_spec B p 32 h, liftBit, bind, Except.bind, pure, Except.pure, h1',
    Int.toNat_natCast, Bool.false_eq_true, if_false, BEq.rfl, if_true, fromBytesBE_toBytesBE _ _ hlt]
  unfold mil1750aVal
  rw [twosComplement_eq_twos 8 _ (by omega) (Nat.mod_lt _ (by omega)),
      twosComplement_eq_twos 24 _ (by omega) (Nat.mod_lt _ (Nat.two_pow_pos _))]

/-- Every numeric field advances the cursor by exactly its width and never touches the buffer — also when it
    is calibrated, and also on the (flagged, see C14) path where an aligned integer read runs past the end. -/
theorem cursor (e : NumEnc) (pkt : Pkt) (v : Param) (r' : Raw) (h : e.parseValue pkt = .ok (v, r')) :
    r'.pos = pkt.raw.pos + e.size.toNat ∧ r'.data = pkt.raw.data := by
  obtain ⟨parsed, h1, _⟩ := NumEnc.parseValue_ok h
  exact NumEnc.rawValue_pos h1

/-- Uncalibrated integers are integer values and uncalibrated floats are float values, raw value = value. -/
theorem class_uncalibrated (e : NumEnc) (pkt : Pkt) (v : Param) (r' : Raw)
    (hc : e.cals.default = none ∧ e.cals.contexts = []) (h : e.parseValue pkt = .ok (v, r')) :
    v.cls = (if e.isFloat then Cls.FloatP else Cls.IntP) ∧ v.raw = v.val := by
  obtain ⟨parsed, _, h2⟩ := NumEnc.parseValue_ok h
  unfold NumEnc.derive at h2
  rw [hc.1, hc.2] at h2
  simp only [firstContext, bind, Except.bind, pure, Except.pure] at h2
  injection h2 with h2; subst h2; simp [mkParam]

/-- Non-vacuity / sanity: 0x3C00 is 1.0 in binary16; 0xC000 is −2.0; 0x0001 is the smallest subnormal. -/
example : ieeeVal 16 0x3C00 = some (.fin 1) := by decide +kernel
example : ieeeVal 16 0xC000 = some (.fin (-2)) := by decide +kernel
example : ieeeVal 16 0x8000 = some .negZero := by decide +kernel
example : ieeeVal 16 0x7C00 = some (.inf false) := by decide +kernel
example : ieeeVal 16 0x7E00 = some .nan := by decide +kernel
example : ieeeVal 16 0x0001 = some (.fin (pow2 (-24))) := by decide +kernel
example : twos 8 0xFF = -1 := by decide

end Spp.C04
