/-
C17 — A loaded definition is a consistent object graph; broken documents fail at load.
Object identity ("the same object") has no counterpart in a value model: names are the identities here, and the
harness checks `is` on the real graph.
-/
import Spp.Lemmas.Load
namespace Spp.C17
open Spp

/-- A successful parse of the ParameterTypeSet yields pairwise distinct type names, one entry per element, in
    document order. -/
theorem types_unique (ens : Option String) (root : XmlNode) (ts : List (String × LPType))
    (h : loadParameterTypeSet ens root = .ok ts) : UniqueKeys ts := by
  unfold loadParameterTypeSet at h
  cases hs : findFirst ens [step "TelemetryMetaData", step "ParameterTypeSet"] root with
  | none => simp [hs, bind, Except.bind] at h
  | some set =>
    simp only [hs, bind, Except.bind, pure, Except.pure] at h
    refine foldlM_inv _ UniqueKeys ?_ _ [] ts (by simp [UniqueKeys]) h
    intro acc el acc' hacc hstep
    unfold typeSetStep at hstep
    cases ht : loadParameterType ens el with
    | error e => simp [ht] at hstep
    | ok t =>
      simp only [ht] at hstep
      by_cases hd : acc.any (·.1 == t.name) = true
      · simp [hd] at hstep
      · simp only [hd, Bool.false_eq_true, if_false] at hstep
        injection hstep with hstep; subst hstep
        exact uniqueKeys_append_new acc t.name t hacc (Bool.eq_false_iff.mpr hd)

/-- A document with two parameter types of the same name is rejected at load. -/
theorem duplicate_type_rejected (ens : Option String) (set : XmlNode) (acc : List (String × LPType)) (el : XmlNode)
    (t : LPType) (ht : loadParameterType ens el = .ok t) (hdup : acc.any (·.1 == t.name) = true) :
    typeSetStep ens acc el = .error .value := by
  simp [typeSetStep, ht, hdup]

theorem params_unique (ens : Option String) (root : XmlNode) (types : List (String × LPType))
    (ps : List (String × LParam)) (h : loadParameterSet ens root types = .ok ps) : UniqueKeys ps := by
  unfold loadParameterSet at h
  cases hs : findFirst ens [step "TelemetryMetaData", step "ParameterSet"] root with
  | none => simp [hs, bind, Except.bind] at h
  | some set =>
    simp only [hs, bind, Except.bind, pure, Except.pure] at h
    refine foldlM_inv _ UniqueKeys ?_ _ [] ps (by simp [UniqueKeys]) h
    intro acc el acc' hacc hstep
    unfold paramSetStep at hstep
    cases ht : loadParameter ens types el with
    | error e => simp [ht] at hstep
    | ok p =>
      simp only [ht] at hstep
      by_cases hd : acc.any (·.1 == p.name) = true
      · simp [hd] at hstep
      · simp only [hd, Bool.false_eq_true, if_false] at hstep
        injection hstep with hstep; subst hstep
        exact uniqueKeys_append_new acc p.name p hacc (Bool.eq_false_iff.mpr hd)

theorem duplicate_parameter_rejected (ens : Option String) (types : List (String × LPType))
    (acc : List (String × LParam)) (el : XmlNode) (p : LParam) (hp : loadParameter ens types el = .ok p)
    (hdup : acc.any (·.1 == p.name) = true) :
    paramSetStep ens types acc el = .error .value := by
  simp [paramSetStep, hp, hdup]

/-- Every successfully loaded parameter refers to a parameter type that exists; an undefined type reference is
    rejected. -/
theorem unknown_type_ref_rejected (ens : Option String) (types : List (String × LPType)) (el : XmlNode)
    (name tn : String) (h1 : el.attr? "name" = some name) (h2 : el.attr? "parameterTypeRef" = some tn)
    (h3 : types.any (·.1 == tn) = false) : loadParameter ens types el = .error .other := by
  unfold loadParameter
  simp [XmlNode.attr!, h1, h2, h3, bind, Except.bind, throw, throwThe, MonadExceptOf.throw]

theorem parameter_type_resolves (ens : Option String) (types : List (String × LPType)) (el : XmlNode) (p : LParam)
    (h : loadParameter ens types el = .ok p) : types.any (·.1 == p.typeName) = true := by
  unfold loadParameter at h
  cases h1 : el.attr! "name" with
  | error e => simp [h1, bind, Except.bind] at h
  | ok n =>
    cases h2 : el.attr! "parameterTypeRef" with
    | error e => simp [h1, h2, bind, Except.bind] at h
    | ok tn =>
      simp only [h1, h2, bind, Except.bind, pure, Except.pure] at h
      by_cases hh : types.any (·.1 == tn) = true
      · simp only [hh, Bool.not_true, Bool.false_eq_true, if_false] at h
        injection h with h; subst h; exact hh
      · simp [hh, throw, throwThe, MonadExceptOf.throw] at h

/-- The three name tables of the definition object never hold two entries for one name. -/
theorem containers_unique (allTypes : List (String × LPType)) (allParams : List (String × LParam)) (lookup : CLookup)
    (fuel : Nat) (acc res : List (String × LPType) × List (String × LParam) × CLookup) (c : LContainer)
    (hacc : UniqueKeys acc.1 ∧ UniqueKeys acc.2.1 ∧ UniqueKeys acc.2.2)
    (h : updateCaches allTypes allParams lookup fuel acc c = .ok res) :
    UniqueKeys res.1 ∧ UniqueKeys res.2.1 ∧ UniqueKeys res.2.2 := by
  induction fuel generalizing acc res c with
  | zero => simp [updateCaches] at h
  | succ fuel ih =>
    simp only [updateCaches] at h
    refine foldlM_inv _ (fun a => UniqueKeys a.1 ∧ UniqueKeys a.2.1 ∧ UniqueKeys a.2.2) ?_ _ _ res
      ⟨hacc.1, hacc.2.1, assocSet_unique acc.2.2 c.name c hacc.2.2⟩ h
    intro a e a' ha hstep
    cases e with
    | cont n =>
      simp only [cacheEntry] at hstep
      cases hl : lookup.get? n with
      | none => simp [hl] at hstep
      | some nc => simp only [hl] at hstep; exact ih _ _ _ ha hstep
    | param n =>
      simp only [cacheEntry] at hstep
      cases hp : allParams.find? (·.1 == n) with
      | none => simp [hp] at hstep
      | some np =>
        obtain ⟨pn, p⟩ := np
        simp only [hp] at hstep
        cases ht : allTypes.find? (·.1 == p.typeName) with
        | none => simp [ht] at hstep
        | some nt =>
          obtain ⟨tn, t⟩ := nt
          simp only [ht] at hstep
          injection hstep with hstep; subst hstep
          exact ⟨assocSet_unique _ _ _ ha.1, assocSet_unique _ _ _ ha.2.1, ha.2.2⟩

/-- The containers of `tbl` (in table order) that name `b` as their base. -/
def basedOn (tbl : CLookup) (b : String) : List String :=
  (tbl.filter (fun kv => kv.2.base == some b && b != "")).map (·.1)

theorem basedOn_cons (kv : String × LContainer) (rest : CLookup) (n : String) :
    basedOn (kv :: rest) n = (if kv.2.base == some n && n != "" then [kv.1] else []) ++ basedOn rest n := by
  unfold basedOn
  simp only [List.filter_cons]
  split <;> simp

/-- One step of the back-population: the base's list grows by the child's name; nothing else changes. -/
def popStep (lk : CLookup) (kv : String × LContainer) : LoadM CLookup :=
  match kv.2.base with
  | some b =>
    if b == "" then pure lk
    else match lk.get? b with
      | some bc => pure (lk.set b { bc with inheritors := bc.inheritors ++ [kv.1] })
      | none => throw Err.other
  | none => pure lk

theorem populate_eq_fold (lookup : CLookup) : populateInheritors lookup = lookup.foldlM popStep lookup := rfl

theorem popFold_spec (rest : CLookup) (lk lk' : CLookup) (h : rest.foldlM popStep lk = .ok lk') :
    lk'.map (·.1) = lk.map (·.1) ∧
    ∀ n c, lk.get? n = some c → ∃ c', lk'.get? n = some c' ∧
      c'.inheritors = c.inheritors ++ basedOn rest n ∧ c'.base = c.base ∧ c'.name = c.name ∧ c'.entries = c.entries ∧
      c'.abstract = c.abstract := by
  induction rest generalizing lk with
  | nil =>
    simp [List.foldlM, pure, Except.pure] at h; subst h
    exact ⟨rfl, fun n c hc => ⟨c, hc, by simp [basedOn], rfl, rfl, rfl, rfl⟩⟩
  | cons kv rest ih =>
    simp only [List.foldlM_cons, bind, Except.bind] at h
    cases hstep : popStep lk kv with
    | error e => simp [hstep] at h
    | ok lk1 =>
      simp only [hstep] at h
      obtain ⟨ik, iv⟩ := ih lk1 h
      unfold popStep at hstep
      cases hb : kv.2.base with
      | none =>
        simp only [hb, pure, Except.pure] at hstep
        injection hstep with hstep; subst hstep
        refine ⟨ik, fun n c hc => ?_⟩
        obtain ⟨c', h1, h2, h3⟩ := iv n c hc
        exact ⟨c', h1, by rw [basedOn_cons, hb]; simpa using h2, h3⟩
      | some b =>
        simp only [hb] at hstep
        by_cases hbe : (b == "") = true
        · simp only [hbe, if_true, pure, Except.pure] at hstep
          injection hstep with hstep; subst hstep
          refine ⟨ik, fun n c hc => ?_⟩
          obtain ⟨c', h1, h2, h3⟩ := iv n c hc
          refine ⟨c', h1, ?_, h3⟩
          rw [basedOn_cons, hb, h2]
          have hbe' : b = "" := by simpa using hbe
          by_cases hnb : n = b
          · subst hnb; simp [hbe']
          · have : (some b == some n) = false := by simpa using fun e => hnb e.symm
            simp [this]
        · simp only [hbe, Bool.false_eq_true, if_false] at hstep
          cases hg : lk.get? b with
          | none => simp [hg, throw, throwThe, MonadExceptOf.throw] at hstep
          | some bc =>
            simp only [hg, pure, Except.pure] at hstep
            injection hstep with hstep; subst hstep
            have hany : lk.any (·.1 == b) = true := (clookup_any_iff_get lk b).mpr (by simp [hg])
            refine ⟨by rw [ik, clookup_keys_set lk b _ hany], fun n c hc => ?_⟩
            by_cases hnb : n = b
            · subst hnb
              rw [hg] at hc; injection hc with hc; subst hc
              obtain ⟨c', h1, h2, h3⟩ := iv n _ (clookup_get_set_same lk n _ hany)
              refine ⟨c', h1, ?_, h3⟩
              rw [h2, basedOn_cons, hb]
              have : (n != "") = true := by simpa using hbe
              simp [this]
            · obtain ⟨c', h1, h2, h3⟩ := iv n c (by rw [clookup_get_set_other lk b n _ hany hnb]; exact hc)
              refine ⟨c', h1, ?_, h3⟩
              rw [h2, basedOn_cons, hb]
              have : (some b == some n) = false := by simpa using fun e => hnb e.symm
              simp [this]

/-- After loading, each container's inheritor list is exactly the containers that name it as their base, each once,
    in table order (the lists start empty: `loadContainer` creates every container with `inheritors := []`). -/
theorem inheritors_exact (lookup lk' : CLookup) (h : populateInheritors lookup = .ok lk')
    (hempty : ∀ kv ∈ lookup, kv.2.inheritors = []) :
    lk'.map (·.1) = lookup.map (·.1) ∧
    ∀ n c, lookup.get? n = some c → ∃ c', lk'.get? n = some c' ∧ c'.inheritors = basedOn lookup n ∧
      c'.base = c.base ∧ c'.name = c.name ∧ c'.entries = c.entries ∧ c'.abstract = c.abstract := by
  rw [populate_eq_fold] at h
  obtain ⟨h1, h2⟩ := popFold_spec lookup lookup lk' h
  refine ⟨h1, fun n c hc => ?_⟩
  obtain ⟨c', g1, g2, g3⟩ := h2 n c hc
  have hce : c.inheritors = [] := by
    unfold CLookup.get? at hc
    cases hf : lookup.find? (·.1 == n) with
    | none => simp [hf] at hc
    | some kv =>
      simp only [hf, Option.map_some, Option.some.injEq] at hc
      subst hc
      exact hempty kv (List.mem_of_find?_eq_some hf)
  exact ⟨c', g1, by rw [g2, hce]; simp, g3⟩

/-- Inheritor names are pairwise distinct when container names are (each child appears once). -/
theorem basedOn_nodup (tbl : CLookup) (b : String) (hu : UniqueKeys tbl) : (basedOn tbl b).Nodup := by
  unfold basedOn UniqueKeys at *
  exact List.Nodup.sublist (List.Sublist.map _ (List.filter_sublist)) hu

/-! ### broken documents fail at load, end to end -/

/-- An element of the ParameterSet whose type reference names no loaded parameter type makes the load fail. -/
theorem dangling_type_ref_rejected_doc (ens : Option String) (root set el : XmlNode) (types : List (String × LPType))
    (name tn : String)
    (hset : findFirst ens [step "TelemetryMetaData", step "ParameterSet"] root = some set) (hel : el ∈ set.elems)
    (h1 : el.attr? "name" = some name) (h2 : el.attr? "parameterTypeRef" = some tn)
    (h3 : types.any (·.1 == tn) = false) : ∃ e, loadParameterSet ens root types = .error e := by
  unfold loadParameterSet
  simp only [hset]
  exact foldlM_fails _ _ el hel (fun acc => ⟨.other, by
    simp [paramSetStep, unknown_type_ref_rejected ens types el name tn h1 h2 h3]⟩) []

/-- A container whose `BaseContainer` names no (or more than one) `SequenceContainer` cannot be parsed, whatever has
    been parsed before. -/
theorem dangling_base_container_fails (ens : Option String) (root : XmlNode) (params : List (String × LParam))
    (fuel : Nat) (lookup : CLookup) (x bc : XmlNode) (ref : String)
    (hbc : findFirst ens [step "BaseContainer"] x = some bc) (href : bc.attr? "containerRef" = some ref)
    (hdang : ∃ e, getContainerElement ens root ref = .error e) :
    ∃ e, loadContainer ens root params fuel lookup x = .error e := by
  cases fuel with
  | zero => exact ⟨.other, rfl⟩
  | succ fuel =>
    obtain ⟨e0, he0⟩ := hdang
    have hb : ∃ e, loadBaseWith ens root (loadContainer ens root params fuel) lookup x = .error e := by
      unfold loadBaseWith
      simp only [hbc]
      cases loadRestriction ens bc with
      | error e => exact ⟨e, rfl⟩
      | ok crit => simp [XmlNode.attr!, href, he0]
    obtain ⟨e, he⟩ := hb
    exact ⟨e, by simp only [loadContainer, he]⟩

/-- An entry that refers to a parameter which was not declared makes the container unparsable. -/
theorem dangling_parameter_entry_fails (ens : Option String) (root : XmlNode) (params : List (String × LParam))
    (fuel : Nat) (lookup : CLookup) (x el entry : XmlNode) (pn : String)
    (hel : findFirst ens [step "EntryList"] x = some el) (hentry : entry ∈ el.elems)
    (htag : entry.tag = "ParameterRefEntry") (href : entry.attr? "parameterRef" = some pn)
    (hdang : params.any (·.1 == pn) = false) :
    ∃ e, loadContainer ens root params fuel lookup x = .error e := by
  cases fuel with
  | zero => exact ⟨.other, rfl⟩
  | succ fuel =>
    simp only [loadContainer]
    cases loadBaseWith ens root (loadContainer ens root params fuel) lookup x with
    | error e => exact ⟨e, rfl⟩
    | ok r =>
      obtain ⟨bn, crit, lk⟩ := r
      simp only [hel]
      obtain ⟨e, he⟩ := foldlM_fails (loadEntryWith ens root params (loadContainer ens root params fuel)) el.elems entry
        hentry (fun acc => ⟨.other, by simp [loadEntryWith, htag, XmlNode.attr!, href, hdang]⟩) ([], lk)
      exact ⟨e, by simp only [he]⟩

/-- … and a document containing such a container (as a child of the ContainerSet) is rejected at load. -/
theorem unparsable_container_rejected_doc (ens : Option String) (root set x : XmlNode) (params : List (String × LParam))
    (hset : findFirst ens [step "TelemetryMetaData", step "ContainerSet"] root = some set) (hx : x ∈ set.elems)
    (hfail : ∀ lookup, ∃ e, loadContainer ens root params FUEL lookup x = .error e) :
    ∃ e, loadContainerSet ens root params = .error e := by
  unfold loadContainerSet
  simp only [hset]
  obtain ⟨e, he⟩ := foldlM_fails (containerSetStep ens root params) set.elems x hx
    (fun lk => by
      obtain ⟨e, he⟩ := hfail lk
      exact ⟨e, by simp only [containerSetStep, he]⟩) []
  exact ⟨e, by simp only [he]⟩

theorem loadDoc_error_is_load_error (ctx : NsCtx) (ens : Option String) (rootName : String) (root : XmlNode)
    (he : ctx.expected = .ok ens) (e : Err) (h : loadDoc ens root = .error e) : loadXtce ctx rootName root = .error e := by
  unfold loadXtce
  simp only [he, h, bind, Except.bind]

/-- Hence `from_xtce` fails: a failure of the container set (or of an earlier set) is a failure of the load. -/
theorem container_set_failure_is_load_failure (ctx : NsCtx) (ens : Option String) (rootName : String) (root : XmlNode)
    (he : ctx.expected = .ok ens)
    (h : ∀ types params, loadParameterTypeSet ens root = .ok types → loadParameterSet ens root types = .ok params →
      ∃ e, loadContainerSet ens root params = .error e) :
    ∃ e, loadXtce ctx rootName root = .error e := by
  have hd : ∃ e, loadDoc ens root = .error e := by
    unfold loadDoc
    cases ht : loadParameterTypeSet ens root with
    | error e => exact ⟨e, rfl⟩
    | ok types =>
      simp only
      cases hp : loadParameterSet ens root types with
      | error e => exact ⟨e, rfl⟩
      | ok params =>
        simp only
        obtain ⟨e, hc⟩ := h types params ht hp
        exact ⟨e, by simp only [hc]⟩
  obtain ⟨e, hd⟩ := hd
  exact ⟨e, loadDoc_error_is_load_error ctx ens rootName root he e hd⟩

/-- A dangling parameter type reference is a load failure. -/
theorem dangling_type_ref_is_load_failure (ctx : NsCtx) (ens : Option String) (rootName : String) (root set el : XmlNode)
    (name tn : String) (he : ctx.expected = .ok ens)
    (hset : findFirst ens [step "TelemetryMetaData", step "ParameterSet"] root = some set) (hel : el ∈ set.elems)
    (h1 : el.attr? "name" = some name) (h2 : el.attr? "parameterTypeRef" = some tn)
    (h3 : ∀ types, loadParameterTypeSet ens root = .ok types → types.any (·.1 == tn) = false) :
    ∃ e, loadXtce ctx rootName root = .error e := by
  have hd : ∃ e, loadDoc ens root = .error e := by
    unfold loadDoc
    cases ht : loadParameterTypeSet ens root with
    | error e => exact ⟨e, rfl⟩
    | ok types =>
      simp only
      obtain ⟨e, hp⟩ := dangling_type_ref_rejected_doc ens root set el types name tn hset hel h1 h2 (h3 types ht)
      exact ⟨e, by simp only [hp]⟩
  obtain ⟨e, hd⟩ := hd
  exact ⟨e, loadDoc_error_is_load_error ctx ens rootName root he e hd⟩

/-- **A `BaseContainer` reference to a container that does not exist is a load failure** (not a decode-time one). -/
theorem dangling_base_is_load_failure (ctx : NsCtx) (ens : Option String) (rootName : String) (root set x bc : XmlNode)
    (ref : String) (he : ctx.expected = .ok ens)
    (hset : findFirst ens [step "TelemetryMetaData", step "ContainerSet"] root = some set) (hx : x ∈ set.elems)
    (hbc : findFirst ens [step "BaseContainer"] x = some bc) (href : bc.attr? "containerRef" = some ref)
    (hdang : findAll ens [{ tag := "SequenceContainer", nameEq := some ref }] set = []) :
    ∃ e, loadXtce ctx rootName root = .error e := by
  have hg : ∃ e, getContainerElement ens root ref = .error e := ⟨.value, by simp [getContainerElement, hset, hdang]⟩
  exact container_set_failure_is_load_failure ctx ens rootName root he (fun _ params _ _ =>
    unparsable_container_rejected_doc ens root set x params hset hx
      (fun lookup => dangling_base_container_fails ens root params FUEL lookup x bc ref hbc href hg))

/-- **An entry referring to an undeclared parameter is a load failure.** -/
theorem dangling_parameter_entry_is_load_failure (ctx : NsCtx) (ens : Option String) (rootName : String)
    (root set x el entry : XmlNode) (pn : String) (he : ctx.expected = .ok ens)
    (hset : findFirst ens [step "TelemetryMetaData", step "ContainerSet"] root = some set) (hx : x ∈ set.elems)
    (hel : findFirst ens [step "EntryList"] x = some el) (hentry : entry ∈ el.elems)
    (htag : entry.tag = "ParameterRefEntry") (href : entry.attr? "parameterRef" = some pn)
    (hdang : ∀ types params, loadParameterTypeSet ens root = .ok types → loadParameterSet ens root types = .ok params →
      params.any (·.1 == pn) = false) :
    ∃ e, loadXtce ctx rootName root = .error e :=
  container_set_failure_is_load_failure ctx ens rootName root he (fun types params ht hp =>
    unparsable_container_rejected_doc ens root set x params hset hx
      (fun lookup => dangling_parameter_entry_fails ens root params FUEL lookup x el entry pn hel hentry htag href
        (hdang types params ht hp)))

/-! ### duplicates, end to end -/

/-- The `name` attribute of an element (what both name tables are keyed on). -/
def nameOf (el : XmlNode) : String := (el.attr? "name").getD ""

theorem loadParameter_name (ens : Option String) (types : List (String × LPType)) (el : XmlNode) (p : LParam)
    (h : loadParameter ens types el = .ok p) : p.name = nameOf el := by
  unfold loadParameter at h
  cases h1 : el.attr? "name" with
  | none => simp [XmlNode.attr!, h1, bind, Except.bind] at h
  | some n =>
    cases h2 : el.attr? "parameterTypeRef" with
    | none => simp [XmlNode.attr!, h1, h2, bind, Except.bind] at h
    | some tn =>
      simp only [XmlNode.attr!, h1, h2, bind, Except.bind, pure, Except.pure] at h
      by_cases hh : types.any (·.1 == tn) = true
      · simp only [hh, Bool.not_true, Bool.false_eq_true, if_false] at h
        injection h with h; subst h; simp [nameOf, h1]
      · simp [hh, throw, throwThe, MonadExceptOf.throw] at h

theorem paramSet_keys (ens : Option String) (types : List (String × LPType)) (l : List XmlNode) :
    ∀ (acc res : List (String × LParam)), l.foldlM (paramSetStep ens types) acc = .ok res →
      res.map (·.1) = acc.map (·.1) ++ l.map nameOf := by
  induction l with
  | nil => intro acc res h; simp [List.foldlM, pure, Except.pure] at h; subst h; simp
  | cons el l ih =>
    intro acc res h
    simp only [List.foldlM_cons, bind, Except.bind] at h
    cases hs : paramSetStep ens types acc el with
    | error e => simp [hs] at h
    | ok acc' =>
      simp only [hs] at h
      rw [ih acc' res h]
      unfold paramSetStep at hs
      cases hp : loadParameter ens types el with
      | error e => simp [hp] at hs
      | ok p =>
        simp only [hp] at hs
        by_cases hd : acc.any (·.1 == p.name) = true
        · simp [hd] at hs
        · simp only [hd, Bool.false_eq_true, if_false] at hs
          injection hs with hs; subst hs
          simp [loadParameter_name ens types el p hp]

theorem loadParameterType_name (ens : Option String) (x : XmlNode) (t : LPType)
    (h : loadParameterType ens x = .ok t) : t.name = nameOf x := by
  unfold loadParameterType at h
  cases h1 : x.attr? "name" with
  | none =>
    exfalso
    simp only [XmlNode.attr!, h1, bind, Except.bind, pure, Except.pure] at h
    split at h
    · simp [throw, throwThe, MonadExceptOf.throw] at h
    · split at h
      · simp at h
      · split at h
        · simp at h
        · simp [throw, throwThe, MonadExceptOf.throw] at h
  | some n =>
    simp only [nameOf, h1, Option.getD_some]
    simp only [XmlNode.attr!, h1, bind, Except.bind, pure, Except.pure] at h
    repeat' (first | (cases h; done) | (cases h; rfl) | split at h)

/-- **Two parameters with one name: the document is rejected** (whether or not any container uses them). -/
theorem duplicate_parameter_names_rejected (ens : Option String) (root set : XmlNode) (types : List (String × LPType))
    (hset : findFirst ens [step "TelemetryMetaData", step "ParameterSet"] root = some set)
    (hdup : ¬ (set.elems.map nameOf).Nodup) : ∃ e, loadParameterSet ens root types = .error e := by
  cases h : loadParameterSet ens root types with
  | error e => exact ⟨e, rfl⟩
  | ok ps =>
    exfalso
    have hu := params_unique ens root types ps h
    unfold loadParameterSet at h
    simp only [hset] at h
    have hk := paramSet_keys ens types set.elems [] ps h
    unfold UniqueKeys at hu
    rw [hk] at hu
    simp only [List.map_nil, List.nil_append] at hu
    exact hdup hu

theorem typeSet_keys (ens : Option String) (l : List XmlNode) :
    ∀ (acc res : List (String × LPType)), l.foldlM (typeSetStep ens) acc = .ok res →
      res.map (·.1) = acc.map (·.1) ++ l.map nameOf := by
  induction l with
  | nil => intro acc res h; simp [List.foldlM, pure, Except.pure] at h; subst h; simp
  | cons el l ih =>
    intro acc res h
    simp only [List.foldlM_cons, bind, Except.bind] at h
    cases hs : typeSetStep ens acc el with
    | error e => simp [hs] at h
    | ok acc' =>
      simp only [hs] at h
      rw [ih acc' res h]
      unfold typeSetStep at hs
      cases hp : loadParameterType ens el with
      | error e => simp [hp] at hs
      | ok t =>
        simp only [hp] at hs
        by_cases hd : acc.any (·.1 == t.name) = true
        · simp [hd] at hs
        · simp only [hd, Bool.false_eq_true, if_false] at hs
          injection hs with hs; subst hs
          simp [loadParameterType_name ens el t hp]

/-- **Two parameter types with one name: the document is rejected.** -/
theorem duplicate_type_names_rejected (ens : Option String) (root set : XmlNode)
    (hset : findFirst ens [step "TelemetryMetaData", step "ParameterTypeSet"] root = some set)
    (hdup : ¬ (set.elems.map nameOf).Nodup) : ∃ e, loadParameterTypeSet ens root = .error e := by
  cases h : loadParameterTypeSet ens root with
  | error e => exact ⟨e, rfl⟩
  | ok ts =>
    exfalso
    have hu := types_unique ens root ts h
    unfold loadParameterTypeSet at h
    simp only [hset] at h
    have hk := typeSet_keys ens set.elems [] ts h
    unfold UniqueKeys at hu
    rw [hk] at hu
    simp only [List.map_nil, List.nil_append] at hu
    exact hdup hu

/-- Both as statements about `from_xtce`. -/
theorem duplicate_names_are_load_failures (ctx : NsCtx) (ens : Option String) (rootName : String) (root : XmlNode)
    (he : ctx.expected = .ok ens)
    (hdup : (∃ set, findFirst ens [step "TelemetryMetaData", step "ParameterTypeSet"] root = some set ∧
              ¬ (set.elems.map nameOf).Nodup) ∨
            (∃ set, findFirst ens [step "TelemetryMetaData", step "ParameterSet"] root = some set ∧
              ¬ (set.elems.map nameOf).Nodup)) :
    ∃ e, loadXtce ctx rootName root = .error e := by
  have hd : ∃ e, loadDoc ens root = .error e := by
    unfold loadDoc
    rcases hdup with ⟨set, hs, hn⟩ | ⟨set, hs, hn⟩
    · obtain ⟨e, h⟩ := duplicate_type_names_rejected ens root set hs hn
      exact ⟨e, by simp only [h]⟩
    · cases ht : loadParameterTypeSet ens root with
      | error e => exact ⟨e, rfl⟩
      | ok types =>
        simp only
        obtain ⟨e, h⟩ := duplicate_parameter_names_rejected ens root set types hs hn
        exact ⟨e, by simp only [h]⟩
  obtain ⟨e, hd⟩ := hd
  exact ⟨e, loadDoc_error_is_load_error ctx ens rootName root he e hd⟩

/-- Non-vacuity: a concrete document meeting every premise of `dangling_base_is_load_failure`. -/
def danglingDoc : XmlNode :=
  .elem none "SpaceSystem" [] none [
    .elem none "TelemetryMetaData" [] none [
      .elem none "ContainerSet" [] none [
        .elem none "SequenceContainer" [("name", "A")] none [
          .elem none "BaseContainer" [("containerRef", "NOPE")] none [],
          .elem none "EntryList" [] none []]]]]

example : ∃ e, loadXtce { nsPrefix := none, nsmap := [] } "A" danglingDoc = .error e := by
  refine dangling_base_is_load_failure _ none "A" danglingDoc
    (.elem none "ContainerSet" [] none [
        .elem none "SequenceContainer" [("name", "A")] none [
          .elem none "BaseContainer" [("containerRef", "NOPE")] none [],
          .elem none "EntryList" [] none []]])
    (.elem none "SequenceContainer" [("name", "A")] none [
          .elem none "BaseContainer" [("containerRef", "NOPE")] none [],
          .elem none "EntryList" [] none []])
    (.elem none "BaseContainer" [("containerRef", "NOPE")] none []) "NOPE" ?_ ?_ ?_ ?_ ?_ ?_
  · simp [NsCtx.expected, List.find?]
  · simp [danglingDoc, findFirst, findAll, XmlNode.kids, Step.matches, step, XmlNode.isElem, XmlNode.tag, XmlNode.ns]
  · simp [XmlNode.elems, XmlNode.kids, XmlNode.isElem]
  · simp [findFirst, findAll, XmlNode.kids, Step.matches, step, XmlNode.isElem, XmlNode.tag, XmlNode.ns]
  · simp [XmlNode.attr?, XmlNode.attrs, List.find?]
  · simp [findAll, XmlNode.kids, Step.matches, XmlNode.isElem, XmlNode.tag, XmlNode.ns, XmlNode.attr?, XmlNode.attrs,
      List.find?]

end Spp.C17
