/-
C06 — Match criteria evaluate to the mathematical truth of their comparisons.
-/
import Spp.Spec.Criteria
import Spp.Model.Encodings
namespace Spp.C06
open Spp

/-- Every accepted operator spelling denotes the relation of its canonical symbol (finite table). -/
theorem operator_table :
    (validOperators.map (·.1)) =
      ["==", "eq", "!=", "neq", "&lt;", "lt", "<", "&gt;", "gt", ">", "&lt;=", "leq", "<=", "&gt;=", "geq", ">="] ∧
    lookupOp "==" = some .eq ∧ lookupOp "eq" = some .eq ∧ lookupOp "!=" = some .ne ∧ lookupOp "neq" = some .ne ∧
    lookupOp "&lt;" = some .lt ∧ lookupOp "lt" = some .lt ∧ lookupOp "<" = some .lt ∧
    lookupOp "&gt;" = some .gt ∧ lookupOp "gt" = some .gt ∧ lookupOp ">" = some .gt ∧
    lookupOp "&lt;=" = some .le ∧ lookupOp "leq" = some .le ∧ lookupOp "<=" = some .le ∧
    lookupOp "&gt;=" = some .ge ∧ lookupOp "geq" = some .ge ∧ lookupOp ">=" = some .ge := by
  decide

/-- On integers the six relations are the mathematical ones — for every pair, including 0 and negatives. -/
theorem int_relations (a b : Int) :
    pyCompare .eq (.int a) (.int b) = .ok (decide (a = b)) ∧ pyCompare .ne (.int a) (.int b) = .ok (decide (a ≠ b)) ∧
    pyCompare .lt (.int a) (.int b) = .ok (decide (a < b)) ∧ pyCompare .gt (.int a) (.int b) = .ok (decide (a > b)) ∧
    pyCompare .le (.int a) (.int b) = .ok (decide (a ≤ b)) ∧ pyCompare .ge (.int a) (.int b) = .ok (decide (a ≥ b)) := by
  have hlt : ∀ x y : Int, ((x : Rat) < (y : Rat)) ↔ x < y := fun _ _ => Rat.intCast_lt_intCast
  have heq : ((a : Rat) = (b : Rat)) ↔ a = b := Rat.intCast_inj
  simp only [pyCompare, toF, FVal.ofInt, fvalOrd]
  rcases Int.lt_trichotomy a b with h | h | h
  · have h2 : ¬ a = b := by omega
    have h3 : ¬ b < a := by omega
    have h4 : a ≤ b := by omega
    have h5 : ¬ b ≤ a := by omega
    simp [hlt, heq, h, h2, h3, h4, h5, Op.holds]
  · subst h; simp [Op.holds]
  · have h1 : ¬ a < b := by omega
    have h2 : ¬ a = b := by omega
    have h4 : ¬ a ≤ b := by omega
    have h5 : b ≤ a := by omega
    simp [hlt, heq, h, h1, h2, h4, h5, Op.holds]

/-- Integer-versus-float operands compare exactly (as rationals), in both operand orders. -/
theorem int_float_relations (a : Int) (q : Rat) (op : Op) :
    pyCompare op (.int a) (.flt (.fin q)) = pyCompare op (.flt (.fin (a : Rat))) (.flt (.fin q)) ∧
    pyCompare op (.flt (.fin q)) (.int a) = pyCompare op (.flt (.fin q)) (.flt (.fin (a : Rat))) := by
  simp [pyCompare, toF, FVal.ofInt]

theorem float_relations (p q : Rat) :
    pyCompare .lt (.flt (.fin p)) (.flt (.fin q)) = .ok (decide (p < q)) ∧
    pyCompare .eq (.flt (.fin p)) (.flt (.fin q)) = .ok (decide (p = q)) ∧
    pyCompare .le (.flt (.fin p)) (.flt (.fin q)) = .ok (decide (p ≤ q)) := by
  simp only [pyCompare, toF, fvalOrd]
  by_cases h1 : p < q
  · have h2 : ¬ p = q := by intro h; subst h; exact absurd h1 (Rat.lt_irrefl)
    have h3 : p ≤ q := Rat.le_of_lt h1
    simp [h1, h2, h3, Op.holds]
  · by_cases h2 : p = q
    · subst h2; simp [Op.holds, Rat.le_refl]
    · have h3 : ¬ p ≤ q := by
        intro h; rcases Rat.le_iff_lt_or_eq.mp h with h | h
        · exact h1 h
        · exact h2 h
      simp [h1, h2, h3, Op.holds]

/-- A comparison is the stated relation applied to the selected (calibrated or raw) value and the literal read in
    that value's type — whatever the value is (zero, negative, false, empty included). -/
theorem comparison_truth (c : Comparison) (items : Items) (cur : Option PyVal) (p : Param) (op : Op)
    (hp : items.get? c.ref = some p) (hop : lookupOp c.op = some op) :
    c.evaluate items cur =
      (match coerceLit (selVal p c.useCal).kind c.requiredValue .other with
       | .ok lit => pyCompare op (selVal p c.useCal) lit
       | .error e => .error e) := by
  unfold Comparison.evaluate
  simp only [hp, hop, bind, Except.bind, pure, Except.pure]
  cases coerceLit (selVal p c.useCal).kind c.requiredValue Err.other <;> rfl

/-- A referenced parameter that is not in the packet is the value currently being calibrated. -/
theorem comparison_current (c : Comparison) (items : Items) (v : PyVal) (op : Op)
    (hp : items.get? c.ref = none) (hop : lookupOp c.op = some op) :
    c.evaluate items (some v) =
      (match coerceLit v.kind c.requiredValue .other with
       | .ok lit => pyCompare op v lit
       | .error e => .error e) := by
  unfold Comparison.evaluate
  simp only [hp, hop, bind, Except.bind, pure, Except.pure]
  cases coerceLit v.kind c.requiredValue Err.other <;> rfl

/-- A condition compares two parameters, or a parameter and a literal read in the left operand's type. -/
theorem condition_truth (c : Condition) (items : Items) (l : Param) (op : Op)
    (hl : items.get? c.left = some l) (hop : lookupOp c.op = some op) :
    c.evaluate items =
      (match c.rightParam, c.rightValue with
       | some rp, _ => (match items.get? rp with
          | some r => pyCompare op (selVal l c.leftCal) (selVal r c.rightCal)
          | none => .error .other)
       | none, some lit => (match coerceLit (selVal l c.leftCal).kind lit .value with
          | .ok v => pyCompare op (selVal l c.leftCal) v
          | .error e => .error e)
       | none, none => .error .value) := by
  unfold Condition.evaluate
  simp only [hl, hop, bind, Except.bind, pure, Except.pure]
  cases c.rightParam with
  | some rp =>
    simp only []
    cases items.get? rp <;> rfl
  | none =>
    cases c.rightValue with
    | none => rfl
    | some lit =>
      simp only []
      cases coerceLit (selVal l c.leftCal).kind lit Err.value <;> rfl

theorem andConds_sem (items : Items) (cs : List Condition) (h : ∀ c ∈ cs, CondOk items c) :
    andConds items cs = .ok (cs.all (condVal items)) := by
  induction cs with
  | nil => rfl
  | cons c cs ih =>
    obtain ⟨b, hb⟩ := h c (by simp)
    have ih' := ih (fun c' hc' => h c' (by simp [hc']))
    simp only [andConds, hb, bind, Except.bind, List.all_cons, condVal, pure, Except.pure]
    cases b <;> simp [ih']

theorem orConds_sem (items : Items) (cs : List Condition) (h : ∀ c ∈ cs, CondOk items c) :
    orConds items cs = .ok (cs.any (condVal items)) := by
  induction cs with
  | nil => rfl
  | cons c cs ih =>
    obtain ⟨b, hb⟩ := h c (by simp)
    have ih' := ih (fun c' hc' => h c' (by simp [hc']))
    simp only [orConds, hb, bind, Except.bind, List.any_cons, condVal, pure, Except.pure]
    cases b <;> simp [ih']

mutual
/-- ANDed / ORed groups nest to any depth: the loops with early exits compute the plain conjunction / disjunction. -/
theorem anded_sem (items : Items) (a : Anded) (h : AndOk items a) : a.eval items = .ok (semAnd items a) := by
  cases a with
  | mk conds ors =>
    simp only [AndOk] at h
    simp only [Anded.eval, semAnd, andConds_sem items conds h.1, bind, Except.bind, pure, Except.pure]
    cases hc : conds.all (condVal items)
    · simp
    · simp [andOrs_sem items ors h.2]
theorem andOrs_sem (items : Items) (os : List Ored) (h : OrsOk items os) : andOrs items os = .ok (semOrs items os) := by
  cases os with
  | nil => rfl
  | cons o os =>
    simp only [OrsOk] at h
    simp only [andOrs, semOrs, ored_sem items o h.1, bind, Except.bind, pure, Except.pure]
    cases semOr items o
    · simp
    · simp [andOrs_sem items os h.2]
theorem ored_sem (items : Items) (o : Ored) (h : OrOk items o) : o.eval items = .ok (semOr items o) := by
  cases o with
  | mk conds ands =>
    simp only [OrOk] at h
    simp only [Ored.eval, semOr, orConds_sem items conds h.1, bind, Except.bind, pure, Except.pure]
    cases hc : conds.any (condVal items)
    · simp [orAnds_sem items ands h.2]
    · simp
theorem orAnds_sem (items : Items) (as : List Anded) (h : AndsOk items as) : orAnds items as = .ok (semAnds items as) := by
  cases as with
  | nil => rfl
  | cons a as =>
    simp only [AndsOk] at h
    simp only [orAnds, semAnds, anded_sem items a h.1, bind, Except.bind, pure, Except.pure]
    cases semAnd items a
    · simp [orAnds_sem items as h.2]
    · simp
end

/-- A list of criteria is a conjunction. -/
theorem list_is_conjunction (items : Items) (cur : Option PyVal) (cs : List Criterion) (bs : List Bool)
    (h : cs.map (fun c => c.evaluate items cur) = bs.map Except.ok) :
    allCriteria items cur cs = .ok (bs.all id) := by
  induction cs generalizing bs with
  | nil => cases bs <;> simp_all [allCriteria]
  | cons c cs ih =>
    cases bs with
    | nil => simp at h
    | cons b bs =>
      simp only [List.map_cons, List.cons.injEq] at h
      simp only [allCriteria, h.1, bind, Except.bind, pure, Except.pure, List.all_cons, id]
      cases b
      · simp
      · simp [ih bs h.2]

/-- A discrete lookup returns the value of its first entry whose criteria all hold. -/
theorem lookup_first_match (items : Items) (pre : List DiscreteLookup) (d : DiscreteLookup) (post : List DiscreteLookup)
    (hpre : ∀ e ∈ pre, e.evaluate items none = .ok none) (hd : d.evaluate items none = .ok (some d.value)) :
    lookupNotNone items (pre ++ d :: post) = .ok d.value := by
  induction pre with
  | nil => simp [lookupNotNone, hd, bind, Except.bind, pure, Except.pure]
  | cons e es ih =>
    have he := hpre e (by simp)
    simp only [List.cons_append, lookupNotNone, he, bind, Except.bind]
    exact ih (fun e' he' => hpre e' (by simp [he']))

/-- An entry yields its value exactly when all its criteria hold. -/
theorem lookup_entry (items : Items) (d : DiscreteLookup) (b : Bool)
    (h : allCriteria items none (d.criteria.map Criterion.comparison) = .ok b) :
    d.evaluate items none = .ok (if b then some d.value else none) := by
  simp [DiscreteLookup.evaluate, h, bind, Except.bind, pure, Except.pure]

/-- Non-vacuity: zero compares equal to the literal "0", and 3 < 3.5 across int/float. -/
example : ((Comparison.mk "0" "Z" "==" true).evaluate [("Z", mkParam .IntP (.int 0))] none).toOption = some true := by
  decide +kernel
example : (pyCompare .lt (.int 3) (.flt (.fin (7/2)))).toOption = some true := by decide +kernel

end Spp.C06
