/-
C15 — "Once a document has been through one write/load cycle, every further cycle reproduces it byte for byte."
In the model a document is a tree and the writer a function, so "byte for byte" is equality of trees.  The theorem is the
C09 whole-definition round trip read the other way round: a definition in the regime `C09.DefWF` (what a load produces:
keys are names, containers in dependency order, back-populated inheritor lists, tables in cache order, every element in
the regime of its element-level round trip) is a fixed point of write → load, hence so is its document.
-/
import Spp.Props.C09Definition
namespace Spp.C15
open Spp

/-- One write → load cycle (same namespace arguments, same root container). -/
def cycle (d : LDef) : LoadM LDef :=
  match toXml d with
  | .error e => .error e
  | .ok g => loadXtce { nsPrefix := d.nsPrefix, nsmap := d.nsmap } d.root g

def cycles : Nat → LDef → LoadM LDef
  | 0, d => .ok d
  | n + 1, d => match cycle d with
    | .error e => .error e
    | .ok d' => cycles n d'

/-- The definition a cycle gives back is the definition that went in, so its document is the same document. -/
theorem fixpoint (hI : C09.IntRoundTrip) (hV : C09.FValRoundTrip) (d : LDef) (hwf : C09.DefWF d) (g : XmlNode)
    (hw : toXml d = .ok g) (d' : LDef)
    (hl : loadXtce { nsPrefix := d.nsPrefix, nsmap := d.nsmap } d.root g = .ok d') : toXml d' = .ok g := by
  rw [C09.definition_roundtrip hI hV d hwf g hw] at hl
  injection hl with hl
  rw [← hl]; exact hw

/-- **Every further cycle reproduces the document**: after any number of write → load cycles the definition, and
    therefore the written document, is unchanged. -/
theorem every_further_cycle (hI : C09.IntRoundTrip) (hV : C09.FValRoundTrip) (d : LDef) (hwf : C09.DefWF d) (g : XmlNode)
    (hw : toXml d = .ok g) (n : Nat) :
    cycles n d = .ok d ∧ (cycles n d).bind toXml = .ok g := by
  have hc : cycle d = .ok d := by
    unfold cycle; rw [hw]; exact C09.definition_roundtrip hI hV d hwf g hw
  have h1 : cycles n d = .ok d := by
    induction n with
    | zero => rfl
    | succ n ih => simp only [cycles, hc, ih]
  exact ⟨h1, by rw [h1]; exact hw⟩

/-- The same with the integer hypothesis discharged (`C09.intRoundTrip`). -/
theorem every_further_cycle_main (hV : C09.FValRoundTrip) (d : LDef) (hwf : C09.DefWF d) (g : XmlNode)
    (hw : toXml d = .ok g) (n : Nat) : cycles n d = .ok d ∧ (cycles n d).bind toXml = .ok g :=
  every_further_cycle C09.intRoundTrip hV d hwf g hw n

/-- Non-vacuity: the example definition of `C09` is in the regime and writable. -/
example : ∃ g, toXml C09.exDef = .ok g := ⟨_, rfl⟩

end Spp.C15
