/-
C14 — Bit consumption is accounted for; over-reads are never delivered as clean data.
-/
import Spp.Lemmas.Inherit
namespace Spp.C14
open Spp

/-- After a successful parse the cursor equals the start plus the sum of the widths of the decoded fields
    (each width computed in the state in which its field is decoded), and the bytes are untouched. -/
theorem cursor_sum (c : Container) (p p' : Pkt) (h : c.parseEntries p = .ok p') :
    ∃ ws, widthsAlong c.flatten p = .ok ws ∧ ws.length = c.flatten.length ∧
      p'.raw.pos = p.raw.pos + ws.sum ∧ p'.raw.data = p.raw.data := by
  rw [Container.parse_flatten] at h
  exact parseFlat_widths _ p p' h

/-- The cursor never moves backwards during a successful parse. -/
theorem monotone (c : Container) (p p' : Pkt) (h : c.parseEntries p = .ok p') : p.raw.pos ≤ p'.raw.pos := by
  obtain ⟨ws, _, _, h3, _⟩ := cursor_sum c p p' h
  omega

/-- The same along the whole inheritance path: the final cursor is at least every intermediate one. -/
theorem monotone_path (d : Definition) (cur : Container) (p p' : Pkt) (h : Decodes d cur p (.ok p')) :
    p.raw.pos ≤ p'.raw.pos ∧ p'.raw.data = p.raw.data := by
  generalize hr : ParseResult.ok p' = r at h
  induction h with
  | entriesFail a => cases hr
  | criteriaFail a b => cases hr
  | concreteStop a b c =>
    injection hr with hr; subst hr
    obtain ⟨ws, _, _, h3, h4⟩ := cursor_sum _ _ _ a
    exact ⟨by omega, h4⟩
  | abstractDeadEnd a b c => cases hr
  | ambiguous a b => cases hr
  | danglingChild a b c => cases hr
  | step a b c _ ih =>
    obtain ⟨ws, _, _, h3, h4⟩ := cursor_sum _ _ _ a
    obtain ⟨i1, i2⟩ := ih hr
    exact ⟨by omega, by rw [i2, h4]⟩

/-- A field whose computed length is negative makes the parse fail with an exception. -/
theorem negative_length_fails (t : PType) (p : Pkt) (n : Int) (hw : t.width p = .ok n) (hn : n < 0) :
    ∃ e, t.parseValue p = .error e := by
  cases h : t.parseValue p with
  | error e => exact ⟨e, rfl⟩
  | ok vr =>
    obtain ⟨v, r⟩ := vr
    obtain ⟨m, hm, hm0, _, _⟩ := PType.parseValue_cursor t p v r h
    rw [hw] at hm; injection hm with hm; omega

/-- A binary or float field that extends past the end of the packet makes the parse fail (bytes reads are guarded). -/
theorem binary_past_end_fails (e : BinEnc) (p : Pkt) (n : Int) (hs : e.calculateSize p.items = .ok n)
    (hn : (p.raw.pos : Int) + n > 8 * p.raw.data.length) : ∃ err, e.parseValue p = .error err := by
  unfold BinEnc.parseValue
  simp only [hs]
  cases hr : liftBit (readAsBytes p.raw n) with
  | error err => exact ⟨err, rfl⟩
  | ok br =>
    obtain ⟨bs, rr⟩ := br
    have := readAsBytes_pos (liftBit_ok hr)
    exact absurd this.2.2.2 (by omega)

/-- Delivery: a parsed packet is delivered without the length-mismatch warning exactly when the definition consumed
    precisely all of its bits; otherwise it is flagged, and withheld when bad packets are excluded. -/
theorem clean_iff (o : GenOpts) (p : Pkt) :
    (deliver o (.ok p)).1 = [.packet p] ↔ p.raw.pos = p.raw.data.length * 8 := by
  unfold deliver
  by_cases h : p.raw.pos = p.raw.data.length * 8
  · simp [h]
  · simp [h]

theorem mismatch_flagged (o : GenOpts) (p : Pkt) (h : p.raw.pos ≠ p.raw.data.length * 8) :
    (deliver o (.ok p)).1 = (if o.parseBad then [.warnLength, .packet p] else [.warnLength]) := by
  unfold deliver
  simp [h]
  cases o.parseBad <;> simp

/-- Over-consumption is never clean: if any decoded field ends beyond the packet, the final cursor is beyond the
    end too (monotonicity), so the packet is flagged. -/
theorem overread_flagged (d : Definition) (mid : Container) (pm p' : Pkt) (o : GenOpts)
    (hmid : Decodes d mid pm (.ok p')) (hover : pm.raw.pos > 8 * pm.raw.data.length) :
    (deliver o (.ok p')).1 ≠ [.packet p'] := by
  obtain ⟨h1, h2⟩ := monotone_path d mid pm p' hmid
  intro hc
  have := (clean_iff o p').mp hc
  rw [h2] at this
  omega

/-- An exception is never a delivery: the generator ends with the exception as its last event. -/
theorem exception_not_delivered (o : GenOpts) (e : Err) : deliver o (.error e) = ([.raised e], false) := rfl

end Spp.C14
