/-
C01 — End-to-end decoding conforms to the XTCE document for every stream.
The composition of C02 (framing), C11 (packets independent), C05 (inheritance path), C14 (positions are prefix
sums of computed widths) and the per-field theorems C03/C04/C06/C07/C08: no seam between the parts is left unproved.
-/
import Spp.Lemmas.Frame
import Spp.Props.C05
import Spp.Props.C11
namespace Spp.C01
open Spp

/-- Reference semantics of a whole stream (combining off): frame it into the packets its length fields define, give
    every packet — on its own — the outcome the big-step specification `Decodes` assigns to it, deliver that outcome
    (yield / flag / report / skip), and stop at the first packet whose decoding raises. -/
def refSemantics (d : Definition) (root : String) (o : GenOpts) (packets : List Bytes) : List Event :=
  C11.concatUntilRaise (packets.map (C11.solo d root o))

/-- End to end: for every definition, every well-formed stream (with per-packet prefixes), every source kind and
    every fragmentation, the definition-level generator yields exactly the reference semantics of the packets. -/
theorem end_to_end (d : Definition) (root : String) (o : GenOpts) (cfg : FrameCfg)
    (items : List (Bytes × Bytes)) (hwf : ∀ x ∈ items, x.1.length = cfg.skip ∧ wfPkt x.2)
    (chunks : List Bytes) (hne : ∀ c ∈ chunks, c ≠ []) (hcat : chunks.flatten = encode items)
    (hc : o.combine = false) :
    packetGenerator d root o cfg (initBytes (encode items)) = refSemantics d root o (items.map (·.2)) ∧
    packetGenerator d root o cfg (initFile chunks (encode items).length) = refSemantics d root o (items.map (·.2)) ∧
    packetGenerator d root o cfg (initSocket chunks) = refSemantics d root o (items.map (·.2)) := by
  have f1 := frame_exact cfg items hwf (initBytes (encode items)) (by simp [initBytes]) (by simp [initBytes])
    (by simp [initBytes]) (by simp [initBytes])
  have f2 := frame_exact cfg items hwf (initFile chunks (encode items).length) (by simpa [initFile] using hne)
    (by simp [initFile]) (by simp [initFile, hcat]) (by simp [initFile])
  have f3 := frame_exact cfg items hwf (initSocket chunks) (by simpa [initSocket] using hne) (by simp [initSocket])
    (by simp [initSocket, hcat]) (by simp [initSocket])
  unfold packetGenerator refSemantics
  rw [f1, f2, f3]
  exact ⟨C11.pointwise d root o [] _ hc, C11.pointwise d root o [] _ hc, C11.pointwise d root o [] _ hc⟩

/-- Per packet: the generator's treatment of a packet is the delivery of *the* outcome the specification assigns
    to it (unique by `decodes_deterministic`), starting at the root container with an empty packet. -/
theorem per_packet (d : Definition) (root : String) (o : GenOpts) (c : Container) (b : Bytes) (r : ParseResult)
    (hh : o.headersOnly = false) (hroot : d.lookup root = some c)
    (hspec : Decodes d c { raw := ⟨b, 0⟩, items := [] } r)
    (hfuel : parsePacket d root b ≠ .error .unsupported) :
    C11.solo d root o b = deliver o r := by
  unfold C11.solo
  simp only [hh, Bool.false_eq_true, if_false, C12_unseg b o]
  congr 1
  unfold parsePacket at hfuel ⊢
  simp only [hroot] at hfuel ⊢
  exact C05.descend_complete d _ c _ r hspec hfuel
where
  C12_unseg (b : Bytes) (o : GenOpts) : combineSegments o.secHdrBytes [b] = b := by simp [combineSegments]

/-- The seam between fields: the field after a prefix `pre` of the flattened entry list is decoded in the state the
    prefix leaves, whose cursor is the start plus the sum of the (computed) widths of the prefix — positions are
    prefix sums, and criteria / length references see exactly the values decoded before them. -/
theorem field_seam (pre post : List (String × PType)) (n : String) (t : PType) (p p1 : Pkt)
    (h : parseFlat pre p = .ok p1) :
    parseFlat (pre ++ (n, t) :: post) p = parseFlat ((n, t) :: post) p1 ∧
    ∃ ws, widthsAlong pre p = .ok ws ∧ p1.raw.pos = p.raw.pos + ws.sum ∧ p1.raw.data = p.raw.data := by
  refine ⟨by rw [parseFlat_append, h], ?_⟩
  obtain ⟨ws, h1, _, h3, h4⟩ := parseFlat_widths pre p p1 h
  exact ⟨ws, h1, h3, h4⟩

/-- Packets the document does not define are skipped, or on request reported as unrecognized, and nothing else is
    yielded for them. -/
theorem undefined_packets (o : GenOpts) (part : Pkt) :
    (deliver o (.unrecognized part)).1 = (if o.yieldUnrec then [.unrec part] else []) := rfl

end Spp.C01
