/-
C20 — Parsed values are drop-in built-ins with a raw value and survive copying.
(That `Param(v)` compares, hashes, orders, formats and computes like `v` is Python object-model semantics — true of a
value model by construction — and is checked on the real classes by the correspondence harness only.)
-/
import Spp.Model.Copy
namespace Spp.C20
open Spp

/-- When no separate raw value exists the raw value equals the value itself — for every value, also 0, False, empty. -/
theorem raw_default (c : Cls) (v : PyVal) : (mkParam c v none).raw = v ∧ (mkParam c v none).val = v := ⟨rfl, rfl⟩

/-- A separate raw value is carried unchanged, also when it is falsy (0, 0.0, empty bytes). -/
theorem raw_kept (c : Cls) (v r : PyVal) : (mkParam c v (some r)).raw = r ∧ (mkParam c v (some r)).val = v := ⟨rfl, rfl⟩

theorem raw_falsy_examples :
    (mkParam .IntP (.int 5) (some (.int 0))).raw = .int 0 ∧
    (mkParam .StrP (.str "ON") (some (.bytes []))).raw = .bytes [] ∧
    (mkParam .IntP (.int 0) none).raw = .int 0 ∧ (mkParam .StrP (.str "") none).raw = .str "" := by
  decide

/-- Values are unchanged by copy, deep copy and pickling (reconstruction from the reduced form). -/
theorem value_copy (p : Param) : p.reduce.reconstruct = p := by
  cases p; rfl

/-- Whole parsed packets — items, their order, the raw bytes and the cursor — are unchanged as well. -/
theorem packet_copy (p : Pkt) : p.reduce.reconstruct = p := by
  cases p with
  | mk raw items =>
    have hitems : (items.map (fun kv => (kv.1, kv.2.reduce))).map (fun kv => (kv.1, kv.2.reconstruct)) = items := by
      induction items with
      | nil => rfl
      | cons kv rest ih =>
        simp only [List.map_cons, ih, value_copy]
    simp only [Pkt.reduce, PktReduced.reconstruct, hitems]

/-- Copying twice is copying once (idempotence of the round trip). -/
theorem copy_idempotent (p : Pkt) : p.reduce.reconstruct.reduce.reconstruct = p := by
  rw [packet_copy, packet_copy]

end Spp.C20
