/-
C07 — String and binary fields, including computed lengths, decode as documented.
-/
import Spp.Lemmas.Enc
namespace Spp.C07
open Spp

/-- Right-padding to whole bytes: `(8 - n % 8) % 8` zero bits. -/
def padBits (n : Nat) : Nat := (8 - n % 8) % 8

/-- A binary parameter yields exactly the bits of its field, left-padded to whole bytes, and the cursor advances
    by the computed length. -/
theorem binary_value (e : BinEnc) (B : Bytes) (p n : Nat) (items : Items)
    (hsz : e.calculateSize items = .ok (n : Int)) (h : p + n ≤ 8 * B.length) :
    e.parseValue ⟨⟨B, p⟩, items⟩ =
      .ok (mkParam .BinP (.bytes (toBytesBE ((n + 7) / 8) (fieldVal B p n))), ⟨B, p + n⟩) := by
  unfold BinEnc.parseValue
  simp only [hsz, readAsBytes_spec B p n h, liftBit]

/-- A string parameter's raw value is its whole buffer: the field's bits followed by zero bits up to a byte boundary. -/
theorem string_raw_buffer (e : StrEnc) (B : Bytes) (p n : Nat) (items : Items)
    (hsz : e.calculateSize items = .ok (n : Int)) (h : p + n ≤ 8 * B.length) :
    ∃ buf, e.rawBuffer ⟨⟨B, p⟩, items⟩ = .ok (buf, ⟨B, p + n⟩) ∧
      buf.length = (n + 7) / 8 ∧ fromBytesBE buf = fieldVal B p n * 2 ^ padBits n := by
  have hpad : ((8 - ((n : Int) % 8)) % 8).toNat = padBits n := by unfold padBits; omega
  have hnb : (((n : Int) + (8 - ((n : Int) % 8)) % 8) / 8).toNat = (n + 7) / 8 := by omega
  refine ⟨toBytesBE ((n + 7) / 8) (fieldVal B p n <<< padBits n), ?_, toBytesBE_length _ _, ?_⟩
  · unfold StrEnc.rawBuffer
    simp only [hsz, readAsInt_spec B p n h, liftBit, hpad, hnb]
  · rw [Nat.shiftLeft_eq]
    apply fromBytesBE_toBytesBE
    rw [two_pow_8]
    have hv := fieldVal_lt B p n
    have e8 : 8 * ((n + 7) / 8) = n + padBits n := by unfold padBits; omega
    rw [e8, Nat.pow_add]
    exact Nat.mul_lt_mul_of_pos_right hv (Nat.two_pow_pos _)

/-- Whole-buffer strings: the value is the decoded buffer. -/
theorem text_whole (e : StrEnc) (buf : Bytes) (h1 : optTruthy e.leadingSize = false) (h2 : e.termChar = none) :
    e.extractText buf = decodeOrErr e.codec buf := by
  unfold StrEnc.extractText
  simp [h1, h2]

theorem bytesIndex_go_spec (w : Nat) (needle : Bytes) (h : Bytes) (i k : Nat) (hk : bytesIndex.go w needle h i = some k) :
    i ≤ k ∧ k - i ≤ h.length ∧ k % w = 0 ∧ needle.isPrefixOf (h.drop (k - i)) = true ∧
    ∀ j, j < k - i → (i + j) % w = 0 → needle.isPrefixOf (h.drop j) = false := by
  induction h generalizing i with
  | nil =>
    unfold bytesIndex.go at hk
    split at hk
    · rename_i hp
      injection hk with hk; subst hk
      simp only [Bool.and_eq_true, beq_iff_eq] at hp
      simp [hp.1, hp.2]
    · simp at hk
  | cons a t ih =>
    unfold bytesIndex.go at hk
    split at hk
    · rename_i hp
      injection hk with hk; subst hk
      simp only [Bool.and_eq_true, beq_iff_eq] at hp
      simp [hp.1, hp.2]
    · rename_i hp
      simp only at hk
      obtain ⟨i1, i2, i3, i4, i5⟩ := ih (i + 1) hk
      have e : k - i = (k - (i + 1)) + 1 := by omega
      refine ⟨by omega, by simp; omega, i3, by rw [e]; simpa using i4, ?_⟩
      intro j hj hjw
      cases j with
      | zero =>
        simp only [List.drop_zero]
        simp only [Nat.add_zero] at hjw
        simp only [Bool.and_eq_true, beq_iff_eq, not_and, Bool.not_eq_true] at hp
        exact hp hjw
      | succ j' =>
        simp only [List.drop_succ_cons]
        exact i5 j' (by omega) (by rw [← hjw]; congr 1; omega)

/-- Terminated strings: the value is the decoded part of the buffer before the first termination *character* — the
    first occurrence of the termination bytes that starts on a code-unit boundary of the encoding (every byte offset
    for the single-byte codecs and UTF-8; even offsets for UTF-16, multiples of four for UTF-32). -/
theorem text_terminated (e : StrEnc) (buf t : Bytes) (i : Nat) (h1 : optTruthy e.leadingSize = false)
    (h2 : e.termChar = some t) (hi : bytesIndex e.unitWidth buf t = some i) :
    e.extractText buf = decodeOrErr e.codec (buf.take i) ∧
    i ≤ buf.length ∧ i % e.unitWidth = 0 ∧ t.isPrefixOf (buf.drop i) = true ∧
    ∀ j, j < i → j % e.unitWidth = 0 → t.isPrefixOf (buf.drop j) = false := by
  obtain ⟨_, g2, g3, g4, g5⟩ := bytesIndex_go_spec e.unitWidth t buf 0 i hi
  simp only [Nat.sub_zero, Nat.zero_add] at g2 g4 g5
  refine ⟨?_, g2, g3, g4, g5⟩
  unfold StrEnc.extractText
  simp only [h1, h2, hi, Bool.false_eq_true, if_false]
  have hr := readAsBytes_spec buf 0 (i * 8) (by omega)
  have e1 : ((i : Int) * 8) = ((i * 8 : Nat) : Int) := by simp
  rw [e1, hr]
  simp only [liftBit]
  congr 1
  -- the aligned slice is `take i`
  have hal := fieldVal_aligned buf 0 (i * 8) (by omega) (by simp) (by omega)
  have e2 : (i * 8 + 7) / 8 = i := by omega
  rw [hal, e2]
  simp only [Nat.zero_div, Nat.zero_add, slice, List.drop_zero, Nat.sub_zero]
  have := toBytesBE_fromBytesBE (buf.take i)
  rw [List.length_take, Nat.min_eq_left g2] at this
  exact this

/-- The witness of the repaired defect: in UTF-16BE the bytes `41 00 58 41 00 58` hold the terminator `00 58` ("X")
    at byte offsets 1 (straddling two characters) and 4 (a character); the text ends at offset 4. -/
example : bytesIndex 2 [0x41, 0x00, 0x58, 0x41, 0x00, 0x58, 0x00, 0x00] [0x00, 0x58] = some 4 := by decide
example : bytesIndex 1 [0x41, 0x00, 0x58, 0x41, 0x00, 0x58, 0x00, 0x00] [0x00, 0x58] = some 1 := by decide

/-- Leading-size strings: the size tag is read from the *buffer*, and the value is the decoding of exactly the
    `strlen` bits that follow it. -/
theorem text_leading (e : StrEnc) (buf : Bytes) (L : Nat) (hL : e.leadingSize = some (L : Int)) (hL0 : L ≠ 0)
    (h1 : L ≤ 8 * buf.length) (h8 : fieldVal buf 0 L % 8 = 0) (h2 : L + fieldVal buf 0 L ≤ 8 * buf.length) :
    e.extractText buf =
      decodeOrErr e.codec (toBytesBE (fieldVal buf 0 L / 8) (fieldVal buf L (fieldVal buf 0 L))) := by
  unfold StrEnc.extractText
  have ht : optTruthy e.leadingSize = true := by simp [optTruthy, hL]; omega
  have hr := readAsInt_spec buf 0 L (by omega)
  rw [hL] at ht
  simp only [ht, hL, if_true, Option.getD_some, hr, liftBit, Nat.zero_add]
  have h8' : ¬ fieldVal buf 0 L % 8 ≠ 0 := by omega
  rw [if_neg h8']
  rw [readAsBytes_spec buf L (fieldVal buf 0 L) h2]
  have e2 : (fieldVal buf 0 L + 7) / 8 = fieldVal buf 0 L / 8 := by omega
  simp only [e2]

/-- Fixed length. -/
theorem size_fixed (e : StrEnc) (items : Items) (n : Int) (h : e.fixedLength = some n) (hn : n ≠ 0) :
    e.calculateSize items = .ok n := by
  unfold StrEnc.calculateSize
  have : optTruthy e.fixedLength = true := by simp [optTruthy, h, hn]
  rw [if_pos this]
  simp [h, bind, Except.bind, pure, Except.pure, toInt]

/-- Length taken from an earlier integer parameter (raw or calibrated as declared) through the linear adjustment. -/
theorem size_reference_binary (e : BinEnc) (items : Items) (ref : String) (p : Param) (x : Int) (a : LinAdj)
    (h1 : e.fixedSize = none) (h2 : e.sizeRef = some ref) (h3 : items.get? ref = some p)
    (h4 : selVal p e.useCal = .int x) (h5 : e.adjuster = some a) :
    e.calculateSize items = .ok (a.slope * x + a.intercept) := by
  unfold BinEnc.calculateSize
  simp only [h1, h2, h5, refValue, h3, h4, bind, Except.bind, pure, Except.pure, LinAdj.apply]
  have hd : ((a.slope : Rat) * (x : Rat) + (a.intercept : Rat)).den = 1 := by
    have : ((a.slope : Rat) * (x : Rat) + (a.intercept : Rat)) = ((a.slope * x + a.intercept : Int) : Rat) := by
      simp [Rat.intCast_add, Rat.intCast_mul]
    rw [this]; rfl
  have hn : ((a.slope : Rat) * (x : Rat) + (a.intercept : Rat)).num = a.slope * x + a.intercept := by
    have : ((a.slope : Rat) * (x : Rat) + (a.intercept : Rat)) = ((a.slope * x + a.intercept : Int) : Rat) := by
      simp [Rat.intCast_add, Rat.intCast_mul]
    rw [this]; rfl
  simp [hd, hn, toInt]

/-- Length looked up from criteria: the value of the first entry whose criteria hold (binary side). -/
theorem size_lookup_binary (e : BinEnc) (items : Items) (l : List DiscreteLookup) (v : Int)
    (h1 : e.fixedSize = none) (h2 : e.sizeRef = none) (h3 : e.lookup = some l) (h4 : e.adjuster = none)
    (h5 : lookupNotNone items l = .ok (.int v)) :
    e.calculateSize items = .ok v := by
  unfold BinEnc.calculateSize
  simp [h1, h2, h3, h4, h5, bind, Except.bind, pure, Except.pure, toInt]

/-- Length looked up from criteria, string side: the value of the first entry whose criteria hold — *including an
    entry whose value is 0* (an empty string; the code skipped such an entry until the `fix:` commit 3790a3b). -/
theorem size_lookup_string (e : StrEnc) (items : Items) (l : List DiscreteLookup) (v : Int)
    (h1 : optTruthy e.fixedLength = false) (h3 : e.lookup = some l) (hl : l ≠ [])
    (h5 : lookupNotNone items l = .ok (.int v)) :
    e.calculateSize items = .ok v := by
  unfold StrEnc.calculateSize
  have hlt : listTruthy (some l) = true := by cases l <;> simp_all [listTruthy]
  simp [h1, h3, hlt, h5, bind, Except.bind, pure, Except.pure, toInt]

/-- The zero-valued first match of the witness: `[(M != 1 ∧ M >= 0 → 0)]` with `M = 0` gives length 0. -/
example : (StrEnc.calculateSize
    { encoding := "UTF-8", fixedLength := none, dynRef := none, useCal := true, adjuster := none, termChar := none,
      leadingSize := none,
      lookup := some [{ criteria := [{ requiredValue := "1", ref := "M", op := "!=", useCal := true }], value := .int 0 },
                      { criteria := [{ requiredValue := "0", ref := "M", op := ">=", useCal := true }], value := .int 16 }] }
    [("M", mkParam .IntP (.int 0))]).toOption = some 0 := by decide +kernel

/-- In every case the cursor advances by exactly the computed length (binary and string). -/
theorem cursor_binary (e : BinEnc) (p : Pkt) (v : Param) (r' : Raw) (h : e.parseValue p = .ok (v, r')) :
    ∃ n : Int, e.calculateSize p.items = .ok n ∧ 0 ≤ n ∧ r'.pos = p.raw.pos + n.toNat ∧ r'.data = p.raw.data ∧
      p.raw.pos + n.toNat ≤ 8 * p.raw.data.length := by
  unfold BinEnc.parseValue at h
  cases hs : e.calculateSize p.items with
  | error err => simp [hs] at h
  | ok n =>
    simp only [hs] at h
    cases hr : liftBit (readAsBytes p.raw n) with
    | error err => simp [hr] at h
    | ok br =>
      obtain ⟨bs, rr⟩ := br
      simp only [hr] at h
      injection h with h; injection h with _ h; subst h
      have := readAsBytes_pos (liftBit_ok hr)
      exact ⟨n, rfl, this.2.2.1, this.1, this.2.1, by omega⟩

theorem cursor_string (e : StrEnc) (p : Pkt) (v : Param) (r' : Raw) (h : e.parseValue p = .ok (v, r')) :
    ∃ n : Int, e.calculateSize p.items = .ok n ∧ 0 ≤ n ∧ r'.pos = p.raw.pos + n.toNat ∧ r'.data = p.raw.data := by
  unfold StrEnc.parseValue at h
  cases hb : e.rawBuffer p with
  | error err => simp [hb] at h
  | ok br =>
    obtain ⟨buf, rr⟩ := br
    simp only [hb] at h
    cases ht : e.extractText buf with
    | error err => simp [ht] at h
    | ok text =>
      simp only [ht] at h
      injection h with h; injection h with _ h; subst h
      unfold StrEnc.rawBuffer at hb
      cases hs : e.calculateSize p.items with
      | error err => simp [hs] at hb
      | ok n =>
        simp only [hs] at hb
        cases hr : liftBit (readAsInt p.raw n) with
        | error err => simp [hr] at hb
        | ok vr =>
          obtain ⟨vv, r2⟩ := vr
          simp only [hr] at hb
          injection hb with hb; injection hb with _ hb; subst hb
          have := readAsInt_pos (liftBit_ok hr)
          exact ⟨n, rfl, this.2.2, this.1, this.2.1⟩

/-- Non-vacuity: a 12-bit string field is right-padded with four zero bits. -/
example : padBits 12 = 4 := by decide
example : bytesIndex 1 [0x41, 0x42, 0x00, 0x43, 0x00] [0x00] = some 2 := by decide

end Spp.C07
