/-
C08 — Calibration, enumeration and boolean derivation follow XTCE; raw value kept.
-/
import Spp.Lemmas.Cal
namespace Spp.C08
open Spp

/-- The first context calibrator whose criteria hold is the one selected. -/
theorem first_context (items : Items) (cur : PyVal) (pre : List ContextCalibrator) (c : ContextCalibrator)
    (post : List ContextCalibrator)
    (hpre : ∀ e ∈ pre, allCriteria items (some cur) e.criteria = .ok false)
    (hc : allCriteria items (some cur) c.criteria = .ok true) :
    firstContext items cur (pre ++ c :: post) = .ok (some c.calibrator) := by
  induction pre with
  | nil => simp [firstContext, hc, bind, Except.bind, pure, Except.pure]
  | cons e es ih =>
    have he := hpre e (by simp)
    simp only [List.cons_append, firstContext, he, bind, Except.bind]
    exact ih (fun e' he' => hpre e' (by simp [he']))

theorem no_context (items : Items) (cur : PyVal) (cs : List ContextCalibrator)
    (h : ∀ e ∈ cs, allCriteria items (some cur) e.criteria = .ok false) :
    firstContext items cur cs = .ok none := by
  induction cs with
  | nil => rfl
  | cons e es ih =>
    simp only [firstContext, h e (by simp), bind, Except.bind]
    exact ih (fun e' he' => h e' (by simp [he']))

/-- Precedence: first matching context calibrator, otherwise the default calibrator, otherwise the raw value. -/
theorem precedence (e : NumEnc) (items : Items) (parsed : PyVal) (sel : Option Calibrator)
    (h : firstContext items parsed e.cals.contexts = .ok sel) :
    e.derive items parsed =
      (match sel, e.cals.default with
       | some cal, _ => applyCal cal parsed
       | none, some cal => applyCal cal parsed
       | none, none => .ok (mkParam (if e.isFloat then .FloatP else .IntP) parsed)) := by
  unfold NumEnc.derive
  simp only [h, bind, Except.bind]
  cases sel with
  | some cal => rfl
  | none => cases e.cals.default <;> rfl

theorem calInputFor_ok (cal : Calibrator) (v : PyVal) (x : Rat) (h : calInputFor cal v = .ok x) : calInput v = .ok x := by
  unfold calInputFor at h
  split at h
  · cases h
  · exact h

/-- A NaN raw value under a spline calibrator is a calibration error, with or without extrapolation. -/
theorem spline_nan (s : Spline) : applyCal (.spline s) (.flt .nan) = .error .calibration := by
  simp [applyCal, calInputFor, bind, Except.bind]

/-- Every calibrated result is a float and keeps the uncalibrated value as its raw value. -/
theorem calibrated_is_float (cal : Calibrator) (parsed : PyVal) (v : Param) (h : applyCal cal parsed = .ok v) :
    v.cls = .FloatP ∧ v.raw = parsed ∧ ∃ x y, calInput parsed = .ok x ∧ cal.calibrate x = .ok y ∧ v.val = .flt (.fin y) := by
  unfold applyCal at h
  cases hx : calInputFor cal parsed with
  | error e => simp [hx, bind, Except.bind] at h
  | ok x =>
    cases hy : cal.calibrate x with
    | error e => simp [hx, hy, bind, Except.bind] at h
    | ok y =>
      simp only [hx, hy, bind, Except.bind, calOutput] at h
      by_cases hd : isDouble y = true
      · simp only [hd, if_true, pure, Except.pure] at h
        injection h with h; subst h
        exact ⟨rfl, rfl, x, y, calInputFor_ok cal parsed x hx, hy, rfl⟩
      · simp only [hd, if_false] at h
        contradiction

/-- Polynomial calibrators evaluate their polynomial (non-negative exponents; a negative exponent is the
    reciprocal power and needs `x ≠ 0`). -/
theorem polynomial (terms : List PolyTerm) (x : Rat) (h : ∀ t ∈ terms, 0 ≤ t.exp) :
    polyEval terms x = .ok ((terms.map (fun t => t.coef * x ^ t.exp.toNat)).sum) := by
  have key : ∀ (acc : Rat) (ts : List PolyTerm), (∀ t ∈ ts, 0 ≤ t.exp) →
      ts.foldlM (polyStep x) acc = Except.ok (acc + (ts.map (fun t => t.coef * x ^ t.exp.toNat)).sum) := by
    intro acc ts
    induction ts generalizing acc with
    | nil => intro _; simp [List.foldlM, pure, Except.pure, Rat.add_zero]
    | cons t ts ih =>
      intro hts
      have ht := hts t (by simp)
      have hstep : polyStep x acc t = .ok (acc + t.coef * x ^ t.exp.toNat) := by
        simp [polyStep, ratPow, ht]
      simp only [List.foldlM_cons, hstep, bind, Except.bind, List.map_cons, List.sum_cons]
      rw [ih _ (fun t' ht' => hts t' (by simp [ht']))]
      congr 1
      grind
  unfold polyEval
  rw [key 0 terms h, Rat.zero_add]

/-- Inside an interval `[a, b)` of consecutive points: step value (order 0) or linear interpolation (order 1). -/
theorem spline_interior (pre : List SplinePoint) (a b : SplinePoint) (post : List SplinePoint) (extr : Bool) (q : Rat)
    (hs : StrictSorted (pre ++ a :: b :: post)) (hq : a.raw ≤ q ∧ q < b.raw) :
    (Spline.mk (pre ++ a :: b :: post) 0 extr).calibrate q = .ok a.cal ∧
    (Spline.mk (pre ++ a :: b :: post) 1 extr).calibrate q
      = .ok ((b.cal - a.cal) / (b.raw - a.raw) * (q - a.raw) + a.cal) := by
  obtain ⟨lo, hi, hmin, hmax, h1, h2, h3, h4, _⟩ := sorted_split_facts pre a b post hs
  have hfg : firstGreater q (pre ++ a :: b :: post) = some (pre.length + 1) := by
    have := firstGreater_append q (pre ++ [a]) b post
      (by intro p hp; simp at hp; rcases hp with hp | rfl
          · have := h4 p hp; grind
          · grind)
      (by grind)
    simpa using this
  have hin : lo ≤ q ∧ q ≤ hi := by constructor <;> grind
  have hne : ¬ q = hi := by grind
  have hx0 : b.raw - a.raw ≠ 0 := by grind
  have i0 : ((pre ++ a :: b :: post).map (·.cal))[pre.length]? = some a.cal := by simp
  have i1 : ((pre ++ a :: b :: post).map (·.cal))[pre.length + 1]? = some b.cal := by
    simp [List.getElem?_append_right]
  have j0 : ((pre ++ a :: b :: post).map (·.raw))[pre.length]? = some a.raw := by simp
  have j1 : ((pre ++ a :: b :: post).map (·.raw))[pre.length + 1]? = some b.raw := by
    simp [List.getElem?_append_right]
  have e1 : ((pre.length + 1 : Nat) : Int) - 1 = (pre.length : Int) := by omega
  have k0 : pyIndex ((pre ++ a :: b :: post).map (·.cal)) (((pre.length + 1 : Nat) : Int) - 1) = some a.cal := by
    rw [e1, pyIndex_nat]; exact i0
  have k1 : pyIndex ((pre ++ a :: b :: post).map (·.cal)) ((pre.length + 1 : Nat) : Int) = some b.cal := by
    rw [pyIndex_nat]; exact i1
  have k2 : pyIndex ((pre ++ a :: b :: post).map (·.raw)) (((pre.length + 1 : Nat) : Int) - 1) = some a.raw := by
    rw [e1, pyIndex_nat]; exact j0
  have k3 : pyIndex ((pre ++ a :: b :: post).map (·.raw)) ((pre.length + 1 : Nat) : Int) = some b.raw := by
    rw [pyIndex_nat]; exact j1
  constructor
  · simp only [Spline.calibrate, hmin, hmax, hin, hne, hfg, and_self, if_true, if_false, k0]
    simp
  · simp only [Spline.calibrate, hmin, hmax, hin, hne, hfg, and_self, if_true, if_false, k0, k1, k2, k3]
    simp [linearFunc, hx0]

/-- At a knot the linear interpolant takes the knot's value (so order-1 splines are continuous). -/
theorem spline_knot (pre : List SplinePoint) (a b : SplinePoint) (post : List SplinePoint) (extr : Bool)
    (hs : StrictSorted (pre ++ a :: b :: post)) :
    (Spline.mk (pre ++ a :: b :: post) 1 extr).calibrate a.raw = .ok a.cal := by
  have h3 := (sorted_mid_bounds pre a b post hs).2
  rw [(spline_interior pre a b post extr a.raw hs ⟨Rat.le_refl, h3⟩).2]
  congr 1; grind

/-- The closed range includes the last point: the query at the last point gives the last calibrated value. -/
theorem spline_last_point (f : SplinePoint) (l : List SplinePoint) (order : Int) (extr : Bool)
    (ho : order = 0 ∨ order = 1) (hs : StrictSorted (f :: l)) :
    (Spline.mk (f :: l) order extr).calibrate (lastPt f l).raw = .ok (lastPt f l).cal := by
  have hmin := minRaw_sorted f l hs
  have hmax := maxRaw_sorted f l hs
  have hge := lastPt_ge f l hs f (by simp)
  have hidx : pyIndex ((f :: l).map (·.cal)) (-1) = some (lastPt f l).cal := by
    have key : ∀ (a : SplinePoint) (l : List SplinePoint),
        ((a :: l).map (·.cal))[(a :: l).length - 1]? = some (lastPt a l).cal := by
      intro a l
      induction l generalizing a with
      | nil => rfl
      | cons b rest ih => have := ih b; simpa [lastPt] using this
    unfold pyIndex
    simp only [List.length_map]
    rw [if_neg (by omega), if_pos (by simp; omega)]
    have := key f l
    simp only [List.length_cons] at this ⊢
    have e : ((↑(l.length + 1) : Int) + -1).toNat = l.length + 1 - 1 := by omega
    rw [e]; exact this
  have ho' : ¬ (order ≠ 0 ∧ order ≠ 1) := by omega
  rw [List.map_cons] at hidx
  simp only [Spline.calibrate, hmin, hmax, ho', if_false]
  rw [if_pos ⟨hge, Rat.le_refl⟩]
  simp [hidx]

/-- Outside the closed range without extrapolation: a calibration error, never a value. -/
theorem spline_out_of_range (f : SplinePoint) (l : List SplinePoint) (order : Int) (q : Rat)
    (ho : order = 0 ∨ order = 1) (hs : StrictSorted (f :: l)) (hq : q < f.raw ∨ (lastPt f l).raw < q) :
    (Spline.mk (f :: l) order false).calibrate q = .error .calibration := by
  have hmin := minRaw_sorted f l hs
  have hmax := maxRaw_sorted f l hs
  have hge := lastPt_ge f l hs f (by simp)
  have ho' : ¬ (order ≠ 0 ∧ order ≠ 1) := by omega
  simp only [Spline.calibrate, hmin, hmax, ho', if_false]
  rw [if_neg (by grind)]
  simp

/-- Extrapolation (enabled): order 0 holds the end value; order 1 continues the end segment. -/
theorem spline_extrapolate (f g : SplinePoint) (l : List SplinePoint) (q : Rat) (hs : StrictSorted (f :: g :: l))
    (hq : q < f.raw) :
    (Spline.mk (f :: g :: l) 0 true).calibrate q = .ok f.cal ∧
    (Spline.mk (f :: g :: l) 1 true).calibrate q = .ok ((g.cal - f.cal) / (g.raw - f.raw) * (q - f.raw) + f.cal) := by
  have hmin := minRaw_sorted f (g :: l) hs
  have hmax := maxRaw_sorted f (g :: l) hs
  have hge := lastPt_ge f (g :: l) hs f (by simp)
  have hfg : g.raw - f.raw ≠ 0 := by have := hs.1; grind
  constructor
  · simp only [Spline.calibrate, hmin, hmax]
    rw [if_neg (by omega), if_neg (by grind), if_neg (by grind), if_pos ⟨hq, trivial⟩]
    simp [pyIndex]
  · simp only [Spline.calibrate, hmin, hmax]
    rw [if_neg (by omega), if_neg (by grind), if_neg (by grind), if_pos ⟨hq, trivial⟩]
    simp [pyIndex, linearFunc, hfg]

/-- The point set a spline calibrator works on is what its constructor stores: for points with strictly increasing —
    more generally pairwise distinct — raw coordinates given in any order, that list is strictly increasing and has
    exactly the given points, so the interpolation theorems above apply to every constructed calibrator. -/
theorem constructor_sorts (ps : List SplinePoint) (hd : (ps.map (·.raw)).Nodup) :
    StrictSorted (sortPoints ps) ∧ ∀ x, x ∈ sortPoints ps ↔ x ∈ ps :=
  sortPoints_sorted ps hd

theorem constructor_keeps_sorted (ps : List SplinePoint) (h : StrictSorted ps) : sortPoints ps = ps :=
  sortPoints_of_sorted ps h

/-- Enumerated parameters: the label of the raw value, failing on unlisted values; the raw value is kept. -/
theorem enumerated (t : PType) (table : List (PyVal × String)) (p : Pkt) (v : Param) (r' : Raw)
    (hk : t.kind = .enum table) (hv : t.enc.parseValue p = .ok (v, r')) :
    t.parseValue p =
      (match table.find? (fun kv => pyEq kv.1 v.raw) with
       | some kv => .ok (mkParam .StrP (.str kv.2) (some v.raw), r')
       | none => .error .value) := by
  unfold PType.parseValue
  simp only [hv, hk, bind, Except.bind, pure, Except.pure]
  cases table.find? (fun kv => pyEq kv.1 v.raw) <;> rfl

/-- Boolean parameters: the truthiness of the raw value (not of a calibrated one); the raw value is kept. -/
theorem boolean (t : PType) (p : Pkt) (v : Param) (r' : Raw)
    (hk : t.kind = .bool) (hv : t.enc.parseValue p = .ok (v, r')) :
    t.parseValue p = .ok ({ cls := .BoolP, val := .int (if truthy v.raw then 1 else 0), raw := v.raw }, r') := by
  unfold PType.parseValue
  simp only [hv, hk, bind, Except.bind, pure, Except.pure, mkParam]

theorem truthy_int (i : Int) : truthy (.int i) = true ↔ i ≠ 0 := by
  simp [truthy]

/-- Non-vacuity: a 3-point order-1 spline queried at its last point and in the middle. -/
example : StrictSorted [⟨0, 0⟩, ⟨2, 4⟩, ⟨4, 6⟩] := by
  refine ⟨?_, ?_, trivial⟩ <;> decide +kernel
example : ((Spline.mk [⟨0, 0⟩, ⟨2, 4⟩, ⟨4, 6⟩] 1 false).calibrate 4).toOption = some 6 := by decide +kernel
example : ((Spline.mk [⟨0, 0⟩, ⟨2, 4⟩, ⟨4, 6⟩] 1 false).calibrate 1).toOption = some 2 := by decide +kernel

end Spp.C08
