/-
C03 — Bit-cursor reads return exactly the addressed bits and advance by the width.
Only property theorems and non-vacuity examples live here; helper lemmas are in `Spp/Lemmas/Bits.lean`.
-/
import Spp.Lemmas.Bits
namespace Spp.C03
open Spp

/-- Integer read: the unsigned big-endian value of bits `p .. p+n-1` (`int(bits(B)[p:p+n], 2)`),
    cursor advanced by exactly `n`, buffer unchanged. No bound on `|B|`, `p`, `n`. -/
theorem read_as_int (B : Bytes) (p n : Nat) (h : p + n ≤ 8 * B.length) :
    readAsInt ⟨B, p⟩ (n : Int) = .ok (natOfBits (((bits B).drop p).take n), ⟨B, p + n⟩) := by
  unfold readAsInt
  rw [if_neg (by omega)]
  simp only [Int.toNat_natCast]
  rw [extractBits_spec B p n h]
  rfl

/-- Bytes read: that same value right-aligned in `ceil(n/8)` big-endian bytes. -/
theorem read_as_bytes (B : Bytes) (p n : Nat) (h : p + n ≤ 8 * B.length) :
    ∃ out, readAsBytes ⟨B, p⟩ (n : Int) = .ok (out, ⟨B, p + n⟩) ∧
      out.length = (n + 7) / 8 ∧
      fromBytesBE out = natOfBits (((bits B).drop p).take n) ∧
      out = toBytesBE ((n + 7) / 8) (natOfBits (((bits B).drop p).take n)) := by
  have hfl := fieldVal_lt B p n
  have hlt : fieldVal B p n < 256 ^ ((n + 7) / 8) := by
    rw [two_pow_8]
    exact Nat.lt_of_lt_of_le hfl (Nat.pow_le_pow_right (by omega) (by omega))
  refine ⟨toBytesBE ((n + 7) / 8) (fieldVal B p n), ?_, toBytesBE_length _ _,
    fromBytesBE_toBytesBE _ _ hlt, rfl⟩
  unfold readAsBytes
  rw [if_neg (by omega)]
  simp only [Int.toNat_natCast]
  rw [if_neg (by omega)]
  split
  · rename_i hal
    have hend : p / 8 + (n + 7) / 8 ≤ B.length := by omega
    have hsl := slice_length B (p / 8) (p / 8 + (n + 7) / 8) hend
    rw [fieldVal_aligned B p n h hal.1 hal.2]
    have := toBytesBE_fromBytesBE (slice B (p / 8) (p / 8 + (n + 7) / 8))
    rw [hsl, Nat.add_sub_cancel_left] at this
    rw [this]
  · rw [extractBits_spec B p n h]

/-- The arithmetic and the bit-string reading of "the addressed bits" coincide. -/
theorem field_arith (B : Bytes) (p n : Nat) (h : p + n ≤ 8 * B.length) :
    natOfBits (((bits B).drop p).take n) = fromBytesBE B / 2 ^ (8 * B.length - p - n) % 2 ^ n :=
  fieldVal_eq_arith B p n h

/-- Reads never change the buffer, whatever they return. -/
theorem buffer_unchanged_int (r : Raw) (n : Int) (v : Nat) (r' : Raw)
    (h : readAsInt r n = .ok (v, r')) : r'.data = r.data := by
  unfold readAsInt at h
  split at h
  · contradiction
  · split at h
    · contradiction
    · injection h with h; injection h with _ h; subst h; rfl

theorem buffer_unchanged_bytes (r : Raw) (n : Int) (v : Bytes) (r' : Raw)
    (h : readAsBytes r n = .ok (v, r')) : r'.data = r.data := by
  unfold readAsBytes at h
  split at h
  · contradiction
  · simp only at h
    split at h
    · contradiction
    · split at h
      · injection h with h; injection h with _ h; subst h; rfl
      · split at h
        · contradiction
        · injection h with h; injection h with _ h; subst h; rfl

/-- A bytes read that would end beyond the buffer, or has negative width, is rejected (feeds C14). -/
theorem read_as_bytes_guard (r : Raw) (n : Int) (h : n < 0 ∨ (r.pos : Int) + n > 8 * r.data.length) :
    ∃ e, readAsBytes r n = .error e := by
  unfold readAsBytes
  by_cases hn : n < 0
  · exact ⟨_, by rw [if_pos hn]⟩
  · rw [if_neg hn]
    simp only
    rw [if_pos (by omega)]
    exact ⟨_, rfl⟩

/-- A negative-width integer read is rejected. -/
theorem read_as_int_negative (r : Raw) (n : Int) (h : n < 0) :
    readAsInt r n = .error .negativeWidth := by
  unfold readAsInt; rw [if_pos h]

/-- Non-vacuity: the doc-string example of `_extract_bits` (00110101 11001010, start 2, 9 bits = 0b110101110). -/
example : readAsInt ⟨[0x35, 0xCA], 2⟩ 9 = .ok (0b110101110, ⟨[0x35, 0xCA], 11⟩) := by rfl
example : (2 : Nat) + 9 ≤ 8 * ([0x35, 0xCA] : Bytes).length := by decide
example : readAsBytes ⟨[0x35, 0xCA], 2⟩ 9 = .ok ([0x01, 0xAE], ⟨[0x35, 0xCA], 11⟩) := by rfl

end Spp.C03
