/-
C18 — The xarray dataset holds every parsed value, per APID, in order, without loss.
PARTIAL: numpy's array conversion and xarray's Dataset are outside the model; what is proved is the grouping
(one row per packet of the APID, in stream order, files in the order given), the rejection of mixed field sets, and
that the dtype chosen for an uncalibrated integer encoding of up to 64 bits can hold every value the encoding produces.
-/
import Spp.Model.Xarr
namespace Spp.C18
open Spp

def rowsOf (st : DsState) (a : Nat) : List (List Param) :=
  match st.find? (·.1 == a) with | some e => e.2.2 | none => []

def SameFields (ps : List DsPacket) : Prop :=
  ∀ p ∈ ps, ∀ q ∈ ps, p.apid = q.apid → p.cells.map (·.1) = q.cells.map (·.1)

theorem rowsOf_append_new (st : DsState) (a b : Nat) (ks : List String) (row : List Param)
    (hb : st.find? (·.1 == b) = none) :
    rowsOf (st ++ [(b, (ks, [row]))]) a = if a = b then [row] else rowsOf st a := by
  unfold rowsOf
  rw [List.find?_append]
  by_cases hab : a = b
  · subst hab; simp [hb]
  · have : ((b, (ks, [row])).1 == a) = false := by simpa using fun e => hab e.symm
    cases h : st.find? (·.1 == a) with
    | some e => simp [hab]
    | none => simp [hab, this]

theorem rowsOf_map_append (st : DsState) (a b : Nat) (row : List Param) :
    rowsOf (st.map (fun e => if e.1 == b then (e.1, (e.2.1, e.2.2 ++ [row])) else e)) a
      = if a = b ∧ (st.find? (·.1 == a)).isSome then rowsOf st a ++ [row] else rowsOf st a := by
  induction st with
  | nil => simp [rowsOf]
  | cons e rest ih =>
    unfold rowsOf at ih ⊢
    simp only [List.map_cons, List.find?_cons]
    by_cases he : (e.1 == a) = true
    · have hea : e.1 = a := by simpa using he
      by_cases heb : (e.1 == b) = true
      · have : a = b := by rw [← hea]; simpa using heb
        simp [he, heb, this]
      · have : ¬ a = b := by intro h; apply heb; rw [hea, h]; simp
        simp [he, heb, this]
    · by_cases heb : (e.1 == b) = true
      · simp only [heb, if_true, he]
        simpa using ih
      · simp only [heb, Bool.false_eq_true, if_false, he]
        simpa using ih

/-- The column order of an APID: the field names of its first packet (`none` while no packet of it has arrived). -/
def keysOf (st : DsState) (a : Nat) : Option (List String) := (st.find? (·.1 == a)).map (·.2.1)

/-- A packet's values in a given column order: each value is looked up by the *name* of its column. -/
def alignRow (ks : List String) (p : DsPacket) : List Param :=
  ks.filterMap (fun k => (p.cells.find? (·.1 == k)).map (·.2))

/-- The rows a run of packets of one APID contributes: the first packet fixes the column order, every later packet is
    aligned to it by name (so the order of the items inside a later packet does not matter). -/
def rowsFrom : Option (List String) → List DsPacket → List (List Param)
  | _, [] => []
  | none, p :: ps => p.cells.map (·.2) :: rowsFrom (some (p.cells.map (·.1))) ps
  | some ks, p :: ps => alignRow ks p :: rowsFrom (some ks) ps

theorem keysOf_append_new (st : DsState) (a b : Nat) (ks : List String) (row : List Param)
    (hb : st.find? (·.1 == b) = none) :
    keysOf (st ++ [(b, (ks, [row]))]) a = if a = b then some ks else keysOf st a := by
  unfold keysOf
  rw [List.find?_append]
  by_cases hab : a = b
  · subst hab; simp [hb]
  · have : ((b, (ks, [row])).1 == a) = false := by simpa using fun e => hab e.symm
    cases h : st.find? (·.1 == a) with
    | some e => simp [hab]
    | none => simp [hab, this]

theorem keysOf_map_append (st : DsState) (a b : Nat) (row : List Param) :
    keysOf (st.map (fun e => if e.1 == b then (e.1, (e.2.1, e.2.2 ++ [row])) else e)) a = keysOf st a := by
  induction st with
  | nil => simp [keysOf]
  | cons e rest ih =>
    unfold keysOf at ih ⊢
    simp only [List.map_cons, List.find?_cons]
    by_cases he : (e.1 == a) = true
    · by_cases heb : (e.1 == b) = true <;> simp [he, heb]
    · by_cases heb : (e.1 == b) = true
      · simp only [heb, if_true, he]
        simpa using ih
      · simp only [heb, Bool.false_eq_true, if_false, he]
        simpa using ih

/-- One row per packet of the APID, in stream order (files in the order given, since the packet list is the
    concatenation): the first packet of the APID fixes the column order and contributes its values as they come; every
    later packet contributes its values *by column name*. -/
theorem rows_per_apid (ps : List DsPacket) (st st' : DsState) (a : Nat) (h : dsBuild st ps = some st') :
    rowsOf st' a = rowsOf st a ++ rowsFrom (keysOf st a) (ps.filter (·.apid = a)) := by
  induction ps generalizing st with
  | nil => simp [dsBuild] at h; subst h; simp [rowsFrom]
  | cons p ps ih =>
    simp only [dsBuild] at h
    cases hadd : dsAdd st p with
    | none => simp [hadd] at h
    | some st1 =>
      simp only [hadd] at h
      rw [ih st1 h]
      unfold dsAdd at hadd
      cases hf : st.find? (·.1 == p.apid) with
      | none =>
        simp only [hf] at hadd
        injection hadd with hadd; subst hadd
        rw [rowsOf_append_new st a p.apid _ _ hf, keysOf_append_new st a p.apid _ _ hf]
        by_cases hap : a = p.apid
        · subst hap
          have h1 : rowsOf st p.apid = [] := by simp [rowsOf, hf]
          have h2 : keysOf st p.apid = none := by simp [keysOf, hf]
          simp [List.filter_cons, h1, h2, rowsFrom]
        · have : ¬ p.apid = a := fun e => hap e.symm
          simp [hap, List.filter_cons, this]
      | some e =>
        obtain ⟨ea, ks, rows⟩ := e
        simp only [hf] at hadd
        split at hadd
        · injection hadd with hadd; subst hadd
          rw [rowsOf_map_append, keysOf_map_append]
          by_cases hap : a = p.apid
          · subst hap
            have h2 : keysOf st p.apid = some ks := by simp [keysOf, hf]
            simp [hf, List.filter_cons, h2, rowsFrom, alignRow]
          · have : ¬ p.apid = a := fun e => hap e.symm
            simp [hap, List.filter_cons, this]
        · contradiction

theorem create_rows (files : List (List DsPacket)) (st : DsState) (a : Nat) (h : createDataset files = some st) :
    rowsOf st a = rowsFrom none ((files.flatten).filter (·.apid = a)) := by
  have := rows_per_apid files.flatten [] st a h
  simpa [rowsOf, keysOf] using this

/-- Aligning a packet to a column order that names only fields it has puts, in each column, the packet's value of that
    name: nothing is dropped, and the order of the items inside the packet plays no part. -/
theorem alignRow_by_name (ks : List String) (p : DsPacket) (hall : ∀ k ∈ ks, k ∈ p.cells.map (·.1)) :
    ∃ vals : List Param, alignRow ks p = vals ∧ vals.length = ks.length ∧
      ∀ i (hi : i < ks.length) (hv : i < vals.length),
        (p.cells.find? (·.1 == ks[i])).map (·.2) = some vals[i] := by
  induction ks with
  | nil => exact ⟨[], rfl, rfl, fun i hi => absurd hi (by simp)⟩
  | cons k ks ih =>
    obtain ⟨vals, hv, hlen, hget⟩ := ih (fun k' hk' => hall k' (by simp [hk']))
    have hk := hall k (by simp)
    obtain ⟨c, hc, hck⟩ := List.mem_map.mp hk
    cases hfind : p.cells.find? (·.1 == k) with
    | none =>
      rw [List.find?_eq_none] at hfind
      exact absurd (by simpa using hck) (hfind c hc)
    | some c' =>
      refine ⟨c'.2 :: vals, ?_, by simp [hlen], ?_⟩
      · simp only [alignRow, List.filterMap_cons, hfind, Option.map_some]
        exact congrArg _ hv
      · intro i hi hv'
        cases i with
        | zero => simp [hfind]
        | succ j => simpa using hget j (by simpa using hi) (by simpa using hv')

theorem alignRow_self_aux (cells : List (String × Param)) :
    ∀ (pre : List (String × Param)), (∀ c ∈ cells, ∀ q ∈ pre, q.1 ≠ c.1) → ((pre ++ cells).map (·.1)).Nodup →
      (cells.map (·.1)).filterMap (fun k => ((pre ++ cells).find? (·.1 == k)).map (·.2)) = cells.map (·.2) := by
  induction cells with
  | nil => intro pre _ _; rfl
  | cons c rest ih =>
    intro pre hpre hnd'
    have hfind : (pre ++ c :: rest).find? (·.1 == c.1) = some c := by
      rw [List.find?_append]
      have : pre.find? (·.1 == c.1) = none := by
        rw [List.find?_eq_none]; intro q hq; simpa using hpre c (by simp) q hq
      simp [this]
    simp only [List.map_cons, List.filterMap_cons, hfind, Option.map_some]
    congr 1
    have := ih (pre ++ [c]) (by
      intro c' hc' q hq
      simp only [List.mem_append, List.mem_singleton] at hq
      rcases hq with hq | rfl
      · exact hpre c' (by simp [hc']) q hq
      · intro e
        rw [List.map_append, List.map_cons, List.nodup_append] at hnd'
        have h2 := hnd'.2.1
        rw [List.nodup_cons] at h2
        exact h2.1 (by rw [e]; exact List.mem_map_of_mem hc')) (by simpa [List.append_assoc] using hnd')
    simpa [List.append_assoc] using this

/-- The first packet's own row is the aligned row too, when its field names are distinct (they are dictionary keys). -/
theorem alignRow_self (p : DsPacket) (hnd : (p.cells.map (·.1)).Nodup) :
    alignRow (p.cells.map (·.1)) p = p.cells.map (·.2) := by
  have := alignRow_self_aux p.cells [] (by simp) (by simpa using hnd)
  simpa [alignRow] using this

/-- A stream whose packets of one APID differ in field set is rejected. -/
theorem rejects_mixed (st : DsState) (p : DsPacket) (ks : List String) (rows : List (List Param))
    (hf : st.find? (·.1 == p.apid) = some (p.apid, (ks, rows)))
    (hdiff : ∃ k, (k ∈ ks ∧ k ∉ p.cells.map (·.1)) ∨ (k ∈ p.cells.map (·.1) ∧ k ∉ ks)) :
    dsAdd st p = none := by
  unfold dsAdd
  simp only [hf]
  rw [if_neg]
  intro hc
  simp only [Bool.and_eq_true, List.all_eq_true, List.contains_eq_mem, decide_eq_true_eq] at hc
  obtain ⟨k, hk | hk⟩ := hdiff
  · exact hk.2 (by simpa using hc.1 k hk.1)
  · exact hk.2 (by simpa using hc.2 k (by simpa using hk.1))

/-- The dtype chosen for an uncalibrated unsigned integer encoding of at most 64 bits holds every raw value. -/
theorem fits_unsigned (e : NumEnc) (n : Nat) (v : Nat) (hf : e.isFloat = false) (hs : e.size = (n : Int))
    (hu : e.encoding = "unsigned") (hn : n ≤ 64) (hv : v < 2 ^ n) :
    ∃ w, minDtypeForEncoding (.num e) = .uint w ∧ v < 2 ^ w := by
  have hp : ∀ a b : Nat, a ≤ b → (2:Nat) ^ a ≤ 2 ^ b := fun a b h => Nat.pow_le_pow_right (by omega) h
  simp only [minDtypeForEncoding, hf, hs, hu, Bool.false_eq_true, if_false, BEq.rfl, if_true]
  by_cases h8 : n ≤ 8
  · exact ⟨8, by have : ((n : Int) ≤ 8) := by omega
                 simp [this], Nat.lt_of_lt_of_le hv (hp _ _ h8)⟩
  · by_cases h16 : n ≤ 16
    · refine ⟨16, ?_, Nat.lt_of_lt_of_le hv (hp _ _ h16)⟩
      have : ¬ ((n : Int) ≤ 8) := by omega
      have : ((n : Int) ≤ 16) := by omega
      simp [*]
    · by_cases h32 : n ≤ 32
      · refine ⟨32, ?_, Nat.lt_of_lt_of_le hv (hp _ _ h32)⟩
        have : ¬ ((n : Int) ≤ 8) := by omega
        have : ¬ ((n : Int) ≤ 16) := by omega
        have : ((n : Int) ≤ 32) := by omega
        simp [*]
      · refine ⟨64, ?_, Nat.lt_of_lt_of_le hv (hp _ _ hn)⟩
        have : ¬ ((n : Int) ≤ 8) := by omega
        have : ¬ ((n : Int) ≤ 16) := by omega
        have : ¬ ((n : Int) ≤ 32) := by omega
        simp [*]

/-- Likewise for signed encodings: every two's-complement value of `n ≤ 64` bits lies in the chosen `int{w}` range. -/
theorem fits_signed (e : NumEnc) (n : Nat) (v : Int) (hf : e.isFloat = false) (hs : e.size = (n : Int))
    (hu : e.encoding ≠ "unsigned") (hn1 : 1 ≤ n) (hn : n ≤ 64) (hv : -(2 ^ (n - 1) : Int) ≤ v ∧ v < 2 ^ (n - 1)) :
    ∃ w, minDtypeForEncoding (.num e) = .int w ∧ -(2 ^ (w - 1) : Int) ≤ v ∧ v < 2 ^ (w - 1) := by
  have hp : ∀ a b : Nat, a ≤ b → (2:Int) ^ a ≤ 2 ^ b := by
    intro a b h
    have := Nat.pow_le_pow_right (n := 2) (by omega) h
    exact_mod_cast this
  have hu' : (e.encoding == "unsigned") = false := by simpa using hu
  simp only [minDtypeForEncoding, hf, hs, hu', Bool.false_eq_true, if_false]
  have key : ∀ w, n ≤ w → -(2 ^ (w - 1) : Int) ≤ v ∧ v < 2 ^ (w - 1) := by
    intro w hw
    have := hp (n - 1) (w - 1) (by omega)
    omega
  by_cases h8 : n ≤ 8
  · exact ⟨8, by have : ((n : Int) ≤ 8) := by omega
                 simp [this], key 8 h8⟩
  · by_cases h16 : n ≤ 16
    · refine ⟨16, ?_, key 16 h16⟩
      have : ¬ ((n : Int) ≤ 8) := by omega
      have : ((n : Int) ≤ 16) := by omega
      simp [*]
    · by_cases h32 : n ≤ 32
      · refine ⟨32, ?_, key 32 h32⟩
        have : ¬ ((n : Int) ≤ 8) := by omega
        have : ¬ ((n : Int) ≤ 16) := by omega
        have : ((n : Int) ≤ 32) := by omega
        simp [*]
      · refine ⟨64, ?_, key 64 hn⟩
        have : ¬ ((n : Int) ≤ 8) := by omega
        have : ¬ ((n : Int) ≤ 16) := by omega
        have : ¬ ((n : Int) ≤ 32) := by omega
        simp [*]

/-- Derived enumerated parameters are stored as strings whatever their encoding. -/
theorem enum_is_str (t : PType) (table : List (PyVal × String)) (h : t.kind = .enum table) :
    minNumpyDtype t false = .str := by
  simp [minNumpyDtype, h]

/-! ### float columns: the chosen dtype can represent every decoded value exactly -/

/-- The finite values of a binary floating-point format with `p` significant bits and exponent range
    `[emin, emax]` (of the unit in the last place): `m · 2^e` with `|m| < 2^p`. -/
def Rep (p : Nat) (emin emax : Int) (q : Rat) : Prop :=
  ∃ (m e : Int), m.natAbs < 2 ^ p ∧ emin ≤ e ∧ e ≤ emax ∧ q = (m : Rat) * pow2 e

/-- Does a float column of the given dtype hold `v` exactly?  Infinities, NaN and −0 exist in every IEEE format. -/
def floatHolds : DType → FVal → Prop
  | .float 32, .fin q => Rep 24 (-149) 104 q
  | .float 64, .fin q => Rep 53 (-1074) 971 q
  | .float _, .fin _ => False
  | .float _, _ => True
  | _, _ => False

theorem rep_mk (p : Nat) (emin emax : Int) (neg : Bool) (n : Nat) (e : Int) (hn : n < 2 ^ p) (h1 : emin ≤ e)
    (h2 : e ≤ emax) : Rep p emin emax ((if neg then -1 else 1) * (n : Rat) * pow2 e) := by
  cases neg
  · exact ⟨(n : Int), e, by simpa using hn, h1, h2, by simp [Rat.intCast_natCast]⟩
  · refine ⟨-(n : Int), e, by simpa using hn, h1, h2, ?_⟩
    rw [Rat.intCast_neg, Rat.intCast_natCast]
    grind

/-- Every finite value an IEEE field of `eb` exponent and `mb` fraction bits decodes to is `m · 2^e` with
    `|m| < 2^(mb+1)` and `e` between the subnormal exponent and the largest normal one. -/
theorem rep_of_decode (eb mb : Nat) (bits : Nat) (q : Rat) (heb : 2 ≤ eb)
    (h : ieeeDecode eb mb bits = .fin q) :
    Rep (mb + 1) (1 - (2 ^ (eb - 1) - 1 : Int) - mb) (((2 ^ eb - 2 : Nat) : Int) - (2 ^ (eb - 1) - 1 : Int) - mb) q := by
  unfold ieeeDecode at h
  simp only at h
  have hM : 0 < 2 ^ mb := Nat.pow_pos (by omega)
  have hE0 : 0 < 2 ^ eb := Nat.pow_pos (by omega)
  have hfl : bits % 2 ^ mb < 2 ^ mb := Nat.mod_lt _ hM
  have hel : bits / 2 ^ mb % 2 ^ eb < 2 ^ eb := Nat.mod_lt _ hE0
  have h2 : (2:Nat) ^ eb ≥ 4 := by
    calc (2:Nat) ^ eb ≥ 2 ^ 2 := Nat.pow_le_pow_right (by omega) heb
      _ = 4 := rfl
  have hp : (2:Nat) ^ (mb + 1) = 2 * 2 ^ mb := by rw [Nat.pow_succ]; omega
  generalize (2 ^ (eb - 1) - 1 : Int) = B at h ⊢
  generalize hEx : bits / 2 ^ mb % 2 ^ eb = ex at h hel
  generalize hF : bits % 2 ^ mb = f at h hfl
  generalize (bits / 2 ^ (eb + mb) % 2 == 1) = sg at h
  generalize (2 ^ eb : Nat) = E at h hel h2 ⊢
  generalize (2 ^ mb : Nat) = M at h hfl hp hM
  split at h
  · split at h <;> cases h
  · rename_i hne
    have hne' : ¬ ex = E - 1 := by simpa using hne
    split at h
    · rename_i he0
      split at h
      · split at h
        · cases h
        · injection h with h; subst h
          have := rep_mk (mb + 1) (1 - B - mb) (((E - 2 : Nat) : Int) - B - mb) false 0 (1 - B - mb)
            (by omega) (Int.le_refl _) (by omega)
          simpa using this
      · injection h with h; subst h
        exact rep_mk _ _ _ sg f _ (by omega) (Int.le_refl _) (by omega)
    · rename_i he0
      have he0' : ¬ ex = 0 := by simpa using he0
      injection h with h; subst h
      exact rep_mk _ _ _ sg (M + f) _ (by omega) (by omega) (by omega)

theorem rep_mono {p p' : Nat} {emin emax emin' emax' : Int} {q : Rat} (hp : p ≤ p') (h1 : emin' ≤ emin)
    (h2 : emax ≤ emax') (h : Rep p emin emax q) : Rep p' emin' emax' q := by
  obtain ⟨m, e, hm, he1, he2, hq⟩ := h
  exact ⟨m, e, Nat.lt_of_lt_of_le hm (Nat.pow_le_pow_right (by omega) hp), by omega, by omega, hq⟩

/-- IEEE float encodings (16, 32 or 64 bits): the column dtype chosen for the raw value represents every decoded
    value exactly — float32 for 32-bit fields, float64 for the others. -/
theorem ieee_fits (e : NumEnc) (w bits : Nat) (v : FVal) (hf : e.isFloat = true) (hs : e.size = (w : Int))
    (henc : e.encoding ≠ "MILSTD_1750A") (hv : ieeeVal w bits = some v) :
    floatHolds (minDtypeForEncoding (.num e)) v := by
  have henc' : (e.encoding != "MILSTD_1750A") = true := by simpa using henc
  unfold ieeeVal at hv
  split at hv
  · injection hv with hv
    have hd : minDtypeForEncoding (.num e) = .float 64 := by simp [minDtypeForEncoding, hf, hs]
    rw [hd]
    cases v with
    | fin q =>
      have := rep_of_decode 5 10 bits q (by omega) hv
      exact rep_mono (by omega) (by decide) (by decide) this
    | negZero => trivial
    | inf s => trivial
    | nan => trivial
  · injection hv with hv
    have hd : minDtypeForEncoding (.num e) = .float 32 := by simp [minDtypeForEncoding, hf, hs, henc']
    rw [hd]
    cases v with
    | fin q =>
      have := rep_of_decode 8 23 bits q (by omega) hv
      exact rep_mono (by omega) (by decide) (by decide) this
    | negZero => trivial
    | inf s => trivial
    | nan => trivial
  · injection hv with hv
    have hd : minDtypeForEncoding (.num e) = .float 64 := by simp [minDtypeForEncoding, hf, hs]
    rw [hd]
    cases v with
    | fin q =>
      have := rep_of_decode 11 52 bits q (by omega) hv
      exact rep_mono (by omega) (by decide) (by decide) this
    | negZero => trivial
    | inf s => trivial
    | nan => trivial
  · cases hv

/-- MIL-STD-1750A 32-bit floats go to a float64 column, which represents every one of them exactly
    (24-bit mantissa, exponent −128…127: the smallest lie below float32's subnormal range). -/
theorem mil_fits (e : NumEnc) (bits : Nat) (hf : e.isFloat = true) (henc : e.encoding = "MILSTD_1750A") :
    floatHolds (minDtypeForEncoding (.num e)) (mil1750aVal bits) := by
  have hd : minDtypeForEncoding (.num e) = .float 64 := by simp [minDtypeForEncoding, hf, henc]
  rw [hd]
  unfold mil1750aVal
  refine ⟨twosComplement (bits / 256 % 2 ^ 24) 24, twosComplement (bits % 256) 8 - 23, ?_, ?_, ?_, rfl⟩
  · unfold twosComplement; split <;> omega
  · unfold twosComplement; split <;> omega
  · unfold twosComplement; split <;> omega

/-- Non-vacuity, and the value that the unrepaired float32 choice rounded: mantissa 1, exponent −128. -/
example : mil1750aVal 0x00000180 = .fin (pow2 (-151)) := by decide +kernel

/-- Two packets of one APID listing the same fields in opposite order: one dataset, each value in its own column
    (and the premises of `rows_per_apid` / `alignRow_by_name` are met by a concrete stream). -/
example :
    createDataset [[⟨5, [("A", mkParam .IntP (.int 1)), ("B", mkParam .IntP (.int 2))]⟩,
                    ⟨5, [("B", mkParam .IntP (.int 20)), ("A", mkParam .IntP (.int 10))]⟩]] =
      some [(5, (["A", "B"], [[mkParam .IntP (.int 1), mkParam .IntP (.int 2)],
                               [mkParam .IntP (.int 10), mkParam .IntP (.int 20)]]))] := by decide +kernel

/-- … while a packet with another field set is rejected. -/
example :
    createDataset [[⟨5, [("A", mkParam .IntP (.int 1)), ("B", mkParam .IntP (.int 2))]⟩,
                    ⟨5, [("A", mkParam .IntP (.int 10)), ("C", mkParam .IntP (.int 20))]⟩]] = none := by decide +kernel

end Spp.C18
