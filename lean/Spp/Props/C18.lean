/-
C18 — The xarray dataset holds every parsed value, per APID, in order, without loss.
PARTIAL: numpy's array conversion and xarray's Dataset are outside the model; what is proved is the grouping
(one row per packet of the APID, in stream order, files in the order given), the rejection of mixed field sets, and
that the dtype chosen for an uncalibrated integer encoding of up to 64 bits can hold every value the encoding produces.
-/
import Spp.Model.Xarr
namespace Spp.C18
open Spp

def rowsOf (st : DsState) (a : Nat) : List (List Param) :=
  match st.find? (·.1 == a) with | some e => e.2.2 | none => []

def SameFields (ps : List DsPacket) : Prop :=
  ∀ p ∈ ps, ∀ q ∈ ps, p.apid = q.apid → p.cells.map (·.1) = q.cells.map (·.1)

theorem rowsOf_append_new (st : DsState) (a b : Nat) (ks : List String) (row : List Param)
    (hb : st.find? (·.1 == b) = none) :
    rowsOf (st ++ [(b, (ks, [row]))]) a = if a = b then [row] else rowsOf st a := by
  unfold rowsOf
  rw [List.find?_append]
  by_cases hab : a = b
  · subst hab; simp [hb]
  · have : ((b, (ks, [row])).1 == a) = false := by simpa using fun e => hab e.symm
    cases h : st.find? (·.1 == a) with
    | some e => simp [hab]
    | none => simp [hab, this]

theorem rowsOf_map_append (st : DsState) (a b : Nat) (row : List Param) :
    rowsOf (st.map (fun e => if e.1 == b then (e.1, (e.2.1, e.2.2 ++ [row])) else e)) a
      = if a = b ∧ (st.find? (·.1 == a)).isSome then rowsOf st a ++ [row] else rowsOf st a := by
  induction st with
  | nil => simp [rowsOf]
  | cons e rest ih =>
    unfold rowsOf at ih ⊢
    simp only [List.map_cons, List.find?_cons]
    by_cases he : (e.1 == a) = true
    · have hea : e.1 = a := by simpa using he
      by_cases heb : (e.1 == b) = true
      · have : a = b := by rw [← hea]; simpa using heb
        simp [he, heb, this]
      · have : ¬ a = b := by intro h; apply heb; rw [hea, h]; simp
        simp [he, heb, this]
    · by_cases heb : (e.1 == b) = true
      · simp only [heb, if_true, he]
        simpa using ih
      · simp only [heb, Bool.false_eq_true, if_false, he]
        simpa using ih

/-- One row per packet of the APID, in stream order: the rows of APID `a` are the cells of the packets of APID `a`,
    in the order the packets arrive (files in the order given, since the packet list is the concatenation). -/
theorem rows_per_apid (ps : List DsPacket) (st st' : DsState) (a : Nat) (h : dsBuild st ps = some st') :
    rowsOf st' a = rowsOf st a ++ ((ps.filter (·.apid = a)).map (fun p => p.cells.map (·.2))) := by
  induction ps generalizing st with
  | nil => simp [dsBuild] at h; subst h; simp
  | cons p ps ih =>
    simp only [dsBuild] at h
    cases hadd : dsAdd st p with
    | none => simp [hadd] at h
    | some st1 =>
      simp only [hadd] at h
      rw [ih st1 h]
      unfold dsAdd at hadd
      cases hf : st.find? (·.1 == p.apid) with
      | none =>
        simp only [hf] at hadd
        injection hadd with hadd; subst hadd
        rw [rowsOf_append_new st a p.apid _ _ hf]
        by_cases hap : a = p.apid
        · subst hap
          have : rowsOf st p.apid = [] := by simp [rowsOf, hf]
          simp [List.filter_cons, this]
        · have : ¬ p.apid = a := fun e => hap e.symm
          simp [hap, List.filter_cons, this]
      | some e =>
        obtain ⟨ea, ks, rows⟩ := e
        simp only [hf] at hadd
        split at hadd
        · injection hadd with hadd; subst hadd
          rw [rowsOf_map_append]
          by_cases hap : a = p.apid
          · subst hap
            simp [hf, List.filter_cons]
          · have : ¬ p.apid = a := fun e => hap e.symm
            simp [hap, List.filter_cons, this]
        · contradiction

theorem create_rows (files : List (List DsPacket)) (st : DsState) (a : Nat) (h : createDataset files = some st) :
    rowsOf st a = ((files.flatten).filter (·.apid = a)).map (fun p => p.cells.map (·.2)) := by
  have := rows_per_apid files.flatten [] st a h
  simpa [rowsOf] using this

/-- A stream whose packets of one APID differ in field set is rejected. -/
theorem rejects_mixed (st : DsState) (p : DsPacket) (ks : List String) (rows : List (List Param))
    (hf : st.find? (·.1 == p.apid) = some (p.apid, (ks, rows)))
    (hdiff : ∃ k, (k ∈ ks ∧ k ∉ p.cells.map (·.1)) ∨ (k ∈ p.cells.map (·.1) ∧ k ∉ ks)) :
    dsAdd st p = none := by
  unfold dsAdd
  simp only [hf]
  rw [if_neg]
  intro hc
  simp only [Bool.and_eq_true, List.all_eq_true, List.contains_eq_mem, decide_eq_true_eq] at hc
  obtain ⟨k, hk | hk⟩ := hdiff
  · exact hk.2 (by simpa using hc.1 k hk.1)
  · exact hk.2 (by simpa using hc.2 k (by simpa using hk.1))

/-- The dtype chosen for an uncalibrated unsigned integer encoding of at most 64 bits holds every raw value. -/
theorem fits_unsigned (e : NumEnc) (n : Nat) (v : Nat) (hf : e.isFloat = false) (hs : e.size = (n : Int))
    (hu : e.encoding = "unsigned") (hn : n ≤ 64) (hv : v < 2 ^ n) :
    ∃ w, minDtypeForEncoding (.num e) = .uint w ∧ v < 2 ^ w := by
  have hp : ∀ a b : Nat, a ≤ b → (2:Nat) ^ a ≤ 2 ^ b := fun a b h => Nat.pow_le_pow_right (by omega) h
  simp only [minDtypeForEncoding, hf, hs, hu, Bool.false_eq_true, if_false, BEq.rfl, if_true]
  by_cases h8 : n ≤ 8
  · exact ⟨8, by have : ((n : Int) ≤ 8) := by omega
                 simp [this], Nat.lt_of_lt_of_le hv (hp _ _ h8)⟩
  · by_cases h16 : n ≤ 16
    · refine ⟨16, ?_, Nat.lt_of_lt_of_le hv (hp _ _ h16)⟩
      have : ¬ ((n : Int) ≤ 8) := by omega
      have : ((n : Int) ≤ 16) := by omega
      simp [*]
    · by_cases h32 : n ≤ 32
      · refine ⟨32, ?_, Nat.lt_of_lt_of_le hv (hp _ _ h32)⟩
        have : ¬ ((n : Int) ≤ 8) := by omega
        have : ¬ ((n : Int) ≤ 16) := by omega
        have : ((n : Int) ≤ 32) := by omega
        simp [*]
      · refine ⟨64, ?_, Nat.lt_of_lt_of_le hv (hp _ _ hn)⟩
        have : ¬ ((n : Int) ≤ 8) := by omega
        have : ¬ ((n : Int) ≤ 16) := by omega
        have : ¬ ((n : Int) ≤ 32) := by omega
        simp [*]

/-- Likewise for signed encodings: every two's-complement value of `n ≤ 64` bits lies in the chosen `int{w}` range. -/
theorem fits_signed (e : NumEnc) (n : Nat) (v : Int) (hf : e.isFloat = false) (hs : e.size = (n : Int))
    (hu : e.encoding ≠ "unsigned") (hn1 : 1 ≤ n) (hn : n ≤ 64) (hv : -(2 ^ (n - 1) : Int) ≤ v ∧ v < 2 ^ (n - 1)) :
    ∃ w, minDtypeForEncoding (.num e) = .int w ∧ -(2 ^ (w - 1) : Int) ≤ v ∧ v < 2 ^ (w - 1) := by
  have hp : ∀ a b : Nat, a ≤ b → (2:Int) ^ a ≤ 2 ^ b := by
    intro a b h
    have := Nat.pow_le_pow_right (n := 2) (by omega) h
    exact_mod_cast this
  have hu' : (e.encoding == "unsigned") = false := by simpa using hu
  simp only [minDtypeForEncoding, hf, hs, hu', Bool.false_eq_true, if_false]
  have key : ∀ w, n ≤ w → -(2 ^ (w - 1) : Int) ≤ v ∧ v < 2 ^ (w - 1) := by
    intro w hw
    have := hp (n - 1) (w - 1) (by omega)
    omega
  by_cases h8 : n ≤ 8
  · exact ⟨8, by have : ((n : Int) ≤ 8) := by omega
                 simp [this], key 8 h8⟩
  · by_cases h16 : n ≤ 16
    · refine ⟨16, ?_, key 16 h16⟩
      have : ¬ ((n : Int) ≤ 8) := by omega
      have : ((n : Int) ≤ 16) := by omega
      simp [*]
    · by_cases h32 : n ≤ 32
      · refine ⟨32, ?_, key 32 h32⟩
        have : ¬ ((n : Int) ≤ 8) := by omega
        have : ¬ ((n : Int) ≤ 16) := by omega
        have : ((n : Int) ≤ 32) := by omega
        simp [*]
      · refine ⟨64, ?_, key 64 hn⟩
        have : ¬ ((n : Int) ≤ 8) := by omega
        have : ¬ ((n : Int) ≤ 16) := by omega
        have : ¬ ((n : Int) ≤ 32) := by omega
        simp [*]

/-- Derived enumerated parameters are stored as strings whatever their encoding. -/
theorem enum_is_str (t : PType) (table : List (PyVal × String)) (h : t.kind = .enum table) :
    minNumpyDtype t false = .str := by
  simp [minNumpyDtype, h]

end Spp.C18
