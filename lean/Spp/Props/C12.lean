/-
C12 — Segmented packets are reassembled per APID exactly once and only when complete.
-/
import Spp.Model.Definition
namespace Spp.C12
open Spp

/-- The per-APID group automaton of the property text. State = the open group (empty = idle). -/
def autoStep (o : GenOpts) (g : List Bytes) (b : Bytes) : List Bytes × Option (List Bytes) × List Event :=
  if !o.combine || seqFlags b == 3 then (g, some [b], [])          -- unsegmented: parsed alone
  else if seqFlags b == 1 then ([b], none, [])                      -- FIRST opens (and supersedes) a group
  else if g.isEmpty then (g, none, [.warnNoStart])                  -- CONTINUATION/LAST with no open group
  else if seqFlags b == 0 then (g ++ [b], none, [])                 -- CONTINUATION joins
  else if !consecutiveCounts ((g ++ [b]).map seqCount) then ([], none, [.warnSequence])   -- gap: all dropped
  else ([], some (g ++ [b]), [])                                    -- LAST closes: one packet

def autoRun (o : GenOpts) (g : List Bytes) : List Bytes → List (Option (List Bytes) × List Event)
  | [] => []
  | b :: bs => (autoStep o g b).2 :: autoRun o (autoStep o g b).1 bs

/-- The model's run over a history, labelled with the APID of each packet. -/
def segRun (o : GenOpts) (seg : SegState) : List Bytes → List (Nat × (Option (List Bytes) × List Event))
  | [] => []
  | b :: bs => (apidOf b, (segStep o seg b).2) :: segRun o (segStep o seg b).1 bs

theorem find_filter_ne (s : List (Nat × List Bytes)) (a b : Nat) (h : b ≠ a) :
    (s.filter (fun x => x.1 != a)).find? (fun x => x.1 == b) = s.find? (fun x => x.1 == b) := by
  induction s with
  | nil => rfl
  | cons kv rest ih =>
    simp only [List.filter_cons]
    by_cases hk : kv.1 = a
    · have e1 : (kv.1 != a) = false := by simp [hk]
      have e2 : (kv.1 == b) = false := by rw [hk]; simpa using fun e => h e.symm
      simp only [e1, Bool.false_eq_true, if_false, List.find?_cons, e2, ih]
    · have e1 : (kv.1 != a) = true := by simpa using hk
      simp only [e1, if_true, List.find?_cons, ih]

theorem get_set_same (s : SegState) (a : Nat) (g : List Bytes) : (s.set a g).get a = g := by
  simp [SegState.get, SegState.set]

theorem get_erase_same (s : SegState) (a : Nat) : (s.erase a).get a = [] := by
  simp only [SegState.get, SegState.erase]
  have : (s.filter (fun x => x.1 != a)).find? (fun x => x.1 == a) = none := by
    simp [List.find?_eq_none]
  rw [this]; rfl

theorem get_erase_other (s : SegState) (a b : Nat) (h : b ≠ a) : (s.erase a).get b = s.get b := by
  simp only [SegState.get, SegState.erase, find_filter_ne s a b h]

theorem get_set_other (s : SegState) (a b : Nat) (g : List Bytes) (h : b ≠ a) : (s.set a g).get b = s.get b := by
  have h1 : ((a, g).1 == b) = false := by simpa using fun e => h e.symm
  have := get_erase_other s a b h
  simp only [SegState.get, SegState.set, SegState.erase, List.find?_cons, h1] at this ⊢
  exact this

/-- One step of the model is one step of the automaton on the packet's own APID … -/
theorem segStep_same (o : GenOpts) (s : SegState) (b : Bytes) :
    (segStep o s b).1.get (apidOf b) = (autoStep o (s.get (apidOf b)) b).1 ∧
    (segStep o s b).2 = (autoStep o (s.get (apidOf b)) b).2 := by
  unfold segStep autoStep
  by_cases h1 : (!o.combine || seqFlags b == 3) = true
  · simp [h1]
  · simp only [h1, Bool.false_eq_true, if_false]
    by_cases h2 : (seqFlags b == 1) = true
    · simp [h2, get_set_same]
    · simp only [h2, Bool.false_eq_true, if_false]
      by_cases h3 : (s.get (apidOf b)).isEmpty = true
      · simp [h3]
      · simp only [h3, Bool.false_eq_true, if_false]
        by_cases h4 : (seqFlags b == 0) = true
        · simp [h4, get_set_same]
        · simp only [h4, Bool.false_eq_true, if_false]
          by_cases h5 : (!consecutiveCounts ((s.get (apidOf b) ++ [b]).map seqCount)) = true
          · simp only [h5, if_true, get_erase_same, and_self]
          · simp only [h5, Bool.false_eq_true, if_false, get_erase_same, and_self]

/-- … and leaves every other APID's group untouched. -/
theorem segStep_other (o : GenOpts) (s : SegState) (b : Bytes) (a : Nat) (h : a ≠ apidOf b) :
    (segStep o s b).1.get a = s.get a := by
  unfold segStep
  by_cases h1 : (!o.combine || seqFlags b == 3) = true
  · simp [h1]
  · simp only [h1, Bool.false_eq_true, if_false]
    by_cases h2 : (seqFlags b == 1) = true
    · simp [h2, get_set_other _ _ _ _ h]
    · simp only [h2, Bool.false_eq_true, if_false]
      by_cases h3 : (s.get (apidOf b)).isEmpty = true
      · simp [h3]
      · simp only [h3, Bool.false_eq_true, if_false]
        by_cases h4 : (seqFlags b == 0) = true
        · simp [h4, get_set_other _ _ _ _ h]
        · simp only [h4, Bool.false_eq_true, if_false]
          by_cases h5 : (!consecutiveCounts ((s.get (apidOf b) ++ [b]).map seqCount)) = true
          · simp only [h5, if_true, get_erase_other _ _ _ h]
          · simp only [h5, Bool.false_eq_true, if_false, get_erase_other _ _ _ h]

/-- Interleaving independence: for every interleaving of packets of any number of APIDs, what APID `a` sees is
    exactly what its own sub-history produces from its own open group. -/
theorem per_apid (o : GenOpts) (a : Nat) (s : SegState) (h : List Bytes) :
    ((segRun o s h).filter (·.1 = a)).map (·.2) = autoRun o (s.get a) (h.filter (fun b => apidOf b = a)) := by
  induction h generalizing s with
  | nil => simp [segRun, autoRun]
  | cons b bs ih =>
    simp only [segRun]
    by_cases hb : apidOf b = a
    · subst hb
      obtain ⟨h1, h2⟩ := segStep_same o s b
      simp [List.filter_cons, autoRun, ih, h1, h2]
    · have := segStep_other o s b a (fun e => hb e.symm)
      simp [List.filter_cons, hb, ih, this]

/-- The combined packet: the whole first packet followed by each later packet's data field minus the declared
    secondary-header length. -/
theorem combined_bytes (k : Nat) (first : Bytes) (later : List Bytes) :
    combineSegments k (first :: later) = first ++ (later.map (fun p => p.drop (6 + k))).flatten := rfl

theorem unsegmented_alone (k : Nat) (b : Bytes) : combineSegments k [b] = b := by
  simp [combineSegments]

/-- A group is emitted exactly when it is closed by a LAST packet with consecutive counts modulo 16384. -/
theorem emitted_iff (o : GenOpts) (g : List Bytes) (b : Bytes) (parts : List Bytes) (hc : o.combine = true)
    (hu : seqFlags b ≠ 3) :
    (autoStep o g b).2.1 = some parts ↔
      (seqFlags b ≠ 1 ∧ seqFlags b ≠ 0 ∧ g ≠ [] ∧ consecutiveCounts ((g ++ [b]).map seqCount) = true ∧ parts = g ++ [b]) := by
  unfold autoStep
  have h1 : (!o.combine || seqFlags b == 3) = false := by simp [hc, hu]
  simp only [h1, Bool.false_eq_true, if_false]
  by_cases h2 : seqFlags b = 1
  · simp [h2]
  · have h2' : (seqFlags b == 1) = false := by simpa using h2
    simp only [h2', Bool.false_eq_true, if_false]
    by_cases h3 : g = []
    · simp [h3]
    · have h3' : g.isEmpty = false := by simpa [List.isEmpty_iff] using h3
      simp only [h3', Bool.false_eq_true, if_false]
      by_cases h4 : seqFlags b = 0
      · simp [h4]
      · have h4' : (seqFlags b == 0) = false := by simpa using h4
        simp only [h4', Bool.false_eq_true, if_false]
        by_cases h5 : consecutiveCounts ((g ++ [b]).map seqCount) = true
        · simp only [h5, Bool.not_true, Bool.false_eq_true, if_false]
          constructor
          · intro h; injection h with h; exact ⟨h2, h4, h3, trivial, h.symm⟩
          · intro h; rw [h.2.2.2.2]
        · have h5' : (!consecutiveCounts ((g ++ [b]).map seqCount)) = true := by simpa using h5
          simp only [h5', if_true]
          constructor
          · intro h; cases h
          · intro h; exact absurd h.2.2.2.1 h5

/-- `consecutiveCounts` is "every adjacent pair differs by one modulo 16384". -/
theorem consecutive_spec (cs : List Nat) :
    consecutiveCounts cs = true ↔ ∀ i, i + 1 < cs.length → ((cs[i + 1]! : Int) - cs[i]!) % 16384 = 1 := by
  induction cs with
  | nil => simp [consecutiveCounts]
  | cons a rest ih =>
    cases rest with
    | nil => simp [consecutiveCounts]
    | cons b rest' =>
      simp only [consecutiveCounts, Bool.and_eq_true, beq_iff_eq, ih]
      constructor
      · intro ⟨h0, hr⟩ i hi
        cases i with
        | zero => simpa using h0
        | succ j => simpa using hr j (by simpa using hi)
      · intro h
        refine ⟨by simpa using h 0 (by simp), ?_⟩
        intro i hi
        simpa using h (i + 1) (by simpa using hi)

def parts (out : Option (List Bytes) × List Event) : List Bytes := out.1.getD []

/-- One step never duplicates a raw packet: what is emitted plus what stays open is at most what was open plus
    the new packet. -/
theorem step_count (o : GenOpts) (g : List Bytes) (b x : Bytes) :
    (parts (autoStep o g b).2).count x + (autoStep o g b).1.count x ≤ g.count x + [b].count x := by
  unfold autoStep parts
  by_cases h1 : (!o.combine || seqFlags b == 3) = true
  · simp [h1]; omega
  · simp only [h1, Bool.false_eq_true, if_false]
    by_cases h2 : (seqFlags b == 1) = true
    · simp [h2]
    · simp only [h2, Bool.false_eq_true, if_false]
      by_cases h3 : g.isEmpty = true
      · simp [h3]
      · simp only [h3, Bool.false_eq_true, if_false]
        by_cases h4 : (seqFlags b == 0) = true
        · simp [h4, List.count_append]
        · simp only [h4, Bool.false_eq_true, if_false]
          by_cases h5 : (!consecutiveCounts ((g ++ [b]).map seqCount)) = true
          · simp only [h5, if_true]; simp
          · simp only [h5, Bool.false_eq_true, if_false]; simp [List.count_append]

/-- No raw packet ever contributes to more than one output: over any history, each packet occurs among the
    constituents of all outputs at most as often as it occurs in the history (plus the initially open group). -/
theorem at_most_once (o : GenOpts) (g : List Bytes) (h : List Bytes) (x : Bytes) :
    (((autoRun o g h).map parts).flatten).count x ≤ g.count x + h.count x := by
  induction h generalizing g with
  | nil => simp [autoRun]
  | cons b bs ih =>
    simp only [autoRun, List.map_cons, List.flatten_cons, List.count_append]
    have h1 := step_count o g b x
    have h2 := ih (autoStep o g b).1
    have h3 : (b :: bs).count x = [b].count x + bs.count x := by
      rw [← List.count_append]; rfl
    omega

/-- Which drops carry a warning: CONTINUATION/LAST with no open group, and a group with a sequence gap. -/
theorem drop_warnings (o : GenOpts) (g : List Bytes) (b : Bytes) :
    (autoStep o g b).2.2 = [] ∨ (autoStep o g b).2 = (none, [.warnNoStart]) ∨ (autoStep o g b).2 = (none, [.warnSequence]) := by
  unfold autoStep
  repeat' split
  all_goals simp

/-- A non-empty open group followed by any number of CONTINUATION packets and a LAST packet whose counts are
    consecutive: nothing is emitted until the LAST, which emits the whole group as one packet and leaves the APID
    idle. -/
theorem open_group_closes (o : GenOpts) (hc : o.combine = true) (g conts : List Bytes) (last : Bytes)
    (hg : g ≠ []) (hcs : ∀ c ∈ conts, seqFlags c = 0) (hl : seqFlags last = 2)
    (hcons : consecutiveCounts ((g ++ conts ++ [last]).map seqCount) = true) :
    autoRun o g (conts ++ [last]) =
      conts.map (fun _ => (none, [])) ++ [(some (g ++ conts ++ [last]), [])] ∧
    (conts ++ [last]).foldl (fun st b => (autoStep o st b).1) g = [] := by
  induction conts generalizing g with
  | nil =>
    have hge : g.isEmpty = false := by simpa [List.isEmpty_iff] using hg
    have hcons' : consecutiveCounts (List.map seqCount g ++ [seqCount last]) = true := by simpa using hcons
    simp [autoRun, autoStep, hc, hl, hge, hcons', hg]
  | cons c cs ih =>
    have hge : g.isEmpty = false := by simpa [List.isEmpty_iff] using hg
    have hc0 : seqFlags c = 0 := hcs c (by simp)
    have hstep : autoStep o g c = (g ++ [c], none, []) := by simp [autoStep, hc, hc0, hge]
    have hih := ih (g ++ [c]) (by simp) (fun x hx => hcs x (by simp [hx])) (by simpa using hcons)
    constructor
    · simp only [List.cons_append, autoRun, hstep, hih.1]
      simp
    · simp only [List.cons_append, List.foldl_cons, hstep]
      simpa using hih.2

/-- The property's positive clause over a whole group of any length: from any state of the APID (idle, or an
    unfinished group that is superseded), a FIRST packet followed by zero or more CONTINUATION packets and a LAST
    packet with consecutive sequence counts modulo 16384 yields exactly one output, at the LAST packet, made of
    exactly those packets in order — and the APID is idle afterwards. -/
theorem complete_group (o : GenOpts) (hc : o.combine = true) (g0 conts : List Bytes) (first last : Bytes)
    (hf : seqFlags first = 1) (hcs : ∀ c ∈ conts, seqFlags c = 0) (hl : seqFlags last = 2)
    (hcons : consecutiveCounts ((first :: conts ++ [last]).map seqCount) = true) :
    autoRun o g0 (first :: conts ++ [last]) =
      (none, []) :: conts.map (fun _ => (none, [])) ++ [(some (first :: conts ++ [last]), [])] ∧
    (first :: conts ++ [last]).foldl (fun st b => (autoStep o st b).1) g0 = [] := by
  have hstep : autoStep o g0 first = ([first], none, []) := by simp [autoStep, hc, hf]
  have h := open_group_closes o hc [first] conts last (by simp) hcs hl (by simpa using hcons)
  constructor
  · simp only [List.cons_append, autoRun, hstep]
    simpa using h.1
  · simp only [List.cons_append, List.foldl_cons, hstep]
    simpa using h.2

/-- The negative clause over a whole group: the same shape of history but with a sequence gap anywhere in it — no
    member is ever emitted, the one sequence warning comes at the LAST packet, and the APID is idle afterwards. -/
theorem open_group_gap_dropped (o : GenOpts) (hc : o.combine = true) (g conts : List Bytes) (last : Bytes)
    (hg : g ≠ []) (hcs : ∀ c ∈ conts, seqFlags c = 0) (hl : seqFlags last = 2)
    (hgap : consecutiveCounts ((g ++ conts ++ [last]).map seqCount) = false) :
    autoRun o g (conts ++ [last]) =
      conts.map (fun _ => (none, [])) ++ [(none, [.warnSequence])] ∧
    (conts ++ [last]).foldl (fun st b => (autoStep o st b).1) g = [] := by
  induction conts generalizing g with
  | nil =>
    have hge : g.isEmpty = false := by simpa [List.isEmpty_iff] using hg
    have hgap' : consecutiveCounts (List.map seqCount g ++ [seqCount last]) = false := by simpa using hgap
    simp [autoRun, autoStep, hc, hl, hge, hgap', hg]
  | cons c cs ih =>
    have hge : g.isEmpty = false := by simpa [List.isEmpty_iff] using hg
    have hc0 : seqFlags c = 0 := hcs c (by simp)
    have hstep : autoStep o g c = (g ++ [c], none, []) := by simp [autoStep, hc, hc0, hge]
    have hih := ih (g ++ [c]) (by simp) (fun x hx => hcs x (by simp [hx])) (by simpa using hgap)
    constructor
    · simp only [List.cons_append, autoRun, hstep, hih.1]
      simp
    · simp only [List.cons_append, List.foldl_cons, hstep]
      simpa using hih.2

theorem gap_group_dropped (o : GenOpts) (hc : o.combine = true) (g0 conts : List Bytes) (first last : Bytes)
    (hf : seqFlags first = 1) (hcs : ∀ c ∈ conts, seqFlags c = 0) (hl : seqFlags last = 2)
    (hgap : consecutiveCounts ((first :: conts ++ [last]).map seqCount) = false) :
    autoRun o g0 (first :: conts ++ [last]) =
      (none, []) :: conts.map (fun _ => (none, [])) ++ [(none, [.warnSequence])] ∧
    (first :: conts ++ [last]).foldl (fun st b => (autoStep o st b).1) g0 = [] := by
  have hstep : autoStep o g0 first = ([first], none, []) := by simp [autoStep, hc, hf]
  have h := open_group_gap_dropped o hc [first] conts last (by simp) hcs hl (by simpa using hgap)
  constructor
  · simp only [List.cons_append, autoRun, hstep]
    simpa using h.1
  · simp only [List.cons_append, List.foldl_cons, hstep]
    simpa using h.2

/-- An unfinished group superseded by a new FIRST: nothing is emitted and nothing of the old group stays open. -/
theorem first_supersedes (o : GenOpts) (hc : o.combine = true) (g0 : List Bytes) (first : Bytes)
    (hf : seqFlags first = 1) : autoStep o g0 first = ([first], none, []) := by
  simp [autoStep, hc, hf]

/-- CONTINUATION or LAST with no open group: dropped with the no-start warning, the APID stays idle. -/
theorem orphan_dropped (o : GenOpts) (hc : o.combine = true) (b : Bytes) (h1 : seqFlags b ≠ 1) (h3 : seqFlags b ≠ 3) :
    autoStep o [] b = ([], none, [.warnNoStart]) := by
  simp [autoStep, hc, h1, h3]

/-- An unsegmented packet is parsed alone and does not disturb the APID's open group. -/
theorem unsegmented_step (o : GenOpts) (g : List Bytes) (b : Bytes) (h3 : seqFlags b = 3) :
    autoStep o g b = (g, some [b], []) := by
  simp [autoStep, h3]

/-- … and the same for the model itself under every interleaving: whatever packets of other APIDs are mixed in, and
    whatever groups those APIDs have open, if APID `a`'s own sub-history is FIRST, CONTINUATION*, LAST with consecutive
    counts then the outputs at `a`'s packets are: nothing, …, nothing, the whole group as one packet. -/
theorem complete_group_interleaved (o : GenOpts) (hc : o.combine = true) (a : Nat) (s : SegState)
    (h conts : List Bytes) (first last : Bytes)
    (hsub : h.filter (fun b => apidOf b = a) = first :: conts ++ [last])
    (hf : seqFlags first = 1) (hcs : ∀ c ∈ conts, seqFlags c = 0) (hl : seqFlags last = 2)
    (hcons : consecutiveCounts ((first :: conts ++ [last]).map seqCount) = true) :
    ((segRun o s h).filter (·.1 = a)).map (·.2) =
      (none, []) :: conts.map (fun _ => (none, [])) ++ [(some (first :: conts ++ [last]), [])] := by
  rw [per_apid, hsub]
  exact (complete_group o hc (s.get a) conts first last hf hcs hl hcons).1

/-- Non-vacuity: counts 16383 → 0 → 1 (wrap-around) are consecutive. -/
example : consecutiveCounts [16383, 0, 1] = true := by decide

/-- Non-vacuity of `complete_group`'s hypotheses on concrete packets: FIRST (count 16383), CONTINUATION (count 0),
    LAST (count 1) of APID 1. -/
example : seqFlags [8, 1, 0x7F, 0xFF, 0, 0, 0] = 1 ∧ seqFlags [8, 1, 0x00, 0x00, 0, 0, 0] = 0 ∧
    seqFlags [8, 1, 0x80, 0x01, 0, 0, 0] = 2 ∧
    consecutiveCounts ((([8, 1, 0x7F, 0xFF, 0, 0, 0] : Bytes) :: [[8, 1, 0x00, 0x00, 0, 0, 0]] ++ [[8, 1, 0x80, 0x01, 0, 0, 0]]).map seqCount) = true := by
  decide

end Spp.C12
