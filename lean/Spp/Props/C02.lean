/-
C02 — Stream framing is exact and independent of source kind and chunking.
-/
import Spp.Lemmas.Frame
namespace Spp.C02
open Spp

/-- A well-formed stream: packets whose length is `7 + (their length field)`, each preceded by `skip` foreign bytes. -/
def WellFormed (skip : Nat) (items : List (Bytes × Bytes)) : Prop :=
  ∀ x ∈ items, x.1.length = skip ∧ wfPkt x.2

/-- For every sequence of well-formed packets with prefixes, every trim threshold, and every way the source can
    deliver the bytes (a pre-filled bytes object; a file read in any chunks; a socket with any fragmentation into
    non-empty `recv` results), the framer yields exactly those packets, in order, and then stops. -/
theorem framing_exact (cfg : FrameCfg) (items : List (Bytes × Bytes)) (hwf : WellFormed cfg.skip items)
    (chunks : List Bytes) (hne : ∀ c ∈ chunks, c ≠ []) (hcat : chunks.flatten = encode items) :
    frame cfg (initBytes (encode items)) = items.map (·.2) ∧
    frame cfg (initFile chunks (encode items).length) = items.map (·.2) ∧
    frame cfg (initSocket chunks) = items.map (·.2) := by
  refine ⟨?_, ?_, ?_⟩
  · exact frame_exact cfg items hwf _ (by simp [initBytes]) (by simp [initBytes]) (by simp [initBytes])
      (by simp [initBytes])
  · exact frame_exact cfg items hwf _ (by simpa [initFile] using hne) (by simp [initFile])
      (by simp [initFile, hcat]) (by simp [initFile])
  · exact frame_exact cfg items hwf _ (by simpa [initSocket] using hne) (by simp [initSocket])
      (by simp [initSocket, hcat]) (by simp [initSocket])

/-- The same from any mid-stream state (buffer partly consumed, some reads pending): this is the invariant form. -/
theorem framing_exact_from_state (cfg : FrameCfg) (items : List (Bytes × Bytes)) (hwf : WellFormed cfg.skip items)
    (st : FrameSt) (hne : ∀ c ∈ st.src, c ≠ []) (hpos : st.pos ≤ st.buf.length)
    (hrem : st.buf.drop st.pos ++ st.src.flatten = encode items)
    (htot : ∀ T, st.total = some T → st.parsed + (encode items).length = T) :
    frame cfg st = items.map (·.2) :=
  frame_exact cfg items hwf st hne hpos hrem htot

/-- Chunking independence: two fragmentations of the same stream give the same items. -/
theorem chunking_independent (cfg : FrameCfg) (items : List (Bytes × Bytes)) (hwf : WellFormed cfg.skip items)
    (c1 c2 : List Bytes) (h1 : ∀ c ∈ c1, c ≠ []) (h2 : ∀ c ∈ c2, c ≠ [])
    (e1 : c1.flatten = encode items) (e2 : c2.flatten = encode items) (trim' : Nat) :
    frame cfg (initSocket c1) = frame ⟨cfg.skip, trim'⟩ (initSocket c2) ∧
    frame cfg (initFile c1 (encode items).length) = frame ⟨cfg.skip, trim'⟩ (initFile c2 (encode items).length) := by
  have a := framing_exact cfg items hwf c1 h1 e1
  have b := framing_exact ⟨cfg.skip, trim'⟩ items hwf c2 h2 e2
  exact ⟨a.2.2.trans b.2.2.symm, a.2.1.trans b.2.1.symm⟩

/-- Source-kind independence. -/
theorem source_independent (cfg : FrameCfg) (items : List (Bytes × Bytes)) (hwf : WellFormed cfg.skip items)
    (chunks : List Bytes) (hne : ∀ c ∈ chunks, c ≠ []) (hcat : chunks.flatten = encode items) :
    frame cfg (initBytes (encode items)) = frame cfg (initSocket chunks) ∧
    frame cfg (initBytes (encode items)) = frame cfg (initFile chunks (encode items).length) := by
  have a := framing_exact cfg items hwf chunks hne hcat
  exact ⟨a.1.trans a.2.2.symm, a.1.trans a.2.1.symm⟩

/-- "Exactly those packets" is well defined: a well-formed stream determines its decomposition. -/
theorem split_unique (skip : Nat) (xs ys : List (Bytes × Bytes)) (hx : WellFormed skip xs) (hy : WellFormed skip ys)
    (h : encode xs = encode ys) : xs = ys := by
  induction xs generalizing ys with
  | nil =>
    cases ys with
    | nil => rfl
    | cons y ys =>
      obtain ⟨py, q⟩ := y
      have : wfPkt q := (hy (py, q) (by simp)).2
      unfold wfPkt at this
      have hl := congrArg List.length h
      simp only [encode, List.length_append, List.length_nil] at hl; omega
  | cons x xs ih =>
    cases ys with
    | nil =>
      obtain ⟨px, p⟩ := x
      have : wfPkt p := (hx (px, p) (by simp)).2
      unfold wfPkt at this
      have hl := congrArg List.length h
      simp only [encode, List.length_append, List.length_nil] at hl; omega
    | cons y ys =>
      obtain ⟨px, p⟩ := x
      obtain ⟨py, q⟩ := y
      have hx0 : px.length = skip ∧ wfPkt p := hx (px, p) (by simp)
      have hy0 : py.length = skip ∧ wfPkt q := hy (py, q) (by simp)
      simp only [encode, List.append_assoc] at h
      have hpre : px = py := by
        have := congrArg (List.take skip) h
        rw [List.take_append_of_le_length (by omega), List.take_append_of_le_length (by omega)] at this
        rw [← hx0.1] at this
        simp only [List.take_length] at this
        rw [this, hx0.1, ← hy0.1, List.take_length]
      subst hpre
      have h2 := List.append_cancel_left h
      have hp6 : 6 ≤ p.length := by have := hx0.2; unfold wfPkt at this; omega
      have hq6 : 6 ≤ q.length := by have := hy0.2; unfold wfPkt at this; omega
      have hhd : p.take 6 = q.take 6 := by
        have := congrArg (List.take 6) h2
        rwa [List.take_append_of_le_length hp6, List.take_append_of_le_length hq6] at this
      have hlen : p.length = q.length := by
        have a := hx0.2; have b := hy0.2
        unfold wfPkt at a b; rw [a, b, hhd]
      have hpq : p = q := by
        have := congrArg (List.take p.length) h2
        rw [List.take_append_of_le_length (Nat.le_refl _), List.take_length] at this
        rw [this, hlen, List.take_append_of_le_length (Nat.le_refl _), List.take_length]
      subst hpq
      have h3 := List.append_cancel_left h2
      rw [ih ys (fun z hz => hx z (by simp [hz])) (fun z hz => hy z (by simp [hz])) h3]

/-- Non-vacuity: a two-packet stream with one prefix byte each, delivered in three fragments. -/
example : WellFormed 1 [([0xEE], [0x0F, 0xFF, 0xFF, 0xFF, 0x00, 0x00, 0xAB]),
                        ([0xEE], [0x0F, 0xFF, 0xFF, 0xFF, 0x00, 0x01, 0xAB, 0xCD])] := by
  intro x hx; simp at hx; rcases hx with h | h <;> subst h <;> exact ⟨rfl, rfl⟩

end Spp.C02
