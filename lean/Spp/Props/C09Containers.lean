import Spp.Props.C09Types
import Spp.Props.C17
namespace Spp.C09
open Spp C17

/-- What `writeContainer` produces: a `SequenceContainer` element in namespace `u` whose `name` attribute is the
    container's name. -/
theorem writeContainer_shape (u : Option String) (c : LContainer) (x : XmlNode) (h : writeContainer u c = .ok x) :
    ∃ a k, x = .elem u "SequenceContainer" a none k ∧ x.attr? "name" = some c.name := by
  unfold writeContainer at h
  simp only [bind, Except.bind, pure, Except.pure] at h
  split at h
  · simp [throw, throwThe, MonadExceptOf.throw] at h
  · injection h with h; subst h
    refine ⟨_, _, rfl, ?_⟩
    simp [mkEl, XmlNode.attr?, XmlNode.attrs]

/-- Among the written containers, the `[@name=n]` search finds exactly the one container of that name. -/
theorem filter_by_name (u : Option String) (l : List (String × LContainer)) (xs : List XmlNode)
    (hm : l.mapM (fun kv => writeContainer u kv.2) = .ok xs)
    (hu : (l.map (·.2.name)).Nodup) (c : LContainer) (hc : c ∈ l.map (·.2)) :
    ∃ x, writeContainer u c = .ok x ∧
      xs.filter (Step.matches u { tag := "SequenceContainer", nameEq := some c.name }) = [x] := by
  induction l generalizing xs with
  | nil => simp at hc
  | cons kv l ih =>
    simp only [List.mapM_cons, bind, Except.bind, pure, Except.pure] at hm
    cases ha : writeContainer u kv.2 with
    | error e => simp [ha] at hm
    | ok b =>
      simp only [ha] at hm
      cases hl : l.mapM (fun kv => writeContainer u kv.2) with
      | error e => simp [hl] at hm
      | ok bs =>
        simp only [hl] at hm
        injection hm with hm; subst hm
        simp only [List.map_cons, List.nodup_cons] at hu
        obtain ⟨a, k, hb, hbn⟩ := writeContainer_shape u kv.2 b ha
        simp only [List.map_cons, List.mem_cons] at hc
        -- the other written containers carry other names
        have hothers : ∀ (l' : List (String × LContainer)) (ys : List XmlNode),
            l'.mapM (fun kv => writeContainer u kv.2) = .ok ys → ∀ n, n ∉ l'.map (·.2.name) →
            ys.filter (Step.matches u { tag := "SequenceContainer", nameEq := some n }) = [] := by
          intro l'
          induction l' with
          | nil => intro ys h n _; simp [pure, Except.pure] at h; subst h; rfl
          | cons kv' l' ih' =>
            intro ys h n hn
            simp only [List.mapM_cons, bind, Except.bind, pure, Except.pure] at h
            cases ha' : writeContainer u kv'.2 with
            | error e => simp [ha'] at h
            | ok b' =>
              simp only [ha'] at h
              cases hl' : l'.mapM (fun kv => writeContainer u kv.2) with
              | error e => simp [hl'] at h
              | ok bs' =>
                simp only [hl'] at h
                injection h with h; subst h
                obtain ⟨a', k', hb', hbn'⟩ := writeContainer_shape u kv'.2 b' ha'
                simp only [List.map_cons, List.mem_cons, not_or] at hn
                have hne : (b'.attr? "name" == some n) = false := by
                  rw [hbn']; simpa using fun e => hn.1 e.symm
                simp only [List.filter_cons, Step.matches, hne, Bool.and_false, Bool.false_eq_true, if_false]
                exact ih' bs' hl' n hn.2
        rcases hc with rfl | hc
        · refine ⟨b, ha, ?_⟩
          have hm1 : Step.matches u { tag := "SequenceContainer", nameEq := some kv.2.name } b = true := by
            subst hb
            simp [Step.matches, XmlNode.isElem, XmlNode.tag, XmlNode.ns, hbn]
          simp only [List.filter_cons, hm1, if_true]
          rw [hothers l bs hl kv.2.name hu.1]
        · obtain ⟨x, hx, hf⟩ := ih bs hl hu.2 hc
          refine ⟨x, hx, ?_⟩
          have hne : kv.2.name ≠ c.name := by
            intro e
            apply hu.1
            rw [e]
            obtain ⟨kv', hkv', rfl⟩ := List.mem_map.mp hc
            exact List.mem_map.mpr ⟨kv', hkv', rfl⟩
          have hne' : (b.attr? "name" == some c.name) = false := by
            rw [hbn]; simpa using hne
          simp only [List.filter_cons, Step.matches, hne', Bool.and_false, Bool.false_eq_true, if_false]
          exact hf
/-- An entry refers to a declared parameter, or to a container that is already in the lookup. -/
def EntryOK (params : List (String × LParam)) (lk : CLookup) : LEntry → Prop
  | .param n => params.any (·.1 == n) = true
  | .cont n => lk.any (·.1 == n) = true

/-- Reading back the entry list of a container whose nested containers are all known already: the entries, in order;
    the lookup is not touched and the recursive loader is never called. -/
theorem entries_fold (u : Option String) (root : XmlNode) (params : List (String × LParam)) (rec : ContRec)
    (lk : CLookup) (es : List LEntry) (h : ∀ e ∈ es, EntryOK params lk e) (acc : List LEntry) :
    (es.map (writeEntry u)).foldlM (loadEntryWith u root params rec) (acc, lk) = .ok (acc ++ es, lk) := by
  induction es generalizing acc with
  | nil => simp [pure, Except.pure]
  | cons e es ih =>
    have he := h e (by simp)
    have hstep : loadEntryWith u root params rec (acc, lk) (writeEntry u e) = .ok (acc ++ [e], lk) := by
      cases e with
      | param n =>
        simp only [EntryOK] at he
        simp [loadEntryWith, writeEntry, mkEl, XmlNode.tag, XmlNode.attr!, XmlNode.attr?, XmlNode.attrs, he]
      | cont n =>
        simp only [EntryOK] at he
        simp [loadEntryWith, writeEntry, mkEl, XmlNode.tag, XmlNode.attr!, XmlNode.attr?, XmlNode.attrs, he]
    simp only [List.map_cons, List.foldlM_cons, bind, Except.bind, hstep]
    rw [ih (fun e' he' => h e' (by simp [he'])) (acc ++ [e])]
    simp

theorem entryEls_elems (u : Option String) (es : List LEntry) :
    (mkEl u "EntryList" [] (es.map (writeEntry u))).elems = es.map (writeEntry u) := by
  simp only [mkEl, XmlNode.elems, XmlNode.kids]
  rw [List.filter_eq_self]
  intro x hx
  obtain ⟨e, _, rfl⟩ := List.mem_map.mp hx
  cases e <;> rfl

theorem restriction_none (u : Option String) (b : String) :
    loadRestriction u (mkEl u "BaseContainer" [("containerRef", b)] []) = .ok [] := by
  simp [loadRestriction, findFirst, findAll, mkEl, XmlNode.kids]

/-- Restriction criteria in any of their three forms survive write → load. -/
theorem restriction_roundtrip (u : Option String) (crit : List Criterion) (h : CritOK crit) (b : String) :
    loadRestriction u (mkEl u "BaseContainer" [("containerRef", b)]
      [mkEl u "RestrictionCriteria" [] [writeRestrictions u crit]]) = .ok crit := by
  have hrc : ∀ y, findFirst u [step "RestrictionCriteria"] (mkEl u "BaseContainer" [("containerRef", b)]
      [mkEl u "RestrictionCriteria" [] [y]]) = some (mkEl u "RestrictionCriteria" [] [y]) := by
    intro y
    simp [findFirst, findAll, mkEl, XmlNode.kids, Step.matches, step, XmlNode.isElem, XmlNode.tag, XmlNode.ns]
  rcases h with ⟨cmps, rfl, hne, hop⟩ | ⟨e, rfl, he⟩
  · match cmps, hne, hop with
    | [c], _, hop =>
      have hc := comparison_roundtrip u c (hop c (by simp))
      have h1 : findFirst u [step "ComparisonList"] (mkEl u "RestrictionCriteria" [] [writeComparison u c]) = none := by
        simp [findFirst, findAll, mkEl, XmlNode.kids, Step.matches, step, XmlNode.isElem, XmlNode.tag, writeComparison]
      have h2 : findFirst u [step "Comparison"] (mkEl u "RestrictionCriteria" [] [writeComparison u c])
          = some (writeComparison u c) := by
        simp [findFirst, findAll, mkEl, XmlNode.kids, Step.matches, step, XmlNode.isElem, XmlNode.tag, XmlNode.ns,
          writeComparison]
      simp only [List.map_cons, List.map_nil, writeRestrictions, writeCriterion, loadRestriction, hrc, h1, h2, hc]
    | c1 :: c2 :: rest, _, hop =>
      simp only [writeRestrictions, List.map_cons]
      rw [show (writeCriterion u (Criterion.comparison c1) :: writeCriterion u (Criterion.comparison c2) ::
          List.map (writeCriterion u) (List.map Criterion.comparison rest)) =
          (c1 :: c2 :: rest).map (writeComparison u) by simp [writeCriterion, List.map_map, Function.comp_def]]
      have hff : findFirst u [step "ComparisonList"]
          (mkEl u "RestrictionCriteria" [] [mkEl u "ComparisonList" [] ((c1 :: c2 :: rest).map (writeComparison u))])
          = some (mkEl u "ComparisonList" [] ((c1 :: c2 :: rest).map (writeComparison u))) := by
        simp [findFirst, findAll, mkEl, XmlNode.kids, Step.matches, step, XmlNode.isElem, XmlNode.tag, XmlNode.ns]
      have hel : (mkEl u "ComparisonList" [] ((c1 :: c2 :: rest).map (writeComparison u))).elems
          = (c1 :: c2 :: rest).map (writeComparison u) := by
        simp only [mkEl, XmlNode.elems, XmlNode.kids]
        rw [List.filter_eq_self]
        intro x hx
        obtain ⟨c, _, rfl⟩ := List.mem_map.mp hx
        rfl
      simp only [loadRestriction, hrc, hff, hel, comparisons_roundtrip u _ hop]
      simp
  · have hb : loadBoolExpr u (writeBoolExpr u e) = .ok e := by
      apply boolexpr_roundtrip; cases e <;> exact he
    have h1 : findFirst u [step "ComparisonList"] (mkEl u "RestrictionCriteria" [] [writeBoolExpr u e]) = none := by
      simp [findFirst, findAll, mkEl, XmlNode.kids, Step.matches, step, XmlNode.isElem, XmlNode.tag, writeBoolExpr]
    have h2 : findFirst u [step "Comparison"] (mkEl u "RestrictionCriteria" [] [writeBoolExpr u e]) = none := by
      simp [findFirst, findAll, mkEl, XmlNode.kids, Step.matches, step, XmlNode.isElem, XmlNode.tag, writeBoolExpr]
    have h3 : findFirst u [step "BooleanExpression"] (mkEl u "RestrictionCriteria" [] [writeBoolExpr u e])
        = some (writeBoolExpr u e) := by
      simp [findFirst, findAll, mkEl, XmlNode.kids, Step.matches, step, XmlNode.isElem, XmlNode.tag, XmlNode.ns,
        writeBoolExpr]
    simp only [writeRestrictions, writeCriterion, loadRestriction, hrc, h1, h2, h3, hb]

/-- The written document, by its parts. -/
def docEl (u : Option String) (attrs : List (String × String)) (hdr : XmlNode) (ts ps cs : List XmlNode) : XmlNode :=
  mkEl u "SpaceSystem" attrs [hdr, mkEl u "TelemetryMetaData" [] [mkEl u "ParameterTypeSet" [] ts,
    mkEl u "ParameterSet" [] ps, mkEl u "ContainerSet" [] cs]]

theorem find_containerSet (u : Option String) (attrs : List (String × String)) (date : String) (ts ps cs : List XmlNode) :
    findFirst u [step "TelemetryMetaData", step "ContainerSet"]
      (docEl u attrs (mkEl u "Header" [("date", date), ("version", "1.0"), ("validationStatus", "Unknown")] []) ts ps cs)
      = some (mkEl u "ContainerSet" [] cs) := by
  simp [docEl, findFirst, findAll, mkEl, XmlNode.kids, Step.matches, step, XmlNode.isElem, XmlNode.tag, XmlNode.ns]

/-- A container in a context where everything it refers to is already known. -/
structure ContWF (params : List (String × LParam)) (lk : CLookup) (c : LContainer) : Prop where
  longDesc : c.longDesc ≠ some ""
  base : (c.base = none ∧ c.criteria = []) ∨
         (∃ b, c.base = some b ∧ b ≠ "" ∧ lk.any (·.1 == b) = true ∧ (c.criteria = [] ∨ CritOK c.criteria))
  entries : ∀ e ∈ c.entries, EntryOK params lk e



theorem findFirst_skip (u : Option String) (T : String) (tag : String) (attrs : List (String × String))
    (pre rest : List XmlNode) (hpre : ∀ y ∈ pre, (step T).matches u y = false) :
    findFirst u [step T] (mkEl u tag attrs (pre ++ rest)) = findFirst u [step T] (mkEl u tag attrs rest) := by
  have : pre.filter ((step T).matches u) = [] := by
    rw [List.filter_eq_nil_iff]; intro y hy; simp [hpre y hy]
  simp only [findFirst, findAll, mkEl, XmlNode.kids, List.filter_append, this, List.nil_append]

/-- The optional `LongDescription` child. -/
def ldEl (u : Option String) (longDesc : Option String) : List XmlNode :=
  if strTruthy longDesc then [mkEl u "LongDescription" [] [] longDesc] else []

theorem ldEl_skip (u : Option String) (longDesc : Option String) (T : String) (hT : (T == "LongDescription") = false)
    (hs : (T == "*") = false) : ∀ y ∈ ldEl u longDesc, (step T).matches u y = false := by
  intro y hy
  unfold ldEl at hy
  split at hy
  · simp only [List.mem_singleton] at hy
    subst hy
    have : ("LongDescription" == T) = false := by
      cases h : ("LongDescription" == T)
      · rfl
      · rw [← beq_iff_eq.mp h] at hT; simp at hT
    simp [Step.matches, step, mkEl, XmlNode.tag, this, hs]
  · simp at hy

theorem ldEl_find (u : Option String) (longDesc : Option String) (hld : longDesc ≠ some "") (tag : String)
    (attrs : List (String × String)) (rest : List XmlNode)
    (hrest : ∀ y ∈ rest, (step "LongDescription").matches u y = false) :
    (findFirst u [step "LongDescription"] (mkEl u tag attrs (ldEl u longDesc ++ rest))).bind (·.text) = longDesc := by
  have hr : rest.filter ((step "LongDescription").matches u) = [] := by
    rw [List.filter_eq_nil_iff]; intro y hy; simp [hrest y hy]
  rcases unit_cases longDesc hld with ⟨rfl, hlt⟩ | ⟨s, rfl, hlt⟩
  · simp [ldEl, hlt, findFirst, findAll, mkEl, XmlNode.kids, hr]
  · simp only [ldEl, hlt, if_true, findFirst, findAll, mkEl, XmlNode.kids, List.filter_append, hr, List.append_nil]
    simp [Step.matches, step, XmlNode.isElem, XmlNode.tag, XmlNode.ns, XmlNode.text]

def contAttrs (c : LContainer) : List (String × String) :=
  [("abstract", pyBool c.abstract), ("name", c.name)] ++
    (match c.shortDesc with | some s => [("shortDescription", s)] | none => [])

def baseElOf (u : Option String) (c : LContainer) : List XmlNode :=
  if strTruthy c.base then
    [mkEl u "BaseContainer" [("containerRef", c.base.getD "")]
      (if c.criteria.isEmpty then [] else [mkEl u "RestrictionCriteria" [] [writeRestrictions u c.criteria]])]
  else []

theorem writeContainer_eq (u : Option String) (c : LContainer) (x : XmlNode) (h : writeContainer u c = .ok x) :
    x = mkEl u "SequenceContainer" (contAttrs c)
      (ldEl u c.longDesc ++ baseElOf u c ++ [mkEl u "EntryList" [] (c.entries.map (writeEntry u))]) := by
  unfold writeContainer at h
  simp only [bind, Except.bind, pure, Except.pure] at h
  split at h
  · simp [throw, throwThe, MonadExceptOf.throw] at h
  · injection h with h; subst h; rfl

theorem contAttrs_name (c : LContainer) : (contAttrs c).find? (·.1 == "name") = some ("name", c.name) := by
  simp [contAttrs]

theorem contAttrs_abstract (c : LContainer) : (contAttrs c).find? (·.1 == "abstract") = some ("abstract", pyBool c.abstract) := by
  simp [contAttrs]

theorem contAttrs_short (c : LContainer) :
    ((contAttrs c).find? (·.1 == "shortDescription")).map (·.2) = c.shortDesc := by
  cases h : c.shortDesc <;> simp [contAttrs, h]

theorem container_roundtrip_known (u : Option String) (root : XmlNode) (params : List (String × LParam)) (fuel : Nat)
    (lk : CLookup) (c : LContainer) (hwf : ContWF params lk c)
    (hget : ∀ b, c.base = some b → ∃ bEl, getContainerElement u root b = .ok bEl ∧ bEl.attr? "name" = some b)
    (x : XmlNode) (hw : writeContainer u c = .ok x) :
    loadContainer u root params (fuel + 1) lk x = .ok ({ c with inheritors := [] }, lk) := by
  have hx := writeContainer_eq u c x hw
  obtain ⟨hld, hbase, hent⟩ := hwf
  have hfold := entries_fold u root params (loadContainer u root params fuel) lk c.entries hent []
  have hels := entryEls_elems u c.entries
  generalize hEL : mkEl u "EntryList" [] (c.entries.map (writeEntry u)) = EL at hx hels
  have hELt : EL = .elem u "EntryList" [] none (c.entries.map (writeEntry u)) := hEL.symm
  have hname : x.attr! "name" = .ok c.name := by
    subst hx; simp [mkEl, XmlNode.attr!, XmlNode.attr?, XmlNode.attrs, contAttrs_name]
  have habs : boolAttr x "abstract" false = c.abstract := by
    subst hx; simp [mkEl, boolAttr, XmlNode.attr?, XmlNode.attrs, contAttrs_abstract, isTrueWord_pyBool]
  have hshort : x.attr? "shortDescription" = c.shortDesc := by
    subst hx; simp only [mkEl, XmlNode.attr?, XmlNode.attrs]; exact contAttrs_short c
  rcases hbase with ⟨hb0, hc0⟩ | ⟨b, hb1, hbne, hbin, hcrit⟩
  · have hbe : baseElOf u c = [] := by simp [baseElOf, hb0, strTruthy]
    rw [hbe, List.append_nil] at hx
    have hl : (findFirst u [step "LongDescription"] x).bind (·.text) = c.longDesc := by
      subst hx
      apply ldEl_find u c.longDesc hld
      intro y hy; simp only [List.mem_singleton] at hy; subst hy; subst hELt
      simp [Step.matches, step, XmlNode.tag]
    have hb : findFirst u [step "BaseContainer"] x = none := by
      subst hx
      rw [findFirst_skip u "BaseContainer" _ _ _ _ (ldEl_skip u c.longDesc "BaseContainer" (by decide) (by decide))]
      subst hELt
      simp [findFirst, findAll, mkEl, XmlNode.kids, Step.matches, step, XmlNode.isElem, XmlNode.tag]
    have he : findFirst u [step "EntryList"] x = some EL := by
      subst hx
      rw [findFirst_skip u "EntryList" _ _ _ _ (ldEl_skip u c.longDesc "EntryList" (by decide) (by decide))]
      subst hELt
      simp [findFirst, findAll, mkEl, XmlNode.kids, Step.matches, step, XmlNode.isElem, XmlNode.tag, XmlNode.ns]
    simp only [loadContainer, loadBaseWith, hb, he, hels, hfold, hname, habs, hshort, hl, List.nil_append]
    obtain ⟨name, entries, shortDesc, longDesc, base, criteria, abstract, inheritors⟩ := c
    simp only at hb0 hc0
    subst hb0 hc0
    rfl
  · have hbt : strTruthy c.base = true := by
      rw [hb1]
      simp only [strTruthy]
      cases hh : b.isEmpty
      · rfl
      · exact absurd (String.isEmpty_iff.mp hh) hbne
    generalize hB : mkEl u "BaseContainer" [("containerRef", b)]
        (if c.criteria.isEmpty then [] else [mkEl u "RestrictionCriteria" [] [writeRestrictions u c.criteria]]) = B at *
    have hbe : baseElOf u c = [B] := by
      unfold baseElOf; rw [if_pos hbt, hb1, Option.getD_some, hB]
    have hBt : B.tag = "BaseContainer" ∧ B.isElem = true ∧ B.ns = u ∧ B.attr! "containerRef" = .ok b := by
      subst hB; exact ⟨rfl, rfl, rfl, by simp [mkEl, XmlNode.attr!, XmlNode.attr?, XmlNode.attrs]⟩
    have hrestr : loadRestriction u B = .ok c.criteria := by
      subst hB
      rcases hcrit with h0 | hok
      · rw [h0]; exact restriction_none u b
      · have hne : c.criteria.isEmpty = false := by
          rcases hok with ⟨cmps, h1, h2, _⟩ | ⟨e, h1, _⟩
          · rw [h1]; cases cmps <;> simp_all
          · rw [h1]; rfl
        simp only [hne, Bool.false_eq_true, if_false]
        exact restriction_roundtrip u c.criteria hok b
    rw [hbe] at hx
    have hl : (findFirst u [step "LongDescription"] x).bind (·.text) = c.longDesc := by
      subst hx
      rw [List.append_assoc]
      apply ldEl_find u c.longDesc hld
      intro y hy
      simp only [List.cons_append, List.nil_append, List.mem_cons, List.mem_nil_iff, or_false] at hy
      rcases hy with rfl | rfl
      · simp [Step.matches, step, hBt.1]
      · subst hELt; simp [Step.matches, step, XmlNode.tag]
    have hmBB : Step.matches u { tag := "BaseContainer" } B = true := by
      simp [Step.matches, hBt.1, hBt.2.1, hBt.2.2.1]
    have hmBE : Step.matches u { tag := "EntryList" } B = false := by
      simp [Step.matches, hBt.1]
    have hb : findFirst u [step "BaseContainer"] x = some B := by
      subst hx
      rw [List.append_assoc,
        findFirst_skip u "BaseContainer" _ _ _ _ (ldEl_skip u c.longDesc "BaseContainer" (by decide) (by decide))]
      subst hELt
      simp [findFirst, findAll, mkEl, XmlNode.kids, step, List.filter_cons, hmBB]
    have he : findFirst u [step "EntryList"] x = some EL := by
      subst hx
      rw [List.append_assoc,
        findFirst_skip u "EntryList" _ _ _ _ (ldEl_skip u c.longDesc "EntryList" (by decide) (by decide))]
      subst hELt
      simp [findFirst, findAll, mkEl, XmlNode.kids, step, List.filter_cons, hmBE]
      simp [Step.matches, XmlNode.isElem, XmlNode.tag, XmlNode.ns]
    obtain ⟨bEl, hg1, hg2⟩ := hget b hb1
    have hbn : bEl.attr! "name" = .ok b := by simp [XmlNode.attr!, hg2]
    simp only [loadContainer, loadBaseWith, hb, he, hels, hfold, hname, habs, hshort, hl, hrestr, hBt.2.2.2, hg1, hbn,
      hbin, if_true, List.nil_append]
    obtain ⟨name, entries, shortDesc, longDesc, base, criteria, abstract, inheritors⟩ := c
    simp only at hb1
    subst hb1
    rfl
/-- A container as `loadContainer` creates it: the inheritor list is filled in afterwards. -/
def eraseInh (c : LContainer) : LContainer := { c with inheritors := [] }

/-- The containers `rest`, to be loaded on top of the lookup `lk`, come in dependency order: each one's base and nested
    containers are in the lookup by the time it is loaded, and its name is new. -/
def SortedFrom (params : List (String × LParam)) : CLookup → List (String × LContainer) → Prop
  | _, [] => True
  | lk, kv :: rest => kv.1 = kv.2.name ∧ ContWF params lk kv.2 ∧ lk.any (·.1 == kv.1) = false ∧
      SortedFrom params (lk ++ [(kv.1, eraseInh kv.2)]) rest

theorem getContainerElement_doc (u : Option String) (attrs : List (String × String)) (date : String)
    (ts ps cs : List XmlNode) (all : List (String × LContainer))
    (hm : all.mapM (fun kv => writeContainer u kv.2) = .ok cs) (hu : (all.map (·.2.name)).Nodup)
    (b : String) (hb : b ∈ all.map (·.2.name)) :
    ∃ bEl, getContainerElement u
      (docEl u attrs (mkEl u "Header" [("date", date), ("version", "1.0"), ("validationStatus", "Unknown")] []) ts ps cs) b
        = .ok bEl ∧ bEl.attr? "name" = some b := by
  obtain ⟨kv, hkv, rfl⟩ := List.mem_map.mp hb
  obtain ⟨x, hx, hf⟩ := filter_by_name u all cs hm hu kv.2 (List.mem_map.mpr ⟨kv, hkv, rfl⟩)
  obtain ⟨a, k, _, hn⟩ := writeContainer_shape u kv.2 x hx
  refine ⟨x, ?_, hn⟩
  simp only [getContainerElement, find_containerSet]
  simp only [findAll, mkEl, XmlNode.kids, hf, List.map_cons, List.map_nil, List.flatten_cons, List.flatten_nil,
    List.append_nil]


theorem clookup_get_none (lk : CLookup) (n : String) (h : lk.any (·.1 == n) = false) : lk.get? n = none := by
  unfold CLookup.get?
  have : lk.find? (·.1 == n) = none := by
    rw [List.find?_eq_none]
    intro kv hkv
    rw [List.any_eq_false] at h
    exact h kv hkv
  rw [this]; rfl

theorem clookup_set_new (lk : CLookup) (n : String) (c : LContainer) (h : lk.any (·.1 == n) = false) :
    lk.set n c = lk ++ [(n, c)] := by
  unfold CLookup.set
  simp [h]

/-- Loading the `ContainerSet` of a written document whose containers come in dependency order: every container is
    read back as it was written (without its inheritor list), in the same order, and the recursive descent into
    not-yet-known containers never happens. -/
theorem container_set_fold (u : Option String) (attrs : List (String × String)) (date : String)
    (ts ps cs : List XmlNode) (all : List (String × LContainer))
    (hm : all.mapM (fun kv => writeContainer u kv.2) = .ok cs) (hu : (all.map (·.2.name)).Nodup)
    (params : List (String × LParam)) (rest : List (String × LContainer)) :
    ∀ (xs : List XmlNode) (lk : CLookup), rest.mapM (fun kv => writeContainer u kv.2) = .ok xs →
    SortedFrom params lk rest → (∀ kv ∈ lk, kv.1 ∈ all.map (·.2.name)) → (∀ kv ∈ rest, kv ∈ all) →
    xs.foldlM (containerSetStep u
      (docEl u attrs (mkEl u "Header" [("date", date), ("version", "1.0"), ("validationStatus", "Unknown")] []) ts ps cs)
      params) lk = .ok (lk ++ rest.map (fun kv => (kv.1, eraseInh kv.2))) := by
  induction rest with
  | nil => intro xs lk h _ _ _; simp [pure, Except.pure] at h; subst h; simp [pure, Except.pure]
  | cons kv rest ih =>
    intro xs lk h hs hlk hall
    simp only [List.mapM_cons, bind, Except.bind, pure, Except.pure] at h
    cases ha : writeContainer u kv.2 with
    | error e => simp [ha] at h
    | ok x =>
      simp only [ha] at h
      cases hl : rest.mapM (fun kv => writeContainer u kv.2) with
      | error e => simp [hl] at h
      | ok xs' =>
        simp only [hl] at h
        injection h with h; subst h
        obtain ⟨hkn, hwf, hnew, hrest⟩ := hs
        have hget : ∀ b, kv.2.base = some b → ∃ bEl, getContainerElement u
            (docEl u attrs (mkEl u "Header" [("date", date), ("version", "1.0"), ("validationStatus", "Unknown")] [])
              ts ps cs) b = .ok bEl ∧ bEl.attr? "name" = some b := by
          intro b hb
          rcases hwf.base with ⟨h0, _⟩ | ⟨b', hb', _, hin, _⟩
          · rw [h0] at hb; cases hb
          · rw [hb'] at hb; injection hb with hb; subst hb
            obtain ⟨kv', hkv', hk⟩ := List.any_eq_true.mp hin
            have : b' = kv'.1 := (beq_iff_eq.mp hk).symm
            rw [this]
            exact getContainerElement_doc u attrs date ts ps cs all hm hu kv'.1 (hlk kv' hkv')
        have hload := container_roundtrip_known u _ params 63 lk kv.2 hwf hget x ha
        have hstep : containerSetStep u
            (docEl u attrs (mkEl u "Header" [("date", date), ("version", "1.0"), ("validationStatus", "Unknown")] [])
              ts ps cs) params lk x = .ok (lk ++ [(kv.1, eraseInh kv.2)]) := by
          have hF : FUEL = 63 + 1 := rfl
          simp only [containerSetStep, hF, hload]
          rw [← hkn, clookup_get_none lk kv.1 hnew]
          simp only [clookup_set_new lk kv.1 _ hnew, eraseInh]
          rw [hkn]
        simp only [List.foldlM_cons, bind, Except.bind, hstep]
        rw [ih xs' (lk ++ [(kv.1, eraseInh kv.2)]) hl hrest ?_ (fun kv' h' => hall kv' (by simp [h']))]
        · simp
        · intro kv' hkv'
          simp only [List.mem_append, List.mem_singleton] at hkv'
          rcases hkv' with h' | rfl
          · exact hlk kv' h'
          · simp only
            rw [hkn]
            exact List.mem_map.mpr ⟨kv, hall kv (by simp), rfl⟩


/-- The lookup with every container's inheritor list set by `f`. -/
def withInh (l : CLookup) (f : String → List String) : CLookup :=
  l.map (fun kv => (kv.1, { kv.2 with inheritors := f kv.1 }))

theorem find_unique {β} (l : List (String × β)) (hu : UniqueKeys l) (kv : String × β) (h : kv ∈ l) :
    l.find? (·.1 == kv.1) = some kv := by
  induction l with
  | nil => simp at h
  | cons a l ih =>
    simp only [UniqueKeys, List.map_cons, List.nodup_cons] at hu
    simp only [List.mem_cons] at h
    rcases h with rfl | h
    · simp
    · have hne : a.1 ≠ kv.1 := by
        intro e; apply hu.1; rw [e]; exact List.mem_map.mpr ⟨kv, h, rfl⟩
      have : (a.1 == kv.1) = false := by simpa using hne
      simp only [List.find?_cons, this]
      exact ih hu.2 h

theorem withInh_keys (l : CLookup) (f : String → List String) : (withInh l f).map (·.1) = l.map (·.1) := by
  simp [withInh, List.map_map, Function.comp_def]

theorem withInh_get (l : CLookup) (f : String → List String) (hu : UniqueKeys l) (kv : String × LContainer) (h : kv ∈ l) :
    (withInh l f).get? kv.1 = some { kv.2 with inheritors := f kv.1 } := by
  unfold CLookup.get? withInh
  rw [List.find?_map]
  have : ((fun x : String × LContainer => x.1 == kv.1) ∘
      fun kv' : String × LContainer => (kv'.1, { kv'.2 with inheritors := f kv'.1 }))
      = (fun x : String × LContainer => x.1 == kv.1) := by funext x; rfl
  rw [this, find_unique l hu kv h]
  rfl

theorem withInh_set (l : CLookup) (f : String → List String) (hu : UniqueKeys l) (kv : String × LContainer) (h : kv ∈ l)
    (extra : List String) :
    (withInh l f).set kv.1 { kv.2 with inheritors := f kv.1 ++ extra } =
      withInh l (fun n => if n == kv.1 then f n ++ extra else f n) := by
  have hany : (withInh l f).any (·.1 == kv.1) = true := by
    rw [List.any_eq_true]
    exact ⟨(kv.1, { kv.2 with inheritors := f kv.1 }), List.mem_map.mpr ⟨kv, h, rfl⟩, by simp⟩
  unfold CLookup.set
  simp only [hany, if_true]
  unfold withInh
  rw [List.map_map]
  apply List.map_congr_left
  intro kv' hkv'
  simp only [Function.comp]
  by_cases hk : kv'.1 = kv.1
  · have : kv' = kv := by
      have h1 := find_unique l hu kv' hkv'
      rw [hk, find_unique l hu kv h] at h1
      exact (Option.some.inj h1).symm
    subst this
    simp
  · have : (kv'.1 == kv.1) = false := by simpa using hk
    simp [this]

/-- The back-population computed in one go: starting from lists `f`, processing `rest` appends to each container's
    list the names in `rest` based on it. -/
theorem popFold_exact (l : CLookup) (hu : UniqueKeys l) (rest : CLookup) (f : String → List String)
    (hres : ∀ kv ∈ rest, ∀ b, kv.2.base = some b → b ≠ "" → ∃ kvb ∈ l, kvb.1 = b) :
    rest.foldlM popStep (withInh l f) = .ok (withInh l (fun n => f n ++ basedOn rest n)) := by
  induction rest generalizing f with
  | nil => simp [basedOn, pure, Except.pure]
  | cons kv rest ih =>
    have hstep : popStep (withInh l f) kv =
        .ok (withInh l (fun n => f n ++ (if kv.2.base == some n && n != "" then [kv.1] else []))) := by
      unfold popStep
      cases hb : kv.2.base with
      | none => simp [pure, Except.pure]
      | some b =>
        by_cases hbe : b = ""
        · subst hbe
          simp only [beq_self_eq_true, if_true, pure, Except.pure]
          congr 2
          funext n
          by_cases hn : n = "" <;> simp [hn]
        · have hbe' : (b == "") = false := by simpa using hbe
          obtain ⟨kvb, hkvb, rfl⟩ := hres kv (by simp) b hb hbe
          simp only [hbe', Bool.false_eq_true, if_false, withInh_get l f hu kvb hkvb, pure, Except.pure]
          rw [withInh_set l f hu kvb hkvb [kv.1]]
          congr 2
          funext n
          by_cases hn : n = kvb.1
          · subst hn; simp [hbe]
          · have h1 : (n == kvb.1) = false := by simpa using hn
            have h2 : (some kvb.1 == some n) = false := by simpa using fun e => hn e.symm
            simp [h1, h2]
    simp only [List.foldlM_cons, bind, Except.bind, hstep]
    rw [ih _ (fun kv' h' => hres kv' (by simp [h']))]
    congr 2
    funext n
    rw [basedOn_cons, List.append_assoc]


theorem isElem_of_loadParameterType (u : Option String) (x : XmlNode) (t : LPType)
    (h : loadParameterType u x = .ok t) : x.isElem = true := by
  cases x with
  | elem n tg a tx k => rfl
  | comment s =>
    simp [loadParameterType, XmlNode.tag, PARAMETER_TYPE_TAGS, bind, Except.bind, throw, throwThe,
      MonadExceptOf.throw] at h

/-- Reading back the `ParameterTypeSet`: every type, in order. -/
theorem type_set_fold (hI : IntRoundTrip) (hV : FValRoundTrip) (u : Option String) (l : List (String × LPType))
    (hk : ∀ kv ∈ l, kv.1 = kv.2.name) (hwf : ∀ kv ∈ l, PTypeWF kv.2) :
    ∀ (ts : List XmlNode) (acc : List (String × LPType)), l.mapM (fun kv => writeParameterType u kv.2) = .ok ts →
    UniqueKeys (acc ++ l) →
    ts.foldlM (typeSetStep u) acc = .ok (acc ++ l) ∧ ∀ x ∈ ts, x.isElem = true := by
  induction l with
  | nil => intro ts acc h _; simp [pure, Except.pure] at h; subst h; simp [pure, Except.pure]
  | cons kv l ih =>
    intro ts acc h hu
    simp only [List.mapM_cons, bind, Except.bind, pure, Except.pure] at h
    cases ha : writeParameterType u kv.2 with
    | error e => simp [ha] at h
    | ok x =>
      simp only [ha] at h
      cases hl : l.mapM (fun kv => writeParameterType u kv.2) with
      | error e => simp [hl] at h
      | ok xs =>
        simp only [hl] at h
        injection h with h; subst h
        have hrt := ptype_roundtrip hI hV u kv.2 (hwf kv (by simp)) x ha
        have hkn := hk kv (by simp)
        have hfresh : acc.any (·.1 == kv.2.name) = false := by
          rw [List.any_eq_false]
          intro a ha'
          simp only [UniqueKeys, List.map_append, List.map_cons] at hu
          have := (List.nodup_append.mp hu).2.2 a.1 (List.mem_map.mpr ⟨a, ha', rfl⟩) kv.1 (by simp)
          rw [← hkn]; simpa using this
        have hstep : typeSetStep u acc x = .ok (acc ++ [(kv.2.name, kv.2)]) := by
          simp [typeSetStep, hrt, hfresh]
        have hu' : UniqueKeys ((acc ++ [(kv.2.name, kv.2)]) ++ l) := by
          rw [← hkn]; simpa [List.append_assoc] using hu
        obtain ⟨h1, h2⟩ := ih (fun kv' h' => hk kv' (by simp [h'])) (fun kv' h' => hwf kv' (by simp [h'])) xs
          (acc ++ [(kv.2.name, kv.2)]) hl hu'
        refine ⟨?_, ?_⟩
        · simp only [List.foldlM_cons, bind, Except.bind, hstep, h1]
          rw [← hkn]; simp
        · intro y hy
          simp only [List.mem_cons] at hy
          rcases hy with rfl | hy
          · exact isElem_of_loadParameterType u _ _ hrt
          · exact h2 y hy

/-- Reading back the `ParameterSet`: every parameter, in order. -/
theorem param_set_fold (u : Option String) (types : List (String × LPType)) (l : List (String × LParam))
    (hk : ∀ kv ∈ l, kv.1 = kv.2.name) (hwf : ∀ kv ∈ l, ParamWF kv.2)
    (ht : ∀ kv ∈ l, types.any (·.1 == kv.2.typeName) = true) :
    ∀ (acc : List (String × LParam)), UniqueKeys (acc ++ l) →
    (l.map (fun kv => writeParameter u kv.2)).foldlM (paramSetStep u types) acc = .ok (acc ++ l) := by
  induction l with
  | nil => intro acc _; simp [pure, Except.pure]
  | cons kv l ih =>
    intro acc hu
    have hrt := parameter_roundtrip u types kv.2 (hwf kv (by simp)) (ht kv (by simp))
    have hkn := hk kv (by simp)
    have hfresh : acc.any (·.1 == kv.2.name) = false := by
      rw [List.any_eq_false]
      intro a ha'
      simp only [UniqueKeys, List.map_append, List.map_cons] at hu
      have := (List.nodup_append.mp hu).2.2 a.1 (List.mem_map.mpr ⟨a, ha', rfl⟩) kv.1 (by simp)
      rw [← hkn]; simpa using this
    have hstep : paramSetStep u types acc (writeParameter u kv.2) = .ok (acc ++ [(kv.2.name, kv.2)]) := by
      simp [paramSetStep, hrt, hfresh]
    have hu' : UniqueKeys ((acc ++ [(kv.2.name, kv.2)]) ++ l) := by
      rw [← hkn]; simpa [List.append_assoc] using hu
    simp only [List.map_cons, List.foldlM_cons, bind, Except.bind, hstep]
    rw [ih (fun kv' h' => hk kv' (by simp [h'])) (fun kv' h' => hwf kv' (by simp [h']))
      (fun kv' h' => ht kv' (by simp [h'])) _ hu']
    rw [← hkn]; simp


end Spp.C09
