/-
C05 — Container inheritance selects the unique matching structure, in order.
-/
import Spp.Lemmas.Inherit
namespace Spp.C05
open Spp

/-- Entries are decoded in entry-list order with nested container references expanded in place: decoding a
    container is decoding its flattened parameter list. -/
theorem entries_in_order (c : Container) (p : Pkt) : c.parseEntries p = parseFlat c.flatten p :=
  Container.parse_flatten c p

theorem flatten_append (es fs : List Entry) : flattenList (es ++ fs) = flattenList es ++ flattenList fs := by
  induction es with
  | nil => rfl
  | cons e es ih => simp [flattenList, ih]

/-- A nested container reference contributes exactly its own (recursively flattened) entries, in place. -/
theorem nested_in_place (pre : List Entry) (c : Container) (post : List Entry) :
    flattenList (pre ++ Entry.cont c :: post) = flattenList pre ++ c.flatten ++ flattenList post := by
  rw [flatten_append]; simp [flattenList, Entry.flatten]

/-- The candidate children are exactly the inheritors whose restriction criteria all hold, in inheritor order. -/
theorem valid_inheritors_filter (d : Definition) (items : Items) (names : List String) (holds : String → Bool)
    (h : ∀ n ∈ names, ∃ c, d.lookup n = some c ∧ allCriteria items none c.criteria = .ok (holds n)) :
    validInheritors d items names = .ok (names.filter holds) := by
  induction names with
  | nil => rfl
  | cons n ns ih =>
    obtain ⟨c, hc1, hc2⟩ := h n (by simp)
    have := ih (fun m hm => h m (by simp [hm]))
    simp only [validInheritors, hc1, hc2, this, bind, Except.bind, pure, Except.pure, List.filter_cons]

/-- Soundness of the descent loop against the big-step specification: whatever the loop returns (short of
    running out of fuel) is the specified outcome — descend to the *unique* child whose criteria hold; abstract
    dead end and ambiguity report the packet unrecognized with the values decoded so far; a concrete container
    with no valid child ends the packet. -/
theorem descend_sound (d : Definition) (fuel : Nat) (cur : Container) (p : Pkt) :
    Decodes d cur p (descend d fuel cur p) ∨ descend d fuel cur p = .error .unsupported := by
  induction fuel generalizing cur p with
  | zero => right; rfl
  | succ fuel ih =>
    unfold descend
    cases h1 : cur.parseEntries p with
    | error e => left; exact Decodes.entriesFail h1
    | ok p' =>
      simp only
      cases h2 : validInheritors d p'.items cur.inheritors with
      | error e => left; exact Decodes.criteriaFail h1 h2
      | ok vs =>
        match vs, h2 with
        | [], h2 =>
          simp only
          cases h3 : cur.abstract with
          | true => left; simp; exact Decodes.abstractDeadEnd h1 h2 h3
          | false => left; simp; exact Decodes.concreteStop h1 h2 h3
        | [n], h2 =>
          simp only
          cases h3 : d.lookup n with
          | none => left; exact Decodes.danglingChild h1 h2 h3
          | some c =>
            simp only
            rcases ih c p' with h | h
            · left; exact Decodes.step h1 h2 h3 h
            · right; exact h
        | a :: b :: rest, h2 => left; exact Decodes.ambiguous h1 h2

/-- The specification is deterministic: a packet has one outcome. -/
theorem decodes_deterministic (d : Definition) (cur : Container) (p : Pkt) (r1 r2 : ParseResult)
    (h1 : Decodes d cur p r1) (h2 : Decodes d cur p r2) : r1 = r2 := by
  induction h1 generalizing r2 with
  | entriesFail a => cases h2 <;> simp_all
  | criteriaFail a b =>
    cases h2 <;> simp_all
  | concreteStop a b c =>
    cases h2 <;> simp_all
  | abstractDeadEnd a b c =>
    cases h2 <;> simp_all
  | ambiguous a b =>
    cases h2 <;> simp_all
  | danglingChild a b c =>
    cases h2 <;> simp_all
  | step a b c _ ih =>
    cases h2 with
    | step a' b' c' dd =>
      rw [a] at a'; injection a' with a'; subst a'
      rw [b] at b'; injection b' with b'; injection b' with b'; subst b'
      rw [c] at c'; injection c' with c'; subst c'
      exact ih _ dd
    | entriesFail a' => simp_all
    | criteriaFail a' b' => simp_all
    | concreteStop a' b' c' => simp_all
    | abstractDeadEnd a' b' c' => simp_all
    | ambiguous a' b' => simp_all
    | danglingChild a' b' c' => simp_all

/-- The loop and the specification agree: the loop's result is *the* specified outcome. -/
theorem descend_complete (d : Definition) (fuel : Nat) (cur : Container) (p : Pkt) (r : ParseResult)
    (hr : Decodes d cur p r) (hf : descend d fuel cur p ≠ .error .unsupported) : descend d fuel cur p = r := by
  rcases descend_sound d fuel cur p with h | h
  · exact decodes_deterministic d cur p _ _ h hr
  · exact absurd h hf

/-- One unique valid child: its entries follow the parent's (parents before children). -/
theorem parent_then_child (d : Definition) (cur c : Container) (p p' : Pkt) (n : String) (r : ParseResult)
    (h1 : cur.parseEntries p = .ok p') (h2 : validInheritors d p'.items cur.inheritors = .ok [n])
    (h3 : d.lookup n = some c) (h4 : Decodes d c p' r) : Decodes d cur p r :=
  Decodes.step h1 h2 h3 h4

/-- The header view is the first seven items, the user-data view the rest; together they are all items. -/
theorem views (items : Items) : items.take 7 ++ items.drop 7 = items := List.take_append_drop 7 items

/-- Decoding never removes or reorders earlier items: an item decoded earlier keeps its position. -/
theorem items_set_new (items : Items) (k : String) (v : Param) (h : items.get? k = none) :
    items.set k v = items ++ [(k, v)] := by
  induction items with
  | nil => rfl
  | cons kv rest ih =>
    obtain ⟨k', v'⟩ := kv
    simp only [Items.get?, List.find?] at h
    by_cases hk : (k' == k) = true
    · simp [hk] at h
    · simp only [hk] at h
      have : Items.get? rest k = none := by simpa [Items.get?] using h
      simp [Items.set, hk, ih this]

/-- Completeness of the loop with respect to fuel: every specified outcome is what the loop returns as soon as
    the recursion budget reaches the length of the inheritance path (so `unsupported` from the budget only ever
    means the path is longer than the budget — the Python loop has no budget and would simply keep going). -/
theorem decodes_fuel (d : Definition) (cur : Container) (p : Pkt) (r : ParseResult) (h : Decodes d cur p r) :
    ∃ n, ∀ fuel, n ≤ fuel → descend d fuel cur p = r := by
  induction h with
  | entriesFail a =>
    refine ⟨1, fun fuel hf => ?_⟩
    obtain ⟨k, rfl⟩ : ∃ k, fuel = k + 1 := ⟨fuel - 1, by omega⟩
    simp [descend, a]
  | criteriaFail a b =>
    refine ⟨1, fun fuel hf => ?_⟩
    obtain ⟨k, rfl⟩ : ∃ k, fuel = k + 1 := ⟨fuel - 1, by omega⟩
    simp [descend, a, b]
  | concreteStop a b c =>
    refine ⟨1, fun fuel hf => ?_⟩
    obtain ⟨k, rfl⟩ : ∃ k, fuel = k + 1 := ⟨fuel - 1, by omega⟩
    simp [descend, a, b, c]
  | abstractDeadEnd a b c =>
    refine ⟨1, fun fuel hf => ?_⟩
    obtain ⟨k, rfl⟩ : ∃ k, fuel = k + 1 := ⟨fuel - 1, by omega⟩
    simp [descend, a, b, c]
  | ambiguous a b =>
    refine ⟨1, fun fuel hf => ?_⟩
    obtain ⟨k, rfl⟩ : ∃ k, fuel = k + 1 := ⟨fuel - 1, by omega⟩
    simp [descend, a, b]
  | danglingChild a b c =>
    refine ⟨1, fun fuel hf => ?_⟩
    obtain ⟨k, rfl⟩ : ∃ k, fuel = k + 1 := ⟨fuel - 1, by omega⟩
    simp [descend, a, b, c]
  | step a b c _ ih =>
    obtain ⟨n, hn⟩ := ih
    refine ⟨n + 1, fun fuel hf => ?_⟩
    obtain ⟨k, rfl⟩ : ∃ k, fuel = k + 1 := ⟨fuel - 1, by omega⟩
    simp [descend, a, b, c, hn k (by omega)]

end Spp.C05
