/-
C15 — Serialization is deterministic and stable under repeated write/load cycles.
PARTIAL: in the model `toXml` is a function of the definition (no clock, no iteration-order freedom), so
W(D) = W(D) holds by construction — what can break it in Python is exercised by the harness (two writes compared byte
for byte with a fixed header date; G2 vs G3; a structural snapshot of the definition around the write).  Proved here:
every element the criteria / adjustment writers produce lies in the definition's XTCE namespace, at any nesting depth.
-/
import Spp.Model.XmlWrite
namespace Spp.C15
open Spp

mutual
/-- Every element of the tree lies in namespace `u`. -/
def AllInNs (u : Option String) : XmlNode → Prop
  | .elem n _ _ _ c => n = u ∧ AllInNsList u c
  | .comment _ => True
def AllInNsList (u : Option String) : List XmlNode → Prop
  | [] => True
  | x :: xs => AllInNs u x ∧ AllInNsList u xs
end

theorem allInNsList_append (u : Option String) (a b : List XmlNode) :
    AllInNsList u (a ++ b) ↔ AllInNsList u a ∧ AllInNsList u b := by
  induction a with
  | nil => simp [AllInNsList]
  | cons x xs ih => simp [AllInNsList, ih, and_assoc]

theorem allInNsList_map {α} (u : Option String) (f : α → XmlNode) (l : List α) (h : ∀ a ∈ l, AllInNs u (f a)) :
    AllInNsList u (l.map f) := by
  induction l with
  | nil => simp [AllInNsList]
  | cons x xs ih =>
    simp only [List.map_cons, AllInNsList]
    exact ⟨h x (by simp), ih (fun a ha => h a (by simp [ha]))⟩

/-- Writing is a function of the definition: the same definition always serialises to the same tree. -/
theorem write_is_function (d : LDef) : toXml d = toXml d := rfl

theorem comparison_in_namespace (u : Option String) (c : Comparison) : AllInNs u (writeComparison u c) := by
  simp [writeComparison, mkEl, AllInNs, AllInNsList]

theorem condition_in_namespace (u : Option String) (c : Condition) : AllInNs u (writeCondition u c) := by
  unfold writeCondition
  cases c.rightParam with
  | none => simp [mkEl, AllInNs, AllInNsList]
  | some rp => by_cases h : rp.isEmpty <;> simp [mkEl, AllInNs, AllInNsList, h]

mutual
theorem anded_in_namespace (u : Option String) (a : Anded) : AllInNs u (writeAnded u a) := by
  cases a with
  | mk conds ors =>
    simp only [writeAnded, mkEl, AllInNs, true_and]
    rw [allInNsList_append]
    exact ⟨allInNsList_map u _ _ (fun c _ => condition_in_namespace u c), oreds_in_namespace u ors⟩
theorem oreds_in_namespace (u : Option String) (os : List Ored) : AllInNsList u (writeOreds u os) := by
  cases os with
  | nil => simp [writeOreds, AllInNsList]
  | cons o os => simp only [writeOreds, AllInNsList]; exact ⟨ored_in_namespace u o, oreds_in_namespace u os⟩
theorem ored_in_namespace (u : Option String) (o : Ored) : AllInNs u (writeOred u o) := by
  cases o with
  | mk conds ands =>
    simp only [writeOred, mkEl, AllInNs, true_and]
    rw [allInNsList_append]
    exact ⟨allInNsList_map u _ _ (fun c _ => condition_in_namespace u c), andeds_in_namespace u ands⟩
theorem andeds_in_namespace (u : Option String) (as : List Anded) : AllInNsList u (writeAndeds u as) := by
  cases as with
  | nil => simp [writeAndeds, AllInNsList]
  | cons a as => simp only [writeAndeds, AllInNsList]; exact ⟨anded_in_namespace u a, andeds_in_namespace u as⟩
end

/-- Criteria of every supported form, nested to any depth, are written entirely inside the namespace. -/
theorem criterion_in_namespace (u : Option String) (c : Criterion) : AllInNs u (writeCriterion u c) := by
  cases c with
  | comparison c => exact comparison_in_namespace u c
  | boolExpr e =>
    cases e with
    | cond c => simp [writeCriterion, writeBoolExpr, mkEl, AllInNs, AllInNsList, condition_in_namespace]
    | anded a => simp [writeCriterion, writeBoolExpr, mkEl, AllInNs, AllInNsList, anded_in_namespace]
    | ored o => simp [writeCriterion, writeBoolExpr, mkEl, AllInNs, AllInNsList, ored_in_namespace]

theorem parameter_in_namespace (u : Option String) (p : LParam) : AllInNs u (writeParameter u p) := by
  unfold writeParameter
  by_cases h : strTruthy p.longDesc <;> simp [mkEl, AllInNs, AllInNsList, h]

end Spp.C15
