/-
C15 — Serialization is deterministic and stable under repeated write/load cycles.
PARTIAL: in the model `toXml` is a function of the definition (no clock, no iteration-order freedom), so
W(D) = W(D) holds by construction — what can break it in Python is exercised by the harness (two writes compared byte
for byte with a fixed header date; G2 vs G3; a structural snapshot of the definition around the write).  Proved here:
every element the criteria / adjustment writers produce lies in the definition's XTCE namespace, at any nesting depth.
-/
import Spp.Model.XmlWrite
namespace Spp.C15
open Spp

mutual
/-- Every element of the tree lies in namespace `u`. -/
def AllInNs (u : Option String) : XmlNode → Prop
  | .elem n _ _ _ c => n = u ∧ AllInNsList u c
  | .comment _ => True
def AllInNsList (u : Option String) : List XmlNode → Prop
  | [] => True
  | x :: xs => AllInNs u x ∧ AllInNsList u xs
end

theorem allInNsList_append (u : Option String) (a b : List XmlNode) :
    AllInNsList u (a ++ b) ↔ AllInNsList u a ∧ AllInNsList u b := by
  induction a with
  | nil => simp [AllInNsList]
  | cons x xs ih => simp [AllInNsList, ih, and_assoc]

theorem allInNsList_map {α} (u : Option String) (f : α → XmlNode) (l : List α) (h : ∀ a ∈ l, AllInNs u (f a)) :
    AllInNsList u (l.map f) := by
  induction l with
  | nil => simp [AllInNsList]
  | cons x xs ih =>
    simp only [List.map_cons, AllInNsList]
    exact ⟨h x (by simp), ih (fun a ha => h a (by simp [ha]))⟩

/-- Writing is a function of the definition: the same definition always serialises to the same tree. -/
theorem write_is_function (d : LDef) : toXml d = toXml d := rfl

theorem comparison_in_namespace (u : Option String) (c : Comparison) : AllInNs u (writeComparison u c) := by
  simp [writeComparison, mkEl, AllInNs, AllInNsList]

theorem condition_in_namespace (u : Option String) (c : Condition) : AllInNs u (writeCondition u c) := by
  unfold writeCondition
  cases c.rightParam with
  | none => simp [mkEl, AllInNs, AllInNsList]
  | some rp => by_cases h : rp.isEmpty <;> simp [mkEl, AllInNs, AllInNsList, h]

mutual
theorem anded_in_namespace (u : Option String) (a : Anded) : AllInNs u (writeAnded u a) := by
  cases a with
  | mk conds ors =>
    simp only [writeAnded, mkEl, AllInNs, true_and]
    rw [allInNsList_append]
    exact ⟨allInNsList_map u _ _ (fun c _ => condition_in_namespace u c), oreds_in_namespace u ors⟩
theorem oreds_in_namespace (u : Option String) (os : List Ored) : AllInNsList u (writeOreds u os) := by
  cases os with
  | nil => simp [writeOreds, AllInNsList]
  | cons o os => simp only [writeOreds, AllInNsList]; exact ⟨ored_in_namespace u o, oreds_in_namespace u os⟩
theorem ored_in_namespace (u : Option String) (o : Ored) : AllInNs u (writeOred u o) := by
  cases o with
  | mk conds ands =>
    simp only [writeOred, mkEl, AllInNs, true_and]
    rw [allInNsList_append]
    exact ⟨allInNsList_map u _ _ (fun c _ => condition_in_namespace u c), andeds_in_namespace u ands⟩
theorem andeds_in_namespace (u : Option String) (as : List Anded) : AllInNsList u (writeAndeds u as) := by
  cases as with
  | nil => simp [writeAndeds, AllInNsList]
  | cons a as => simp only [writeAndeds, AllInNsList]; exact ⟨anded_in_namespace u a, andeds_in_namespace u as⟩
end

/-- Criteria of every supported form, nested to any depth, are written entirely inside the namespace. -/
theorem criterion_in_namespace (u : Option String) (c : Criterion) : AllInNs u (writeCriterion u c) := by
  cases c with
  | comparison c => exact comparison_in_namespace u c
  | boolExpr e =>
    cases e with
    | cond c => simp [writeCriterion, writeBoolExpr, mkEl, AllInNs, AllInNsList, condition_in_namespace]
    | anded a => simp [writeCriterion, writeBoolExpr, mkEl, AllInNs, AllInNsList, anded_in_namespace]
    | ored o => simp [writeCriterion, writeBoolExpr, mkEl, AllInNs, AllInNsList, ored_in_namespace]

theorem parameter_in_namespace (u : Option String) (p : LParam) : AllInNs u (writeParameter u p) := by
  unfold writeParameter
  by_cases h : strTruthy p.longDesc <;> simp [mkEl, AllInNs, AllInNsList, h]

/-! ### the whole document -/

theorem allInNsList_of_mapM {α} (u : Option String) (w : α → LoadM XmlNode) (l : List α) (xs : List XmlNode)
    (h : ∀ a ∈ l, ∀ x, w a = .ok x → AllInNs u x) (hm : l.mapM w = .ok xs) : AllInNsList u xs := by
  induction l generalizing xs with
  | nil => simp [pure, Except.pure] at hm; subst hm; simp [AllInNsList]
  | cons a l ih =>
    simp only [List.mapM_cons, bind, Except.bind, pure, Except.pure] at hm
    cases ha : w a with
    | error e => simp [ha] at hm
    | ok b =>
      simp only [ha] at hm
      cases hl : l.mapM w with
      | error e => simp [hl] at hm
      | ok bs =>
        simp only [hl] at hm
        injection hm with hm; subst hm
        exact ⟨h a (by simp) b ha, ih bs (fun a' ha' => h a' (by simp [ha'])) hl⟩

theorem leaf_in_namespace (u : Option String) (tag : String) (attrs : List (String × String)) (text : Option String) :
    AllInNs u (mkEl u tag attrs [] text) := by simp [mkEl, AllInNs, AllInNsList]

theorem node_in_namespace (u : Option String) (tag : String) (attrs : List (String × String)) (kids : List XmlNode)
    (text : Option String) (h : AllInNsList u kids) : AllInNs u (mkEl u tag attrs kids text) := by
  simp [mkEl, AllInNs, h]

theorem calibrator_in_namespace (u : Option String) (c : Calibrator) (x : XmlNode) (h : writeCalibrator u c = .ok x) :
    AllInNs u x := by
  cases c with
  | spline s =>
    simp only [writeCalibrator, bind, Except.bind, pure, Except.pure] at h
    cases hm : s.points.mapM (writeSplinePoint u) with
    | error e => simp [hm] at h
    | ok pts =>
      simp only [hm] at h; injection h with h; subst h
      refine node_in_namespace u _ _ _ _ (allInNsList_of_mapM u _ _ _ ?_ hm)
      intro p _ y hy
      simp only [writeSplinePoint, bind, Except.bind, pure, Except.pure] at hy
      cases h1 : showFloat (.fin p.raw) with
      | error e => simp [h1] at hy
      | ok r =>
        cases h2 : showFloat (.fin p.cal) with
        | error e => simp [h1, h2] at hy
        | ok c => simp only [h1, h2] at hy; injection hy with hy; subst hy; exact leaf_in_namespace u _ _ _
  | poly ts =>
    simp only [writeCalibrator, bind, Except.bind, pure, Except.pure] at h
    cases hm : ts.mapM (writeTerm u) with
    | error e => simp [hm] at h
    | ok terms =>
      simp only [hm] at h; injection h with h; subst h
      refine node_in_namespace u _ _ _ _ (allInNsList_of_mapM u _ _ _ ?_ hm)
      intro t _ y hy
      simp only [writeTerm, bind, Except.bind, pure, Except.pure] at hy
      cases h1 : showCoef t with
      | error e => simp [h1] at hy
      | ok c => simp only [h1] at hy; injection hy with hy; subst hy; exact leaf_in_namespace u _ _ _

theorem criteria_list_in_namespace (u : Option String) (cs : List Criterion) :
    AllInNsList u (cs.map (writeCriterion u)) :=
  allInNsList_map u _ _ (fun c _ => criterion_in_namespace u c)

theorem contextmatch_in_namespace (u : Option String) (crit : List Criterion) (x : XmlNode)
    (h : writeContextMatch u crit = .ok x) : AllInNs u x := by
  unfold writeContextMatch at h
  split at h
  · cases h
  · injection h with h; subst h
    exact node_in_namespace u _ _ _ _ ⟨comparison_in_namespace u _, trivial⟩
  · injection h with h; subst h
    rename_i e
    exact node_in_namespace u _ _ _ _ ⟨criterion_in_namespace u (.boolExpr e), trivial⟩
  · injection h with h; subst h
    exact node_in_namespace u _ _ _ _ ⟨node_in_namespace u _ _ _ _ (criteria_list_in_namespace u _), trivial⟩

theorem context_calibrator_in_namespace (u : Option String) (c : ContextCalibrator) (x : XmlNode)
    (h : writeContextCalibrator u c = .ok x) : AllInNs u x := by
  simp only [writeContextCalibrator, bind, Except.bind, pure, Except.pure] at h
  cases h1 : writeContextMatch u c.criteria with
  | error e => simp [h1] at h
  | ok cm =>
    cases h2 : writeCalibrator u c.calibrator with
    | error e => simp [h1, h2] at h
    | ok cal =>
      simp only [h1, h2] at h; injection h with h; subst h
      exact node_in_namespace u _ _ _ _ ⟨contextmatch_in_namespace u _ cm h1,
        node_in_namespace u _ _ _ _ ⟨calibrator_in_namespace u _ cal h2, trivial⟩, trivial⟩

theorem discrete_lookup_in_namespace (u : Option String) (d : DiscreteLookup) (x : XmlNode)
    (h : writeDiscreteLookup u d = .ok x) : AllInNs u x := by
  simp only [writeDiscreteLookup, bind, Except.bind, pure, Except.pure] at h
  cases hs : showNum d.value with
  | error e => simp [hs] at h
  | ok v =>
    simp only [hs] at h; injection h with h; subst h
    have hc : AllInNsList u (d.criteria.map (writeComparison u)) :=
      allInNsList_map u _ _ (fun c _ => comparison_in_namespace u c)
    split
    · exact node_in_namespace u _ _ _ _ ⟨node_in_namespace u _ _ _ _ hc, trivial⟩
    · exact node_in_namespace u _ _ _ _ hc

theorem defaultCal_in_namespace (u : Option String) (d : Option Calibrator) (xs : List XmlNode)
    (h : writeDefaultCal u d = .ok xs) : AllInNsList u xs := by
  cases d with
  | none => simp only [writeDefaultCal] at h; injection h with h; subst h; trivial
  | some c =>
    simp only [writeDefaultCal] at h
    cases hc : writeCalibrator u c with
    | error e => simp [hc] at h
    | ok x =>
      simp only [hc] at h; injection h with h; subst h
      exact ⟨node_in_namespace u _ _ _ _ ⟨calibrator_in_namespace u c x hc, trivial⟩, trivial⟩

theorem contextList_in_namespace (u : Option String) (ctxs : List ContextCalibrator) (xs : List XmlNode)
    (h : writeContextList u ctxs = .ok xs) : AllInNsList u xs := by
  unfold writeContextList at h
  split at h
  · injection h with h; subst h; trivial
  · cases hm : ctxs.mapM (writeContextCalibrator u) with
    | error e => simp [hm] at h
    | ok ys =>
      simp only [hm] at h; injection h with h; subst h
      exact ⟨node_in_namespace u _ _ _ _
        (allInNsList_of_mapM u _ _ _ (fun c _ y hy => context_calibrator_in_namespace u c y hy) hm), trivial⟩

theorem pir_in_namespace (u : Option String) (r : String) (b : Bool) : AllInNs u (writeParamInstanceRef u r b) :=
  leaf_in_namespace u _ _ _

theorem linadj_in_namespace (u : Option String) (a : LinAdj) : AllInNs u (writeLinAdj u a) := leaf_in_namespace u _ _ _

theorem lookups_in_namespace (u : Option String) (l : List DiscreteLookup) (xs : List XmlNode)
    (h : l.mapM (writeDiscreteLookup u) = .ok xs) : AllInNsList u xs :=
  allInNsList_of_mapM u _ _ _ (fun d _ y hy => discrete_lookup_in_namespace u d y hy) h

/-- Encodings of every kind are written entirely inside the namespace. -/
theorem encoding_in_namespace (u : Option String) (e : Encoding) (x : XmlNode) (h : writeEncoding u e = .ok x) :
    AllInNs u x := by
  cases e with
  | num ne =>
    simp only [writeEncoding, bind, Except.bind, pure, Except.pure] at h
    cases hd : writeDefaultCal u ne.cals.default with
    | error err => simp [hd] at h
    | ok d =>
      cases hc : writeContextList u ne.cals.contexts with
      | error err => simp [hd, hc] at h
      | ok cs =>
        simp only [hd, hc] at h; injection h with h; subst h
        exact node_in_namespace u _ _ _ _ ((allInNsList_append u d cs).mpr
          ⟨defaultCal_in_namespace u _ d hd, contextList_in_namespace u _ cs hc⟩)
  | bin be =>
    simp only [writeEncoding, bind, Except.bind, pure, Except.pure] at h
    split at h
    · injection h with h; subst h
      simp [mkEl, AllInNs, AllInNsList]
    · have hdv : AllInNsList u (if strTruthy be.sizeRef = true then
          [mkEl u "DynamicValue" [] (writeParamInstanceRef u (be.sizeRef.getD "") be.useCal ::
            match be.adjuster with | some a => [writeLinAdj u a] | none => [])] else []) := by
        split
        · refine ⟨node_in_namespace u _ _ _ _ ⟨pir_in_namespace u _ _, ?_⟩, trivial⟩
          cases be.adjuster with
          | none => trivial
          | some a => exact ⟨linadj_in_namespace u a, trivial⟩
        · trivial
      split at h
      · cases hm : (be.lookup.getD []).mapM (writeDiscreteLookup u) with
        | error e => simp [hm] at h
        | ok ys =>
          simp only [hm] at h; injection h with h; subst h
          exact node_in_namespace u _ _ _ _ ⟨node_in_namespace u _ _ _ _ ((allInNsList_append u _ _).mpr
            ⟨hdv, node_in_namespace u _ _ _ _ (lookups_in_namespace u _ ys hm), trivial⟩), trivial⟩
      · injection h with h; subst h
        exact node_in_namespace u _ _ _ _ ⟨node_in_namespace u _ _ _ _ ((allInNsList_append u _ _).mpr ⟨hdv, trivial⟩),
          trivial⟩
  | str se =>
    simp only [writeEncoding, bind, Except.bind, pure, Except.pure] at h
    have htail : AllInNsList u (tailKids u se.leadingSize se.termChar) := by
      unfold tailKids
      rw [allInNsList_append]
      constructor
      · split
        · exact ⟨leaf_in_namespace u _ _ _, trivial⟩
        · trivial
      · cases se.termChar with
        | none => trivial
        | some t =>
          simp only
          split
          · trivial
          · exact ⟨leaf_in_namespace u _ _ _, trivial⟩
    have hpir : AllInNsList u ([writeParamInstanceRef u (se.dynRef.getD "") se.useCal] ++ adjKids u se.adjuster) := by
      refine ⟨pir_in_namespace u _ _, ?_⟩
      unfold adjKids
      cases se.adjuster with
      | none => trivial
      | some a => exact ⟨linadj_in_namespace u a, trivial⟩
    simp only [mkEl] at h hpir
    split at h
    · injection h with h; subst h
      simp only [AllInNs, AllInNsList, and_true, true_and]
      rw [allInNsList_append]
      exact ⟨by simp [AllInNs, AllInNsList], htail⟩
    · split at h
      · injection h with h; subst h
        simp only [AllInNs, AllInNsList, and_true, true_and]
        rw [allInNsList_append]
        exact ⟨⟨⟨rfl, hpir⟩, trivial⟩, htail⟩
      · split at h
        · cases hm : (se.lookup.getD []).mapM (writeDiscreteLookup u) with
          | error e => simp [hm] at h
          | ok ys =>
            simp only [hm] at h; injection h with h; subst h
            simp only [AllInNs, AllInNsList, and_true, true_and]
            rw [allInNsList_append]
            exact ⟨⟨⟨rfl, lookups_in_namespace u _ ys hm⟩, trivial⟩, htail⟩
        · cases h

theorem ptype_in_namespace (u : Option String) (t : LPType) (x : XmlNode) (h : writeParameterType u t = .ok x) :
    AllInNs u x := by
  unfold writeParameterType at h
  have href : AllInNsList u (timeReference u t) := by
    unfold timeReference
    split
    · refine ⟨node_in_namespace u _ _ _ _ ((allInNsList_append u _ _).mpr ⟨?_, ?_⟩), trivial⟩
      · split
        · exact ⟨leaf_in_namespace u _ _ _, trivial⟩
        · trivial
      · split
        · exact ⟨leaf_in_namespace u _ _ _, trivial⟩
        · trivial
    · trivial
  have hunit : AllInNsList u (if strTruthy t.unit then [mkEl u "UnitSet" [] [mkEl u "Unit" [] [] t.unit]] else []) := by
    split
    · exact ⟨node_in_namespace u _ _ _ _ ⟨leaf_in_namespace u _ _ _, trivial⟩, trivial⟩
    · trivial
  split at h
  · -- time types
    split at h
    · rename_i ne henc
      cases hso : timeScaleOffset ne with
      | error e => simp [hso] at h
      | ok so =>
        simp only [hso] at h
        cases he : writeEncoding u t.enc with
        | error e => simp [he] at h
        | ok encEl =>
          simp only [he] at h; injection h with h; subst h
          exact node_in_namespace u _ _ _ _ ((allInNsList_append u _ _).mpr
            ⟨⟨node_in_namespace u _ _ _ _ ⟨encoding_in_namespace u _ encEl he, trivial⟩, trivial⟩, href⟩)
    · cases he : writeEncoding u t.enc with
      | error e => simp [he] at h
      | ok encEl =>
        simp only [he] at h; injection h with h; subst h
        exact node_in_namespace u _ _ _ _ ((allInNsList_append u _ _).mpr
          ⟨⟨node_in_namespace u _ _ _ _ ⟨encoding_in_namespace u _ encEl he, trivial⟩, trivial⟩, href⟩)
  · cases he : writeEncoding u t.enc with
    | error e => simp [he] at h
    | ok encEl =>
      have hE := encoding_in_namespace u _ encEl he
      simp only [he] at h
      split at h
      · cases hm : t.enumeration.mapM (writeEnumEntry u t.enc) with
        | error e => simp [hm] at h
        | ok ens =>
          simp only [hm] at h; injection h with h; subst h
          have hens : AllInNsList u ens := by
            refine allInNsList_of_mapM u _ _ _ ?_ hm
            intro kv _ y hy
            unfold writeEnumEntry at hy
            split at hy
            · cases hy
            · injection hy with hy; subst hy; exact leaf_in_namespace u _ _ _
          exact node_in_namespace u _ _ _ _ ((allInNsList_append u _ _).mpr
            ⟨hunit, hE, node_in_namespace u _ _ _ _ hens, trivial⟩)
      · injection h with h; subst h
        exact node_in_namespace u _ _ _ _ ((allInNsList_append u _ _).mpr ⟨hunit, hE, trivial⟩)

theorem container_in_namespace (u : Option String) (c : LContainer) (x : XmlNode) (h : writeContainer u c = .ok x) :
    AllInNs u x := by
  unfold writeContainer at h
  simp only [bind, Except.bind, pure, Except.pure] at h
  split at h
  · simp [throw, throwThe, MonadExceptOf.throw] at h
  · injection h with h; subst h
    refine node_in_namespace u _ _ _ _ ?_
    rw [allInNsList_append, allInNsList_append]
    refine ⟨⟨?_, ?_⟩, ?_, trivial⟩
    · split
      · exact ⟨leaf_in_namespace u _ _ _, trivial⟩
      · trivial
    · split
      · refine ⟨node_in_namespace u _ _ _ _ ?_, trivial⟩
        split
        · trivial
        · refine ⟨node_in_namespace u _ _ _ _ ⟨?_, trivial⟩, trivial⟩
          unfold writeRestrictions
          split
          · exact criterion_in_namespace u _
          · exact node_in_namespace u _ _ _ _ (criteria_list_in_namespace u _)
      · trivial
    · refine node_in_namespace u _ _ _ _ (allInNsList_map u _ _ ?_)
      intro e _
      cases e <;> exact leaf_in_namespace u _ _ _

/-- **Every element of the written document lies in the definition's XTCE namespace** (or in no namespace when the
    definition has none): the whole of `to_xml_tree()`. -/
theorem document_in_namespace (d : LDef) (x : XmlNode) (h : toXml d = .ok x) :
    AllInNs ((d.nsmap.find? (·.1 == d.nsPrefix)).map (·.2)) x := by
  unfold toXml at h
  simp only [bind, Except.bind, pure, Except.pure] at h
  generalize (d.nsmap.find? (·.1 == d.nsPrefix)).map (·.2) = u at h ⊢
  cases hd : d.date with
  | none => simp [hd, throw, throwThe, MonadExceptOf.throw] at h
  | some date =>
    simp only [hd] at h
    by_cases hde : date.isEmpty = true
    · simp [hde, throw, throwThe, MonadExceptOf.throw] at h
    simp only [hde, Bool.false_eq_true, if_false] at h
    cases ht : d.ptypes.mapM (fun kv => writeParameterType u kv.2) with
    | error e => simp [ht] at h
    | ok ts =>
      simp only [ht] at h
      cases hc : d.containers.mapM (fun kv => writeContainer u kv.2) with
      | error e => simp [hc] at h
      | ok cs =>
        simp only [hc] at h; injection h with h; subst h
        have hts : AllInNsList u ts :=
          allInNsList_of_mapM u _ _ _ (fun kv _ y hy => ptype_in_namespace u kv.2 y hy) ht
        have hcs : AllInNsList u cs :=
          allInNsList_of_mapM u _ _ _ (fun kv _ y hy => container_in_namespace u kv.2 y hy) hc
        have hps : AllInNsList u (d.params.map (fun kv => writeParameter u kv.2)) :=
          allInNsList_map u _ _ (fun kv _ => parameter_in_namespace u kv.2)
        exact node_in_namespace u _ _ _ _ ⟨leaf_in_namespace u _ _ _,
          node_in_namespace u _ _ _ _ ⟨node_in_namespace u _ _ _ _ hts, node_in_namespace u _ _ _ _ hps,
            node_in_namespace u _ _ _ _ hcs, trivial⟩, trivial⟩

end Spp.C15
