/-
C19 — CLI listings show each packet once, in order, and never hang or crash.
(The rendering by click/rich is outside the model; termination on every file is C10.)
-/
import Spp.Model.Cli
namespace Spp.C19
open Spp

/-- At most ten packets: every packet exactly once, in order, no ellipsis. -/
theorem rows_small {α} (packets : List α) (h : packets.length ≤ 10) :
    describeRows packets = packets.map some := by
  unfold describeRows
  have : ¬ packets.length > MAX_ROWS := by unfold MAX_ROWS; omega
  simp [this]

/-- More than ten packets: the first five, one ellipsis row, the last five. -/
theorem rows_large {α} (packets : List α) (h : packets.length > 10) :
    describeRows packets = (packets.take 5).map some ++ [none] ++ (packets.drop (packets.length - 5)).map some := by
  unfold describeRows
  have : packets.length > MAX_ROWS := by unfold MAX_ROWS; omega
  simp [this, HEAD_ROWS, lastK]

/-- In the elided listing no packet is shown twice: head and tail do not overlap, and there are exactly 11 rows. -/
theorem rows_large_count {α} (packets : List α) (h : packets.length > 10) :
    (describeRows packets).length = 11 ∧ 5 ≤ packets.length - 5 := by
  rw [rows_large packets h]
  simp; omega

/-- No packet is ever listed twice (rows are an order-preserving sub-list of the packets, position by position). -/
theorem rows_are_sublist {α} (packets : List α) :
    ((describeRows packets).filterMap id).Sublist packets := by
  by_cases h : packets.length ≤ 10
  · rw [rows_small packets h]
    simp [List.filterMap_map]
  · have h' : packets.length > 10 := by omega
    rw [rows_large packets h']
    simp only [List.filterMap_append, List.filterMap_map, List.append_assoc]
    have e : ∀ l : List α, l.filterMap (id ∘ some) = l := by
      intro l; induction l <;> simp_all
    simp only [e, List.filterMap_cons_none, List.filterMap_nil, List.nil_append]
    have hsplit : packets = packets.take 5 ++ (packets.drop 5) := (List.take_append_drop 5 packets).symm
    conv => rhs; rw [hsplit]
    apply List.Sublist.append (List.Sublist.refl _)
    have : packets.drop (packets.length - 5) = (packets.drop 5).drop (packets.length - 10) := by
      rw [List.drop_drop]; congr 1; omega
    rw [this]
    exact List.drop_sublist _ _

/-- Exactly which packets the elided listing shows, and in which order: the first five followed by the last five. -/
theorem rows_large_shown {α} (packets : List α) (h : packets.length > 10) :
    (describeRows packets).filterMap id = packets.take 5 ++ packets.drop (packets.length - 5) := by
  rw [rows_large packets h]
  have e : ∀ l : List α, l.filterMap (id ∘ some) = l := by
    intro l; induction l <;> simp_all
  simp only [List.filterMap_append, List.filterMap_map, e]
  simp

/-- `parse --packet i`: the packet at that index for every valid index, the out-of-range message otherwise. -/
theorem index_valid {α} (packets : List α) (i : Nat) (h : i < packets.length) :
    selectPacket packets (i : Int) = packets[i]? ∧ packets[i]?.isSome := by
  unfold selectPacket
  rw [if_neg (by omega)]
  simp [h]

theorem index_out_of_range {α} (packets : List α) (i : Int) (h : i < 0 ∨ i ≥ packets.length) :
    selectPacket packets i = none := by
  unfold selectPacket
  rw [if_pos h]

example : describeRows [0, 1, 2] = [some 0, some 1, some 2] := by decide
example : describeRows (List.range 12) =
    [some 0, some 1, some 2, some 3, some 4, none, some 7, some 8, some 9, some 10, some 11] := by decide

end Spp.C19
