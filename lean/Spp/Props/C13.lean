/-
C13 — Primary-header construction and header accessors are exact inverses.
-/
import Spp.Lemmas.Header
import Spp.Lemmas.Frame
namespace Spp.C13
open Spp

/-- In-range header fields as natural numbers. -/
structure Fields where
  ver : Nat
  typ : Nat
  shf : Nat
  apid : Nat
  sf : Nat
  sc : Nat

def Fields.ok (f : Fields) : Prop :=
  f.ver ≤ 7 ∧ f.typ ≤ 1 ∧ f.shf ≤ 1 ∧ f.apid ≤ 2047 ∧ f.sf ≤ 3 ∧ f.sc ≤ 16383

def Fields.toHeader (f : Fields) : HeaderFields :=
  ⟨f.ver, f.typ, f.shf, f.apid, f.sf, f.sc⟩

/-- The 48-bit CCSDS header word as a number. -/
def Fields.word (f : Fields) (dataLen : Nat) : Nat :=
  f.ver * 2^45 + f.typ * 2^44 + f.shf * 2^43 + f.apid * 2^32 + f.sf * 2^30 + f.sc * 2^16 + (dataLen - 1)

theorem word_lt (f : Fields) (L : Nat) (hf : f.ok) (hL : 1 ≤ L ∧ L ≤ 65536) : f.word L < 2^48 := by
  obtain ⟨h1, h2, h3, h4, h5, h6⟩ := hf
  unfold Fields.word; omega

theorem create_eq (f : Fields) (data : Bytes) (hf : f.ok) (hd : 1 ≤ data.length ∧ data.length ≤ 65536) :
    createPacket f.toHeader data = some (toBytesBE 6 (f.word data.length) ++ data) := by
  obtain ⟨h1, h2, h3, h4, h5, h6⟩ := hf
  unfold createPacket
  have e1 : ¬ (f.toHeader.ver < 0 ∨ f.toHeader.ver > 7) := by simp only [Fields.toHeader]; omega
  have e2 : ¬ (f.toHeader.typ < 0 ∨ f.toHeader.typ > 1) := by simp only [Fields.toHeader]; omega
  have e3 : ¬ (f.toHeader.shf < 0 ∨ f.toHeader.shf > 1) := by simp only [Fields.toHeader]; omega
  have e4 : ¬ (f.toHeader.apid < 0 ∨ f.toHeader.apid > 2047) := by simp only [Fields.toHeader]; omega
  have e5 : ¬ (f.toHeader.sf < 0 ∨ f.toHeader.sf > 3) := by simp only [Fields.toHeader]; omega
  have e6 : ¬ (f.toHeader.sc < 0 ∨ f.toHeader.sc > 16383) := by simp only [Fields.toHeader]; omega
  rw [if_neg e1, if_neg e2, if_neg e3, if_neg e4, if_neg e5, if_neg e6, if_neg (by omega)]
  unfold HEADER_LENGTH_BYTES
  congr 3
  unfold headerWord Fields.word Fields.toHeader
  simp only [Int.toNat_natCast]
  exact headerWord_sum f.ver f.typ f.shf f.apid f.sf f.sc (data.length - 1) (by omega) (by omega) (by omega) (by omega) (by omega) (by omega)

/-- Construction lays the fields out at the CCSDS bit positions, followed by the data, and every header
    accessor returns exactly the value given; the length accessor is the data length minus one. -/
theorem accessors_create (f : Fields) (data : Bytes) (hf : f.ok) (hd : 1 ≤ data.length ∧ data.length ≤ 65536) :
    ∃ pkt, createPacket f.toHeader data = some pkt ∧
      pkt.length = 6 + data.length ∧ pkt.drop 6 = data ∧
      (headerValues pkt).ver = .ok f.ver ∧ (headerValues pkt).typ = .ok f.typ ∧
      (headerValues pkt).shf = .ok f.shf ∧ (headerValues pkt).apid = .ok f.apid ∧
      (headerValues pkt).sf = .ok f.sf ∧ (headerValues pkt).sc = .ok f.sc ∧
      (headerValues pkt).dataLength = (data.length : Int) - 1 ∧
      extractBits pkt 32 16 = .ok (data.length - 1) := by
  have hw := word_lt f data.length hf hd
  have hl : (toBytesBE 6 (f.word data.length)).length = 6 := toBytesBE_length _ _
  refine ⟨_, create_eq f data hf hd, by simp [hl], ?_, ?_⟩
  · rw [List.drop_append_of_le_length (by omega)]
    have := List.drop_length (l := toBytesBE 6 (f.word data.length))
    rw [hl] at this; rw [this]; rfl
  · obtain ⟨h1, h2, h3, h4, h5, h6⟩ := hf
    simp only [headerValues]
    rw [extractBits_header _ _ 0 3 hw (by omega), extractBits_header _ _ 3 1 hw (by omega),
        extractBits_header _ _ 4 1 hw (by omega), extractBits_header _ _ 5 11 hw (by omega),
        extractBits_header _ _ 16 2 hw (by omega), extractBits_header _ _ 18 14 hw (by omega),
        extractBits_header _ _ 32 16 hw (by omega)]
    have hdl : ((toBytesBE 6 (f.word data.length) ++ data).length : Int) - HEADER_LENGTH_BYTES - 1
        = (data.length : Int) - 1 := by
      simp [hl, HEADER_LENGTH_BYTES]; omega
    rw [hdl]
    unfold Fields.word
    refine ⟨?_, ?_, ?_, ?_, ?_, ?_, rfl, ?_⟩
    · congr 1; omega
    · congr 1; omega
    · congr 1; omega
    · congr 1; omega
    · congr 1; omega
    · congr 1; omega
    · congr 1; omega

/-- The same statement in Spec vocabulary: the bits of the packet at the CCSDS positions are the fields. -/
theorem layout (f : Fields) (data : Bytes) (hf : f.ok) (hd : 1 ≤ data.length ∧ data.length ≤ 65536) :
    ∃ pkt, createPacket f.toHeader data = some pkt ∧ pkt.drop 6 = data ∧
      fieldVal pkt 0 3 = f.ver ∧ fieldVal pkt 3 1 = f.typ ∧ fieldVal pkt 4 1 = f.shf ∧
      fieldVal pkt 5 11 = f.apid ∧ fieldVal pkt 16 2 = f.sf ∧ fieldVal pkt 18 14 = f.sc ∧
      fieldVal pkt 32 16 = data.length - 1 := by
  obtain ⟨pkt, h0, hlen, hdrop, a1, a2, a3, a4, a5, a6, _, a7⟩ := accessors_create f data hf hd
  simp only [headerValues] at a1 a2 a3 a4 a5 a6
  have hb : ∀ o w, o + w ≤ 48 → o + w ≤ 8 * pkt.length := by intro o w h; omega
  rw [extractBits_spec pkt _ _ (hb _ _ (by omega))] at a1 a2 a3 a4 a5 a6 a7
  injection a1 with a1; injection a2 with a2; injection a3 with a3; injection a4 with a4
  injection a5 with a5; injection a6 with a6; injection a7 with a7
  exact ⟨pkt, h0, hdrop, a1, a2, a3, a4, a5, a6, a7⟩

/-- Conversely: for every packet of at least six bytes the accessors return the fields the CCSDS layout
    defines for its first six bytes. -/
theorem accessors_spec (pkt : Bytes) (h : 6 ≤ pkt.length) :
    (headerValues pkt).ver = .ok (fieldVal pkt 0 3) ∧ (headerValues pkt).typ = .ok (fieldVal pkt 3 1) ∧
    (headerValues pkt).shf = .ok (fieldVal pkt 4 1) ∧ (headerValues pkt).apid = .ok (fieldVal pkt 5 11) ∧
    (headerValues pkt).sf = .ok (fieldVal pkt 16 2) ∧ (headerValues pkt).sc = .ok (fieldVal pkt 18 14) ∧
    (headerValues pkt).dataLength = (pkt.length : Int) - 7 := by
  simp only [headerValues]
  refine ⟨extractBits_spec _ _ _ (by omega), extractBits_spec _ _ _ (by omega), extractBits_spec _ _ _ (by omega),
    extractBits_spec _ _ _ (by omega), extractBits_spec _ _ _ (by omega), extractBits_spec _ _ _ (by omega), ?_⟩
  simp [HEADER_LENGTH_BYTES]; omega

/-- Out-of-range field values and empty or oversized data are rejected; nothing is constructed. -/
theorem rejects (h : HeaderFields) (data : Bytes)
    (hbad : h.ver < 0 ∨ h.ver > 7 ∨ h.typ < 0 ∨ h.typ > 1 ∨ h.shf < 0 ∨ h.shf > 1 ∨ h.apid < 0 ∨ h.apid > 2047 ∨
            h.sf < 0 ∨ h.sf > 3 ∨ h.sc < 0 ∨ h.sc > 16383 ∨ data.length = 0 ∨ data.length > 65536) :
    createPacket h data = none := by
  unfold createPacket
  repeat' split
  all_goals first | rfl | omega

/-- A constructed packet is well-formed for the framer: its length is what its length field declares. -/
theorem created_wf (f : Fields) (data pkt : Bytes) (hf : f.ok) (hd : 1 ≤ data.length ∧ data.length ≤ 65536)
    (h : createPacket f.toHeader data = some pkt) : wfPkt pkt := by
  obtain ⟨pkt', h0, hlen, _, _, _, _, _, _, _, _, a7⟩ := accessors_create f data hf hd
  rw [h] at h0; injection h0 with h0; subst h0
  unfold wfPkt be16
  have : extractBits pkt 32 16 = .ok (fromBytesBE (slice pkt 4 6)) := by
    unfold extractBits; simp
  rw [this] at a7
  injection a7 with a7
  unfold slice at a7
  have e : ((pkt.take 6).drop 4).take 2 = (pkt.drop 4).take 2 := by
    rw [List.drop_take]; simp [List.take_take]
  rw [e, a7]; omega

/-- The framer re-frames a constructed packet as that single packet, whatever the source kind and chunking. -/
theorem reframe (f : Fields) (data pkt : Bytes) (hf : f.ok) (hd : 1 ≤ data.length ∧ data.length ≤ 65536)
    (h : createPacket f.toHeader data = some pkt) (trim : Nat) (chunks : List Bytes)
    (hne : ∀ c ∈ chunks, c ≠ []) (hcat : chunks.flatten = pkt) :
    frame ⟨0, trim⟩ (initBytes pkt) = [pkt] ∧
    frame ⟨0, trim⟩ (initFile chunks pkt.length) = [pkt] ∧
    frame ⟨0, trim⟩ (initSocket chunks) = [pkt] := by
  have hwf := created_wf f data pkt hf hd h
  have key : ∀ st : FrameSt, (∀ c ∈ st.src, c ≠ []) → st.pos ≤ st.buf.length →
      st.buf.drop st.pos ++ st.src.flatten = pkt →
      (∀ T, st.total = some T → st.parsed + pkt.length = T) → frame ⟨0, trim⟩ st = [pkt] := by
    intro st h1 h2 h3 h4
    have := frame_exact ⟨0, trim⟩ [([], pkt)] (by simp [hwf]) st h1 h2 (by simp [encode, h3])
      (by simpa [encode] using h4)
    simpa using this
  refine ⟨key _ (by simp [initBytes]) (by simp [initBytes]) (by simp [initBytes]) (by simp [initBytes]),
    key _ (by simpa [initFile] using hne) (by simp [initFile]) (by simp [initFile, hcat]) (by simp [initFile]),
    key _ (by simpa [initSocket] using hne) (by simp [initSocket]) (by simp [initSocket, hcat]) (by simp [initSocket])⟩

/-- … and with any declared number of foreign prefix bytes before it. -/
theorem reframe_with_prefix (f : Fields) (data pkt pre : Bytes) (hf : f.ok) (hd : 1 ≤ data.length ∧ data.length ≤ 65536)
    (h : createPacket f.toHeader data = some pkt) (trim : Nat) (chunks : List Bytes)
    (hne : ∀ c ∈ chunks, c ≠ []) (hcat : chunks.flatten = pre ++ pkt) :
    frame ⟨pre.length, trim⟩ (initBytes (pre ++ pkt)) = [pkt] ∧
    frame ⟨pre.length, trim⟩ (initFile chunks (pre ++ pkt).length) = [pkt] ∧
    frame ⟨pre.length, trim⟩ (initSocket chunks) = [pkt] := by
  have hwf := created_wf f data pkt hf hd h
  have key : ∀ st : FrameSt, (∀ c ∈ st.src, c ≠ []) → st.pos ≤ st.buf.length →
      st.buf.drop st.pos ++ st.src.flatten = pre ++ pkt →
      (∀ T, st.total = some T → st.parsed + (pre ++ pkt).length = T) → frame ⟨pre.length, trim⟩ st = [pkt] := by
    intro st h1 h2 h3 h4
    have := frame_exact ⟨pre.length, trim⟩ [(pre, pkt)] (by simp [hwf]) st h1 h2 (by simp [encode, h3])
      (by simpa [encode] using h4)
    simpa using this
  refine ⟨key _ (by simp [initBytes]) (by simp [initBytes]) (by simp [initBytes]) (by simp [initBytes]),
    key _ (by simpa [initFile] using hne) (by simp [initFile]) (by simp [initFile, hcat]) (by simp [initFile]),
    key _ (by simpa [initSocket] using hne) (by simp [initSocket]) (by simp [initSocket, hcat]) (by simp [initSocket])⟩

/-- Non-vacuity: a concrete in-range header. -/
example : (⟨0, 0, 1, 2047, 3, 16383⟩ : Fields).ok := by simp [Fields.ok]
example : createPacket ⟨0, 0, 1, 2047, 3, 16383⟩ [0xAB] = some [0x0F, 0xFF, 0xFF, 0xFF, 0x00, 0x00, 0xAB] := by rfl

end Spp.C13
