import Spp.Props.C09Definition
import Spp.Lemmas.DecEq
namespace Spp.C09
open Spp C17

/-! ## A computable, proved-sound membership test for the regime `DefWF`

`inRegime d = true → DefWF d` (`inRegime_sound`), so for every definition the test accepts, `definition_roundtrip`
applies.  The test is run by the driver on the definitions the correspondence check generates — which is how a run's
evidence can say how much of what it exercised lies inside the theorem. Only soundness is proved: a definition the test
rejects may still be in the regime. -/

def condWFb (c : Condition) : Bool :=
  (lookupOp c.op).isSome &&
  (match c.rightParam, c.rightValue with
   | some rp, none => rp != ""
   | none, some _ => !c.rightCal
   | _, _ => false)

theorem condWFb_sound (c : Condition) (h : condWFb c = true) : CondWF c := by
  unfold condWFb at h
  simp only [Bool.and_eq_true] at h
  refine ⟨h.1, ?_⟩
  have h2 := h.2
  split at h2
  · rename_i rp hp hv
    exact Or.inl ⟨rp, hp, by simpa using h2, hv⟩
  · rename_i v hp hv
    exact Or.inr ⟨hp, ⟨v, hv⟩, by simpa using h2⟩
  · cases h2

mutual
def andedWFb : Anded → Bool
  | .mk conds ors => conds.all condWFb && oredsWFb ors
def oredsWFb : List Ored → Bool
  | [] => true
  | o :: os => oredWFb o && oredsWFb os
def oredWFb : Ored → Bool
  | .mk conds ands => conds.all condWFb && andedsWFb ands
def andedsWFb : List Anded → Bool
  | [] => true
  | a :: as => andedWFb a && andedsWFb as
end

mutual
theorem andedWFb_sound : ∀ a, andedWFb a = true → andedWF a
  | .mk conds ors => by
    intro h
    simp only [andedWFb, Bool.and_eq_true, List.all_eq_true] at h
    exact ⟨fun c hc => condWFb_sound c (h.1 c hc), oredsWFb_sound ors h.2⟩
theorem oredsWFb_sound : ∀ os, oredsWFb os = true → oredsWF os
  | [] => fun _ => trivial
  | o :: os => by
    intro h
    simp only [oredsWFb, Bool.and_eq_true] at h
    exact ⟨oredWFb_sound o h.1, oredsWFb_sound os h.2⟩
theorem oredWFb_sound : ∀ o, oredWFb o = true → oredWF o
  | .mk conds ands => by
    intro h
    simp only [oredWFb, Bool.and_eq_true, List.all_eq_true] at h
    exact ⟨fun c hc => condWFb_sound c (h.1 c hc), andedsWFb_sound ands h.2⟩
theorem andedsWFb_sound : ∀ as, andedsWFb as = true → andedsWF as
  | [] => fun _ => trivial
  | a :: as => by
    intro h
    simp only [andedsWFb, Bool.and_eq_true] at h
    exact ⟨andedWFb_sound a h.1, andedsWFb_sound as h.2⟩
end

def boolWFb : BoolExpr → Bool
  | .cond c => condWFb c
  | .anded a => andedWFb a && decide (andedDepth a ≤ FUEL)
  | .ored o => oredWFb o && decide (oredDepth o ≤ FUEL)

theorem boolWFb_sound (e : BoolExpr) (h : boolWFb e = true) : BoolWF e := by
  cases e with
  | cond c => exact condWFb_sound c h
  | anded a =>
    simp only [boolWFb, Bool.and_eq_true, decide_eq_true_eq] at h
    exact ⟨andedWFb_sound a h.1, h.2⟩
  | ored o =>
    simp only [boolWFb, Bool.and_eq_true, decide_eq_true_eq] at h
    exact ⟨oredWFb_sound o h.1, h.2⟩

/-- The comparisons of a criteria list that consists of comparisons only. -/
def asComparisons : List Criterion → Option (List Comparison)
  | [] => some []
  | .comparison c :: rest => (asComparisons rest).map (c :: ·)
  | .boolExpr _ :: _ => none

theorem asComparisons_spec : ∀ (crit : List Criterion) (cmps : List Comparison),
    asComparisons crit = some cmps → crit = cmps.map Criterion.comparison
  | [], cmps, h => by simp only [asComparisons] at h; injection h with h; subst h; rfl
  | .comparison c :: rest, cmps, h => by
    simp only [asComparisons] at h
    cases hr : asComparisons rest with
    | none => simp [hr] at h
    | some cs =>
      simp only [hr, Option.map_some] at h
      injection h with h; subst h
      simp [asComparisons_spec rest cs hr]
  | .boolExpr _ :: _, cmps, h => by simp [asComparisons] at h

def critOKb (crit : List Criterion) : Bool :=
  (match asComparisons crit with
   | some cmps => !cmps.isEmpty && cmps.all (fun c => (lookupOp c.op).isSome)
   | none => false) ||
  (match crit with
   | [.boolExpr e] => boolWFb e
   | _ => false)

theorem critOKb_sound (crit : List Criterion) (h : critOKb crit = true) : CritOK crit := by
  unfold critOKb at h
  rw [Bool.or_eq_true] at h
  rcases h with h | h
  · split at h
    · rename_i cmps hc
      simp only [Bool.and_eq_true, Bool.not_eq_true', List.all_eq_true] at h
      refine Or.inl ⟨cmps, asComparisons_spec crit cmps hc, ?_, h.2⟩
      intro e; rw [e] at h; simp at h
    · cases h
  · split at h
    · rename_i e
      exact Or.inr ⟨e, rfl, boolWFb_sound e h⟩
    · cases h

def strictSortedb : List SplinePoint → Bool
  | [] => true
  | [_] => true
  | a :: b :: rest => decide (a.raw < b.raw) && strictSortedb (b :: rest)

theorem strictSortedb_sound : ∀ l, strictSortedb l = true → StrictSorted l
  | [], _ => trivial
  | [_], _ => trivial
  | a :: b :: rest, h => by
    simp only [strictSortedb, Bool.and_eq_true, decide_eq_true_eq] at h
    exact ⟨h.1, strictSortedb_sound (b :: rest) h.2⟩

def calWFb : Calibrator → Bool
  | .spline s => strictSortedb s.points && decide (s.order ≤ 1)
  | .poly ts => ts.all (fun t => !t.isInt)

theorem calWFb_sound (c : Calibrator) (h : calWFb c = true) : CalWF c := by
  cases c with
  | spline s =>
    simp only [calWFb, Bool.and_eq_true, decide_eq_true_eq] at h
    exact ⟨strictSortedb_sound _ h.1, h.2⟩
  | poly ts =>
    simp only [calWFb, List.all_eq_true, Bool.not_eq_true'] at h
    exact h

def calibsWFb (c : Calibs) : Bool :=
  (match c.default with | some d => calWFb d | none => true) &&
  c.contexts.all (fun x => critOKb x.criteria && calWFb x.calibrator)

theorem calibsWFb_sound (c : Calibs) (h : calibsWFb c = true) : CalibsWF c := by
  simp only [calibsWFb, Bool.and_eq_true, List.all_eq_true] at h
  refine ⟨?_, fun x hx => ⟨critOKb_sound _ (h.2 x hx).1, calWFb_sound _ (h.2 x hx).2⟩⟩
  intro d hd
  have h1 := h.1
  rw [hd] at h1
  exact calWFb_sound d h1

def floatValidb (e : NumEnc) : Bool :=
  decide ((e.encoding = "MILSTD_1750A" ∧ e.size = 32) ∨
    ((e.encoding = "IEEE754" ∨ e.encoding = "IEEE754_1985") ∧ (e.size = 16 ∨ e.size = 32 ∨ e.size = 64)))

def lookupEntryOKb (d : DiscreteLookup) : Bool :=
  (match d.value with | .flt (.fin _) => true | _ => false) && !d.criteria.isEmpty &&
  d.criteria.all (fun c => (lookupOp c.op).isSome)

theorem lookupEntryOKb_sound (d : DiscreteLookup) (h : lookupEntryOKb d = true) :
    (∃ q, d.value = .flt (.fin q)) ∧ d.criteria ≠ [] ∧ ∀ c ∈ d.criteria, (lookupOp c.op).isSome = true := by
  simp only [lookupEntryOKb, Bool.and_eq_true, Bool.not_eq_true', List.all_eq_true] at h
  obtain ⟨⟨h1, h2⟩, h3⟩ := h
  refine ⟨?_, ?_, h3⟩
  · split at h1
    · rename_i q hq; exact ⟨q, hq⟩
    · cases h1
  · intro e; rw [e] at h2; simp at h2

def binWFb (e : BinEnc) : Bool :=
  match e.fixedSize, e.sizeRef, e.lookup with
  | some _, none, none => e.useCal && e.adjuster.isNone
  | none, some r, none => r != ""
  | none, none, some l => !l.isEmpty && l.all lookupEntryOKb && e.useCal && e.adjuster.isNone
  | _, _, _ => false

theorem binWFb_sound (e : BinEnc) (h : binWFb e = true) : BinWF e := by
  obtain ⟨fs, sr, uc, lk, adj⟩ := e
  unfold binWFb at h
  simp only at h
  split at h
  · rename_i _ _ _ n
    simp only [Bool.and_eq_true, bne_iff_ne, ne_eq, Option.isNone_iff_eq_none] at h
    obtain ⟨rfl, rfl⟩ := h
    exact BinWF.fixed n
  · rename_i _ _ _ r
    exact BinWF.dynamic r (by simpa using h) uc adj
  · rename_i _ _ _ l
    simp only [Bool.and_eq_true, Bool.not_eq_true', List.all_eq_true, Option.isNone_iff_eq_none] at h
    obtain ⟨⟨⟨hl, hall⟩, rfl⟩, rfl⟩ := h
    exact BinWF.lookup l (by intro e; rw [e] at hl; simp at hl) (fun d hd => lookupEntryOKb_sound d (hall d hd))
  · cases h

def codecOKb (enc : String) (bo : Option String) : Bool :=
  match bo with
  | none => singleByteEncodings.contains enc
  | some b =>
    ((enc == "UTF-16" || enc == "UTF-32") && (b == "leastSignificantByteFirst" || b == "mostSignificantByteFirst")) ||
    ((enc == "UTF-16LE" || enc == "UTF-32LE") && b == "leastSignificantByteFirst") ||
    ((enc == "UTF-16BE" || enc == "UTF-32BE") && b == "mostSignificantByteFirst")

theorem codecOKb_sound (enc : String) (bo : Option String) (h : codecOKb enc bo = true) : CodecOK enc bo := by
  unfold codecOKb at h
  cases bo with
  | none => exact CodecOK.single enc (by simpa using h)
  | some b =>
    simp only [Bool.or_eq_true, Bool.and_eq_true, beq_iff_eq] at h
    rcases h with (⟨rfl | rfl, hb⟩ | ⟨rfl | rfl, rfl⟩) | ⟨rfl | rfl, rfl⟩
    · exact CodecOK.bare16 b hb
    · exact CodecOK.bare32 b hb
    · exact CodecOK.le16
    · exact CodecOK.le32
    · exact CodecOK.be16
    · exact CodecOK.be32

def termOKb (codec : String) (t : Bytes) : Bool :=
  !t.isEmpty && (match decodeText codec t with | some s => s.length == 1 | none => false)

theorem termOKb_sound (codec : String) (t : Bytes) (h : termOKb codec t = true) : TermOK codec t := by
  simp only [termOKb, Bool.and_eq_true, Bool.not_eq_true'] at h
  refine ⟨by intro e; rw [e] at h; simp at h, ?_⟩
  have h2 := h.2
  split at h2
  · rename_i s hs; exact ⟨s, hs, by simpa using h2⟩
  · cases h2

def strWFb (e : StrEnc) : Bool :=
  codecOKb e.encoding e.byteOrder &&
  (match e.fixedLength, e.dynRef, e.lookup with
   | some n, none, none => n != 0 && e.useCal && e.adjuster.isNone
   | none, some r, none => r != ""
   | none, none, some l => !l.isEmpty && l.all lookupEntryOKb && e.useCal && e.adjuster.isNone
   | _, _, _ => false) &&
  (match e.termChar, e.leadingSize with
   | none, lead => lead != some 0
   | some t, none => termOKb (codecOf e.encoding e.byteOrder) t
   | some _, some _ => false)

theorem strWFb_sound (e : StrEnc) (h : strWFb e = true) : StrWF e := by
  simp only [strWFb, Bool.and_eq_true] at h
  obtain ⟨⟨hc, hs⟩, ht⟩ := h
  refine ⟨codecOKb_sound _ _ hc, ?_, ?_⟩
  · split at hs
    · rename_i n h1 h2 h3
      simp only [Bool.and_eq_true, bne_iff_ne, ne_eq, Option.isNone_iff_eq_none] at hs
      exact Or.inl ⟨n, hs.1.1, h1, h2, h3, hs.1.2, hs.2⟩
    · rename_i r h1 h2 h3
      exact Or.inr (Or.inl ⟨r, by simpa using hs, h1, h2, h3⟩)
    · rename_i l h1 h2 h3
      simp only [Bool.and_eq_true, Bool.not_eq_true', List.all_eq_true, Option.isNone_iff_eq_none] at hs
      obtain ⟨⟨⟨hl, hall⟩, huc⟩, hadj⟩ := hs
      exact Or.inr (Or.inr ⟨l, by intro e'; rw [e'] at hl; simp at hl,
        fun d hd => lookupEntryOKb_sound d (hall d hd), h1, h2, h3, huc, hadj⟩)
    · cases hs
  · split at ht
    · rename_i lead h1
      exact Or.inl ⟨h1, by simpa using ht⟩
    · rename_i t h1 h2
      exact Or.inr ⟨t, h1, termOKb_sound _ _ ht, h2⟩
    · cases ht

def encWFb : Encoding → Bool
  | .num e => calibsWFb e.cals && (!e.isFloat || floatValidb e)
  | .str e => strWFb e
  | .bin e => binWFb e

theorem encWFb_sound (enc : Encoding) (h : encWFb enc = true) : EncWF enc := by
  cases enc with
  | num e =>
    simp only [encWFb, Bool.and_eq_true, Bool.or_eq_true, Bool.not_eq_true'] at h
    refine ⟨calibsWFb_sound _ h.1, fun hf => ?_⟩
    rcases h.2 with h2 | h2
    · rw [hf] at h2; cases h2
    · unfold FloatValid; exact of_decide_eq_true h2
  | str e => exact strWFb_sound e h
  | bin e => exact binWFb_sound e h

def keyOKb (enc : Encoding) (k : PyVal) : Bool :=
  match enc, k with
  | .num ne, .int _ => !ne.isFloat
  | .num ne, .flt (.fin _) => ne.isFloat
  | .str e, .bytes b =>
    (match decodeText e.codec b with
     | some s => s.toList.all (fun c => c.toNat < 128) && encodeAsciiText e.codec s == some b
     | none => false)
  | _, _ => false

theorem keyOKb_sound (enc : Encoding) (k : PyVal) (h : keyOKb enc k = true) : KeyOK enc k := by
  unfold keyOKb at h
  split at h
  · rename_i ne i; exact KeyOK.int ne (by simpa using h) i
  · rename_i ne q; exact KeyOK.flt ne h q
  · rename_i e b
    split at h
    · rename_i s hs
      simp only [Bool.and_eq_true, beq_iff_eq] at h
      exact KeyOK.str e b s hs h.1 h.2
    · cases h
  · cases h

def pairwiseNeb : List (PyVal × String) → Bool
  | [] => true
  | a :: rest => rest.all (fun b => !pyEq a.1 b.1) && pairwiseNeb rest

theorem pairwiseNeb_sound : ∀ l, pairwiseNeb l = true → l.Pairwise (fun a b => pyEq a.1 b.1 = false)
  | [], _ => List.Pairwise.nil
  | a :: rest, h => by
    simp only [pairwiseNeb, Bool.and_eq_true, List.all_eq_true, Bool.not_eq_true'] at h
    exact List.Pairwise.cons h.1 (pairwiseNeb_sound rest h.2)

def isNumEnc : Encoding → Bool | .num _ => true | _ => false
def isStrEnc : Encoding → Bool | .str _ => true | _ => false
def isBinEnc : Encoding → Bool | .bin _ => true | _ => false

def plainWFb (t : LPType) : Bool :=
  PLAIN_TAGS.contains t.tag && t.unit != some "" && encWFb t.enc &&
  (t.tag != "StringParameterType" || isStrEnc t.enc) && (t.tag != "BinaryParameterType" || isBinEnc t.enc) &&
  t.enumeration.isEmpty && t.epoch.isNone && t.offsetFrom.isNone

theorem plainWFb_sound (t : LPType) (h : plainWFb t = true) : PlainWF t := by
  simp only [plainWFb, Bool.and_eq_true, Bool.or_eq_true, bne_iff_ne, ne_eq, Option.isNone_iff_eq_none,
    List.isEmpty_iff] at h
  obtain ⟨⟨⟨⟨⟨⟨⟨h1, h2⟩, h3⟩, h4⟩, h5⟩, h6⟩, h7⟩, h8⟩ := h
  refine ⟨by simpa using h1, h2, encWFb_sound _ h3, ?_, ?_, h6, h7, h8⟩
  · intro ht
    rcases h4 with h4 | h4
    · exact absurd ht h4
    · cases he : t.enc with
      | str e => exact ⟨e, rfl⟩
      | num e => rw [he] at h4; cases h4
      | bin e => rw [he] at h4; cases h4
  · intro ht
    rcases h5 with h5 | h5
    · exact absurd ht h5
    · cases he : t.enc with
      | bin e => exact ⟨e, rfl⟩
      | num e => rw [he] at h5; cases h5
      | str e => rw [he] at h5; cases h5

def enumWFb (t : LPType) : Bool :=
  t.tag == "EnumeratedParameterType" && t.unit != some "" && encWFb t.enc && !isBinEnc t.enc &&
  t.enumeration.all (fun kv => keyOKb t.enc kv.1) && pairwiseNeb t.enumeration && t.epoch.isNone && t.offsetFrom.isNone

theorem enumWFb_sound (t : LPType) (h : enumWFb t = true) : EnumWF t := by
  simp only [enumWFb, Bool.and_eq_true, beq_iff_eq, bne_iff_ne, ne_eq, Option.isNone_iff_eq_none, List.all_eq_true,
    Bool.not_eq_true'] at h
  obtain ⟨⟨⟨⟨⟨⟨⟨h1, h2⟩, h3⟩, h4⟩, h5⟩, h6⟩, h7⟩, h8⟩ := h
  refine ⟨h1, h2, encWFb_sound _ h3, ?_, fun kv hkv => keyOKb_sound _ _ (h5 kv hkv), pairwiseNeb_sound _ h6, h7, h8⟩
  intro be hbe
  rw [hbe] at h4
  cases h4

def timeCalb : Option Calibrator → Bool
  | none => true
  | some (.poly cs) =>
    (match cs with
     | [c1] => (c1.exp == 1 && !c1.isInt) || !linearShape cs
     | [c0, c1] => (c0.exp == 0 && c1.exp == 1 && !c0.isInt && !c1.isInt) || !linearShape cs
     | _ => !linearShape cs)
  | some (.spline _) => true

theorem timeCalb_sound (d : Option Calibrator) (h : timeCalb d = true) : TimeCal d := by
  cases d with
  | none => exact TimeCal.none
  | some c =>
    cases c with
    | spline s => exact TimeCal.other (.spline s) trivial
    | poly cs =>
      by_cases hl : linearShape cs = true
      · simp only [timeCalb, hl, Bool.not_true, Bool.or_false] at h
        split at h
        · rename_i c1
          obtain ⟨coef, exp, isInt⟩ := c1
          simp only [Bool.and_eq_true, beq_iff_eq, Bool.not_eq_true'] at h
          obtain ⟨rfl, rfl⟩ := h
          exact TimeCal.scale coef
        · rename_i c0 c1
          obtain ⟨k0, e0, i0⟩ := c0
          obtain ⟨k1, e1, i1⟩ := c1
          simp only [Bool.and_eq_true, beq_iff_eq, Bool.not_eq_true'] at h
          obtain ⟨⟨⟨rfl, rfl⟩, rfl⟩, rfl⟩ := h
          exact TimeCal.both k0 k1
        · cases h
      · exact TimeCal.other (.poly cs) (by simpa using hl)

def timeWFb (t : LPType) : Bool :=
  (t.tag == "AbsoluteTimeParameterType" || t.tag == "RelativeTimeParameterType") && encWFb t.enc &&
  (match t.enc with | .num ne => timeCalb ne.cals.default | _ => true) &&
  t.enumeration.isEmpty && t.epoch != some "" && t.offsetFrom != some ""

theorem timeWFb_sound (t : LPType) (h : timeWFb t = true) : TimeWF t := by
  simp only [timeWFb, Bool.and_eq_true, Bool.or_eq_true, beq_iff_eq, bne_iff_ne, ne_eq, List.isEmpty_iff] at h
  obtain ⟨⟨⟨⟨⟨h1, h2⟩, h3⟩, h4⟩, h5⟩, h6⟩ := h
  cases he : t.enc with
  | num ne =>
    rw [he] at h3
    exact Or.inl ⟨h1, ⟨ne, he, by rw [← he]; exact encWFb_sound _ h2, timeCalb_sound _ h3⟩, h4, h5, h6⟩
  | str e =>
    exact Or.inr ⟨h1, (by intro ne hn; rw [he] at hn; cases hn), encWFb_sound _ h2, h4, h5, h6⟩
  | bin e =>
    exact Or.inr ⟨h1, (by intro ne hn; rw [he] at hn; cases hn), encWFb_sound _ h2, h4, h5, h6⟩

def ptypeWFb (t : LPType) : Bool := plainWFb t || enumWFb t || timeWFb t

theorem ptypeWFb_sound (t : LPType) (h : ptypeWFb t = true) : PTypeWF t := by
  simp only [ptypeWFb, Bool.or_eq_true] at h
  rcases h with (h | h) | h
  · exact Or.inl (plainWFb_sound t h)
  · exact Or.inr (Or.inl (enumWFb_sound t h))
  · exact Or.inr (Or.inr (timeWFb_sound t h))

def entryOKb (params : List (String × LParam)) (lk : CLookup) : LEntry → Bool
  | .param n => params.any (·.1 == n)
  | .cont n => lk.any (·.1 == n)

theorem entryOKb_sound (params : List (String × LParam)) (lk : CLookup) (e : LEntry)
    (h : entryOKb params lk e = true) : EntryOK params lk e := by
  cases e <;> exact h

def contWFb (params : List (String × LParam)) (lk : CLookup) (c : LContainer) : Bool :=
  c.longDesc != some "" &&
  (match c.base with
   | none => c.criteria.isEmpty
   | some b => b != "" && lk.any (·.1 == b) && (c.criteria.isEmpty || critOKb c.criteria)) &&
  c.entries.all (entryOKb params lk)

theorem contWFb_sound (params : List (String × LParam)) (lk : CLookup) (c : LContainer)
    (h : contWFb params lk c = true) : ContWF params lk c := by
  simp only [contWFb, Bool.and_eq_true, bne_iff_ne, ne_eq, List.all_eq_true] at h
  obtain ⟨⟨h1, h2⟩, h3⟩ := h
  refine ⟨h1, ?_, fun e he => entryOKb_sound params lk e (h3 e he)⟩
  split at h2
  · rename_i hb
    exact Or.inl ⟨hb, by simpa using h2⟩
  · rename_i b hb
    simp only [Bool.and_eq_true, Bool.or_eq_true, bne_iff_ne, ne_eq, List.isEmpty_iff] at h2
    obtain ⟨⟨hne, hin⟩, hcr⟩ := h2
    exact Or.inr ⟨b, hb, hne, hin, hcr.imp id (critOKb_sound _)⟩

def sortedFromb (params : List (String × LParam)) : CLookup → List (String × LContainer) → Bool
  | _, [] => true
  | lk, kv :: rest => kv.1 == kv.2.name && contWFb params lk kv.2 && !lk.any (·.1 == kv.1) &&
      sortedFromb params (lk ++ [(kv.1, eraseInh kv.2)]) rest

theorem sortedFromb_sound (params : List (String × LParam)) :
    ∀ (rest : List (String × LContainer)) (lk : CLookup), sortedFromb params lk rest = true → SortedFrom params lk rest
  | [], _, _ => trivial
  | kv :: rest, lk, h => by
    simp only [sortedFromb, Bool.and_eq_true, beq_iff_eq, Bool.not_eq_true'] at h
    obtain ⟨⟨⟨h1, h2⟩, h3⟩, h4⟩ := h
    exact ⟨h1, contWFb_sound params lk kv.2 h2, h3, sortedFromb_sound params rest _ h4⟩

instance (l : List (String × LPType)) : Decidable (UniqueKeys l) := by unfold UniqueKeys; infer_instance
instance (l : List (String × LParam)) : Decidable (UniqueKeys l) := by unfold UniqueKeys; infer_instance

/-- The computable membership test for the regime of the round-trip theorem. -/
def inRegime (d : LDef) : Bool :=
  (d.nsPrefix.isNone || d.nsmap.any (·.1 == d.nsPrefix)) &&
  d.spaceSystemName != some "" &&
  d.ptypes.all (fun kv => kv.1 == kv.2.name) &&
  decide (UniqueKeys d.ptypes) &&
  d.ptypes.all (fun kv => ptypeWFb kv.2) &&
  d.params.all (fun kv => kv.1 == kv.2.name) &&
  decide (UniqueKeys d.params) &&
  d.params.all (fun kv => kv.2.longDesc != some "") &&
  d.params.all (fun kv => d.ptypes.any (·.1 == kv.2.typeName)) &&
  sortedFromb d.params [] d.containers &&
  d.containers.all (fun kv => kv.2.inheritors == basedOn d.containers kv.1) &&
  (match cachesOf d.ptypes d.params d.containers with
   | .ok r => decide (r = (d.ptypes, d.params, d.containers))
   | .error _ => false)


/-- **Soundness of the membership test.** -/
theorem inRegime_sound (d : LDef) (h : inRegime d = true) : DefWF d := by
  simp only [inRegime, Bool.and_eq_true, Bool.or_eq_true, Option.isNone_iff_eq_none, bne_iff_ne, ne_eq, List.all_eq_true,
    beq_iff_eq, decide_eq_true_eq] at h
  obtain ⟨⟨⟨⟨⟨⟨⟨⟨⟨⟨⟨h1, h2⟩, h3⟩, h4⟩, h5⟩, h6⟩, h7⟩, h8⟩, h9⟩, h10⟩, h11⟩, h12⟩ := h
  have hnormal : cachesOf d.ptypes d.params d.containers = .ok (d.ptypes, d.params, d.containers) := by
    split at h12
    · rename_i r hr
      rw [hr, of_decide_eq_true h12]
    · cases h12
  exact { ns := h1, ssn := h2, typeKeys := h3, typesUnique := h4,
          typesWF := fun kv hkv => ptypeWFb_sound _ (h5 kv hkv), paramKeys := h6, paramsUnique := h7,
          paramsWF := h8, paramTypes := h9, sorted := sortedFromb_sound _ _ _ h10, inheritors := h11, normal := hnormal }

/-- What a run's evidence relies on: a definition the test accepts is returned unchanged by write → load. -/
theorem inRegime_roundtrip (hV : FValRoundTrip) (d : LDef) (h : inRegime d = true) (x : XmlNode)
    (hw : toXml d = .ok x) : loadXtce ⟨d.nsPrefix, d.nsmap⟩ d.root x = .ok d :=
  definition_roundtrip_main hV d (inRegime_sound d h) x hw

/-- The test is not vacuous: it accepts the example definition. -/
example : inRegime exDef = true := by decide +kernel

end Spp.C09
