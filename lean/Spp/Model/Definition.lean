/-
Executable mirror of `containers.py` (`SequenceContainer.parse`), `parameters.py` (`Parameter.parse`) and
`definitions.py` (`parse_ccsds_packet`, `packet_generator`), after the `fix:` commits for the abstract
dead-end message (DESIGN.md §8-7) and the segmented-group reset (§8-9).
-/
import Spp.Model.Encodings
import Spp.Model.Packets
namespace Spp

mutual
inductive Entry
  | param (name : String) (ptype : PType)
  | cont (c : Container)
inductive Container
  | mk (name : String) (entries : List Entry) (base : Option String) (criteria : List Criterion)
       (abstract : Bool) (inheritors : List String)
end

def Container.name : Container → String | .mk n _ _ _ _ _ => n
def Container.entries : Container → List Entry | .mk _ e _ _ _ _ => e
def Container.base : Container → Option String | .mk _ _ b _ _ _ => b
def Container.criteria : Container → List Criterion | .mk _ _ _ c _ _ => c
def Container.abstract : Container → Bool | .mk _ _ _ _ a _ => a
def Container.inheritors : Container → List String | .mk _ _ _ _ _ i => i

mutual
/-- `Parameter.parse` / nested `SequenceContainer.parse`: entries in order, nested containers in place. -/
def Entry.parse : Entry → Pkt → Except Err Pkt
  | .param name pt, p => do
    let (v, raw') ← pt.parseValue p
    pure { raw := raw', items := p.items.set name v }
  | .cont c, p => Container.parseEntries c p
def Container.parseEntries : Container → Pkt → Except Err Pkt
  | .mk _ es _ _ _ _, p => parseList es p
def parseList : List Entry → Pkt → Except Err Pkt
  | [], p => .ok p
  | e :: es, p => do
    let p' ← e.parse p
    parseList es p'
end

structure Definition where
  containers : List (String × Container)     -- `self.containers`, insertion ordered
  root : String

def Definition.lookup (d : Definition) (n : String) : Option Container :=
  (d.containers.find? (·.1 == n)).map (·.2)

inductive ParseResult
  | ok (p : Pkt)
  | unrecognized (part : Pkt)     -- UnrecognizedPacketTypeError carrying the partial data
  | error (e : Err)

/-- `[n for n in current.inheritors if all(rc.evaluate(packet) for rc in containers[n].restriction_criteria)]` -/
def validInheritors (d : Definition) (items : Items) : List String → Except Err (List String)
  | [] => .ok []
  | n :: ns => do
    let c ← match d.lookup n with
      | some c => pure c
      | none => throw Err.other               -- KeyError
    let r ← allCriteria items none c.criteria
    let rest ← validInheritors d items ns
    pure (if r then n :: rest else rest)

/-- The `while True` loop of `parse_ccsds_packet`; `fuel` bounds the descent (acyclic inheritance needs at
    most one step per container). -/
def descend (d : Definition) : Nat → Container → Pkt → ParseResult
  | 0, _, _ => .error .unsupported
  | fuel + 1, cur, p =>
    match cur.parseEntries p with
    | .error e => .error e
    | .ok p' =>
      match validInheritors d p'.items cur.inheritors with
      | .error e => .error e
      | .ok [n] =>
        match d.lookup n with
        | some c => descend d fuel c p'
        | none => .error .other
      | .ok [] => if cur.abstract then .unrecognized p' else .ok p'
      | .ok _ => .unrecognized p'

/-- `XtcePacketDefinition.parse_ccsds_packet(packet, root_container_name=root)` on a fresh packet. -/
def parsePacket (d : Definition) (root : String) (data : Bytes) : ParseResult :=
  match d.lookup root with
  | none => .error .other
  | some c => descend d (d.containers.length + 1) c { raw := ⟨data, 0⟩, items := [] }

/-! ### the definition-level generator -/

structure GenOpts where
  parseBad : Bool := true
  headersOnly : Bool := false
  combine : Bool := false
  secHdrBytes : Nat := 0
  yieldUnrec : Bool := false

inductive Event
  | rawPacket (b : Bytes)             -- `ccsds_headers_only`
  | packet (p : Pkt)                  -- a parsed packet
  | unrec (part : Pkt)             -- yielded UnrecognizedPacketTypeError
  | warnNoStart                       -- "Continuation packet found without declaring the start"
  | warnSequence                      -- "... are not in sequence ..., skipping these packets"
  | warnLength                        -- "Number of bits parsed ... did not match ..."
  | raised (e : Err)                  -- an exception escaped the generator (it ends)

abbrev SegState := List (Nat × List Bytes)

def SegState.get (s : SegState) (a : Nat) : List Bytes := ((s.find? (·.1 == a)).map (·.2)).getD []
def SegState.erase (s : SegState) (a : Nat) : SegState := s.filter (·.1 != a)
def SegState.set (s : SegState) (a : Nat) (g : List Bytes) : SegState := (a, g) :: s.erase a

def apidOf (b : Bytes) : Nat := match extractBits b 5 11 with | .ok v => v | .error _ => 0
def seqFlags (b : Bytes) : Nat := match extractBits b 16 2 with | .ok v => v | .error _ => 0
def seqCount (b : Bytes) : Nat := match extractBits b 18 14 with | .ok v => v | .error _ => 0

/-- `all((c[i+1] - c[i]) % 16384 == 1 for i in range(len(c)-1))` -/
def consecutiveCounts : List Nat → Bool
  | a :: b :: rest => (((b : Int) - a) % 16384 == 1) && consecutiveCounts (b :: rest)
  | _ => true

/-- The first packet whole, then each later packet minus primary and secondary header. -/
def combineSegments (secHdr : Nat) : List Bytes → Bytes
  | [] => []
  | first :: later => first ++ (later.map (fun p => p.drop (HEADER_LENGTH_BYTES + secHdr))).flatten

/-- The segmentation `if/elif` chain for one raw packet: new per-APID state, `some parts` when a packet made of
    these raw packets is to be parsed now (`none` = `continue`), and the warnings issued. -/
def segStep (o : GenOpts) (seg : SegState) (b : Bytes) : SegState × Option (List Bytes) × List Event :=
  if !o.combine || seqFlags b == 3 then (seg, some [b], [])
  else if seqFlags b == 1 then (seg.set (apidOf b) [b], none, [])
  else if (seg.get (apidOf b)).isEmpty then (seg, none, [.warnNoStart])
  else if seqFlags b == 0 then (seg.set (apidOf b) (seg.get (apidOf b) ++ [b]), none, [])
  else
    let segments := seg.get (apidOf b) ++ [b]
    let seg2 := seg.erase (apidOf b)
    if !consecutiveCounts (segments.map seqCount) then (seg2, none, [.warnSequence])
    else (seg2, some segments, [])

/-- What happens with the result of parsing one packet: the events, and whether the generator goes on. -/
def deliver (o : GenOpts) : ParseResult → List Event × Bool
  | .error e => ([.raised e], false)
  | .unrecognized part => (if o.yieldUnrec then [.unrec part] else [], true)
  | .ok p =>
    if p.raw.pos ≠ p.raw.data.length * 8 then
      ([.warnLength] ++ (if o.parseBad then [.packet p] else []), true)
    else ([.packet p], true)

/-- What the body of the `for raw_packet_data in ccsds_generator(...)` loop does with one raw packet:
    new segmentation state, the events it produces, and whether the generator goes on. -/
def genStep (d : Definition) (root : String) (o : GenOpts) (seg : SegState) (b : Bytes) :
    SegState × List Event × Bool :=
  if o.headersOnly then (seg, [.rawPacket b], true)
  else
    match segStep o seg b with
    | (seg', none, evs) => (seg', evs, true)
    | (seg', some parts, evs) =>
      let (evs2, go) := deliver o (parsePacket d root (combineSegments o.secHdrBytes parts))
      (seg', evs ++ evs2, go)

def genLoop (d : Definition) (root : String) (o : GenOpts) : SegState → List Bytes → List Event
  | _, [] => []
  | seg, b :: bs =>
    let (seg', evs, go) := genStep d root o seg b
    if go then evs ++ genLoop d root o seg' bs else evs

/-- `XtcePacketDefinition.packet_generator(...)` as the list of observable events. -/
def packetGenerator (d : Definition) (root : String) (o : GenOpts) (cfg : FrameCfg) (src : FrameSt) : List Event :=
  genLoop d root o [] (frame cfg src)

end Spp
