/-
Executable mirror of `space_packet_parser/xtce/comparisons.py` (after the `fix:` commits for
falsy calibrated values and int-versus-float operands — DESIGN.md §8-2, §8-3).
-/
import Spp.Model.Values
namespace Spp

inductive Op | eq | ne | lt | gt | le | ge
deriving DecidableEq, Repr, Inhabited

/-- `MatchCriteria._valid_operators`: spelling ↦ Python dunder, here the relation it denotes. -/
def validOperators : List (String × Op) :=
  [("==", .eq), ("eq", .eq), ("!=", .ne), ("neq", .ne),
   ("&lt;", .lt), ("lt", .lt), ("<", .lt),
   ("&gt;", .gt), ("gt", .gt), (">", .gt),
   ("&lt;=", .le), ("leq", .le), ("<=", .le),
   ("&gt;=", .ge), ("geq", .ge), (">=", .ge)]

def lookupOp (s : String) : Option Op := (validOperators.find? (·.1 == s)).map (·.2)

/-- Three-way comparison of two finite-or-infinite floats / ints; `none` when a NaN is involved. -/
def fvalOrd : FVal → FVal → Option Ordering
  | .nan, _ => none
  | _, .nan => none
  | a, b =>
    let key : FVal → Int × Rat := fun
      | .inf true => (-1, 0)
      | .inf false => (1, 0)
      | .negZero => (0, 0)
      | .fin q => (0, q)
      | .nan => (0, 0)
    let (ka, qa) := key a
    let (kb, qb) := key b
    if ka < kb then some .lt else if ka > kb then some .gt
    else if qa < qb then some .lt else if qa = qb then some .eq else some .gt

def bytesOrd : Bytes → Bytes → Ordering
  | [], [] => .eq
  | [], _ :: _ => .lt
  | _ :: _, [] => .gt
  | a :: as, b :: bs => if a < b then .lt else if a > b then .gt else bytesOrd as bs

def charsOrd : List Char → List Char → Ordering
  | [], [] => .eq
  | [], _ :: _ => .lt
  | _ :: _, [] => .gt
  | a :: as, b :: bs => if a.toNat < b.toNat then .lt else if a.toNat > b.toNat then .gt else charsOrd as bs

def toF : PyVal → Option FVal
  | .int i => some (FVal.ofInt i)
  | .flt f => some f
  | _ => none

/-- The mathematical relation an operator denotes on an ordering outcome. -/
def Op.holds : Op → Ordering → Bool
  | .eq, o => o == .eq
  | .ne, o => o != .eq
  | .lt, o => o == .lt
  | .gt, o => o == .gt
  | .le, o => o != .gt
  | .ge, o => o != .lt

/-- `operator.<op>(a, b)` on plain Python values: exact int/float comparison, lexicographic text/bytes,
    NaN unordered, `TypeError` for ordering across kinds, `==`/`!=` across kinds are False/True. -/
def pyCompare (op : Op) (a b : PyVal) : Except Err Bool :=
  match toF a, toF b with
  | some x, some y =>
    match fvalOrd x y with
    | some o => .ok (op.holds o)
    | none => .ok (op == .ne)
  | _, _ =>
    match a, b with
    | .str x, .str y => .ok (op.holds (charsOrd x.toList y.toList))
    | .bytes x, .bytes y => .ok (op.holds (bytesOrd x y))
    | _, _ =>
      match op with
      | .eq => .ok false
      | .ne => .ok true
      | _ => .error .other

/-- The Python type a literal is coerced to: the type of the value it is compared with. -/
inductive Kind | int | float | str | bytes
deriving DecidableEq, Repr

def PyVal.kind : PyVal → Kind
  | .int _ => .int | .flt _ => .float | .str _ => .str | .bytes _ => .bytes

/-- `type(value)(literal)`; `errInvalid` is what an invalid literal raises at this call site. -/
def coerceLit (k : Kind) (lit : String) (errInvalid : Err) : Except Err PyVal :=
  match k with
  | .int => match parseIntLit lit with
    | .ok i => .ok (.int i) | .invalid => .error errInvalid | .unsupported => .error .unsupported
  | .float => match parseFloatLit lit with
    | .ok f => .ok (.flt f) | .invalid => .error errInvalid | .unsupported => .error .unsupported
  | .str => .ok (.str lit)
  | .bytes => .error .other     -- `bytes("…")` without an encoding: TypeError

structure Comparison where
  requiredValue : String
  ref : String
  op : String
  useCal : Bool
deriving DecidableEq, Repr, Inhabited

structure Condition where
  left : String
  op : String
  rightParam : Option String
  rightValue : Option String
  leftCal : Bool
  rightCal : Bool
deriving DecidableEq, Repr, Inhabited

mutual
inductive Anded
  | mk (conds : List Condition) (ors : List Ored)
inductive Ored
  | mk (conds : List Condition) (ands : List Anded)
end

inductive BoolExpr
  | cond (c : Condition)
  | anded (a : Anded)
  | ored (o : Ored)

inductive Criterion
  | comparison (c : Comparison)
  | boolExpr (e : BoolExpr)

/-- The value of a packet item as seen by criteria: the parameter itself or its raw value. -/
def selVal (p : Param) (useCal : Bool) : PyVal := if useCal then p.val else p.raw

/-- `Comparison.evaluate(packet, current_parsed_value)` -/
def Comparison.evaluate (c : Comparison) (items : Items) (cur : Option PyVal) : Except Err Bool := do
  let parsed ← match items.get? c.ref with
    | some p => pure (selVal p c.useCal)
    | none => match cur with
      | some v => pure v
      | none => throw Err.value
  let op ← match lookupOp c.op with
    | some o => pure o
    | none => throw Err.other       -- KeyError (cannot happen after `_validate`)
  let req ← coerceLit parsed.kind c.requiredValue .other   -- ValueError → ComparisonError
  pyCompare op parsed req

/-- `Condition.evaluate(packet)` -/
def Condition.evaluate (c : Condition) (items : Items) : Except Err Bool := do
  let get := fun (name : String) (useCal : Bool) => match items.get? name with
    | some p => Except.ok (selVal p useCal)
    | none => Except.error Err.other     -- KeyError → ComparisonError
  let l ← get c.left c.leftCal
  let op ← match lookupOp c.op with
    | some o => pure o
    | none => throw Err.other
  let r ← match c.rightParam with
    | some rp => get rp c.rightCal
    | none => match c.rightValue with
      | some lit => coerceLit l.kind lit .value     -- `type(left)(literal)`: ValueError escapes as is
      | none => throw Err.value
  pyCompare op l r

/-- Loop over conditions with the early exit of `_and` (`if … is False: return False`). -/
def andConds (items : Items) : List Condition → Except Err Bool
  | [] => .ok true
  | c :: cs => do
    let r ← c.evaluate items
    if r == false then pure false else andConds items cs

/-- Loop over conditions with the early exit of `_or` (`if … is True: return True`). -/
def orConds (items : Items) : List Condition → Except Err Bool
  | [] => .ok false
  | c :: cs => do
    let r ← c.evaluate items
    if r == true then pure true else orConds items cs

mutual
/-- `_and(anded)`: conditions first, then nested ORed groups. -/
def Anded.eval (items : Items) : Anded → Except Err Bool
  | .mk conds ors => do
    let r ← andConds items conds
    if r == false then pure false else andOrs items ors
def andOrs (items : Items) : List Ored → Except Err Bool
  | [] => .ok true
  | o :: os => do
    let r ← o.eval items
    if !r then pure false else andOrs items os
/-- `_or(ored)`: conditions first, then nested ANDed groups. -/
def Ored.eval (items : Items) : Ored → Except Err Bool
  | .mk conds ands => do
    let r ← orConds items conds
    if r == true then pure true else orAnds items ands
def orAnds (items : Items) : List Anded → Except Err Bool
  | [] => .ok false
  | a :: as => do
    let r ← a.eval items
    if r then pure true else orAnds items as
end

def BoolExpr.evaluate (e : BoolExpr) (items : Items) : Except Err Bool :=
  match e with
  | .cond c => c.evaluate items
  | .anded a => a.eval items
  | .ored o => o.eval items

def Criterion.evaluate (c : Criterion) (items : Items) (cur : Option PyVal) : Except Err Bool :=
  match c with
  | .comparison c => c.evaluate items cur
  | .boolExpr e => e.evaluate items

/-- `all(c.evaluate(packet, cur) for c in criteria)`: stops at the first false one. -/
def allCriteria (items : Items) (cur : Option PyVal) : List Criterion → Except Err Bool
  | [] => .ok true
  | c :: cs => do
    let r ← c.evaluate items cur
    if !r then pure false else allCriteria items cur cs

structure DiscreteLookup where
  criteria : List Comparison
  value : PyVal                 -- `lookup_value` (a float when read from XML)

/-- `DiscreteLookup.evaluate(packet)`: the lookup value if all criteria hold, else `None`. -/
def DiscreteLookup.evaluate (d : DiscreteLookup) (items : Items) (cur : Option PyVal) : Except Err (Option PyVal) := do
  let r ← allCriteria items cur (d.criteria.map Criterion.comparison)
  pure (if r then some d.value else none)

end Spp
