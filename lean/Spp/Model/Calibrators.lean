/-
Executable mirror of `space_packet_parser/xtce/calibrators.py` in exact rational arithmetic
(after the `fix:` commit for a query at the last spline point — DESIGN.md §8-4).
-/
import Spp.Model.Criteria
namespace Spp

structure SplinePoint where
  raw : Rat
  cal : Rat
deriving DecidableEq, Repr, Inhabited

structure Spline where
  points : List SplinePoint      -- already sorted by `raw` (the constructor sorts; see `sortPoints`)
  order : Int
  extrapolate : Bool
deriving Repr, Inhabited

structure PolyTerm where
  coef : Rat
  exp : Int
  isInt : Bool := false       -- the coefficient is a Python int (only its `str()` differs: "1" versus "1.0")
deriving DecidableEq, Repr, Inhabited

inductive Calibrator
  | spline (s : Spline)
  | poly (terms : List PolyTerm)
deriving Repr, Inhabited

/-- Stable insertion sort by `raw`: what `sorted(points, key=lambda p: p.raw)` produces. -/
def insertPoint (p : SplinePoint) : List SplinePoint → List SplinePoint
  | [] => [p]
  | q :: qs => if p.raw < q.raw then p :: q :: qs else q :: insertPoint p qs

def sortPoints (ps : List SplinePoint) : List SplinePoint := ps.foldl (fun acc p => insertPoint p acc) []

def minRaw : List SplinePoint → Option Rat
  | [] => none
  | p :: ps => some (ps.foldl (fun m q => if q.raw < m then q.raw else m) p.raw)

def maxRaw : List SplinePoint → Option Rat
  | [] => none
  | p :: ps => some (ps.foldl (fun m q => if q.raw > m then q.raw else m) p.raw)

/-- `[p.raw > q for p in points].index(True)` -/
def firstGreater (q : Rat) : List SplinePoint → Option Nat
  | [] => none
  | p :: ps => if p.raw > q then some 0 else (firstGreater q ps).map (· + 1)

/-- Python list indexing with a possibly negative index. -/
def pyIndex {α} (l : List α) (i : Int) : Option α :=
  if i ≥ 0 then l[i.toNat]? else if (l.length : Int) + i ≥ 0 then l[((l.length : Int) + i).toNat]? else none

/-- `linear_func(xq, x0, x1, y0, y1)`; division by zero is `ZeroDivisionError`. -/
def linearFunc (xq x0 x1 y0 y1 : Rat) : Except Err Rat :=
  if x1 - x0 = 0 then .error .other else .ok ((y1 - y0) / (x1 - x0) * (xq - x0) + y0)

/-- `SplineCalibrator.calibrate(q)` -/
def Spline.calibrate (s : Spline) (q : Rat) : Except Err Rat :=
  if s.order ≠ 0 ∧ s.order ≠ 1 then .error .other     -- NotImplementedError
  else
    match minRaw s.points, maxRaw s.points with
    | some lo, some hi =>
      let ys := s.points.map (·.cal)
      let xs := s.points.map (·.raw)
      if lo ≤ q ∧ q ≤ hi then
        if q = hi then
          match pyIndex ys (-1) with | some y => .ok y | none => .error .other
        else
          match firstGreater q s.points with
          | none => .error .value          -- `ValueError: True is not in list`
          | some i =>
            if s.order = 0 then
              match pyIndex ys ((i : Int) - 1) with | some y => .ok y | none => .error .other
            else
              match pyIndex xs ((i : Int) - 1), pyIndex xs i, pyIndex ys ((i : Int) - 1), pyIndex ys i with
              | some x0, some x1, some y0, some y1 => linearFunc q x0 x1 y0 y1
              | _, _, _, _ => .error .other
      else if q > hi ∧ s.extrapolate then
        if s.order = 0 then
          match pyIndex ys (-1) with | some y => .ok y | none => .error .other
        else
          match pyIndex xs (-2), pyIndex xs (-1), pyIndex ys (-2), pyIndex ys (-1) with
          | some x0, some x1, some y0, some y1 => linearFunc q x0 x1 y0 y1
          | _, _, _, _ => .error .other      -- IndexError with a single point
      else if q < lo ∧ s.extrapolate then
        if s.order = 0 then
          match pyIndex ys 0 with | some y => .ok y | none => .error .other
        else
          match pyIndex xs 0, pyIndex xs 1, pyIndex ys 0, pyIndex ys 1 with
          | some x0, some x1, some y0, some y1 => linearFunc q x0 x1 y0 y1
          | _, _, _, _ => .error .other
      else .error .calibration
    | _, _ => .error .value                  -- `min()` of an empty sequence: ValueError

/-- `x ** n` for integer `n`; `0 ** negative` is `ZeroDivisionError`. -/
def ratPow (x : Rat) (n : Int) : Except Err Rat :=
  if n ≥ 0 then .ok (x ^ n.toNat)
  else if x = 0 then .error .other else .ok ((x ^ (-n).toNat)⁻¹)

/-- One step of the running sum: `acc + a * (x ** n)`. -/
def polyStep (x : Rat) (acc : Rat) (t : PolyTerm) : Except Err Rat :=
  match ratPow x t.exp with
  | .ok p => .ok (acc + t.coef * p)
  | .error e => .error e

/-- `sum(a * (x ** n) for a, n in coefficients)` -/
def polyEval (terms : List PolyTerm) (x : Rat) : Except Err Rat :=
  terms.foldlM (polyStep x) 0

def Calibrator.calibrate (c : Calibrator) (x : Rat) : Except Err Rat :=
  match c with
  | .spline s => s.calibrate x
  | .poly ts => polyEval ts x

structure ContextCalibrator where
  criteria : List Criterion
  calibrator : Calibrator

end Spp
