/-
Model of the reconstruction protocol behind `copy.copy`, `copy.deepcopy` and `pickle` for parsed values and
packets: `cls.__new__(cls, *newargs)` followed by `__dict__.update(state)` (CPython's `copyreg`, trusted).
-/
import Spp.Model.Encodings
namespace Spp

/-- What `__reduce_ex__` hands to the reconstructor: class, constructor argument, instance dictionary. -/
structure ParamReduced where
  cls : Cls
  newarg : PyVal
  stateRaw : PyVal          -- `__dict__["raw_value"]`

def Param.reduce (p : Param) : ParamReduced := { cls := p.cls, newarg := p.val, stateRaw := p.raw }

/-- `obj = cls.__new__(cls, newarg)` runs `_Parameter.__new__` (raw defaults to the value), then the saved
    instance dictionary overwrites `raw_value`. -/
def ParamReduced.reconstruct (r : ParamReduced) : Param :=
  { (mkParam r.cls r.newarg none) with raw := r.stateRaw }

structure PktReduced where
  data : Bytes               -- `RawPacketData.__new__(cls, bytes)`
  statePos : Nat             -- `raw_data.__dict__["pos"]`
  dictItems : List (String × ParamReduced)

def Pkt.reduce (p : Pkt) : PktReduced :=
  { data := p.raw.data, statePos := p.raw.pos, dictItems := p.items.map (fun kv => (kv.1, kv.2.reduce)) }

def PktReduced.reconstruct (r : PktReduced) : Pkt :=
  { raw := ⟨r.data, r.statePos⟩, items := r.dictItems.map (fun kv => (kv.1, kv.2.reconstruct)) }

end Spp
