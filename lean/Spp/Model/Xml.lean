/-
Abstract XML trees and the element searches the library performs on them (lxml's rules that matter:
element searches skip comments, direct child iteration does not; a path step is matched against
`(nsmap[prefix], localname)`; `*` matches every element).  lxml itself is not modelled.
-/
import Spp.Model.Values
namespace Spp

inductive XmlNode
  | elem (ns : Option String) (tag : String) (attrs : List (String × String)) (text : Option String)
         (children : List XmlNode)
  | comment (s : String)
deriving Repr, Inhabited

def XmlNode.isElem : XmlNode → Bool
  | .elem .. => true
  | .comment _ => false

def XmlNode.tag : XmlNode → String
  | .elem _ t _ _ _ => t
  | .comment _ => ""

def XmlNode.ns : XmlNode → Option String
  | .elem n _ _ _ _ => n
  | .comment _ => none

def XmlNode.attrs : XmlNode → List (String × String)
  | .elem _ _ a _ _ => a
  | .comment _ => []

def XmlNode.text : XmlNode → Option String
  | .elem _ _ _ t _ => t
  | .comment s => some s

def XmlNode.kids : XmlNode → List XmlNode
  | .elem _ _ _ _ c => c
  | .comment _ => []

/-- Element children only (what `iterfind('*')` / `findall('*')` yield). -/
def XmlNode.elems (x : XmlNode) : List XmlNode := x.kids.filter XmlNode.isElem

def XmlNode.attr? (x : XmlNode) (k : String) : Option String := (x.attrs.find? (·.1 == k)).map (·.2)

/-- `element.attrib[k]` (KeyError when absent). -/
def XmlNode.attr! (x : XmlNode) (k : String) : Except Err String :=
  match x.attr? k with | some v => .ok v | none => .error .other

/-- Namespace context of a load: `xtce_ns_prefix` and the root element's `nsmap`. -/
structure NsCtx where
  nsPrefix : Option String
  nsmap : List (Option String × String)
deriving Repr, Inhabited

/-- The namespace every (prefixed) path step must match; `ValueError` when the prefix is not declared. -/
def NsCtx.expected (c : NsCtx) : Except Err (Option String) :=
  match c.nsPrefix with
  | some p => match c.nsmap.find? (·.1 == some p) with
    | some kv => .ok (some kv.2)
    | none => .error .value
  | none => .ok ((c.nsmap.find? (·.1 == none)).map (·.2))

/-- One path step: a tag name, optionally with a `[@name='v']` predicate, or `*`. -/
structure Step where
  tag : String
  nameEq : Option String := none

def Step.matches (ens : Option String) (s : Step) (e : XmlNode) : Bool :=
  e.isElem && (s.tag == "*" || (e.tag == s.tag && e.ns == ens)) &&
  (match s.nameEq with | none => true | some v => e.attr? "name" == some v)

/-- `findall(path)`: all matches in document order. -/
def findAll (ens : Option String) : List Step → XmlNode → List XmlNode
  | [], x => [x]
  | s :: rest, x => ((x.kids.filter (s.matches ens)).map (findAll ens rest)).flatten

/-- `find(path)`: the first match. -/
def findFirst (ens : Option String) (path : List Step) (x : XmlNode) : Option XmlNode := (findAll ens path x).head?

mutual
/-- All descendant elements in document order (`.//`). -/
def descendants : XmlNode → List XmlNode
  | .elem _ _ _ _ c => descendantsList c
  | .comment _ => []
def descendantsList : List XmlNode → List XmlNode
  | [] => []
  | x :: xs => (if x.isElem then [x] else []) ++ descendants x ++ descendantsList xs
end

/-- `find('.//Tag')` -/
def findDescendant (ens : Option String) (tag : String) (x : XmlNode) : Option XmlNode :=
  (descendants x).find? (fun e => e.tag == tag && e.ns == ens)

def step (t : String) : Step := { tag := t }

mutual
/-- Remove every comment node. -/
def stripComments : XmlNode → XmlNode
  | .elem n t a tx c => .elem n t a tx (stripList c)
  | .comment s => .comment s
def stripList : List XmlNode → List XmlNode
  | [] => []
  | x :: xs => if x.isElem then stripComments x :: stripList xs else stripList xs
end

end Spp
