/-
`bytes.decode(encoding)` for the ten encodings `StringDataEncoding` supports, strict error handling.
This is a model of CPython's codecs (trusted base; validated against CPython on every run).
-/
import Spp.Model.Bits
namespace Spp

def isScalar (n : Nat) : Bool := n < 0xD800 || (0xDFFF < n && n < 0x110000)

def mkText (cps : List Nat) : Option String :=
  if cps.all isScalar then some (String.ofList (cps.map Char.ofNat)) else none

def cp1252High : List Nat :=
  [0x20AC, 0, 0x201A, 0x0192, 0x201E, 0x2026, 0x2020, 0x2021, 0x02C6, 0x2030, 0x0160, 0x2039, 0x0152, 0, 0x017D, 0,
   0, 0x2018, 0x2019, 0x201C, 0x201D, 0x2022, 0x2013, 0x2014, 0x02DC, 0x2122, 0x0161, 0x203A, 0x0153, 0, 0x017E, 0x0178]

def decodeCp1252 (bs : Bytes) : Option String :=
  let cps := bs.mapM (fun b =>
    let n := b.toNat
    if n < 0x80 || n ≥ 0xA0 then some n
    else match cp1252High[n - 0x80]? with
      | some 0 => none
      | some c => some c
      | none => none)
  cps >>= mkText

/-- UTF-16 code units → code points (strict: lone surrogates are errors). -/
def utf16Units : List Nat → Option (List Nat)
  | [] => some []
  | u :: rest =>
    if 0xD800 ≤ u ∧ u < 0xDC00 then
      match rest with
      | l :: rest' =>
        if 0xDC00 ≤ l ∧ l < 0xE000 then
          (utf16Units rest').map (fun t => (0x10000 + (u - 0xD800) * 1024 + (l - 0xDC00)) :: t)
        else none
      | [] => none
    else if 0xDC00 ≤ u ∧ u < 0xE000 then none
    else (utf16Units rest).map (u :: ·)

/-- 16-bit code units of a byte string; a trailing odd byte is a truncation error. -/
def units2 (le : Bool) : Bytes → Option (List Nat)
  | [] => some []
  | [_] => none
  | a :: b :: rest =>
    let v := if le then b.toNat * 256 + a.toNat else a.toNat * 256 + b.toNat
    (units2 le rest).map (v :: ·)

/-- 32-bit code units of a byte string. -/
def units4 (le : Bool) : Bytes → Option (List Nat)
  | [] => some []
  | a :: b :: c :: d :: rest =>
    let v := if le then ((d.toNat * 256 + c.toNat) * 256 + b.toNat) * 256 + a.toNat
             else ((a.toNat * 256 + b.toNat) * 256 + c.toNat) * 256 + d.toNat
    (units4 le rest).map (v :: ·)
  | _ => none

def decodeUtf16 (le : Bool) (bs : Bytes) : Option String :=
  units2 le bs >>= utf16Units >>= mkText

def decodeUtf32 (le : Bool) (bs : Bytes) : Option String :=
  units4 le bs >>= mkText

/-- `bytes.decode(enc)`; `none` is `UnicodeDecodeError` (a `ValueError`).  `UTF-16`/`UTF-32` honour a BOM and
    default to the platform order (little-endian on every platform this runs on). -/
def decodeText (enc : String) (bs : Bytes) : Option String :=
  match enc with
  | "US-ASCII" => if bs.all (· < 128) then mkText (bs.map (·.toNat)) else none
  | "ISO-8859-1" => mkText (bs.map (·.toNat))
  | "Windows-1252" => decodeCp1252 bs
  | "UTF-8" => String.fromUTF8? (ByteArray.mk bs.toArray)
  | "UTF-16LE" => decodeUtf16 true bs
  | "UTF-16BE" => decodeUtf16 false bs
  | "UTF-16" =>
    match bs with
    | 0xFF :: 0xFE :: rest => decodeUtf16 true rest
    | 0xFE :: 0xFF :: rest => decodeUtf16 false rest
    | _ => decodeUtf16 true bs
  | "UTF-32LE" => decodeUtf32 true bs
  | "UTF-32BE" => decodeUtf32 false bs
  | "UTF-32" =>
    match bs with
    | 0xFF :: 0xFE :: 0x00 :: 0x00 :: rest => decodeUtf32 true rest
    | 0x00 :: 0x00 :: 0xFE :: 0xFF :: rest => decodeUtf32 false rest
    | _ => decodeUtf32 true bs
  | _ => none

/-- `str.encode(codec)` for ASCII-only text (all a enumeration key needs here); `none` = not modelled. The codec is
    one with an explicit byte order (`StrEnc.codec` never yields a bare `UTF-16` / `UTF-32`). -/
def encodeAsciiText (codec : String) (s : String) : Option Bytes :=
  if !(s.toList.all (fun c => c.toNat < 128)) then none
  else
    let cs := s.toList.map (fun c => UInt8.ofNat c.toNat)
    match codec with
    | "US-ASCII" | "ISO-8859-1" | "Windows-1252" | "UTF-8" => some cs
    | "UTF-16LE" => some (cs.flatMap (fun c => [c, 0]))
    | "UTF-16BE" => some (cs.flatMap (fun c => [0, c]))
    | "UTF-32LE" => some (cs.flatMap (fun c => [c, 0, 0, 0]))
    | "UTF-32BE" => some (cs.flatMap (fun c => [0, 0, 0, c]))
    | _ => none

/-- First occurrence of `needle` in `hay` at a byte offset that is a multiple of `w` (the code-unit width of the
    encoding: a terminator is a *character*, so in UTF-16 / UTF-32 it can only start on a 2- / 4-byte boundary).
    `w = 1` is `haystack.index(needle)`. -/
def bytesIndex (w : Nat) (hay needle : Bytes) : Option Nat :=
  let rec go (h : Bytes) (i : Nat) : Option Nat :=
    if i % w == 0 && needle.isPrefixOf h then some i
    else match h with
      | [] => none
      | _ :: t => go t (i + 1)
  go hay 0

end Spp
