/-
Executable mirror of `space_packet_parser/packets.py`: `_extract_bits`, `RawPacketData.read_as_int`,
`RawPacketData.read_as_bytes`.  Import-free so that the driver links as an executable.
-/
namespace Spp

abbrev Bytes := List UInt8

/-- `int.from_bytes(bs, "big")` -/
def fromBytesBE (bs : Bytes) : Nat := bs.foldl (fun acc b => acc * 256 + b.toNat) 0

/-- `int.from_bytes(bs, "little")` -/
def fromBytesLE (bs : Bytes) : Nat := fromBytesBE bs.reverse

/-- `v.to_bytes(k, "big")` for `v < 256^k` (the caller guards the overflow case). -/
def toBytesBE : Nat → Nat → Bytes
  | 0, _ => []
  | k+1, v => toBytesBE k (v / 256) ++ [UInt8.ofNat (v % 256)]

/-- Errors of the bit-level layer (each is a Python `ValueError`). -/
inductive BitErr
  | negativeShift   -- `ValueError: negative shift count` inside `_extract_bits`
  | endOfPacket     -- `ValueError("End of packet reached")`
  | negativeWidth   -- `ValueError("Cannot read a negative number of bits")`
deriving Repr, DecidableEq

/-- `data[a:b]` for `0 ≤ a`, `0 ≤ b`. -/
def slice (data : Bytes) (a b : Nat) : Bytes := (data.drop a).take (b - a)

/-- `_extract_bits(data, start_bit, nbits)` for non-negative arguments. -/
def extractBits (data : Bytes) (startBit nbits : Nat) : Except BitErr Nat :=
  let startByte := startBit / 8
  let sbwb := startBit % 8
  let endByte := startByte + (sbwb + nbits + 7) / 8
  let d := slice data startByte endByte
  let value := fromBytesBE d
  if sbwb = 0 ∧ nbits % 8 = 0 then .ok value
  else if d.length * 8 < sbwb + nbits then .error .negativeShift
  else .ok ((value >>> (d.length * 8 - sbwb - nbits)) &&& (2 ^ nbits - 1))

/-- A `RawPacketData`: immutable bytes plus the bit cursor `pos`. -/
structure Raw where
  data : Bytes
  pos  : Nat
deriving Repr, DecidableEq, Inhabited

/-- `RawPacketData.read_as_int(nbits)` -/
def readAsInt (r : Raw) (nbits : Int) : Except BitErr (Nat × Raw) :=
  if nbits < 0 then .error .negativeWidth
  else
    match extractBits r.data r.pos nbits.toNat with
    | .error e => .error e
    | .ok v => .ok (v, { r with pos := r.pos + nbits.toNat })

/-- `RawPacketData.read_as_bytes(nbits)` -/
def readAsBytes (r : Raw) (nbits : Int) : Except BitErr (Bytes × Raw) :=
  if nbits < 0 then .error .negativeWidth
  else
    let n := nbits.toNat
    if r.pos + n > r.data.length * 8 then .error .endOfPacket
    else if r.pos % 8 = 0 ∧ n % 8 = 0 then
      .ok (slice r.data (r.pos / 8) (r.pos / 8 + (n + 7) / 8), { r with pos := r.pos + n })
    else
      match extractBits r.data r.pos n with
      | .error e => .error e
      | .ok v => .ok (toBytesBE ((n + 7) / 8) v, { r with pos := r.pos + n })

end Spp
