/-
Executable mirror of `space_packet_parser/xarr.py`: dtype selection and the per-APID accumulation of
`create_dataset` (after the `fix:` commits that test for enumerated types before numeric encodings and keep MIL-STD-1750A floats out of
float32 — DESIGN.md §14).
numpy's conversion of Python values into arrays of the chosen dtype is *not* modelled here (trusted / validated).
-/
import Spp.Model.Definition
namespace Spp

inductive DType
  | uint (w : Nat)
  | int (w : Nat)
  | float (w : Nat)
  | bytes
  | str
  | infer            -- `None`: numpy infers the dtype
deriving DecidableEq, Repr

/-- `_min_dtype_for_encoding` -/
def minDtypeForEncoding : Encoding → DType
  | .num e =>
    if e.isFloat then (if e.size == 32 && e.encoding != "MILSTD_1750A" then .float 32 else .float 64)
    else
      let w := if e.size ≤ 8 then 8 else if e.size ≤ 16 then 16 else if e.size ≤ 32 then 32 else 64
      if e.encoding == "unsigned" then .uint w else .int w
  | .bin _ => .bytes
  | .str _ => .str

/-- `_get_minimum_numpy_datatype(name, definition, use_raw_value)` for a parameter of type `t`. -/
def minNumpyDtype (t : PType) (useRaw : Bool) : DType :=
  if useRaw then minDtypeForEncoding t.enc
  else
    match t.kind with
    | .enum _ => .str                              -- enums are strings in their derived state
    | _ =>
      match t.enc with
      | .num e =>
        if e.cals.default.isNone && e.cals.contexts.isEmpty then minDtypeForEncoding t.enc else .infer
      | .bin _ => .bytes
      | .str _ => .str

/-- One parsed packet as the dataset sees it: APID plus its (name, value, raw) cells in item order. -/
structure DsPacket where
  apid : Nat
  cells : List (String × Param)

abbrev DsState := List (Nat × (List String × List (List Param)))   -- apid ↦ (field names, rows), first-seen order

/-- Body of the `for packet in packet_generator` loop: append a row to the packet's APID; a field set that differs
    from the first packet of that APID is a `ValueError`. -/
def dsAdd (st : DsState) (p : DsPacket) : Option DsState :=
  let keys := p.cells.map (·.1)
  let row := p.cells.map (·.2)
  match st.find? (·.1 == p.apid) with
  | none => some (st ++ [(p.apid, (keys, [row]))])
  | some (_, (ks, _)) =>
    -- `variable_mapping[apid] != packet.keys()` compares key *sets*
    if (ks.all (keys.contains ·)) && (keys.all (ks.contains ·)) then
      -- `data_dict[apid][key].append(value)`: each value goes to the column of its name, whatever the order of the
      -- items in this packet
      let row' := ks.filterMap (fun k => (p.cells.find? (·.1 == k)).map (·.2))
      some (st.map (fun e => if e.1 == p.apid then (e.1, (e.2.1, e.2.2 ++ [row'])) else e))
    else none

def dsBuild (st : DsState) : List DsPacket → Option DsState
  | [] => some st
  | p :: ps => match dsAdd st p with
    | some st' => dsBuild st' ps
    | none => none

/-- `create_dataset(files, definition)`: the packets of the files in the order given, grouped per APID. -/
def createDataset (files : List (List DsPacket)) : Option DsState := dsBuild [] files.flatten

end Spp
