/-
Executable mirror of the XML-writing side of the library: every `to_xml` and `XtcePacketDefinition.to_xml_tree`
(after the `fix:` commits for writable containers/time types/descriptions — DESIGN.md §8-10..12).
-/
import Spp.Model.XmlLoad
namespace Spp

/-- `str(x)` for a float, for the values whose shortest repr is their exact decimal expansion (≤ 15 significant
    digits, fixed notation range); everything else is `unsupported` (CPython's float repr is trusted, not modelled). -/
def showFloat : FVal → LoadM String
  | .negZero => .ok "-0.0"
  | .inf false => .ok "inf"
  | .inf true => .ok "-inf"
  | .nan => .ok "nan"
  | .fin q =>
    if q == 0 then .ok "0.0"
    else
      let neg := q < 0
      let a := if neg then -q else q
      let k := a.den.log2
      if a.den != 2 ^ k then .error .unsupported
      else
        let m := a.num.natAbs * 5 ^ k            -- a = m / 10^k
        let ip := m / 10 ^ k
        let fp := m % 10 ^ k
        let fdigits := (toString fp)
        let fpad := String.ofList (List.replicate (k - fdigits.length) '0') ++ fdigits
        let ftrim := String.ofList ((fpad.toList.reverse.dropWhile (· == '0')).reverse)
        let fstr := if ftrim.isEmpty then "0" else ftrim
        let sig := ((toString ip) ++ ftrim).toList.dropWhile (· == '0')
        if sig.length > 15 || !(a < 10000000000000000) || a < (1 : Rat) / 10000 then .error .unsupported
        else .ok ((if neg then "-" else "") ++ toString ip ++ "." ++ fstr)

def showNum : PyVal → LoadM String
  | .int i => .ok (toString i)
  | .flt f => showFloat f
  | _ => .error .unsupported

def pyBool (b : Bool) : String := if b then "true" else "false"

/-- An element in the definition's XTCE namespace. -/
def mkEl (uri : Option String) (tag : String) (attrs : List (String × String)) (children : List XmlNode)
    (text : Option String := none) : XmlNode := .elem uri tag attrs text children

def writeComparison (u : Option String) (c : Comparison) : XmlNode :=
  mkEl u "Comparison" [("parameterRef", c.ref), ("useCalibratedValue", pyBool c.useCal),
                       ("comparisonOperator", c.op), ("value", c.requiredValue)] []

/-- Element text as a parser sees it again: an empty string is no text at all. -/
def textOf (s : String) : Option String := if s.isEmpty then none else some s

def writeCondition (u : Option String) (c : Condition) : XmlNode :=
  let left := mkEl u "ParameterInstanceRef" [("parameterRef", c.left), ("useCalibratedValue", pyBool c.leftCal)] []
  let op := mkEl u "ComparisonOperator" [] [] (some c.op)
  let right := match c.rightParam with
    | some rp => if rp.isEmpty then mkEl u "Value" [] [] (textOf ((c.rightValue).getD "None"))
                 else mkEl u "ParameterInstanceRef" [("parameterRef", rp), ("useCalibratedValue", pyBool c.rightCal)] []
    | none => mkEl u "Value" [] [] (textOf ((c.rightValue).getD "None"))
  mkEl u "Condition" [] [left, op, right]

mutual
def writeAnded (u : Option String) : Anded → XmlNode
  | .mk conds ors => mkEl u "ANDedConditions" [] (conds.map (writeCondition u) ++ writeOreds u ors)
def writeOreds (u : Option String) : List Ored → List XmlNode
  | [] => []
  | o :: os => writeOred u o :: writeOreds u os
def writeOred (u : Option String) : Ored → XmlNode
  | .mk conds ands => mkEl u "ORedConditions" [] (conds.map (writeCondition u) ++ writeAndeds u ands)
def writeAndeds (u : Option String) : List Anded → List XmlNode
  | [] => []
  | a :: as => writeAnded u a :: writeAndeds u as
end

def writeBoolExpr (u : Option String) (e : BoolExpr) : XmlNode :=
  mkEl u "BooleanExpression" [] [match e with
    | .cond c => writeCondition u c
    | .anded a => writeAnded u a
    | .ored o => writeOred u o]

def writeCriterion (u : Option String) : Criterion → XmlNode
  | .comparison c => writeComparison u c
  | .boolExpr e => writeBoolExpr u e

def writeDiscreteLookup (u : Option String) (d : DiscreteLookup) : LoadM XmlNode := do
  let v ← showNum d.value
  let cs := d.criteria.map (writeComparison u)
  let contents := if d.criteria.length > 1 then [mkEl u "ComparisonList" [] cs] else cs
  pure (mkEl u "DiscreteLookup" [("value", v)] contents)

/-- `str(coefficient)`: ints print without a fractional part. -/
def showCoef (t : PolyTerm) : LoadM String :=
  if t.isInt && t.coef.den == 1 then .ok (toString t.coef.num) else showFloat (.fin t.coef)

/-- `str(i)` for an int. -/
def showInt (i : Int) : String := toString i

def writeSplinePoint (u : Option String) (p : SplinePoint) : LoadM XmlNode := do
  let r ← showFloat (.fin p.raw)
  let c ← showFloat (.fin p.cal)
  pure (mkEl u "SplinePoint" [("raw", r), ("calibrated", c)] [])

def writeTerm (u : Option String) (t : PolyTerm) : LoadM XmlNode := do
  let c ← showCoef t
  pure (mkEl u "Term" [("exponent", showInt t.exp), ("coefficient", c)] [])

def writeCalibrator (u : Option String) : Calibrator → LoadM XmlNode
  | .spline s => do
    let pts ← s.points.mapM (writeSplinePoint u)
    pure (mkEl u "SplineCalibrator" [("order", showInt s.order), ("extrapolate", pyBool s.extrapolate)] pts)
  | .poly ts => do
    let terms ← ts.mapM (writeTerm u)
    pure (mkEl u "PolynomialCalibrator" [] terms)

def writeContextMatch (u : Option String) : List Criterion → LoadM XmlNode
  | [] => .error Err.other                                        -- IndexError
  | [.comparison x] => .ok (mkEl u "ContextMatch" [] [writeComparison u x])
  | [.boolExpr e] => .ok (mkEl u "ContextMatch" [] [writeBoolExpr u e])
  | cs => .ok (mkEl u "ContextMatch" [] [mkEl u "ComparisonList" [] (cs.map (writeCriterion u))])

def writeContextCalibrator (u : Option String) (c : ContextCalibrator) : LoadM XmlNode := do
  let cm ← writeContextMatch u c.criteria
  let cal ← writeCalibrator u c.calibrator
  pure (mkEl u "ContextCalibrator" [] [cm, mkEl u "Calibrator" [] [cal]])

def writeLinAdj (u : Option String) (a : LinAdj) : XmlNode :=
  mkEl u "LinearAdjustment" [("intercept", showInt a.intercept), ("slope", showInt a.slope)] []

def writeParamInstanceRef (u : Option String) (ref : String) (useCal : Bool) : XmlNode :=
  mkEl u "ParameterInstanceRef" [("parameterRef", ref), ("useCalibratedValue", pyBool useCal)] []

def writeDefaultCal (u : Option String) : Option Calibrator → LoadM (List XmlNode)
  | some c => match writeCalibrator u c with
    | .ok x => .ok [mkEl u "DefaultCalibrator" [] [x]]
    | .error e => .error e
  | none => .ok []

def writeContextList (u : Option String) (ctxs : List ContextCalibrator) : LoadM (List XmlNode) :=
  if ctxs.isEmpty then .ok []
  else match ctxs.mapM (writeContextCalibrator u) with
    | .ok xs => .ok [mkEl u "ContextCalibratorList" [] xs]
    | .error e => .error e


/-- `bytes.hex()`: two lower-case hexadecimal digits per byte. -/
def hexDigit (n : Nat) : Char := if n < 10 then Char.ofNat (48 + n) else Char.ofNat (87 + n)

def bytesToHex (t : Bytes) : String := String.ofList (t.flatMap (fun b => [hexDigit (b.toNat / 16), hexDigit (b.toNat % 16)]))

/-- The `<LinearAdjustment>` child of a `<DynamicValue>`, when the object has one. -/
def adjKids (u : Option String) (adj : Option LinAdj) : List XmlNode :=
  match adj with | some a => [writeLinAdj u a] | none => []

/-- What follows the size specification inside a string encoding's size element: `<LeadingSize>` when the object has a
    non-zero one, `<TerminationChar>` (hex) when it has a non-empty one. -/
def tailKids (u : Option String) (lead : Option Int) (term : Option Bytes) : List XmlNode :=
  (if optTruthy lead then [mkEl u "LeadingSize" [("sizeInBitsOfSizeTag", toString (lead.getD 0))] []] else []) ++
  (match term with
   | some t => if t.isEmpty then [] else [mkEl u "TerminationChar" [] [] (some (bytesToHex t))]
   | none => [])

def writeEncoding (u : Option String) : Encoding → LoadM XmlNode
  | .num e => do
    let d ← writeDefaultCal u e.cals.default
    let cs ← writeContextList u e.cals.contexts
    pure (mkEl u (if e.isFloat then "FloatDataEncoding" else "IntegerDataEncoding")
      [("sizeInBits", toString e.size), ("encoding", e.encoding), ("byteOrder", e.byteOrder)] (d ++ cs))
  | .str e => do
    let sizeEl ← if optTruthy e.fixedLength then
        pure (mkEl u "SizeInBits" [] [mkEl u "Fixed" [] [mkEl u "FixedValue" [] [] (some (toString (e.fixedLength.getD 0)))]])
      else if strTruthy e.dynRef then
        pure (mkEl u "Variable" [] [mkEl u "DynamicValue" []
          ([writeParamInstanceRef u (e.dynRef.getD "") e.useCal] ++
           adjKids u e.adjuster)])
      else if listTruthy e.lookup then do
        pure (mkEl u "Variable" [] [mkEl u "DiscreteLookupList" [] (← (e.lookup.getD []).mapM (writeDiscreteLookup u))])
      else throw Err.value
    let sizeEl := match sizeEl with
      | .elem n t a tx c => XmlNode.elem n t a tx (c ++ tailKids u e.leadingSize e.termChar)
      | x => x
    -- the byte order of a multi-byte encoding is written when the object recorded one
    let attrs := [("encoding", e.encoding)] ++
      (if e.encoding == "UTF-16" || e.encoding == "UTF-32"
       then [("byteOrder", e.byteOrder.getD "None")] else [])
    pure (mkEl u "StringDataEncoding" attrs [sizeEl])
  | .bin e => do
    if e.fixedSize.isSome then           -- `is not None` (after the `fix:` commit recorded in DESIGN.md §14): 0 is written
      pure (mkEl u "BinaryDataEncoding" [] [mkEl u "SizeInBits" [] [mkEl u "FixedValue" [] [] (some (toString (e.fixedSize.getD 0)))]])
    else
      let dv := if strTruthy e.sizeRef then
          [mkEl u "DynamicValue" [] ([writeParamInstanceRef u (e.sizeRef.getD "") e.useCal] ++
            adjKids u e.adjuster)]
        else []
      let dl ← if listTruthy e.lookup then do
          pure [mkEl u "DiscreteLookupList" [] (← (e.lookup.getD []).mapM (writeDiscreteLookup u))]
        else pure []
      pure (mkEl u "BinaryDataEncoding" [] [mkEl u "SizeInBits" [] (dv ++ dl)])

def textOfBytesAscii (b : Bytes) : Option String :=
  if b.all (· < 128) then some (String.ofList (b.map (fun x => Char.ofNat x.toNat))) else none

/-- One `<Enumeration label=… value=…/>` entry: string-encoded keys are written as text, numeric keys as numbers. -/
def writeEnumEntry (u : Option String) (enc : Encoding) (kv : PyVal × String) : LoadM XmlNode :=
  match (match enc, kv.1 with
      | .str e, .bytes b => (match decodeText e.codec b with
        | some s => if s.toList.all (fun c => c.toNat < 128) then .ok s else .error Err.unsupported
        | none => .error Err.value)
      | _, v => showNum v : LoadM String) with
  | .error e => .error e
  | .ok v => .ok (mkEl u "Enumeration" [("label", kv.2), ("value", v)] [])

/-- The exponents of a polynomial that `scale` / `offset` can express and the loader re-creates in the same order:
    `[1]`, or `[0, 1]`. -/
def linearShape (cs : List PolyTerm) : Bool :=
  let es := cs.map (·.exp)
  es == [1] || es == [0, 1]

/-- `scale` / `offset` attributes of a time type's `<Encoding>`: the degree-1 / degree-0 coefficients of a *linear*
    polynomial default calibrator (what loading turns the two attributes back into).  Any other default calibrator is
    written by the data encoding alone (after the `fix:` commit recorded in DESIGN.md §14). -/
def timeScaleOffset (ne : NumEnc) : LoadM (List (String × String)) :=
  match ne.cals.default with
  | some (.poly cs) =>
    if !linearShape cs then .ok [] else
    match (match (cs.filter (·.exp == 1)).head? with
        | some c => (match showCoef c with | .ok s => .ok [("scale", s)] | .error e => .error e)
        | none => .ok [] : LoadM (List (String × String))) with
    | .error e => .error e
    | .ok sc =>
      match (match (cs.filter (·.exp == 0)).head? with
          | some c => (match showCoef c with | .ok s => .ok [("offset", s)] | .error e => .error e)
          | none => .ok [] : LoadM (List (String × String))) with
      | .error e => .error e
      | .ok off => .ok (sc ++ off)
  | some _ => .ok []
  | none => .ok []

def timeReference (u : Option String) (t : LPType) : List XmlNode :=
  if strTruthy t.offsetFrom || strTruthy t.epoch then
    [mkEl u "ReferenceTime" [] (
      (if strTruthy t.offsetFrom then [mkEl u "OffsetFrom" [("parameterRef", t.offsetFrom.getD "")] []] else []) ++
      (if strTruthy t.epoch then [mkEl u "Epoch" [] [] t.epoch] else []))]
  else []

/-- The `units` attribute of a time type's `<Encoding>`. -/
def unitAttr : Option String → List (String × String)
  | some x => [("units", x)]
  | none => []

def writeParameterType (u : Option String) (t : LPType) : LoadM XmlNode :=
  if t.tag == "AbsoluteTimeParameterType" || t.tag == "RelativeTimeParameterType" then
    match t.enc with
    | .num ne =>
      match timeScaleOffset ne with
      | .error e => .error e
      | .ok so =>
        match writeEncoding u t.enc with
        | .error e => .error e
        | .ok encEl =>
          .ok (mkEl u t.tag [("name", t.name)]
            ([mkEl u "Encoding" (unitAttr t.unit ++ so) [encEl]]
              ++ timeReference u t))
    | _ =>
      -- a time type on a string / binary encoding: no scale or offset to derive
      match writeEncoding u t.enc with
      | .error e => .error e
      | .ok encEl =>
        .ok (mkEl u t.tag [("name", t.name)] ([mkEl u "Encoding" (unitAttr t.unit) [encEl]] ++ timeReference u t))
  else
    match writeEncoding u t.enc with
    | .error e => .error e
    | .ok encEl =>
      let unitEl := if strTruthy t.unit then [mkEl u "UnitSet" [] [mkEl u "Unit" [] [] t.unit]] else []
      if t.tag == "EnumeratedParameterType" then
        match t.enumeration.mapM (writeEnumEntry u t.enc) with
        | .error e => .error e
        | .ok ens => .ok (mkEl u t.tag [("name", t.name)] (unitEl ++ [encEl, mkEl u "EnumerationList" [] ens]))
      else .ok (mkEl u t.tag [("name", t.name)] (unitEl ++ [encEl]))

def writeParameter (u : Option String) (p : LParam) : XmlNode :=
  mkEl u "Parameter"
    ([("name", p.name), ("parameterTypeRef", p.typeName)] ++
     (match p.shortDesc with | some s => [("shortDescription", s)] | none => []))
    (if strTruthy p.longDesc then [mkEl u "LongDescription" [] [] p.longDesc] else [])

/-- One entry of a container's `EntryList`. -/
def writeEntry (u : Option String) : LEntry → XmlNode
  | .param n => mkEl u "ParameterRefEntry" [("parameterRef", n)] []
  | .cont n => mkEl u "ContainerRefEntry" [("containerRef", n)] []

/-- The element inside `RestrictionCriteria`: the single criterion, or a `ComparisonList` of several. -/
def writeRestrictions (u : Option String) : List Criterion → XmlNode
  | [x] => writeCriterion u x
  | cs => mkEl u "ComparisonList" [] (cs.map (writeCriterion u))

def writeContainer (u : Option String) (c : LContainer) : LoadM XmlNode := do
  let attrs := [("abstract", pyBool c.abstract), ("name", c.name)] ++
    (match c.shortDesc with | some s => [("shortDescription", s)] | none => [])
  let ld := if strTruthy c.longDesc then [mkEl u "LongDescription" [] [] c.longDesc] else []
  if !c.criteria.isEmpty && !(strTruthy c.base) then throw .value
  let restrictions := writeRestrictions u c.criteria
  let baseEl := if strTruthy c.base then
      [mkEl u "BaseContainer" [("containerRef", c.base.getD "")]
        (if c.criteria.isEmpty then [] else [mkEl u "RestrictionCriteria" [] [restrictions]])]
    else []
  let entries := c.entries.map (writeEntry u)
  pure (mkEl u "SequenceContainer" attrs (ld ++ baseEl ++ [mkEl u "EntryList" [] entries]))

/-- `XtcePacketDefinition.to_xml_tree()` (the header date is the definition's own; `now()` is never modelled). -/
def toXml (d : LDef) : LoadM XmlNode := do
  -- `xtce_schema_uri`: the namespace the prefix (or the default namespace) denotes; none = no namespace at all
  let u : Option String := (d.nsmap.find? (·.1 == d.nsPrefix)).map (·.2)
  -- `self.date or datetime.now().isoformat()`: an absent *or empty* date is replaced by the clock's
  let date ← match d.date with | some x => if x.isEmpty then throw Err.unsupported else pure x | none => throw Err.unsupported
  let ts ← d.ptypes.mapM (fun kv => writeParameterType u kv.2)
  let ps := d.params.map (fun kv => writeParameter u kv.2)
  let cs ← d.containers.mapM (fun kv => writeContainer u kv.2)
  pure (mkEl u "SpaceSystem" (match d.spaceSystemName with | some n => if n.isEmpty then [] else [("name", n)] | none => [])
    [mkEl u "Header" [("date", date), ("version", "1.0"), ("validationStatus", "Unknown")] [],
     mkEl u "TelemetryMetaData" [] [mkEl u "ParameterTypeSet" [] ts, mkEl u "ParameterSet" [] ps,
                                     mkEl u "ContainerSet" [] cs]])

end Spp
