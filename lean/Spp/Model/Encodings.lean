/-
Executable mirror of `space_packet_parser/xtce/encodings.py` (parsing side) and of the `parse_value`
methods of `parameter_types.py` (after the `fix:` commits: binary sizes cast with `int()` — DESIGN.md §8-5;
negative read widths rejected — §8-8).
-/
import Spp.Model.Calibrators
import Spp.Model.Text
namespace Spp

/-- State of a packet being parsed: raw bytes with cursor, and the items decoded so far. -/
structure Pkt where
  raw : Raw
  items : Items
deriving Repr, Inhabited

/-! ### IEEE-754 and MIL-STD-1750A -/

/-- Value of an IEEE-754 bit pattern with `eb` exponent bits and `mb` fraction bits (Spec-level definition;
    what `struct.unpack` computes is assumed to be this — validated differentially). -/
def ieeeDecode (eb mb : Nat) (bits : Nat) : FVal :=
  let sign := bits / 2 ^ (eb + mb) % 2 == 1
  let e := bits / 2 ^ mb % 2 ^ eb
  let f := bits % 2 ^ mb
  let bias : Int := 2 ^ (eb - 1) - 1
  if e == 2 ^ eb - 1 then (if f == 0 then .inf sign else .nan)
  else if e == 0 then
    if f == 0 then (if sign then .negZero else .fin 0)
    else .fin ((if sign then -1 else 1) * (f : Rat) * pow2 (1 - bias - mb))
  else .fin ((if sign then -1 else 1) * ((2 ^ mb + f : Nat) : Rat) * pow2 ((e : Int) - bias - mb))

def ieeeVal (w : Nat) (bits : Nat) : Option FVal :=
  match w with
  | 16 => some (ieeeDecode 5 10 bits)
  | 32 => some (ieeeDecode 8 23 bits)
  | 64 => some (ieeeDecode 11 52 bits)
  | _ => none

/-- `NumericDataEncoding._twos_complement(val, bit_width)` for `bit_width ≥ 1`. -/
def twosComplement (val : Nat) (bw : Nat) : Int :=
  if val / 2 ^ (bw - 1) % 2 = 1 then (val : Int) - 2 ^ bw else val

/-- MIL-STD-1750A 32-bit float: 24-bit two's-complement mantissa, 8-bit two's-complement exponent. -/
def mil1750aVal (bits : Nat) : FVal :=
  let e := twosComplement (bits % 256) 8
  let m := twosComplement (bits / 256 % 2 ^ 24) 24
  .fin ((m : Rat) * pow2 (e - 23))

/-! ### numeric encodings -/

structure Calibs where
  default : Option Calibrator
  contexts : List ContextCalibrator

/-- `FloatDataEncoding.__init__`: the two accepted alias spellings are replaced by the XTCE names (with a warning). -/
def normFloatEncoding (s : String) : String :=
  if s == "IEEE-754" then "IEEE754" else if s == "MIL-1750A" then "MILSTD_1750A" else s

structure NumEnc where
  isFloat : Bool
  size : Int
  encoding : String
  byteOrder : String
  cals : Calibs

def liftBit {α} (r : Except BitErr α) : Except Err α :=
  match r with | .ok v => .ok v | .error e => .error (bitErr e)

/-- `IntegerDataEncoding._get_raw_value` -/
def intRawValue (e : NumEnc) (raw : Raw) : Except Err (Int × Raw) := do
  let (v, raw') ← liftBit (readAsInt raw e.size)
  let n := e.size.toNat
  let v := if e.byteOrder == "leastSignificantByteFirst"
           then fromBytesBE (toBytesBE ((n + 7) / 8) v).reverse else v
  if e.encoding == "unsigned" then pure ((v : Int), raw')
  else if n == 0 then throw .value        -- `1 << -1`: ValueError
  else pure (twosComplement v n, raw')

/-- `FloatDataEncoding._get_raw_value` -/
def floatRawValue (e : NumEnc) (raw : Raw) : Except Err (FVal × Raw) := do
  let (data, raw') ← liftBit (readAsBytes raw e.size)
  let le := e.byteOrder == "leastSignificantByteFirst"
  let bits := if le then fromBytesLE data else fromBytesBE data
  if e.encoding == "MILSTD_1750A" then pure (mil1750aVal bits, raw')
  else match ieeeVal e.size.toNat bits with
    | some f => pure (f, raw')
    | none => throw .unsupported

/-- The number a calibrator is applied to. -/
def calInput : PyVal → Except Err Rat
  | .int i => .ok i
  | .flt (.fin q) => .ok q
  | .flt .negZero => .ok 0
  | _ => .error .unsupported

/-- The calibrator's input: a NaN raw value (a float field may hold one) lies in no spline's range — neither inside nor,
    for the comparisons that guard extrapolation, outside — and is a `CalibrationError` whatever `extrapolate` says. -/
def calInputFor (cal : Calibrator) (v : PyVal) : Except Err Rat :=
  match cal, v with
  | .spline _, .flt .nan => .error .calibration
  | _, v => calInput v

def calOutput (r : Rat) : Except Err PyVal :=
  if isDouble r then .ok (.flt (.fin r)) else .error .unsupported

/-- First context calibrator whose criteria all hold (`None` when there is none). -/
def firstContext (items : Items) (cur : PyVal) : List ContextCalibrator → Except Err (Option Calibrator)
  | [] => .ok none
  | c :: cs => do
    let r ← allCriteria items (some cur) c.criteria
    if r then pure (some c.calibrator) else firstContext items cur cs

/-- `_get_raw_value` of either numeric encoding, as a plain Python value. -/
def NumEnc.rawValue (e : NumEnc) (raw : Raw) : Except Err (PyVal × Raw) :=
  if e.isFloat then
    match floatRawValue e raw with
    | .ok (f, r) => .ok (PyVal.flt f, r)
    | .error err => .error err
  else
    match intRawValue e raw with
    | .ok (i, r) => .ok (PyVal.int i, r)
    | .error err => .error err

/-- Apply a calibrator to a raw value: the result is always a float parameter carrying the raw value. -/
def applyCal (cal : Calibrator) (parsed : PyVal) : Except Err Param := do
  let x ← calInputFor cal parsed
  let y ← cal.calibrate x
  let v ← calOutput y
  pure (mkParam .FloatP v (some parsed))

/-- The derivation half of `NumericDataEncoding.parse_value`: first matching context calibrator, else the
    default calibrator, else the raw value itself in the encoding's own class. -/
def NumEnc.derive (e : NumEnc) (items : Items) (parsed : PyVal) : Except Err Param := do
  let ctx ← firstContext items parsed e.cals.contexts
  match ctx with
  | some cal => applyCal cal parsed
  | none =>
    match e.cals.default with
    | some cal => applyCal cal parsed
    | none => pure (mkParam (if e.isFloat then .FloatP else .IntP) parsed)

/-- `NumericDataEncoding.parse_value` -/
def NumEnc.parseValue (e : NumEnc) (p : Pkt) : Except Err (Param × Raw) :=
  match e.rawValue p.raw with
  | .error err => .error err
  | .ok (parsed, raw') =>
    match e.derive p.items parsed with
    | .error err => .error err
    | .ok v => .ok (v, raw')

/-! ### computed lengths -/

structure LinAdj where
  slope : Int
  intercept : Int
deriving DecidableEq, Repr

/-- `adjuster(x)`: `slope * float(x) + intercept`, `is_integer()` check, `int()`. -/
def LinAdj.apply (a : LinAdj) (x : PyVal) : Except Err PyVal := do
  let q ← match x with
    | .int i => pure (i : Rat)
    | .flt (.fin q) => pure q
    | .flt .negZero => pure 0
    | _ => throw Err.unsupported
  let y := (a.slope : Rat) * q + a.intercept
  if y.den = 1 then pure (.int y.num) else throw .value

/-- Python truthiness of a number (`if buflen_bits:`). -/
def truthy : PyVal → Bool
  | .int i => i != 0
  | .flt (.fin q) => q != 0
  | .flt .negZero => false
  | .flt _ => true
  | .str s => !s.isEmpty
  | .bytes b => !b.isEmpty

/-- `int(x)` for a number: truncation toward zero. -/
def toInt : PyVal → Except Err Int
  | .int i => .ok i
  | .flt (.fin q) => if q.den == 1 then .ok q.num else .error .value     -- a length is a whole number of bits
  | .flt .negZero => .ok 0
  | .flt (.inf _) => .error .other      -- OverflowError
  | .flt .nan => .error .value
  | _ => .error .unsupported

/-- Value of an earlier parameter used as a length (`packet[name]` or its `.raw_value`). -/
def refValue (items : Items) (name : String) (useCal : Bool) : Except Err PyVal :=
  match items.get? name with
  | some p => .ok (selVal p useCal)
  | none => .error .other               -- KeyError

structure StrEnc where
  encoding : String
  fixedLength : Option Int
  dynRef : Option String
  lookup : Option (List DiscreteLookup)
  useCal : Bool
  adjuster : Option LinAdj
  termChar : Option Bytes
  leadingSize : Option Int
  byteOrder : Option String := none     -- decides the codec of `UTF-16` / `UTF-32`

def optTruthy (o : Option Int) : Bool := match o with | some v => v != 0 | none => false
def listTruthy {α} (o : Option (List α)) : Bool := match o with | some l => !l.isEmpty | none => false
def strTruthy (o : Option String) : Bool := match o with | some s => !s.isEmpty | none => false

/-- First entry whose result is not `None` (`if len_bits is not None: break`; the string side used a truthiness test
    that skipped a matching entry of value 0 until the `fix:` commit recorded in DESIGN.md §14). -/
def lookupNotNone (items : Items) : List DiscreteLookup → Except Err PyVal
  | [] => .error .value
  | d :: ds => do
    let r ← d.evaluate items none
    match r with
    | some v => pure v
    | none => lookupNotNone items ds

/-- `StringDataEncoding._calculate_size` -/
def StrEnc.calculateSize (e : StrEnc) (items : Items) : Except Err Int := do
  let v ← if optTruthy e.fixedLength then pure (PyVal.int (e.fixedLength.getD 0))
    else if listTruthy e.lookup then lookupNotNone items (e.lookup.getD [])
    else if strTruthy e.dynRef then do
      let v ← refValue items (e.dynRef.getD "") e.useCal
      match e.adjuster with
      | some a => a.apply v
      | none => pure v
    else throw Err.value
  toInt v

/-- `StringDataEncoding._get_raw_buffer` -/
def StrEnc.rawBuffer (e : StrEnc) (p : Pkt) : Except Err (Bytes × Raw) :=
  match e.calculateSize p.items with
  | .error err => .error err
  | .ok buflen =>
    let pad := (8 - (buflen % 8)) % 8            -- Python `%` on ints: result in 0..7
    let nbytes := (buflen + pad) / 8
    match liftBit (readAsInt p.raw buflen) with
    | .error err => .error err
    | .ok (v, raw') => .ok (toBytesBE nbytes.toNat (v <<< pad.toNat), raw')

/-- Code-unit width in bytes: 2 for the UTF-16 family, 4 for the UTF-32 family, else 1. -/
def StrEnc.unitWidth (e : StrEnc) : Nat :=
  if e.encoding.startsWith "UTF-16" then 2 else if e.encoding.startsWith "UTF-32" then 4 else 1

/-- The Python codec used for decoding: `UTF-16` / `UTF-32` follow the declared byte order. -/
def StrEnc.codec (e : StrEnc) : String :=
  if e.encoding == "UTF-16" || e.encoding == "UTF-32" then
    e.encoding ++ (if e.byteOrder == some "leastSignificantByteFirst" then "LE" else "BE")
  else e.encoding

def decodeOrErr (enc : String) (bs : Bytes) : Except Err String :=
  match decodeText enc bs with
  | some s => .ok s
  | none => .error .value                     -- UnicodeDecodeError is a ValueError

/-- The three ways of delimiting the text inside the raw buffer (second half of `parse_value`). -/
def StrEnc.extractText (e : StrEnc) (buf : Bytes) : Except Err String :=
  if optTruthy e.leadingSize then
    match liftBit (readAsInt ⟨buf, 0⟩ (e.leadingSize.getD 0)) with
    | .error err => .error err
    | .ok (strlen, r1) =>
      if strlen % 8 ≠ 0 then .error .value
      else
        match liftBit (readAsBytes r1 strlen) with
        | .error err => .error err
        | .ok (bs, _) => decodeOrErr e.codec bs
  else match e.termChar with
    | some t =>
      match bytesIndex e.unitWidth buf t with
      | none => .error .value
      | some i =>
        match liftBit (readAsBytes ⟨buf, 0⟩ ((i : Int) * 8)) with
        | .error err => .error err
        | .ok (bs, _) => decodeOrErr e.codec bs
    | none => decodeOrErr e.codec buf

/-- `StringDataEncoding.parse_value` -/
def StrEnc.parseValue (e : StrEnc) (p : Pkt) : Except Err (Param × Raw) :=
  match e.rawBuffer p with
  | .error err => .error err
  | .ok (buf, raw') =>
    match e.extractText buf with
    | .error err => .error err
    | .ok text => .ok (mkParam .StrP (.str text) (some (.bytes buf)), raw')

structure BinEnc where
  fixedSize : Option Int
  sizeRef : Option String
  useCal : Bool
  lookup : Option (List DiscreteLookup)
  adjuster : Option LinAdj

/-- `BinaryDataEncoding._calculate_size` -/
def BinEnc.calculateSize (e : BinEnc) (items : Items) : Except Err Int := do
  let v ← match e.fixedSize with
    | some n => pure (PyVal.int n)
    | none => match e.sizeRef with
      | some r => refValue items r e.useCal
      | none => match e.lookup with
        | some l => lookupNotNone items l
        | none => throw Err.value
  let v ← match e.adjuster with
    | some a => a.apply v
    | none => pure v
  toInt v

/-- `BinaryDataEncoding.parse_value` -/
def BinEnc.parseValue (e : BinEnc) (p : Pkt) : Except Err (Param × Raw) :=
  match e.calculateSize p.items with
  | .error err => .error err
  | .ok n =>
    match liftBit (readAsBytes p.raw n) with
    | .error err => .error err
    | .ok (bs, raw') => .ok (mkParam .BinP (.bytes bs), raw')

inductive Encoding
  | num (e : NumEnc)
  | str (e : StrEnc)
  | bin (e : BinEnc)

def Encoding.parseValue (e : Encoding) (p : Pkt) : Except Err (Param × Raw) :=
  match e with
  | .num e => e.parseValue p
  | .str e => e.parseValue p
  | .bin e => e.parseValue p

/-! ### parameter types -/

inductive PKind
  | plain                                   -- String / Integer / Float / Binary / time types
  | enum (table : List (PyVal × String))    -- EnumeratedParameterType
  | bool                                    -- BooleanParameterType

structure PType where
  name : String
  kind : PKind
  enc : Encoding

/-- Python `==` between dictionary keys and a raw value (ints and floats compare numerically). -/
def pyEq (a b : PyVal) : Bool :=
  match pyCompare .eq a b with | .ok r => r | .error _ => false

/-- `ParameterType.parse_value` and its overrides. -/
def PType.parseValue (t : PType) (p : Pkt) : Except Err (Param × Raw) := do
  let (v, raw') ← t.enc.parseValue p
  match t.kind with
  | .plain => pure (v, raw')
  | .enum table =>
    match table.find? (fun kv => pyEq kv.1 v.raw) with
    | some kv => pure (mkParam .StrP (.str kv.2) (some v.raw), raw')
    | none => throw .value                   -- KeyError → ValueError
  | .bool => pure (mkParam .BoolP (.int (if truthy v.raw then 1 else 0)) (some v.raw), raw')

end Spp
